import RactorModel.Lemmas.FactoryKeyOrder

/-!
# The discard limit of the worker queues, over whole runs (C15)

For the routers that queue at the workers (key-persistent, round-robin, custom hash) and a fixed
discard limit `L`, every worker's own queue holds at most `L` jobs at every instant of every run
without a stale completion — not only right after one `enqueue_job` on a worker whose actor is
assumed open (`C15.limit_worker_queue`). The proof needs three run invariants together:

* `J` (the actors agree with the bookkeeping): when the factory handles a message every slot's
  worker actor is open, so a hand-over never pushes a job back in front of the queue;
* `NB` + `poolSize = 0 → pool = []`: while there is a worker the factory queue is empty, so nothing
  is routed while a dead worker waits for its replacement;
* the bound itself (`PQ`).
-/

namespace Factory

/-! ## open actors stay open inside a handler -/

structure AOe (e e' : Env) : Prop where
  opn : ∀ aid, ActorOpen e aid → ActorOpen e' aid
  ids : ∀ aid, (e'.getActor aid).isSome = true → (e.getActor aid).isSome = true

theorem AOe.refl (e : Env) : AOe e e := ⟨fun _ h => h, fun _ h => h⟩
theorem AOe.trans {a b c : Env} (h1 : AOe a b) (h2 : AOe b c) : AOe a c :=
  ⟨fun x h => h2.opn x (h1.opn x h), fun x h => h1.ids x (h2.ids x h)⟩

theorem aoe_envEq {e e' : Env} (h : EnvEq e e') : AOe e e' := by
  refine ⟨?_, fun aid hs => by rw [h.getActor] at hs; exact hs⟩
  intro aid ⟨a, g, hal⟩
  exact ⟨a, by rw [h.getActor]; exact g, hal⟩

theorem aoe_envStep {x : Nat} {e e' : Env} (s : EnvStep x e e') : AOe e e' := by
  refine ⟨?_, ?_⟩
  · intro aid ⟨a, g, hal⟩
    by_cases hx : aid = x
    · subst hx
      have hs := s.self
      rw [g] at hs
      cases g' : e'.getActor aid with
      | none => rw [g'] at hs; cases hs
      | some a' => exact ⟨a', g', (s.alive a a' g g').trans hal⟩
    · exact ⟨a, by rw [s.other aid hx]; exact g, hal⟩
  · intro aid hs
    by_cases hx : aid = x
    · subst hx; rw [← s.self]; exact hs
    · rw [← s.other aid hx]; exact hs

theorem aoe_cast {e e' : Env} {aid : Nat} {j : Job} (h : e.cast aid j = some e') : AOe e e' := by
  unfold Env.cast at h
  cases g : e.getActor aid with
  | none => rw [g] at h; cases h
  | some a =>
    rw [g] at h
    simp only at h
    split at h
    · cases h
    · simp only [Option.some.injEq] at h; subst h
      have haid := getActor_aid g
      exact aoe_envStep (envStep_setActor e a { a with mailbox := a.mailbox ++ [j] } (by rw [haid]; exact g) rfl)

theorem aoe_dispatchJob (p : WP) (e : Env) (j : Job) : AOe e (p.dispatchJob e j).2 := by
  unfold WP.dispatchJob
  cases h : e.cast p.actor j with
  | none => exact AOe.refl e
  | some e' => exact aoe_cast h

theorem dispatchJob_disc (p : WP) (e : Env) (j : Job) : (p.dispatchJob e j).1.disc = p.disc := by
  unfold WP.dispatchJob; split <;> rfl

theorem dispatchJob_mq_le (p : WP) (e : Env) (j : Job) : (p.dispatchJob e j).1.mq.length ≤ p.mq.length + 1 := by
  unfold WP.dispatchJob; split
  · exact Nat.le_succ _
  · exact Nat.le_refl _

theorem shedOldest_disc (limit fuel : Nat) (p : WP) (e : Env) : (shedOldest limit fuel p e).1.disc = p.disc := by
  induction fuel generalizing p e with
  | zero => rfl
  | succ fuel ih =>
    unfold shedOldest
    split
    · split
      · rename_i d p' e' hg
        rw [ih]
        have := getNext_disc p e
        rw [hg] at this
        exact this
      · rename_i p' e' hg
        rw [ih]
        have := getNext_disc p e
        rw [hg] at this
        exact this
    · rfl

theorem dispatchJob_actor (p : WP) (e : Env) (j : Job) : (p.dispatchJob e j).1.actor = p.actor := by
  unfold WP.dispatchJob; split <;> rfl

theorem nextJob_actor (p : WP) (e : Env) : (p.nextJob e).1.actor = p.actor := by
  unfold WP.nextJob
  have hd := getNext_actor p e
  cases hg : p.getNext e with
  | mk r pe =>
    obtain ⟨p', e'⟩ := pe
    rw [hg] at hd
    simp only at hd
    cases r with
    | none => exact hd
    | some j => simp only; rw [dispatchJob_actor]; exact hd

theorem nextJob_spec (p : WP) (e : Env) :
    (p.nextJob e).1.disc = p.disc ∧ (p.nextJob e).1.mq.length ≤ p.mq.length ∧ AOe e (p.nextJob e).2 := by
  unfold WP.nextJob
  have hl := getNext_length p e
  have hd := getNext_disc p e
  have he := envEq_getNext p e
  cases hg : p.getNext e with
  | mk r pe =>
    obtain ⟨p', e'⟩ := pe
    rw [hg] at hl hd he
    simp only at hl hd he
    cases r with
    | none =>
      simp only [Option.toList_none, List.length_nil] at hl ⊢
      exact ⟨hd, by omega, aoe_envEq he⟩
    | some j =>
      simp only [Option.toList_some, List.length_cons, List.length_nil] at hl ⊢
      refine ⟨by rw [dispatchJob_disc]; exact hd, ?_, (aoe_envEq he).trans (aoe_dispatchJob _ _ _)⟩
      have := dispatchJob_mq_le p' e' j
      omega

theorem workerComplete_eq (p : WP) (e : Env) (key : Nat) :
    p.workerComplete e key = if p.curr.any (·.1 == key) then
      WP.nextJob { p with curr := p.curr.filter (fun x => x.1 != key), pending := p.pending.erase key } e else (p, e) := rfl

theorem workerComplete_spec (p : WP) (e : Env) (key : Nat) :
    (p.workerComplete e key).1.disc = p.disc ∧ (p.workerComplete e key).1.mq.length ≤ p.mq.length ∧
    AOe e (p.workerComplete e key).2 ∧ (p.workerComplete e key).1.actor = p.actor := by
  rw [workerComplete_eq]
  split
  · have := nextJob_spec { p with curr := p.curr.filter (fun x => x.1 != key), pending := p.pending.erase key } e
    exact ⟨this.1, this.2.1, this.2.2, nextJob_actor _ e⟩
  · exact ⟨rfl, Nat.le_refl _, AOe.refl e, rfl⟩

theorem replaceWorker_spec (p : WP) (e : Env) (naid : Nat) :
    (p.replaceWorker e naid).1.disc = p.disc ∧ (p.replaceWorker e naid).1.mq.length ≤ p.mq.length := by
  rw [replaceWorker_eq]
  have := nextJob_spec { p with curr := [], pending := p.curr.foldl (fun acc x => acc.erase x.1) p.pending, actor := naid } e
  exact ⟨this.1, this.2.1⟩

theorem enqueueJob_disc (p : WP) (e : Env) (j : Job) : (p.enqueueJob e j).1.disc = p.disc := by
  unfold WP.enqueueJob
  split
  · rfl
  · unfold WP.enqueueAccepted
    split
    · have hd := getNext_disc (p.track j.key) (e.accept j)
      cases hg : (p.track j.key).getNext (e.accept j) with
      | mk r pe =>
        obtain ⟨p', e'⟩ := pe
        rw [hg] at hd
        simp only at hd
        cases r with
        | none => simp only; rw [dispatchJob_disc]; exact hd
        | some o => simp only; rw [dispatchJob_disc]; exact hd
    · simp only
      split
      · rw [shedOldest_disc]; rfl
      · rfl

theorem aoe_shedOldest (limit fuel : Nat) (p : WP) (e : Env) : AOe e (shedOldest limit fuel p e).2 :=
  aoe_envEq (shedOldest_envEq limit fuel p e)

theorem aoe_enqueueJob (p : WP) (e : Env) (j : Job) : AOe e (p.enqueueJob e j).2 := by
  unfold WP.enqueueJob
  split
  · exact aoe_envEq ((envEq_discard e _ _ j).trans (envEq_reject _ j))
  · refine (aoe_envEq (envEq_accept e j)).trans ?_
    unfold WP.enqueueAccepted
    split
    · have he := envEq_getNext (p.track j.key) (e.accept j)
      cases hg : (p.track j.key).getNext (e.accept j) with
      | mk r pe =>
        obtain ⟨p', e'⟩ := pe
        rw [hg] at he
        simp only at he
        cases r with
        | none => simp only; exact (aoe_envEq he).trans (aoe_dispatchJob _ _ _)
        | some o => simp only; exact (aoe_envEq he).trans (aoe_dispatchJob _ _ _)
    · simp only
      split
      · exact aoe_shedOldest _ _ _ _
      · exact AOe.refl _

theorem enqueueJob_actor (p : WP) (e : Env) (j : Job) : (p.enqueueJob e j).1.actor = p.actor := by
  unfold WP.enqueueJob
  split
  · rfl
  · unfold WP.enqueueAccepted
    split
    · have hd := getNext_actor (p.track j.key) (e.accept j)
      cases hg : (p.track j.key).getNext (e.accept j) with
      | mk r pe =>
        obtain ⟨p', e'⟩ := pe
        rw [hg] at hd
        simp only at hd
        cases r with
        | none => simp only; rw [dispatchJob_actor]; exact hd
        | some o => simp only; rw [dispatchJob_actor]; exact hd
    · simp only
      split
      · rw [shedOldest_actor]; rfl
      · rfl

/-! ## the bound and the open actors through the factory's sub-functions -/

structure WA (D : Nat × Mode) (w : W) : Prop where
  disc : w.disc = some D
  nq : isFactoryQueueing w.cfg.router = false
  all : ∀ p ∈ w.pool, p.disc = some D ∧ p.mq.length ≤ D.1
  opn : ∀ p ∈ w.pool, ActorOpen w.env p.actor
  fresh : ∀ aid a, w.env.getActor aid = some a → aid < w.nextAid

theorem WA.frame {w w' : W} (h : WA D w) (hp : w'.pool = w.pool) (hd : w'.disc = w.disc) (hc : w'.cfg = w.cfg)
    (hn : w'.nextAid = w.nextAid) (he : AOe w.env w'.env) : WA D w' :=
  ⟨by rw [hd]; exact h.disc, by rw [hc]; exact h.nq, by rw [hp]; exact h.all,
    by rw [hp]; exact fun p hp => he.opn _ (h.opn p hp),
    by
      rw [hn]; intro aid a g
      have := he.ids aid (by rw [g]; rfl)
      cases hx : w.env.getActor aid with
      | none => rw [hx] at this; cases this
      | some x => exact h.fresh aid x hx⟩

theorem WA.router {w w' : W} (h : WA D w) (f : RouterFrame w w') : WA D w' :=
  h.frame f.pool f.disc f.cfg f.nextAid (by rw [f.env]; exact AOe.refl _)

theorem WA.act {w w' : W} (h : WA D w) (f : ActFrame w w') (q : QSub w w') : WA D w' :=
  h.frame f.pool q.disc q.cfg f.nextAid (aoe_envEq f.env)

theorem wa_routeInner (w : W) (j : Job) (hint : Option Nat) (h : WA D w) : WA D (w.routeInner j hint).2 := by
  unfold W.routeInner
  have hs := chooseTargetWorker_frame w j hint
  cases hc : w.chooseTargetWorker j hint with
  | mk t w1 =>
    rw [hc] at hs
    simp only at hs ⊢
    have h1 : WA D w1 := h.router hs
    cases t with
    | none => exact h1
    | some wid =>
      simp only
      cases hg : getW w1.pool wid with
      | none => exact h1
      | some p =>
        simp only
        have hp : p ∈ w1.pool := getW_mem hg
        obtain ⟨hd, hl⟩ := h1.all p hp
        have ho := h1.opn p hp
        have e1 := enqueueJob_disc p w1.env j
        have e2 := enqueueJob_length p w1.env j D.1 D.2 hd ho
        have e3 := enqueueJob_actor p w1.env j
        have e4 := aoe_enqueueJob p w1.env j
        cases he : p.enqueueJob w1.env j with
        | mk p' e' =>
          rw [he] at e1 e2 e3 e4
          simp only at e1 e2 e3 e4 ⊢
          refine ⟨h1.disc, h1.nq, ?_, ?_, ?_⟩
          · intro x hx
            rcases mem_setW hx with rfl | hm
            · exact ⟨by rw [e1]; exact hd, by omega⟩
            · exact h1.all x hm
          · intro x hx
            rcases mem_setW hx with rfl | hm
            · rw [e3]; exact e4.opn _ ho
            · exact e4.opn _ (h1.opn x hm)
          · intro aid a g
            have := e4.ids aid (by rw [g]; rfl)
            cases hx : w1.env.getActor aid with
            | none => rw [hx] at this; cases this
            | some x => exact h1.fresh aid x hx

theorem wa_routeLimited (w : W) (j : Job) (hint : Option Nat) (h : WA D w) : WA D (w.routeLimited j hint).2 := by
  unfold W.routeLimited
  split
  · exact wa_routeInner w j hint h
  · rename_i c lb _
    simp only
    have h0 : WA D { w with rl := some (c, (LeakyBucket.check c lb w.env.now).1) } := h.frame rfl rfl rfl rfl (AOe.refl _)
    split
    · split
      · split
        · rename_i hh _
          exact h0.router (availChange_frame _ hh true)
        · exact h0
      · exact h0
    · have hi := wa_routeInner { w with rl := some (c, (LeakyBucket.check c lb w.env.now).1) } j hint h0
      cases hr : W.routeInner { w with rl := some (c, (LeakyBucket.check c lb w.env.now).1) } j hint with
      | mk r w2 =>
        rw [hr] at hi
        simp only at hi ⊢
        split
        · exact hi.frame rfl rfl rfl rfl (AOe.refl _)
        · exact hi

theorem wa_routeMessage (w : W) (j : Job) (hint : Option Nat) (h : WA D w) : WA D (w.routeMessage j hint).2 := by
  unfold W.routeMessage
  have hi := wa_routeLimited w j hint h
  cases hr : w.routeLimited j hint with
  | mk r w2 => rw [hr] at hi; exact hi.frame rfl rfl rfl rfl (AOe.refl _)

theorem wa_dropExpiredHead (fuel : Nat) (w : W) (h : WA D w) : WA D (W.dropExpiredHead fuel w) :=
  h.act (dropExpiredHead_act fuel w) (qsub_dropExpiredHead fuel w)

theorem wa_routeLoop (hint : Option Nat) (fuel : Nat) (w : W) (h : WA D w) : WA D (W.routeLoop hint fuel w) := by
  induction fuel generalizing w with
  | zero => exact h
  | succ fuel ih =>
    unfold W.routeLoop
    split
    · exact h
    · rename_i j _
      have hs := chooseTargetWorker_frame w j hint
      cases hc : w.chooseTargetWorker j hint with
      | mk t w1 =>
        rw [hc] at hs
        simp only at hs ⊢
        have h1 : WA D w1 := h.router hs
        cases t with
        | none => exact h1
        | some worker =>
          simp only
          cases hp : qPopFront w1.cfg w1.queue with
          | none => exact h1
          | some jq =>
            obtain ⟨j', q⟩ := jq
            simp only
            have h2 : WA D { w1 with queue := q } := h1.frame rfl rfl rfl rfl (AOe.refl _)
            have hr := wa_routeMessage { w1 with queue := q } j' (some worker) h2
            cases hrm : W.routeMessage { w1 with queue := q } j' (some worker) with
            | mk r w2 =>
              rw [hrm] at hr
              cases r with
              | handled => exact hr
              | rateLimited =>
                simp only
                apply ih
                exact hr.frame rfl rfl rfl rfl (aoe_envEq ((envEq_discard _ _ _ _).trans (envEq_reject _ _)))
              | backlog =>
                simp only
                exact hr.frame rfl rfl rfl rfl (aoe_envEq ((envEq_emit _ _).trans (envEq_emit _ _)))

theorem wa_tryRoute (w : W) (hint : Option Nat) (h : WA D w) : WA D (w.tryRouteNextActiveJob hint) := by
  unfold W.tryRouteNextActiveJob
  exact wa_routeLoop _ _ _ (wa_dropExpiredHead _ w h)

theorem wa_maybeEnqueue (w : W) (j : Job) (h : WA D w) : WA D (w.maybeEnqueue j) :=
  h.frame (maybeEnqueue_act w j).pool (maybeEnqueue_fields w j).1 (maybeEnqueue_fields w j).2.1 (maybeEnqueue_act w j).nextAid (aoe_envEq (maybeEnqueue_act w j).env)

theorem wa_dispatch (w : W) (j : Job) (h : WA D w) : WA D (w.dispatch j) := by
  unfold W.dispatch
  split
  · exact h.frame rfl rfl rfl rfl (aoe_envEq ((envEq_discard _ _ _ _).trans (envEq_reject _ _)))
  · split
    · have hr := wa_routeMessage w j none h
      cases hrm : w.routeMessage j none with
      | mk r w2 =>
        rw [hrm] at hr
        cases r with
        | handled => exact hr
        | rateLimited => exact hr.frame rfl rfl rfl rfl (aoe_envEq ((envEq_discard _ _ _ _).trans (envEq_reject _ _)))
        | backlog => exact wa_maybeEnqueue w2 j hr
    · exact h.frame rfl rfl rfl rfl (aoe_envEq ((envEq_discard _ _ _ _).trans (envEq_reject _ _)))

/-- a slot's flags change, its queue, settings and actor do not -/
theorem WA.setSame {w : W} {wid : Nat} {p p' : WP} (h : WA D w) (hg : getW w.pool wid = some p)
    (h1 : p'.disc = p.disc) (h2 : p'.mq = p.mq) (h3 : p'.actor = p.actor) :
    WA D { w with pool := setW w.pool wid p' } := by
  have hp := getW_mem hg
  refine ⟨h.disc, h.nq, ?_, ?_, h.fresh⟩
  · intro x hx
    rcases mem_setW hx with rfl | hm
    · rw [h1, h2]; exact h.all p hp
    · exact h.all x hm
  · intro x hx
    rcases mem_setW hx with rfl | hm
    · rw [h3]; exact h.opn p hp
    · exact h.opn x hm

theorem wa_growOne (w : W) (wid : Nat) (h : WA D w) : WA D (w.growOne wid) := by
  unfold W.growOne
  split
  · rename_i p hg
    dsimp only
    have h1 : WA D { w with pool := setW w.pool wid { p with draining := false } } := h.setSame hg rfl rfl rfl
    split
    · exact h1.router (availChange_frame _ _ _)
    · exact h1
  · dsimp only
    refine WA.router ?_ (availChange_frame _ _ _)
    have hnone : w.env.getActor w.nextAid = none := by
      cases hx : w.env.getActor w.nextAid with
      | none => rfl
      | some a => exact absurd (h.fresh _ a hx) (Nat.lt_irrefl _)
    refine ⟨h.disc, h.nq, ?_, ?_, ?_⟩
    · intro x hx
      rcases List.mem_append.mp hx with hm | hm
      · exact h.all x hm
      · simp only [List.mem_singleton] at hm; subst hm
        refine ⟨?_, Nat.zero_le _⟩
        show w.workerDiscard w.disc = some D
        unfold W.workerDiscard
        simp only [h.nq, Bool.false_eq_true, if_false]
        exact h.disc
    · intro x hx
      rcases List.mem_append.mp hx with hm | hm
      · obtain ⟨a, g, hal⟩ := h.opn x hm
        exact ⟨a, getActor_spawn_old _ _ _ _ a g, hal⟩
      · simp only [List.mem_singleton] at hm; subst hm
        exact ⟨_, getActor_spawn_new w.env wid w.nextAid hnone, rfl⟩
    · intro aid a g
      rcases getActor_spawn_inv _ _ _ _ _ g with g' | ⟨_, hb, _⟩
      · exact Nat.lt_succ_of_lt (h.fresh aid a g')
      · subst hb; exact Nat.lt_succ_self _

theorem wa_foldl {f : W → Nat → W} (hf : ∀ w k, WA D w → WA D (f w k)) (l : List Nat) (w : W) (h : WA D w) :
    WA D (l.foldl f w) := by
  induction l generalizing w with
  | nil => exact h
  | cons a l ih => exact ih _ (hf w a h)

theorem wa_growPool (w : W) (n : Nat) (h : WA D w) : WA D (w.growPool n) := by
  unfold W.growPool; exact wa_foldl (fun w k hw => wa_growOne w _ hw) _ w h

/-- a slot leaves the pool, its actor is told to stop -/
theorem WA.remove {w : W} (h : WA D w) (wid aid : Nat) (ba : List (Nat × Nat)) :
    WA D { w with pool := removeW w.pool wid, byActor := ba, env := w.env.stop aid } := by
  have he := aoe_envStep (stop_spec w.env aid).1
  refine ⟨h.disc, h.nq, fun x hx => h.all x (mem_removeW hx), fun x hx => he.opn _ (h.opn x (mem_removeW hx)), ?_⟩
  intro b a g
  have := he.ids b (by rw [g]; rfl)
  cases hx : w.env.getActor b with
  | none => rw [hx] at this; cases this
  | some x => exact h.fresh b x hx

theorem wa_shrinkOne (w : W) (wid : Nat) (h : WA D w) : WA D (w.shrinkOne wid) := by
  unfold W.shrinkOne
  split
  · rename_i p hg
    split
    · exact h.setSame hg rfl rfl rfl
    · exact (h.router (availChange_frame w wid false)).remove wid p.actor _
  · exact h

theorem wa_shrinkPool (w : W) (n : Nat) (h : WA D w) : WA D (w.shrinkPool n) := by
  unfold W.shrinkPool; exact wa_foldl (fun w k hw => wa_shrinkOne w _ hw) _ w h

theorem wa_flushAfterGrow (fuel : Nat) (w : W) (h : WA D w) : WA D (W.flushAfterGrow fuel w) := by
  induction fuel generalizing w with
  | zero => exact h
  | succ fuel ih =>
    unfold W.flushAfterGrow
    simp only
    split
    · exact h
    · split
      · exact wa_tryRoute w none h
      · exact ih _ (wa_tryRoute w none h)

theorem wa_resizePool (w : W) (n : Nat) (h : WA D w) : WA D (w.resizePool n) := by
  unfold W.resizePool
  split
  · exact h
  · simp only
    split
    · apply wa_flushAfterGrow
      exact (wa_growPool w _ h).frame rfl rfl rfl rfl (AOe.refl _)
    · split
      · exact (wa_shrinkPool w _ h).frame rfl rfl rfl rfl (AOe.refl _)
      · exact h.frame rfl rfl rfl rfl (AOe.refl _)

theorem wa_ite (c : Prop) [Decidable c] (a b : W) (ha : WA D a) (hb : WA D b) : WA D (if c then a else b) := by
  split <;> assumption

theorem wa_workerFinishedJob (w : W) (who key : Nat) (h : WA D w) : WA D (w.workerFinishedJob who key) := by
  unfold W.workerFinishedJob
  split
  · rename_i p hg
    have hp := getW_mem hg
    obtain ⟨s1, s2, s3, s4⟩ := workerComplete_spec p w.env key
    cases hwc : p.workerComplete w.env key with
    | mk p' e' =>
      rw [hwc] at s1 s2 s3 s4
      simp only at s1 s2 s3 s4 ⊢
      have h1 : WA D { w with pool := setW w.pool who p', env := e' } := by
        refine ⟨h.disc, h.nq, ?_, ?_, ?_⟩
        · intro x hx
          rcases mem_setW hx with rfl | hm
          · rw [s1]; exact ⟨(h.all p hp).1, Nat.le_trans s2 (h.all p hp).2⟩
          · exact h.all x hm
        · intro x hx
          rcases mem_setW hx with rfl | hm
          · rw [s4]; exact s3.opn _ (h.opn p hp)
          · exact s3.opn _ (h.opn x hm)
        · intro b a g
          have := s3.ids b (by rw [g]; rfl)
          cases hx : w.env.getActor b with
          | none => rw [hx] at this; cases this
          | some x => exact h.fresh b x hx
      split
      · split
        · exact h1.remove who p'.actor _
        · exact h1
      · apply wa_ite
        · exact (wa_tryRoute _ _ h1).router (availChange_frame _ _ _)
        · exact wa_tryRoute _ _ h1
  · exact wa_tryRoute w _ h

theorem wa_calcRest (w : W) (h : WA D w) : WA D w.calcRest := by
  unfold W.calcRest W.removeExpired
  simp only [h.nq, Bool.false_eq_true, if_false]
  exact h.frame rfl rfl rfl rfl (AOe.refl _)

theorem wa_handleMsg (w : W) (m : FMsg) (hm : ∀ d n, m ≠ .updateSettings (some d) n) (h : WA D w) :
    WA D (w.handleMsg m) := by
  cases m with
  | dispatch j => exact wa_dispatch w j h
  | finished who key => exact wa_workerFinishedJob w who key h
  | adjust n => exact wa_resizePool w n h
  | updateSettings d n =>
    cases d with
    | some d => exact absurd rfl (hm d n)
    | none =>
      cases n with
      | none => exact h
      | some n => exact wa_resizePool w n h
  | setHandler hd =>
    refine ⟨h.disc, h.nq, ?_, ?_, ?_⟩
    · intro x hx
      simp only [W.handleMsg, W.setHandler, List.mem_map] at hx
      obtain ⟨y, hy, rfl⟩ := hx
      exact h.all y hy
    · intro x hx
      simp only [W.handleMsg, W.setHandler, List.mem_map] at hx
      obtain ⟨y, hy, rfl⟩ := hx
      exact (aoe_envEq (envEq_emit _ _)).opn _ (h.opn y hy)
    · intro b a g
      exact h.fresh b a g
  | drainRequests => exact h.frame rfl rfl rfl rfl (aoe_envEq (envEq_emit _ _))
  | calculate =>
    show WA D (if w.cfg.hasCC && w.armed then { w with armed := false, blocked := true } else w.calcRest)
    split
    · exact h.frame rfl rfl rfl rfl (AOe.refl _)
    · exact wa_calcRest w h
  | getQueueDepth => exact h.frame rfl rfl rfl rfl (AOe.refl _)
  | getNumActiveWorkers => exact h.frame rfl rfl rfl rfl (AOe.refl _)
  | getAvailableCapacity => exact h.frame rfl rfl rfl rfl (AOe.refl _)

/-! ## the bound alone, where nothing is routed (the factory queue is empty) -/

structure WB (D : Nat × Mode) (w : W) : Prop where
  disc : w.disc = some D
  nq : isFactoryQueueing w.cfg.router = false
  all : ∀ p ∈ w.pool, p.disc = some D ∧ p.mq.length ≤ D.1

theorem WA.wb {w : W} (h : WA D w) : WB D w := ⟨h.disc, h.nq, h.all⟩

theorem WB.frame {w w' : W} (h : WB D w) (hp : w'.pool = w.pool) (hd : w'.disc = w.disc) (hc : w'.cfg = w.cfg) : WB D w' :=
  ⟨by rw [hd]; exact h.disc, by rw [hc]; exact h.nq, by rw [hp]; exact h.all⟩

theorem WB.router {w w' : W} (h : WB D w) (f : RouterFrame w w') : WB D w' := h.frame f.pool f.disc f.cfg

theorem WB.setSame {w : W} {wid : Nat} {p p' : WP} (h : WB D w) (hg : getW w.pool wid = some p)
    (h1 : p'.disc = p.disc) (h2 : p'.mq.length ≤ p.mq.length) : WB D { w with pool := setW w.pool wid p' } := by
  have hp := getW_mem hg
  refine ⟨h.disc, h.nq, ?_⟩
  intro x hx
  rcases mem_setW hx with rfl | hm
  · rw [h1]; exact ⟨(h.all p hp).1, Nat.le_trans h2 (h.all p hp).2⟩
  · exact h.all x hm

theorem wb_growOne (w : W) (wid : Nat) (h : WB D w) : WB D (w.growOne wid) := by
  unfold W.growOne
  split
  · rename_i p hg
    dsimp only
    have h1 : WB D { w with pool := setW w.pool wid { p with draining := false } } := h.setSame hg rfl (Nat.le_refl _)
    split
    · exact h1.router (availChange_frame _ _ _)
    · exact h1
  · dsimp only
    refine WB.router ?_ (availChange_frame _ _ _)
    refine ⟨h.disc, h.nq, ?_⟩
    intro x hx
    rcases List.mem_append.mp hx with hm | hm
    · exact h.all x hm
    · simp only [List.mem_singleton] at hm; subst hm
      refine ⟨?_, Nat.zero_le _⟩
      show w.workerDiscard w.disc = some D
      unfold W.workerDiscard
      simp only [h.nq, Bool.false_eq_true, if_false]
      exact h.disc

theorem wb_foldl {f : W → Nat → W} (hf : ∀ w k, WB D w → WB D (f w k)) (l : List Nat) (w : W) (h : WB D w) :
    WB D (l.foldl f w) := by
  induction l generalizing w with
  | nil => exact h
  | cons a l ih => exact ih _ (hf w a h)

theorem wb_growPool (w : W) (n : Nat) (h : WB D w) : WB D (w.growPool n) := by
  unfold W.growPool; exact wb_foldl (fun w k hw => wb_growOne w _ hw) _ w h

theorem wb_shrinkOne (w : W) (wid : Nat) (h : WB D w) : WB D (w.shrinkOne wid) := by
  unfold W.shrinkOne
  split
  · rename_i p hg
    split
    · exact h.setSame hg rfl (Nat.le_refl _)
    · have h1 := h.router (availChange_frame w wid false)
      exact ⟨h1.disc, h1.nq, fun x hx => h1.all x (mem_removeW hx)⟩
  · exact h

theorem wb_shrinkPool (w : W) (n : Nat) (h : WB D w) : WB D (w.shrinkPool n) := by
  unfold W.shrinkPool; exact wb_foldl (fun w k hw => wb_shrinkOne w _ hw) _ w h

theorem qPeek_nil (cfg : Cfg) : qPeek cfg [] = none := by
  simp [qPeek, peekByPrio, prioUp]

theorem dropExpiredHead_nil (fuel : Nat) (w : W) (hq : w.queue = []) : W.dropExpiredHead fuel w = w := by
  cases fuel with
  | zero => rfl
  | succ n => unfold W.dropExpiredHead; simp only [hq, qPeek_nil]

theorem routeLoop_nil (hint : Option Nat) (fuel : Nat) (w : W) (hq : w.queue = []) : W.routeLoop hint fuel w = w := by
  cases fuel with
  | zero => rfl
  | succ n => unfold W.routeLoop; simp only [hq, qPeek_nil]

theorem tryRoute_nil (w : W) (hint : Option Nat) (hq : w.queue = []) : w.tryRouteNextActiveJob hint = w := by
  unfold W.tryRouteNextActiveJob
  rw [dropExpiredHead_nil _ w hq, routeLoop_nil _ _ w hq]

theorem flushAfterGrow_nil (fuel : Nat) (w : W) (hq : w.queue = []) : W.flushAfterGrow fuel w = w := by
  cases fuel with
  | zero => rfl
  | succ n => unfold W.flushAfterGrow; simp [hq]

theorem wb_resizePool (w : W) (n : Nat) (h : WB D w) (hq : w.queue = []) : WB D (w.resizePool n) := by
  unfold W.resizePool
  split
  · exact h
  · simp only
    split
    · have hg := wb_growPool w (min GLOBAL_WORKER_POOL_MAXIMUM n - w.poolSize) h
      have hqs := (qsub_growPool w (min GLOBAL_WORKER_POOL_MAXIMUM n - w.poolSize)).queue
      rw [hq] at hqs
      have hq' : (w.growPool (min GLOBAL_WORKER_POOL_MAXIMUM n - w.poolSize)).queue = [] := List.eq_nil_of_sublist_nil hqs
      rw [flushAfterGrow_nil _ _ (by exact hq')]
      exact hg.frame rfl rfl rfl
    · split
      · exact (wb_shrinkPool w _ h).frame rfl rfl rfl
      · exact h.frame rfl rfl rfl

theorem wb_calcRest (w : W) (h : WB D w) : WB D w.calcRest := by
  unfold W.calcRest W.removeExpired
  simp only [h.nq, Bool.false_eq_true, if_false]
  exact h.frame rfl rfl rfl

theorem wb_ite (c : Prop) [Decidable c] (a b : W) (ha : WB D a) (hb : WB D b) : WB D (if c then a else b) := by
  split <;> assumption

theorem wb_afterReplace (w : W) (wid : Nat) (h : WB D w) (hq : w.queue = []) : WB D (w.afterReplace wid) := by
  unfold W.afterReplace
  cases hret : w.retireIdleDrainingWorker wid with
  | some w2 =>
    simp only
    unfold W.retireIdleDrainingWorker at hret
    split at hret
    · split at hret
      · simp only [Option.some.injEq] at hret; subst hret
        exact ⟨h.disc, h.nq, fun x hx => h.all x (mem_removeW hx)⟩
      · simp at hret
    · simp at hret
  | none =>
    simp only
    rw [tryRoute_nil w _ hq]
    apply wb_ite
    · exact h.router (availChange_frame _ _ _)
    · exact h

theorem wb_handleSupervisorEvt (w : W) (who : Nat) (h : WB D w) (hq : w.pool ≠ [] → w.queue = []) :
    WB D (w.handleSupervisorEvt who) := by
  unfold W.handleSupervisorEvt
  split
  · exact h
  · rename_i wid _
    split
    · exact h
    · rename_i p hg
      simp only
      have hne : w.pool ≠ [] := fun hc => by rw [hc] at hg; cases hg
      obtain ⟨s1, s2⟩ := replaceWorker_spec p (w.env.spawn wid w.nextAid) w.nextAid
      cases hrw : p.replaceWorker (w.env.spawn wid w.nextAid) w.nextAid with
      | mk p' e' =>
        rw [hrw] at s1 s2
        simp only at s1 s2 ⊢
        apply wb_afterReplace
        · have := h.setSame (p' := p') hg s1 s2
          exact ⟨this.disc, this.nq, this.all⟩
        · exact hq hne

/-! ## the run invariant -/

structure WL (D : Nat × Mode) (w : W) : Prop where
  j : J w
  nb : NB w
  pz : w.poolSize = 0 → w.pool = []
  sb : w.stopped = true → w.blocked = false
  b : WB D w
  inbox : ∀ m ∈ w.inbox, ∀ d n, m ≠ .updateSettings (some d) n

theorem WL.empty_queue {w : W} (h : WL D w) : w.pool ≠ [] → w.queue = [] := by
  intro hp
  apply Classical.byContradiction
  intro hq
  exact hp (h.pz (h.nb.empty hq))

theorem pz_step {w w' : W} (h : w.poolSize = 0 → w.pool = []) (hl : PLen w w') (hp : PSz w w') :
    w'.poolSize = 0 → w'.pool = [] := by
  intro hz
  rw [hp.poolSize] at hz
  have := h hz
  have hl' := hl.len
  rw [this] at hl'
  exact List.eq_nil_of_length_eq_zero (by simpa using hl')

theorem pz_handleMsg (w : W) (m : FMsg) (hm : ∀ d n, m ≠ .updateSettings (some d) n)
    (h : w.poolSize = 0 → w.pool = []) : (w.handleMsg m).poolSize = 0 → (w.handleMsg m).pool = [] := by
  by_cases ha : ∃ n, m = .adjust n
  · obtain ⟨n, rfl⟩ := ha; exact pz_resizePool w n h
  · by_cases hu : ∃ d n, m = .updateSettings d n
    · obtain ⟨d, n, rfl⟩ := hu
      cases d with
      | some d => exact absurd rfl (hm d n)
      | none =>
        cases n with
        | none => exact h
        | some n => exact pz_resizePool w n h
    · obtain ⟨hl, hp⟩ := plen_handleMsg_other w m (fun n hc => ha ⟨n, hc⟩) (fun d n hc => hu ⟨d, n, hc⟩)
      exact pz_step h hl hp

theorem WL.frame {w w' : W} (h : WL D w) (f : ActFrame w w') (hi : w'.inbox = w.inbox) (hs : w'.stopped = w.stopped)
    (hb : w'.blocked = w.blocked) (hc : w'.cfg = w.cfg) (hq : w'.queue = w.queue) (hz : w'.poolSize = w.poolSize)
    (hd : w'.disc = w.disc) : WL D w' :=
  ⟨j_frame h.j f hi hs, nb_same h.nb hc hq hz f.pool, by rw [hz, f.pool]; exact h.pz, by rw [hs, hb]; exact h.sb,
    h.b.frame f.pool hd hc, by rw [hi]; exact h.inbox⟩

theorem wl_loopStep (w w' : W) (h : WL D w) (hl : w.loopStep = some w') : WL D w' := by
  have hj := j_loopStep w w' h.j hl
  have hnb := nb_loopStep w w' h.nb hl
  unfold W.loopStep at hl
  split at hl
  · simp at hl
  · rename_i hsb
    have hst : w.stopped = false := by
      cases hx : w.stopped with
      | false => rfl
      | true => simp [hx] at hsb
    have hbl : w.blocked = false := by
      cases hx : w.blocked with
      | false => rfl
      | true => simp [hx] at hsb
    split at hl
    · simp only [Option.some.injEq] at hl; subst hl
      exact ⟨hj, hnb, fun _ => rfl, fun _ => hbl, ⟨h.b.disc, h.b.nq, fun p hp => by cases hp⟩, h.inbox⟩
    · split at hl
      · rename_i who rest hsup
        simp only [Option.some.injEq] at hl; subst hl
        have hc := ctl_handleSupervisorEvt ({ w with env := { w.env with sup := rest } } : W) who
        have hb1 : WB D ({ w with env := { w.env with sup := rest } } : W) := h.b.frame rfl rfl rfl
        refine ⟨hj, hnb, ?_, ?_, wb_handleSupervisorEvt _ who hb1 h.empty_queue, ?_⟩
        · exact pz_step (w := ({ w with env := { w.env with sup := rest } } : W)) h.pz
            (plen_handleSupervisorEvt _ who) (psz_handleSupervisorEvt _ who)
        · intro hs
          rw [hc.stopped] at hs
          change w.stopped = true at hs
          rw [hst] at hs; cases hs
        · rw [hc.inbox]; exact h.inbox
      · rename_i hsup
        split at hl
        · rename_i m rest hin
          simp only [Option.some.injEq] at hl; subst hl
          have hm : ∀ d n, m ≠ .updateSettings (some d) n :=
            fun d n => h.inbox m (by rw [hin]; exact List.mem_cons_self ..) d n
          have hcore : Core (fkOf w.inbox) w := h.j.core hst
          have ha : WA D ({ w with inbox := rest } : W) := by
            refine ⟨h.b.disc, h.b.nq, h.b.all, ?_, hcore.aidLt⟩
            intro p hp
            obtain ⟨a, g, _, _, hd⟩ := hcore.sa p hp
            refine ⟨a, g, ?_⟩
            cases hx : a.alive with
            | true => rfl
            | false =>
              have := (hd hx).1
              rw [hsup] at this; cases this
          have h2 := wa_handleMsg _ m hm ha
          obtain ⟨f1, f2, f3, f4, f5⟩ := afterHandle_fields (W.handleMsg { w with inbox := rest } m)
          have hq := qsub_afterHandle (W.handleMsg { w with inbox := rest } m)
          refine ⟨hj, hnb, ?_, ?_, h2.wb.frame f2 hq.disc f4, ?_⟩
          · intro hz
            rw [f3] at hz; rw [f2]
            exact pz_handleMsg ({ w with inbox := rest } : W) m hm h.pz hz
          · intro hs
            rw [(afterHandle_act _).2.2, (handleMsg_stop _ m).2.1] at hs
            change w.stopped = true at hs
            rw [hst] at hs; cases hs
          · rw [f5, handleMsg_inbox]
            intro x hx
            exact h.inbox x (by rw [hin]; exact List.mem_cons_of_mem _ hx)
        · simp at hl

theorem wl_runQ (fuel : Nat) (w : W) (h : WL D w) : WL D (W.runQ fuel w) := by
  induction fuel generalizing w with
  | zero => exact h
  | succ fuel ih =>
    unfold W.runQ
    cases hl : w.loopStep with
    | some w' => simp only; exact ih _ (wl_loopStep w w' h hl)
    | none =>
      simp only
      have hsj : J (W.tryFinishStop { w with env := w.env.settle }) := by
        have := j_runQ 1 w h.j
        unfold W.runQ at this
        rw [hl] at this
        simpa [W.runQ] using this
      have hsn : NB (W.tryFinishStop { w with env := w.env.settle }) := by
        have := nb_runQ 1 w h.nb
        unfold W.runQ at this
        rw [hl] at this
        simpa [W.runQ] using this
      have hs : WL D (W.tryFinishStop { w with env := w.env.settle }) := by
        refine ⟨hsj, hsn, ?_, ?_, ?_, ?_⟩
        · unfold W.tryFinishStop; split <;> exact h.pz
        · unfold W.tryFinishStop; split <;> exact h.sb
        · unfold W.tryFinishStop; split <;> exact h.b.frame rfl rfl rfl
        · unfold W.tryFinishStop
          split
          · intro m hm; cases hm
          · exact h.inbox
      split
      · exact hs
      · exact ih _ hs

theorem wl_send (w : W) (m : FMsg) (hm1 : ∀ x, finKeys x [m] = []) (hm2 : ∀ d n, m ≠ .updateSettings (some d) n)
    (h : WL D w) : WL D (w.send m) := by
  have hj := j_send w m hm1 h.j
  have hnb := nb_send w m h.nb
  by_cases hs : w.stopped = true
  · have e : w.send m = w := by simp [W.send, hs]
    rw [e]; exact h
  · have e : w.send m = { w with inbox := w.inbox ++ [m] } := by simp [W.send, hs]
    rw [e] at hj hnb ⊢
    refine ⟨hj, hnb, h.pz, h.sb, h.b.frame rfl rfl rfl, ?_⟩
    intro x hx
    rcases List.mem_append.mp hx with hx | hx
    · exact h.inbox x hx
    · simp only [List.mem_singleton] at hx; subst hx; exact hm2

theorem wl_advanceTo (t fuel : Nat) (w : W) (h : WL D w) : WL D (W.advanceTo t fuel w) := by
  induction fuel generalizing w with
  | zero => exact h.frame ⟨rfl, rfl, rfl, ⟨rfl, rfl⟩⟩ rfl rfl rfl rfl rfl rfl rfl
  | succ fuel ih =>
    unfold W.advanceTo
    split
    · simp only
      apply ih
      apply wl_runQ
      apply wl_send _ _ (fun _ => rfl) (fun _ _ hc => by cases hc)
      exact h.frame ⟨rfl, rfl, rfl, ⟨rfl, rfl⟩⟩ rfl rfl rfl rfl rfl rfl rfl
    · exact h.frame ⟨rfl, rfl, rfl, ⟨rfl, rfl⟩⟩ rfl rfl rfl rfl rfl rfl rfl

theorem finish_fields (w : W) (aid : Nat) (ok : Bool) :
    (w.finish aid ok).pool = w.pool ∧ (w.finish aid ok).poolSize = w.poolSize ∧ (w.finish aid ok).disc = w.disc ∧
    (w.finish aid ok).cfg = w.cfg ∧ (w.finish aid ok).stopped = w.stopped ∧ (w.finish aid ok).blocked = w.blocked ∧
    (∀ m ∈ (w.finish aid ok).inbox, m ∈ w.inbox ∨ ∃ a k, m = .finished a k) := by
  unfold W.finish
  cases ha : w.env.getActor aid with
  | none => exact ⟨rfl, rfl, rfl, rfl, rfl, rfl, fun m hm => Or.inl hm⟩
  | some a =>
    simp only
    cases hr : a.running with
    | none => exact ⟨rfl, rfl, rfl, rfl, rfl, rfl, fun m hm => Or.inl hm⟩
    | some j =>
      simp only
      split
      · exact ⟨rfl, rfl, rfl, rfl, rfl, rfl, fun m hm => Or.inl hm⟩
      · split
        · exact ⟨rfl, rfl, rfl, rfl, rfl, rfl, fun m hm => Or.inl hm⟩
        · unfold W.send
          split
          · exact ⟨rfl, rfl, rfl, rfl, rfl, rfl, fun m hm => Or.inl hm⟩
          · refine ⟨rfl, rfl, rfl, rfl, rfl, rfl, ?_⟩
            intro m hm
            rcases List.mem_append.mp hm with hm | hm
            · exact Or.inl hm
            · simp only [List.mem_singleton] at hm; exact Or.inr ⟨_, _, hm⟩

theorem wl_finish (w : W) (aid : Nat) (ok : Bool) (h : WL D w) : WL D (w.finish aid ok) := by
  obtain ⟨f1, f2, f3, f4, f5, f6, f7⟩ := finish_fields w aid ok
  refine ⟨j_finish w aid ok h.j, nb_finish w aid ok h.nb, by rw [f1, f2]; exact h.pz, by rw [f5, f6]; exact h.sb,
    h.b.frame f1 f3 f4, ?_⟩
  intro m hm d n
  rcases f7 m hm with hm | ⟨a, k, rfl⟩
  · exact h.inbox m hm d n
  · intro hc; cases hc

/-- the factory resumes after having been held busy in its capacity controller -/
theorem wb_release_tail (w0 : W) (n : Nat) (hb0 : WB D w0) (ha : w0.pool = [] → WA D w0)
    (hq : w0.pool ≠ [] → w0.queue = []) (hpz : w0.poolSize = 0 → w0.pool = []) (hst : w0.stopped = false)
    (hin : ∀ m ∈ w0.inbox, ∀ d n, m ≠ .updateSettings (some d) n) :
    WB D ((if w0.poolSize != n then w0.resizePool n else w0).calcRest.afterHandle) ∧
    (((if w0.poolSize != n then w0.resizePool n else w0).calcRest.afterHandle).poolSize = 0 →
      ((if w0.poolSize != n then w0.resizePool n else w0).calcRest.afterHandle).pool = []) ∧
    ((if w0.poolSize != n then w0.resizePool n else w0).calcRest.afterHandle).stopped = false ∧
    (∀ m ∈ ((if w0.poolSize != n then w0.resizePool n else w0).calcRest.afterHandle).inbox, ∀ d n,
      m ≠ .updateSettings (some d) n) := by
  have h1 : WB D (if w0.poolSize != n then w0.resizePool n else w0) ∧
      ((if w0.poolSize != n then w0.resizePool n else w0).poolSize = 0 →
        (if w0.poolSize != n then w0.resizePool n else w0).pool = []) ∧
      (if w0.poolSize != n then w0.resizePool n else w0).stopped = false ∧
      (if w0.poolSize != n then w0.resizePool n else w0).inbox = w0.inbox := by
    split
    · refine ⟨?_, pz_resizePool w0 n hpz, by rw [(ctl_resizePool w0 n).stopped]; exact hst, (ctl_resizePool w0 n).inbox⟩
      by_cases hp : w0.pool = []
      · exact (wa_resizePool w0 n (ha hp)).wb
      · exact wb_resizePool w0 n hb0 (hq hp)
    · exact ⟨hb0, hpz, hst, rfl⟩
  generalize (if w0.poolSize != n then w0.resizePool n else w0) = w1 at h1
  obtain ⟨g1, g2, g3, g4⟩ := h1
  obtain ⟨f1, f2, f3, f4, f5⟩ := afterHandle_fields w1.calcRest
  have hqs := qsub_afterHandle w1.calcRest
  refine ⟨(wb_calcRest w1 g1).frame f2 hqs.disc f4, ?_, ?_, ?_⟩
  · intro hz
    rw [f3] at hz; rw [f2]
    exact pz_step g2 (plen_calcRest w1) (psz_calcRest w1) hz
  · rw [(afterHandle_act _).2.2, (ctl_calcRest w1).stopped]; exact g3
  · rw [f5, (ctl_calcRest w1).inbox, g4]; exact hin

theorem wl_applyOp (w : W) (op : Op) (hk : op.keepsDisc = true) (hns : op.isStaleAt w = false) (h : WL D w) :
    WL D (w.applyOp op) := by
  have he : ∀ ev, WL D (w.emit ev) := fun ev => h.frame ⟨rfl, rfl, rfl, envEq_emit _ _⟩ rfl rfl rfl rfl rfl rfl rfl
  cases op with
  | dispatch id key hash ttl acc =>
    simp only [W.applyOp]
    split
    · exact h
    · exact wl_send _ _ (fun _ => rfl) (fun _ _ hc => by cases hc) (he _)
  | finish aid ok => exact wl_finish w aid ok h
  | kill aid =>
    exact ⟨j_applyOp w (.kill aid) h.j hns, nb_applyOp w (.kill aid) h.nb, h.pz, h.sb, h.b.frame rfl rfl rfl, h.inbox⟩
  | resize n => exact wl_send _ _ (fun _ => rfl) (fun _ _ hc => by cases hc) (he _)
  | settings d n =>
    cases d with
    | some d => simp [Op.keepsDisc] at hk
    | none =>
      simp only [W.applyOp]
      apply wl_send _ _ (fun _ => rfl) (fun _ _ hc => by cases hc)
      cases n with
      | none => exact h
      | some n => exact he _
  | drain => exact wl_send _ _ (fun _ => rfl) (fun _ _ hc => by cases hc) (he _)
  | setHandler hd => exact wl_send _ _ (fun _ => rfl) (fun _ _ hc => by cases hc) (he _)
  | advance => exact h
  | block => exact h.frame ⟨rfl, rfl, rfl, EnvEq.refl _⟩ rfl rfl rfl rfl rfl rfl rfl
  | release n =>
    have hj := j_applyOp w (.release n) h.j hns
    have hnb := nb_applyOp w (.release n) h.nb
    simp only [W.applyOp] at hj hnb ⊢
    by_cases hb : w.blocked = true
    · rw [if_pos hb] at hj hnb ⊢
      have hst : w.stopped = false := by
        cases hx : w.stopped with
        | false => rfl
        | true => have := h.sb hx; rw [hb] at this; cases this
      have hcore := h.j.core hst
      obtain ⟨t1, t2, t3, t4⟩ := wb_release_tail (D := D) ({ w.emit (.released n) with blocked := false } : W) n
        (h.b.frame rfl rfl rfl)
        (fun hp => ⟨h.b.disc, h.b.nq, h.b.all,
          (fun p hp' => by have hp'' : p ∈ ([] : List WP) := hp ▸ hp'; cases hp''),
          (fun aid a g => hcore.aidLt aid a g)⟩)
        h.empty_queue h.pz hst h.inbox
      exact ⟨hj, hnb, t2, (fun hs => by rw [t3] at hs; cases hs), t1, t4⟩
    · rw [if_neg hb] at hj hnb ⊢
      exact h
  | nop => exact h

theorem wl_ask (w : W) (m : FMsg) (hm1 : ∀ x, finKeys x [m] = []) (hm2 : ∀ d n, m ≠ .updateSettings (some d) n)
    (h : WL D w) : WL D (w.ask m) := by
  unfold W.ask
  split
  · exact h.frame ⟨rfl, rfl, rfl, EnvEq.refl _⟩ rfl rfl rfl rfl rfl rfl rfl
  · simp only
    have h1 := wl_runQ RUN_FUEL _ (wl_send w m hm1 hm2 h)
    split
    · exact h1.frame ⟨rfl, rfl, rfl, EnvEq.refl _⟩ rfl rfl rfl rfl rfl rfl rfl
    · exact h1

theorem wl_queries (w : W) (h : WL D w) : WL D w.queries := by
  unfold W.queries
  split
  · exact h.frame ⟨rfl, rfl, rfl, EnvEq.refl _⟩ rfl rfl rfl rfl rfl rfl rfl
  · exact wl_ask _ _ (fun _ => rfl) (fun _ _ hc => by cases hc) (wl_ask _ _ (fun _ => rfl) (fun _ _ hc => by cases hc)
      (wl_ask _ _ (fun _ => rfl) (fun _ _ hc => by cases hc)
        (h.frame ⟨rfl, rfl, rfl, EnvEq.refl _⟩ rfl rfl rfl rfl rfl rfl rfl)))

theorem wl_stepOp (w : W) (op : Op) (t0 tq te : Nat) (hk : op.keepsDisc = true) (h : WL D w)
    (hns : op.isStaleAt (W.advanceTo t0 (advanceFuel w t0) w) = false) : WL D (w.stepOp op t0 tq te) := by
  unfold W.stepOp
  simp only
  generalize hw1 : W.advanceTo t0 (advanceFuel w t0) w = w1 at hns
  have h1 : WL D w1 := by rw [← hw1]; exact wl_advanceTo _ _ _ h
  generalize hw2 : W.runQ RUN_FUEL (w1.applyOp op) = w2
  have h2 : WL D w2 := by rw [← hw2]; exact wl_runQ _ _ (wl_applyOp _ _ hk hns h1)
  generalize hw3 : W.advanceTo tq (advanceFuel w2 tq) w2 = w3
  have h3 : WL D w3 := by rw [← hw3]; exact wl_advanceTo _ _ _ h2
  generalize hw4 : w3.queries = w4
  have h4 : WL D w4 := by rw [← hw4]; exact wl_queries _ h3
  generalize hw5 : W.advanceTo te (advanceFuel w4 te) w4 = w5
  have h5 : WL D w5 := by rw [← hw5]; exact wl_advanceTo _ _ _ h4
  exact h5.frame ⟨rfl, rfl, rfl, envEq_emit _ _⟩ rfl rfl rfl rfl rfl rfl rfl

theorem wl_runSteps (w : W) (steps : List Step) (hk : steps.all (fun s => s.op.keepsDisc) = true)
    (hns : noStaleRun w steps = true) (h : WL D w) : WL D (w.runSteps steps) := by
  induction steps generalizing w with
  | nil => exact h
  | cons s rest ih =>
    simp only [List.all_cons, Bool.and_eq_true] at hk
    unfold noStaleRun at hns
    simp only [Bool.and_eq_true, Bool.not_eq_eq_eq_not, Bool.not_true] at hns
    unfold W.runSteps
    exact ih _ hk.2 hns.2 (wl_stepOp w s.op s.t0 s.tq s.te hk.1 h hns.1)

theorem wl_init (c : CaseCfg) (hq : isFactoryQueueing c.cfg.router = false) (hd : c.disc = some D) : WL D (init c) := by
  obtain ⟨f1, f2, f3, f4⟩ := init_fields c
  have hst : (init c).stopped = false := by
    unfold init
    simp only
    show (W.growPool _ c.n).stopped = false
    rw [(ctl_growPool _ c.n).stopped]
  refine ⟨j_init c, nb_init c hq, ?_, (fun hs => by rw [hst] at hs; cases hs), ?_, by rw [f3]; intro m hm; cases hm⟩
  · intro hz
    have hps : (init c).poolSize = c.n := by unfold init; rfl
    rw [hps] at hz
    unfold init
    simp only
    show (W.growPool _ c.n).pool = []
    rw [hz]
    rfl
  · unfold init
    simp only
    refine (wb_growPool _ c.n ?_).frame rfl rfl rfl
    exact ⟨hd, hq, fun p hp => by cases hp⟩

/-- (C15, worker queues, whole runs) -/
theorem wl_always (c : CaseCfg) (hq : isFactoryQueueing c.cfg.router = false) (hd : c.disc = some D) (steps : List Step)
    (hk : steps.all (fun s => s.op.keepsDisc) = true) (hns : noStaleRun (init c) steps = true) :
    WL D ((init c).runSteps steps) :=
  wl_runSteps _ steps hk hns (wl_init c hq hd)

end Factory
