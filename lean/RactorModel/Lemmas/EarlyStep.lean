import RactorModel.Model.EarlyStep

namespace EarlyStep

/-- nothing follows a drain marker in the mailbox -/
def tailOk : List (Option Nat) → Bool
  | [] => true
  | [_] => true
  | none :: _ :: _ => false
  | some _ :: t => tailOk t

theorem tailOk_append (q : List (Option Nat)) (x : Option Nat) (h : tailOk q = true) (hn : none ∉ q) :
    tailOk (q ++ [x]) = true := by
  induction q with
  | nil => simp [tailOk]
  | cons a t ih =>
    cases a with
    | none => simp at hn
    | some v =>
      have hn' : none ∉ t := fun hm => hn (List.mem_cons_of_mem _ hm)
      cases t with
      | nil => simp [tailOk]
      | cons b t' =>
        have h' : tailOk (b :: t') = true := by simpa [tailOk] using h
        have := ih h' hn'
        simpa [tailOk] using this

theorem tailOk_tail (a : Option Nat) (t : List (Option Nat)) (h : tailOk (a :: t) = true) : tailOk t = true := by
  cases a <;> cases t <;> simp_all [tailOk]

theorem tailOk_none (t : List (Option Nat)) (h : tailOk (none :: t) = true) : t = [] := by
  cases t <;> simp_all [tailOk]

theorem msgs_append (q : List (Option Nat)) (x : Option Nat) :
    msgs (q ++ [x]) = msgs q ++ (match x with | some v => [v] | none => []) := by
  cases x <;> simp [msgs, List.filterMap_append]

/-- The invariant of every reachable state, for every configuration. -/
structure Inv (c : Cfg) (s : Sh) : Prop where
  /-- until `set_status(Starting)` the status is `Unstarted`: `drain()` exempts it -/
  early : s.pc = .check ∨ s.pc = .publish → s.status = stUnstarted
  /-- a live actor is never at `Stopping` or beyond: the link gate of the fixed code passes -/
  bound : s.pc.alive = true → s.status ≤ stDraining
  tail : tailOk s.queue = true
  marker : none ∈ s.queue → s.markerSent = true
  sentClosed : s.markerSent = true → s.closed = true
  ports : s.portsOpen = s.pc.alive
  dead : s.pc.alive = false → s.queue = []
  /-- nothing accepted is lost while the actor lives -/
  split : s.pc.alive = true → s.handled ++ msgs s.queue = s.accepted
  /-- a "Drained" exit has handled everything accepted -/
  drained : s.pc = .exited .drained → s.handled = s.accepted
  /-- an emitted marker stays in the mailbox until the loop reaches it -/
  pending : s.markerSent = true → s.pc.alive = true → none ∈ s.queue
  noAlready : s.pc ≠ .failed .already
  nolink : s.pc = .failed .nolink → c.linked = true ∧ (c.fixed = true → c.supOk = false)
  preErr : s.pc = .failed .preErr → c.preOk = false
  fkilled : s.pc = .failed .killed → s.killReq = true
  ekilled : s.pc = .exited .killed → s.killReq = true
  estopped : s.pc = .exited .stopped → s.stopReq = true
  atLink : s.pc = .linkTL ∨ s.pc = .link → c.linked = true

theorem inv_init (c : Cfg) : Inv c ({} : Sh) := by
  constructor <;> simp [Pc.alive, tailOk, msgs, stUnstarted, stDraining]

theorem inv_finish (c : Cfg) (s : Sh) (pc : Pc) (h : Inv c s) (hd : pc.alive = false)
    (h1 : pc = .exited .drained → s.handled = s.accepted)
    (h2 : pc ≠ .failed .already)
    (h3 : pc = .failed .nolink → c.linked = true ∧ (c.fixed = true → c.supOk = false))
    (h4 : pc = .failed .preErr → c.preOk = false)
    (h5 : pc = .failed .killed → s.killReq = true)
    (h6 : pc = .exited .killed → s.killReq = true)
    (h7 : pc = .exited .stopped → s.stopReq = true) : Inv c (finish s pc) := by
  obtain ⟨a1, a2, a3, a4, a5, a6, a7, a8, a9, a10, a11, a12, a13, a14, a15, a16, a17⟩ := h
  constructor <;> simp only [finish] <;> (try simp [tailOk, hd]) <;> (try assumption)
  · intro hp; rcases hp with hp | hp <;> simp [hp, Pc.alive] at hd
  · intro hp; rcases hp with hp | hp <;> simp [hp, Pc.alive] at hd

theorem inv_startStep (c : Cfg) (s : Sh) (h : Inv c s) : Inv c (startStep c s) := by
  have h0 := h
  obtain ⟨a1, a2, a3, a4, a5, a6, a7, a8, a9, a10, a11, a12, a13, a14, a15, a16, a17⟩ := h
  unfold startStep
  split
  · -- check
    rename_i hpc
    have : s.status = stUnstarted := a1 (Or.inl hpc)
    simp only [this, ne_eq, not_true_eq_false, if_false]
    constructor <;> simp_all [Pc.alive]
  · -- publish
    rename_i hpc
    have hst : s.status = stUnstarted := a1 (Or.inr hpc)
    split
    · constructor <;> simp_all [Pc.alive, stUnstarted, stStarting, stDraining]
    · constructor <;> simp_all [Pc.alive, stUnstarted, stStarting, stDraining]
  · -- linkTL
    rename_i hpc
    have hb : s.status ≤ stDraining := a2 (by simp [hpc, Pc.alive])
    split
    · rename_i hr
      refine inv_finish c s _ h0 rfl (by simp) (by simp) ?_ (by simp) (by simp) (by simp) (by simp)
      intro _
      refine ⟨a17 (Or.inl hpc), fun hf => ?_⟩
      simp [linkRefused, stStopping, stDraining, hf] at hr hb
      rcases hr with hr | hr
      · omega
      · exact hr
    · constructor <;> simp_all [Pc.alive]
  · -- preStart
    rename_i hpc
    split
    · rename_i hk
      exact inv_finish c s _ h0 rfl (by simp) (by simp) (by simp) (by simp) (by simpa using hk) (by simp) (by simp)
    · split
      · rename_i hp
        exact inv_finish c s _ h0 rfl (by simp) (by simp) (by simp) (by simpa using hp) (by simp) (by simp) (by simp)
      · split
        · constructor <;> simp_all [Pc.alive]
        · constructor <;> simp_all [Pc.alive]
  · -- link
    rename_i hpc
    have hb : s.status ≤ stDraining := a2 (by simp [hpc, Pc.alive])
    split
    · rename_i hr
      refine inv_finish c s _ h0 rfl (by simp) (by simp) ?_ (by simp) (by simp) (by simp) (by simp)
      intro _
      refine ⟨a17 (Or.inr hpc), fun hf => ?_⟩
      simp [linkRefused, stStopping, stDraining, hf] at hr hb
      rcases hr with hr | hr
      · omega
      · exact hr
    · constructor <;> simp_all [Pc.alive]
  · -- markRunning
    constructor <;> simp_all [Pc.alive]
  · -- postStart
    split
    · rename_i hk
      exact inv_finish c s _ h0 rfl (by simp) (by simp) (by simp) (by simp) (by simp) (by simpa using hk) (by simp)
    · constructor <;> simp_all [Pc.alive]
  · -- setRunning
    rename_i hpc
    have hb : s.status ≤ stDraining := a2 (by simp [hpc, Pc.alive])
    constructor <;> (try simp only) <;> simp_all [Pc.alive, stRunning, stDraining] <;> omega
  · -- loop
    rename_i hpc
    split
    · rename_i hk
      exact inv_finish c s _ h0 rfl (by simp) (by simp) (by simp) (by simp) (by simp) (by simpa using hk) (by simp)
    · split
      · rename_i hk
        exact inv_finish c s _ h0 rfl (by simp) (by simp) (by simp) (by simp) (by simp) (by simp) (by simpa using hk)
      · split
        · exact h0
        · rename_i id q hq
          have hal : s.pc.alive = true := by simp [hpc, Pc.alive]
          have hsp := a8 hal
          rw [hq] at hsp a3 a4
          constructor <;> (try simp only) <;> simp_all [Pc.alive, msgs]
          all_goals first
            | exact tailOk_tail _ _ a3
            | (intro hm; exact a4 (Or.inr hm))
            | (intro hm; have := a10 hm; simpa using this)
        · rename_i q hq
          have hal : s.pc.alive = true := by simp [hpc, Pc.alive]
          have hsp := a8 hal
          rw [hq] at hsp a3
          have hq' := tailOk_none _ a3
          subst hq'
          refine inv_finish c s _ h0 rfl ?_ (by simp) (by simp) (by simp) (by simp) (by simp) (by simp)
          intro _
          simpa [msgs] using hsp
  · exact h0
  · exact h0

theorem inv_reqStep (c : Cfg) (s : Sh) (r : Req) (dpc : Nat) (h : Inv c s) : Inv c (reqStep s r dpc).1 := by
  have h0 := h
  obtain ⟨a1, a2, a3, a4, a5, a6, a7, a8, a9, a10, a11, a12, a13, a14, a15, a16, a17⟩ := h
  cases r with
  | cast =>
    simp only [reqStep]
    split
    · constructor <;> assumption
    · rename_i hc
      simp only [Bool.or_eq_true, decide_eq_true_eq, Bool.not_eq_eq_eq_not, Bool.not_true, not_or,
        Bool.not_eq_true, Bool.not_eq_false] at hc
      obtain ⟨⟨hst, hcl⟩, hpo⟩ := hc
      have hal : s.pc.alive = true := by rw [← a6]; exact hpo
      have hnm : none ∉ s.queue := fun hm => by
        have := a5 (a4 hm); rw [hcl] at this; exact absurd this (by simp)
      have hms : s.markerSent = false := by
        cases hm : s.markerSent
        · rfl
        · have := a5 hm; rw [hcl] at this; exact absurd this (by simp)
      constructor <;> (try simp only) <;> (try assumption)
      · exact tailOk_append _ _ a3 hnm
      · intro hm; simp at hm; exact a4 hm
      · intro hd; rw [hal] at hd; exact absurd hd (by simp)
      · intro _; rw [msgs_append, ← List.append_assoc, a8 hal]
      · intro hp; rw [hp] at hal; simp [Pc.alive] at hal
      · intro hm; rw [hms] at hm; exact absurd hm (by simp)
  | stop =>
    simp only [reqStep]
    constructor <;> (try simp only) <;> (try assumption)
    · intro hp; simp [a16 hp]
  | kill =>
    simp only [reqStep]
    constructor <;> (try simp only) <;> (try assumption)
    · intro hp; simp [a14 hp]
    · intro hp; simp [a15 hp]
  | drain =>
    simp only [reqStep]
    split
    · -- close
      constructor <;> (try simp only) <;> (try assumption)
      all_goals first | trivial | (intro _; trivial) | (intro _; rfl)
    · -- status
      split
      · rename_i hs
        constructor <;> (try simp only) <;> (try assumption)
        · intro hp; have := a1 hp; exact absurd this hs.1
        · intro _; exact Nat.le_refl _
      · exact h0
    · -- marker
      split
      · rename_i hc
        simp only [Bool.and_eq_true, Bool.not_eq_eq_eq_not, Bool.not_true] at hc
        obtain ⟨hcl, hms⟩ := hc
        have hnm : none ∉ s.queue := fun hm => by
          have := a4 hm; rw [hms] at this; exact absurd this (by simp)
        cases hpo : s.portsOpen
        · have hal : s.pc.alive = false := by rw [← a6]; exact hpo
          constructor <;> (try simp only [hpo, Bool.false_eq_true, if_false]) <;> (try assumption)
          all_goals first
            | trivial
            | exact hal.symm
            | (intro _; trivial)
            | (intro _; exact hcl)
            | (intro _ h2; rw [hal] at h2; cases h2)
            | (intro h2; rw [hal] at h2; cases h2)
        · have hal : s.pc.alive = true := by rw [← a6]; exact hpo
          constructor <;> (try simp only [hpo, if_true]) <;> (try assumption)
          all_goals first
            | trivial
            | exact hal.symm
            | exact tailOk_append _ _ a3 hnm
            | (intro _; trivial)
            | (intro _; exact hcl)
            | (intro _; rw [msgs_append]; simpa using a8 hal)
            | (intro _ _; simp; done)
            | (intro hd; rw [hal] at hd; cases hd; done)
            | (intro _; simp; done)
      · exact h0

/-- the start thread never touches the admission word, the request flags or the ghost `accepted` -/
theorem startStep_frame (c : Cfg) (s : Sh) :
    (startStep c s).markerSent = s.markerSent ∧ (startStep c s).closed = s.closed ∧
    (startStep c s).stopReq = s.stopReq ∧ (startStep c s).killReq = s.killReq ∧
    (startStep c s).accepted = s.accepted := by
  unfold startStep
  split <;> (try split) <;> (try split) <;> (try split) <;> simp [finish]

/-- the start thread alone, `n` steps -/
def startN (c : Cfg) : Nat → Sh → Sh
  | 0, s => s
  | n + 1, s => startN c n (startStep c s)

theorem startStep_dead (c : Cfg) (s : Sh) (h : s.pc.alive = false) : startStep c s = s := by
  unfold startStep
  cases hp : s.pc <;> simp_all [Pc.alive]

theorem startN_dead (c : Cfg) (n : Nat) : ∀ s : Sh, s.pc.alive = false → startN c n s = s := by
  induction n with
  | zero => intro s _; rfl
  | succ n ih => intro s h; simp only [startN]; rw [startStep_dead c s h]; exact ih s h

/-- every step of a live, non-idle start thread makes progress -/
theorem startStep_measure (c : Cfg) (s : Sh) (hal : s.pc.alive = true)
    (hbusy : s.pc = .loop → s.queue ≠ [] ∨ s.stopReq = true ∨ s.killReq = true) :
    measure (startStep c s) < measure s := by
  unfold startStep
  cases hp : s.pc <;> simp only [hp, Pc.alive] at hal hbusy ⊢
  case check => split <;> simp [measure, finish, hp, Pc.rank] <;> omega
  case publish => split <;> simp [measure, hp, Pc.rank]
  case linkTL => split <;> simp [measure, finish, hp, Pc.rank] <;> omega
  case preStart => split <;> (try split) <;> (try split) <;> simp [measure, finish, hp, Pc.rank] <;> omega
  case link => split <;> simp [measure, finish, hp, Pc.rank] <;> omega
  case markRunning => simp [measure, hp, Pc.rank]
  case postStart => split <;> simp [measure, finish, hp, Pc.rank] <;> omega
  case setRunning => simp [measure, hp, Pc.rank]
  case loop =>
    split
    · simp [measure, finish, hp, Pc.rank]; omega
    · split
      · simp [measure, finish, hp, Pc.rank]; omega
      · rename_i hk hs
        split
        · rename_i hq
          simp [hq, hk, hs] at hbusy
        · rename_i hq; simp [measure, hp, hq]
        · simp [measure, finish, hp, Pc.rank]; omega
  case exited => cases hal
  case failed => cases hal

/-- once the marker is emitted the actor's task, left to itself, ends within `measure` steps -/
theorem startN_ends (c : Cfg) (n : Nat) : ∀ s : Sh, Inv c s → s.markerSent = true → measure s ≤ n →
    (startN c n s).pc.alive = false := by
  induction n with
  | zero =>
    intro s _ _ hm
    cases hp : s.pc <;> simp [measure, hp, Pc.rank] at hm <;> simp [startN, hp, Pc.alive]
  | succ n ih =>
    intro s hI hms hm
    simp only [startN]
    cases hal : s.pc.alive
    · rw [startStep_dead c s hal]; rw [startN_dead c n s hal]; exact hal
    · have hq : none ∈ s.queue := hI.pending hms hal
      have hlt := startStep_measure c s hal (fun _ => Or.inl (fun h => by rw [h] at hq; simp at hq))
      refine ih _ (inv_startStep c s hI) ?_ (by omega)
      rw [(startStep_frame c s).1]; exact hms

theorem startN_frame (c : Cfg) (n : Nat) : ∀ s : Sh,
    (startN c n s).markerSent = s.markerSent ∧ (startN c n s).stopReq = s.stopReq ∧
    (startN c n s).killReq = s.killReq ∧ (startN c n s).accepted = s.accepted := by
  induction n with
  | zero => intro s; simp [startN]
  | succ n ih =>
    intro s
    have h1 := ih (startStep c s)
    have h2 := startStep_frame c s
    simp only [startN]
    refine ⟨h1.1.trans h2.1, h1.2.1.trans h2.2.2.1, h1.2.2.1.trans h2.2.2.2.1, h1.2.2.2.trans h2.2.2.2.2⟩

theorem inv_startN (c : Cfg) (n : Nat) : ∀ s : Sh, Inv c s → Inv c (startN c n s) := by
  induction n with
  | zero => intro s h; exact h
  | succ n ih => intro s h; exact ih _ (inv_startStep c s h)

/-- what a terminal pc can be when nothing intervened (fixed code) -/
theorem undisturbed_terminal (c : Cfg) (s : Sh) (hI : Inv c s) (hf : c.fixed = true)
    (hu : undisturbed c s = true) (hd : s.pc.alive = false) : s.pc = .exited .drained := by
  simp only [undisturbed, Bool.and_eq_true, Bool.not_eq_eq_eq_not, Bool.not_true, Bool.or_eq_true] at hu
  obtain ⟨⟨⟨hs, hk⟩, hp⟩, hl⟩ := hu
  cases hpc : s.pc with
  | exited w =>
    cases w with
    | drained => rfl
    | stopped => have := hI.estopped hpc; rw [hs] at this; cases this
    | killed => have := hI.ekilled hpc; rw [hk] at this; cases this
  | failed f =>
    cases f with
    | already => exact absurd hpc hI.noAlready
    | nolink =>
      have := hI.nolink hpc
      have h2 := this.2 hf
      rcases hl with hl | hl
      · rw [h2] at hl; cases hl
      · rw [this.1] at hl; cases hl
    | preErr => have := hI.preErr hpc; rw [hp] at this; cases this
    | killed => have := hI.fkilled hpc; rw [hk] at this; cases this
  | _ => simp [hpc, Pc.alive] at hd

/-- invariant on whole states: the thread table plays no part -/
theorem inv_step (c : Cfg) (g : G) (t : Tid) (h : Inv c g.sh) : Inv c (step c g t).sh := by
  cases t with
  | start => exact inv_startStep c g.sh h
  | t i =>
    simp only [step]
    split
    · exact h
    · split
      · exact h
      · exact inv_reqStep c g.sh _ _ h

/-- once admission is closed it stays closed and nothing more is accepted — any thread, any step -/
theorem closed_step (c : Cfg) (g : G) (t : Tid) (h : g.sh.closed = true) :
    (step c g t).sh.closed = true ∧ (step c g t).sh.accepted = g.sh.accepted := by
  cases t with
  | start =>
    have := startStep_frame c g.sh
    exact ⟨by simp only [step]; rw [this.2.1]; exact h, by simp only [step]; exact this.2.2.2.2⟩
  | t i =>
    simp only [step]
    split
    · exact ⟨h, rfl⟩
    · split
      · exact ⟨h, rfl⟩
      · rename_i th r rest _
        cases r with
        | cast => simp [reqStep, h]
        | stop => simp [reqStep, h]
        | kill => simp [reqStep, h]
        | drain =>
          simp only [reqStep]
          split
          · exact ⟨rfl, rfl⟩
          · split <;> exact ⟨h, rfl⟩
          · split <;> exact ⟨h, rfl⟩

theorem closed_run (c : Cfg) (sched : List Tid) : ∀ g : G, g.sh.closed = true →
    (run c g sched).sh.closed = true ∧ (run c g sched).sh.accepted = g.sh.accepted := by
  induction sched with
  | nil => intro g h; exact ⟨h, rfl⟩
  | cons t rest ih =>
    intro g h
    have h1 := closed_step c g t h
    have h2 := ih _ h1.1
    exact ⟨h2.1, h2.2.trans h1.2⟩

theorem run_append (c : Cfg) (g : G) (s1 s2 : List Tid) : run c g (s1 ++ s2) = run c (run c g s1) s2 := by
  simp [run, List.foldl_append]

/-- requests never move the start thread -/
theorem reqStep_pc (s : Sh) (r : Req) (dpc : Nat) : (reqStep s r dpc).1.pc = s.pc := by
  cases r with
  | cast => simp only [reqStep]; split <;> rfl
  | stop => rfl
  | kill => rfl
  | drain =>
    simp only [reqStep]
    split
    · rfl
    · split <;> rfl
    · split <;> rfl

/-- once the marker is out, no other thread can add work for the actor's task -/
theorem reqStep_sealed (s : Sh) (r : Req) (dpc : Nat) (hc : s.closed = true) (hm : s.markerSent = true) :
    (reqStep s r dpc).1.closed = true ∧ (reqStep s r dpc).1.markerSent = true ∧
    (reqStep s r dpc).1.queue = s.queue ∧ (reqStep s r dpc).1.pc = s.pc := by
  cases r with
  | cast => simp [reqStep, hc, hm]
  | stop => simp [reqStep, hc, hm]
  | kill => simp [reqStep, hc, hm]
  | drain =>
    simp only [reqStep]
    split
    · simp [hm]
    · split <;> simp [hc, hm]
    · simp [hc, hm]

theorem step_sealed (c : Cfg) (g : G) (i : Nat) (hc : g.sh.closed = true) (hm : g.sh.markerSent = true) :
    (step c g (.t i)).sh.closed = true ∧ (step c g (.t i)).sh.markerSent = true ∧
    measure (step c g (.t i)).sh = measure g.sh := by
  simp only [step]
  split
  · exact ⟨hc, hm, rfl⟩
  · split
    · exact ⟨hc, hm, rfl⟩
    · rename_i th _ _ r rest _
      have h := reqStep_sealed g.sh r th.dpc hc hm
      exact ⟨h.1, h.2.1, by simp [measure, h.2.2.1, h.2.2.2]⟩

/-- **Fair termination**: once the marker is emitted, ANY continuation of the schedule that gives
the actor's task at least `measure` steps — however the other threads' steps are interleaved —
ends the actor's task. -/
theorem sealed_run_ends (c : Cfg) (sched : List Tid) : ∀ g : G, Inv c g.sh → g.sh.closed = true →
    g.sh.markerSent = true → measure g.sh ≤ sched.count .start → (run c g sched).sh.pc.alive = false := by
  induction sched with
  | nil =>
    intro g _ _ _ hn
    simp only [List.count_nil, Nat.le_zero] at hn
    cases hp : g.sh.pc <;> simp [measure, hp, Pc.rank] at hn <;> simp [run, hp, Pc.alive]
  | cons t rest ih =>
    intro g hI hc hm hn
    simp only [run, List.foldl_cons]
    cases t with
    | t i =>
      have hs := step_sealed c g i hc hm
      have hn' : measure (step c g (.t i)).sh ≤ rest.count .start := by
        rw [hs.2.2]; simpa [List.count_cons] using hn
      exact ih _ (inv_step c g _ hI) hs.1 hs.2.1 hn'
    | start =>
      have hfr := startStep_frame c g.sh
      cases hal : g.sh.pc.alive
      · -- already over: stays over
        have hdead : ∀ (sch : List Tid) (g' : G), g'.sh.pc.alive = false → (run c g' sch).sh.pc.alive = false := by
          intro sch
          induction sch with
          | nil => intro g' h'; exact h'
          | cons t' r' ih' =>
            intro g' h'
            simp only [run, List.foldl_cons]
            apply ih'
            cases t' with
            | start => simp only [step]; rw [startStep_dead c g'.sh h']; exact h'
            | t j =>
              simp only [step]
              split
              · exact h'
              · split
                · exact h'
                · rename_i th _ _ r rest' _
                  have : (reqStep g'.sh r th.dpc).1.pc = g'.sh.pc := reqStep_pc g'.sh r th.dpc
                  simp only [this]; exact h'
        apply hdead
        simp only [step]; rw [startStep_dead c g.sh hal]; exact hal
      · have hq : none ∈ g.sh.queue := hI.pending hm hal
        have hlt := startStep_measure c g.sh hal (fun _ => Or.inl (fun h => by rw [h] at hq; simp at hq))
        have hn' : measure (step c g .start).sh ≤ rest.count .start := by
          simp only [step]
          simp only [List.count_cons, beq_self_eq_true, if_true] at hn
          omega
        refine ih _ (inv_step c g _ hI) ?_ ?_ hn'
        · simp only [step]; rw [hfr.2.1]; exact hc
        · simp only [step]; rw [hfr.1]; exact hm

theorem inv_run (c : Cfg) (sched : List Tid) : ∀ g : G, Inv c g.sh → Inv c (run c g sched).sh := by
  induction sched with
  | nil => intro g h; exact h
  | cons t rest ih => intro g h; exact ih _ (inv_step c g t h)

theorem inv_reach (c : Cfg) (progs : List (List Req)) (sched : List Tid) :
    Inv c (run c (init progs) sched).sh :=
  inv_run c sched _ (inv_init c)

end EarlyStep
