import RactorModel.Lemmas.HandshakeRefine

/-! B-side counterpart of `Lemmas/HandshakeRefine.lean` (C18, round 4), and the facts about the
name order that connect the two nodes' views: node B compares the names the other way round. -/

namespace Election

/-- `peer.cmp(this)` on one node is the swap of the other node's comparison -/
theorem nameOrd_swap (a b : String) : nameOrd a b = (nameOrd b a).swap := by
  unfold nameOrd; exact Std.OrientedCmp.eq_swap

/-- … and it is `Equal` exactly for equal names (the self-connection case, outside the election) -/
theorem nameOrd_eq_iff (a b : String) : nameOrd a b = .eq ↔ a = b := by
  unfold nameOrd; exact Std.LawfulEqCmp.compare_eq_iff_eq

/-- node B's `NodeServerState` in world `w`: one registered session per connection still open
on B (a closed session's actor has stopped and was removed) -/
def sessB (nameA : String) (l : Link) : Session :=
  ⟨l.c.idB, l.c.aInit, some nameA, nz l.c.nonce, l.authB⟩

def nsOfB (nameB nameA : String) (w : List Link) : NS :=
  { thisName := nameB, sessions := (w.filter (·.openB)).map (sessB nameA) }

theorem nsOfB_candidates (nameB nameA : String) (w : List Link) :
    (nsOfB nameB nameA w).candidatesFor nameA true = (activeB w).map viewB := by
  unfold NS.candidatesFor nsOfB activeB
  simp only [List.filter_map, List.map_map, List.filter_filter]
  congr 1
  apply List.filter_congr
  intro l _
  simp [sessB, Bool.and_comm]

theorem nsOfB_markAuth (nameB nameA : String) (w : List Link) (a : Nat) :
    (nsOfB nameB nameA w).markAuth a = nsOfB nameB nameA (markB w a) := by
  unfold NS.markAuth nsOfB markB
  simp only [List.filter_map, List.map_map]
  congr 1
  have : (fun l : Link => l.openB) ∘ (fun l : Link => if l.c.idB == a then { l with authB := true } else l)
      = (fun l : Link => l.openB) := by
    funext l; simp only [Function.comp]; split <;> rfl
  rw [this]
  apply List.map_congr_left
  intro l _
  simp only [Function.comp, sessB]
  by_cases hc : (l.c.idB == a) = true <;> simp [hc]

theorem nsOfB_find (nameB nameA : String) (w : List Link) (a : Nat) (h : pendingB w a = true) :
    ∃ s, (nsOfB nameB nameA w).find a = some s ∧ s.peerName = some nameA := by
  unfold pendingB at h
  rw [List.any_eq_true] at h
  obtain ⟨l, hl, hc⟩ := h
  simp only [Bool.and_eq_true, beq_iff_eq, Bool.not_eq_true'] at hc
  unfold NS.find nsOfB
  have hin : sessB nameA l ∈ (w.filter (·.openB)).map (sessB nameA) :=
    List.mem_map.mpr ⟨l, List.mem_filter.mpr ⟨hl, hc.1.2⟩, rfl⟩
  cases hf : ((w.filter (·.openB)).map (sessB nameA)).find? (·.id == a) with
  | none =>
    rw [List.find?_eq_none] at hf
    exact absurd (hf _ hin) (by simp [sessB, hc.1.1])
  | some s =>
    refine ⟨s, rfl, ?_⟩
    obtain ⟨l', _, rfl⟩ := List.mem_map.mp (List.mem_of_find?_eq_some hf)
    rfl

theorem nsOfB_losers (nameB nameA : String) (w : List Link) (el : List Nat) :
    (nsOfB nameB nameA w).losersOf nameA el =
      (w.filter (fun l => l.authB && l.openB && !el.contains l.c.idB)).map (·.c.idB) := by
  unfold NS.losersOf nsOfB
  simp only [List.filter_map, List.map_map, List.filter_filter]
  have hm : (fun x : Session => x.id) ∘ sessB nameA = fun l : Link => l.c.idB := by funext l; rfl
  rw [hm]
  congr 1
  apply List.filter_congr
  intro l _
  simp only [Function.comp, sessB]
  cases l.authB <;> cases l.openB <;> simp

/-- `commit_authenticated` on node B's state = the `authB` step: it elects among
`activeB (markB w a)` with node B's ordering and names as losers exactly the sessions the step
closes. -/
theorem commit_is_stepAuthB (nameB nameA : String) (w : List Link) (a : Nat)
    (h : pendingB w a = true) :
    ∃ st', (nsOfB nameB nameA w).commit a =
      some (st', (electB (nameOrd nameB nameA) (activeB (markB w a))).contains a,
        ((markB w a).filter (fun l => l.authB && l.openB &&
          !(electB (nameOrd nameB nameA) (activeB (markB w a))).contains l.c.idB)).map (·.c.idB)) := by
  obtain ⟨s, hs, hp⟩ := nsOfB_find nameB nameA w a h
  unfold NS.commit
  rw [hs]; simp only [hp]
  rw [nsOfB_markAuth, nsOfB_candidates, nsOfB_losers]
  have ht : (nsOfB nameB nameA w).thisName = nameB := rfl
  rw [ht, nameOrd_swap nameA nameB]
  exact ⟨_, rfl⟩


/-! ### `check_candidate` = the `preB` step -/

theorem candB_perm (w : List Link) (a : Nat) (hnd : ((w.map (·.c)).map (·.idB)).Nodup) (l : Link)
    (hl : l ∈ w) (hid : l.c.idB = a) (ho : l.openB = true) (hna : l.authB = false) :
    (candB w a).Perm (activeB w ++ [l.c]) := by
  unfold candB activeB
  have hq : w.filter (fun x => x.c.idB == a && x.openB) = [l] := by
    have hnd' : (w.map (fun x => x.c.idB)).Nodup := by rw [List.map_map] at hnd; exact hnd
    have h1 := filter_key_singleton (fun x : Link => x.c.idB) hl hnd'
    have h2 : w.filter (fun x => x.c.idB == a && x.openB) =
        (w.filter (fun c => [l.c.idB].contains c.c.idB)).filter (·.openB) := by
      rw [List.filter_filter]; apply List.filter_congr; intro x _
      cases x.openB <;> simp [hid]
      by_cases hxa : x.c.idB = a
      · simp [hxa]
      · have : ¬ a = x.c.idB := fun h => hxa h.symm
        simp [hxa, this]
    rw [h2, h1]; simp [ho]
  have hpred : w.filter (fun x => (x.authB || x.c.idB == a) && x.openB) =
      w.filter (fun x => (x.authB && x.openB) || (x.c.idB == a && x.openB)) := by
    apply List.filter_congr; intro x _
    cases x.authB <;> cases x.openB <;> simp
  rw [hpred]
  have := filter_or_perm (fun x : Link => x.authB && x.openB) (fun x => x.c.idB == a && x.openB) l
    (by simp [hna]) w hq
  simpa using this.map (·.c)

/-- `check_candidate` for a session that has not authenticated yet answers
`OtherConnectionContinues` (the session then closes itself) exactly when the `preB` step closes
it: when it would not be elected among the authenticated open sessions plus itself. -/
theorem checkCandidate_is_stepPreB (nameB nameA : String) (w : List Link) (a : Nat)
    (hnd : ((w.map (·.c)).map (·.idB)).Nodup) (h : pendingB w a = true) :
    ((nsOfB nameB nameA w).checkCandidate a = .otherContinues) ↔
      (electB (nameOrd nameB nameA) (candB w a)).contains a = false := by
  -- the pending link
  have h' := h
  unfold pendingB at h'
  rw [List.any_eq_true] at h'
  obtain ⟨l, hl, hc⟩ := h'
  simp only [Bool.and_eq_true, beq_iff_eq, Bool.not_eq_true'] at hc
  obtain ⟨⟨hid, ho⟩, hna⟩ := hc
  -- the session `find` returns is this link's
  have hfind : (nsOfB nameB nameA w).find a = some (sessB nameA l) := by
    unfold NS.find nsOfB
    have hnd' : (w.map (fun x => x.c.idB)).Nodup := by rw [List.map_map] at hnd; exact hnd
    cases hf : ((w.filter (·.openB)).map (sessB nameA)).find? (·.id == a) with
    | none =>
      rw [List.find?_eq_none] at hf
      exact absurd (hf _ (List.mem_map.mpr ⟨l, List.mem_filter.mpr ⟨hl, ho⟩, rfl⟩)) (by simp [sessB, hid])
    | some s =>
      obtain ⟨l', hl', rfl⟩ := List.mem_map.mp (List.mem_of_find?_eq_some hf)
      have hid' : l'.c.idB = a := by simpa [sessB] using List.find?_some hf
      have : l' = l := nodup_map_inj' (fun x : Link => x.c.idB) hnd' (List.mem_filter.mp hl').1 hl (hid'.trans hid.symm)
      rw [this]
  have hperm := candB_perm w a hnd l hl hid ho hna
  have hel : (electB (nameOrd nameB nameA) (candB w a)).contains a =
      (elect (nameOrd nameA nameB) ((activeB w).map viewB ++ [viewB l.c])).contains a := by
    unfold electB
    rw [← nameOrd_swap nameA nameB]
    have hp2 : ((candB w a).map viewB).Perm ((activeB w).map viewB ++ [viewB l.c]) := by
      simpa using hperm.map viewB
    have hp3 := (pipeline_perm (nameOrd nameA nameB) hp2).map (·.id)
    rw [← elect_eq_pipeline, ← elect_eq_pipeline] at hp3
    have := hp3.mem_iff (a := a)
    cases h1 : (elect (nameOrd nameA nameB) ((candB w a).map viewB)).contains a <;>
      cases h2 : (elect (nameOrd nameA nameB) ((activeB w).map viewB ++ [viewB l.c])).contains a <;>
      simp_all
  rw [hel]
  unfold NS.checkCandidate
  rw [hfind]
  simp only [sessB, hna, nsOfB_candidates]
  have htc : Session.toCand ⟨l.c.idB, l.c.aInit, some nameA, nz l.c.nonce, false⟩ = viewB l.c := rfl
  rw [htc]
  have hthis : (nsOfB nameB nameA w).thisName = nameB := rfl
  rw [hthis]
  cases hcont : (elect (nameOrd nameA nameB) ((activeB w).map viewB ++ [viewB l.c])).contains a <;>
    simp <;> split <;> simp_all

end Election
