import RactorModel.Model.ExitRace
import Driver.Common

/-! Driver for the `ExitRace` model (C06).

ops (written by `harness/hcore/src/bin/exitrace.rs`):
  `case <cause> <n> <d>`  → `ok <fields> at=<exiter point>`        cause = stop|kill|drain|panic|stoppanic
  `step d<i> drain.status`→ `<fields> at=done`
  `succ`                  → `<fields> at=ok|refused`
  `step e <point>`        → `<fields> at=<next|done>`
  `step w<i> <point>`     → `<fields> at=<next|done>[ ret]`
  `abandon <i>`           → `<fields> at=done`
  `end <cause> <n> <sig>` → `<fields> waiters=<r|a|p,…>`
fields = `st= name= succ= pid= pg= mon= kids= link= sup= post=`

One `step` line = one `ExitRace.step`. The oracle clauses judge the implementation's observations
only: `premature-return`, `lost-wakeup`, `status-backwards`, `cleanup-twice`, `timeout-effect`,
`not-stopped-at-end`, `successor-lost-name`.
-/

namespace Driver.ExitRace
open _root_.ExitRace Driver

def b01 (b : Bool) : String := if b then "1" else "0"

def showFields (g : G) (unsup : Bool := false) : String :=
  let f := g.sh.flags
  s!"st={g.sh.status} name={b01 (g.sh.name == .self)} succ={b01 (g.sh.name == .succ)} pid={b01 !f.unregPid} pg={b01 !f.pgLeft} mon={b01 !f.pgDemon} kids={if f.terminated then 0 else 1} link={b01 !f.unlinked} sup={if unsup then 0 else if f.supNotified then 2 else 1} post={b01 f.postStop}"

def exiterAt (g : G) : String := g.exiter.pc.point

def waiterAt (g : G) (i : Nat) : String :=
  match g.waiters[i]? with
  | some w => w.pc.point
  | none => "done"

structure Case where
  cause : String := "stop"
  lastFields : List String := []
  lastSt : Nat := 0
  unregRuns : Nat := 0
  notifyRuns : Nat := 0
  succSeen : Bool := false  -- the successor has held the name
  raced : Bool := false     -- a waiter acted before the exiter had finished
  deriving Inhabited

structure St where
  g : G := {}
  c : Case := {}
  diverged : Bool := false
  deriving Inhabited

def kv (ws : List String) (k : String) : Option String :=
  ws.findSome? (fun w => if w.startsWith (k ++ "=") then some (w.drop (k.length + 1)).toString else none)

def fieldsOf (ws : List String) : List String :=
  ws.filter (fun w => ["st=", "name=", "succ=", "pid=", "pg=", "mon=", "kids=", "link=", "sup=", "post="].any (w.startsWith ·))

/-- a waiter returned on this line: the snapshot it sees must be that of a fully stopped actor —
`ExitRace.snapshotOk` (the predicate of `C06.waiter_returns_only_after_full_stop`) on the
implementation's observation -/
def returnOk (cause : String) (ws : List String) : Bool :=
  let is0 (k : String) : Bool := kv ws k == some "0"
  let flags : Flags :=
    { unregPid := is0 "pid", unregName := is0 "name", pgDemon := is0 "mon", pgLeft := is0 "pg",
      postStop := kv ws "post" == some "1", terminated := is0 "kids",
      -- an unsupervised actor (cause `stoppanic`) has nobody to notify
      supNotified := cause == "stoppanic" || ((kv ws "sup").bind (·.toNat?)).getD 0 ≥ 2, unlinked := is0 "link" }
  snapshotOk (((kv ws "st").bind (·.toNat?)).getD 0) flags (cause == "stop" || cause == "drain" || cause == "stoppanic")

def track (c : Case) (iw : List String) : Case × List String :=
  let st := ((kv iw "st").bind (·.toNat?)).getD 0
  let succ := kv iw "succ" == some "1"
  let orc := (if st < c.lastSt then ["status-backwards"] else []) ++
    (if c.succSeen && !succ then ["successor-lost-name"] else [])
  -- (reported once per loss)
  ({ c with lastFields := fieldsOf iw, lastSt := st, succSeen := succ }, orc)

def step1 (st : St) (op impl : String) : St × StepOut :=
  let iw := words impl
  match words op with
  | "case" :: cause :: n :: rest =>
    let post := cause == "stop" || cause == "drain" || cause == "stoppanic"
    let nd := match rest with | [d] => d.toNat?.getD 0 | _ => 0
    let g0 := init post [] [] (n.toNat?.getD 0) nd
    -- a kill signal makes the actor terminate its children before the exit sequence starts
    let g := if cause == "kill" then { g0 with sh := { g0.sh with flags := { g0.sh.flags with terminated := true } } }
      -- `drain()` has already published `Draining`
      else if cause == "drain" then { g0 with sh := { g0.sh with status := 4 } }
      -- unsupervised: never linked, nobody to notify (shown as `link=0 sup=0`)
      else if cause == "stoppanic" then { g0 with sh := { g0.sh with flags := { g0.sh.flags with unlinked := true } } }
      else g0
    let (c, _) := track { cause := cause } iw
    ({ g := g, c := c, diverged := false }, { model := s!"ok {showFields g (cause == "stoppanic")} at={exiterAt g}" })
  | ["step", "e", point] =>
    let pre := exiterAt st.g
    -- cause `stoppanic`: the state's destructor panics inside `notify_supervisor`, i.e. the
    -- statement at `cleanup.notify` panics (once) and the guard's `Drop` re-runs `cleanup`
    let panics := st.c.cause == "stoppanic" && point == "cleanup.notify" && !st.g.exiter.unwound
    let g' := _root_.ExitRace.step st.g (if panics then .unwind else .e)
    let model := (if pre == point then "" else s!"model-at={pre} ") ++ s!"{showFields g' (st.c.cause == "stoppanic")} at={exiterAt g'}"
    let (c, orc) := track st.c iw
    let c := { c with unregRuns := c.unregRuns + (if point == "status.unreg_pid" then 1 else 0),
                      notifyRuns := c.notifyRuns + (if point == "notify.waiters" then 1 else 0) }
    ({ st with g := g', c := c }, { model := model, oracle := orc })
  | ["succ"] =>
    let g' := _root_.ExitRace.step st.g .succ
    let ok := st.g.sh.name == .none
    let model := s!"{showFields g' (st.c.cause == "stoppanic")} at={if ok then "ok" else "refused"}"
    let (c, orc) := track st.c iw
    ({ st with g := g', c := { c with raced := true } }, { model := model, oracle := orc })
  | ["step", w, "drain.status"] =>
    match (w.drop 1).toString.toNat? with
    | none => (st, { model := "bad-op" })
    | some i =>
      let g' := _root_.ExitRace.step st.g (.d i)
      let model := s!"{showFields g' (st.c.cause == "stoppanic")} at=done"
      let (c, orc) := track st.c iw
      ({ st with g := g', c := { c with raced := true } }, { model := model, oracle := orc })
  | ["step", w, point] =>
    match (w.drop 1).toString.toNat? with
    | none => (st, { model := "bad-op" })
    | some i =>
      let pre := waiterAt st.g i
      let g' := _root_.ExitRace.step st.g (.w i)
      let returned := match g'.waiters[i]? with
        | some ⟨.returned _, _⟩ => true
        | _ => false
      let model := (if pre == point then "" else s!"model-at={pre} ") ++
        s!"{showFields g' (st.c.cause == "stoppanic")} at={waiterAt g' i}{if returned then " ret" else ""}"
      let (c, orc) := track st.c iw
      let orc := orc ++ (if iw.contains "ret" && !returnOk c.cause iw then ["premature-return"] else [])
      let c := { c with raced := c.raced || !st.g.exiter.finished }
      ({ st with g := g', c := c }, { model := model, oracle := orc })
  | ["abandon", w] =>
    match w.toNat? with
    | none => (st, { model := "bad-op" })
    | some i =>
      let g' := _root_.ExitRace.step st.g (.abandon i)
      let model := s!"{showFields g' (st.c.cause == "stoppanic")} at={waiterAt g' i}"
      let before := st.c.lastFields
      let (c, orc) := track st.c iw
      let orc := orc ++ (if fieldsOf iw == before then [] else ["timeout-effect"])
      ({ st with g := g', c := { c with raced := true } }, { model := model, oracle := orc })
  | "end" :: _ =>
    let g := st.g
    let ws := g.waiters.map (fun w => match w.pc with
      | .returned _ => "r" | .abandoned => "a" | _ => "p")
    let model := s!"{showFields g (st.c.cause == "stoppanic")} waiters={if ws.isEmpty then "-" else ",".intercalate ws}"
    let (c, orc) := track st.c iw
    let implWs := ((kv iw "waiters").getD "-").splitOn ","
    let orc := orc ++
      (if implWs.contains "p" then ["lost-wakeup"] else []) ++
      (if c.unregRuns ≤ 1 && c.notifyRuns ≤ 1 then [] else ["cleanup-twice"]) ++
      (if kv iw "st" == some "6" then [] else ["not-stopped-at-end"])
    ({ st with c := c }, { model := model, oracle := orc, nontrivial := c.raced })
  | "xstress" :: _ =>
    -- free-running tasks: `w=<kind:result:st:name:pid:pg:mon:kids:link:post,…> sup=<events> st=<final>`
    let ws := ((kv iw "w").getD "").splitOn ","
    let sup := ((kv iw "sup").getD "").splitOn ","
    let terminal := sup.filter (fun e => e.startsWith "Terminated" || e == "Failed")
    let graceful := sup.contains "Terminated:-" || sup.contains "Terminated:Drained"
    let bad (w : String) : List String :=
      match w.splitOn ":" with
      | [kind, res, st, name, pid, pg, mon, kids, link, post] =>
        (if res == "ok" && !(st == "6" && name == "0" && pid == "0" && pg == "0" && mon == "0" && kids == "0"
            && link == "0" && (!graceful || post == "1")) then ["premature-return"] else []) ++
        (if res == "timeout" && kind != "wait_timeout" then ["spurious-timeout"] else [])
      | [_, "hung", _] => ["lost-wakeup"]
      | _ => ["unparsable"]
    let orc := (ws.map bad).foldl (· ++ ·) [] ++
      (if terminal.length == 1 then [] else ["terminal-event-count"]) ++
      (if kv iw "st" == some "6" then [] else ["not-stopped-at-end"])
    (st, { model := impl, oracle := orc.eraseDups, nontrivial := true })
  | "xtimeout" :: _ :: opts =>
    -- free-running, real clock: `kind=<wait|stop_and_wait|drain_and_wait> d=<µs>` |
    -- `res=<ok|timeout|err> el=<µs> st=<u8> ev=<k> fin=<u8> term=<k>`; the target cannot finish before the
    -- harness lets it, so the call must report the timeout, no earlier than `d` (and within a generous real-time
    -- bound); a timed-out `wait` has no effect on the actor (still Running = 2, no terminal event); afterwards
    -- the actor stops normally with exactly one terminal event
    let kind := (opts.findSome? fun w => if w.startsWith "kind=" then some (w.drop 5).toString else none).getD ""
    let d := (opts.findSome? fun w => if w.startsWith "d=" then (w.drop 2).toString.toNat? else none)
    let el := (kv iw "el").bind (·.toNat?)
    let orc : List String := match d, el with
      | some d, some el =>
        (if kv iw "res" == some "timeout" then [] else ["timeout-missed"]) ++
        (if d ≤ el then [] else ["timeout-early"]) ++
        (if el ≤ d + 3000000 then [] else ["timeout-late"]) ++
        (if kind == "wait" && !(kv iw "st" == some "2" && kv iw "ev" == some "0") then ["timeout-effect"] else []) ++
        (if kv iw "term" == some "1" then [] else ["terminal-event-count"]) ++
        (if kv iw "fin" == some "6" then [] else ["not-stopped-at-end"])
      | _, _ => ["unparsable"]
    (st, { model := impl, oracle := orc, nontrivial := true })
  | "xchildren" :: _ =>
    -- free-running: `ret=<0|1> kids=<st,…> parent=<st>` after `stop_children_and_wait` / `drain_children_and_wait`
    -- on running children: returned (no lost wake-up), every child Stopped (= 6) at that moment, parent Running (= 2)
    let kids := ((kv iw "kids").getD "").splitOn ","
    let orc : List String :=
      (if kv iw "ret" == some "1" then [] else ["lost-wakeup"]) ++
      (if kv iw "ret" == some "1" && !(kids.all (· == "6")) then ["premature-return"] else []) ++
      (if kv iw "parent" == some "2" then [] else ["children-wait-effect"])
    (st, { model := impl, oracle := orc, nontrivial := true })
  | _ => (st, { model := "bad-op" })

def step (st : St) (op impl : String) : St × StepOut :=
  let (st', out) := step1 st op impl
  if st.diverged && !(op.startsWith "case ") && !(op.startsWith "xstress ") && !(op.startsWith "xtimeout ") && !(op.startsWith "xchildren ") then (st', { out with model := impl })
  else if out.model != impl then ({ st' with diverged := true }, out)
  else (st', out)

def run (ops impl : Array String) : IO Tally :=
  replay ({} : St) step ops impl

end Driver.ExitRace
