import RactorModel.Model.Early
import Driver.Common

/-! Driver for the `Early` model (C07: requests that arrive before the actor has started).

ops: `case <linked 0|1> [tl] [ni]` → `ok` · `cast` / `drain` / `stop` / `kill` / `poll ok|err` /
     `enter` / `leave ok|err` → `<result> h=[handled] st=<status> r=<reason|->` -/

namespace Driver.EarlyD
open _root_.Early Driver

structure DS where
  m : S := {}
  linked : Bool := false
  ops : List Op := []
  prefixKey : String := ""
  -- from the implementation's own answers
  acceptedImpl : List Nat := []
  nextImpl : Nat := 0
  drainedImpl : Bool := false
  lateAcceptImpl : Bool := false

def snap (m : S) (linked : Bool) : String :=
  let r := if linked then m.reason.getD "-" else "-"
  s!"h=[{",".intercalate (m.handled.map toString)}] st={showStatus m} r={r}"

def field (s tag : String) : Option String :=
  match s.splitOn tag with
  | [_, rest] => (rest.splitOn " ").head?
  | _ => none

def parseH (s : String) : Option (List Nat) :=
  match s.splitOn "h=[" with
  | [_, rest] => match rest.splitOn "]" with
    | x :: _ => natList? x
    | [] => none
  | _ => none

def parseOp (w : List String) : Option Op :=
  match w with
  | ["cast"] => some .cast | ["scast"] => some .cast   -- `scast`: the same cast sent serialized (cluster builds)
  | ["drain"] => some .drain | ["stop"] => some .stop | ["kill"] => some .kill
  | ["poll", "ok"] => some (.poll true) | ["poll", "err"] => some (.poll false)
  -- `leave`: pre_start, parked at its await point since `enter`, returns
  | ["leave", "ok"] => some (.poll true) | ["leave", "err"] => some (.poll false)
  | ["enter"] => some .enter
  | _ => none

def step (ds : DS) (op impl : String) : DS × StepOut :=
  match words op with
  -- thread-local flavour: the same model (the start request stays queued in the blocked spawner)
  | "case" :: l :: fl => ({ linked := l == "1", prefixKey := " ".intercalate fl }, { model := "ok" })
  | w =>
    match parseOp w with
    | none => (ds, { model := "bad-op" })
    | some o =>
      let (m', res) := _root_.Early.step ds.m o
      let implRes := (words impl).headD ""
      -- the implementation's own history
      let ds1 : DS := match o with
        | .cast =>
          let id := ds.nextImpl
          if implRes == "ok" then
            { ds with nextImpl := id + 1, acceptedImpl := ds.acceptedImpl ++ [id],
                      lateAcceptImpl := ds.lateAcceptImpl || ds.drainedImpl }
          else { ds with nextImpl := id + 1 }
        | .drain => { ds with drainedImpl := true }
        | _ => ds
      let ops' := ds.ops ++ [o]
      let started := ops'.any (fun x => x == .poll true)
      let orc :=
        (match parseH impl, field impl "st=", field impl "r=" with
         | some h, some st, some r =>
           if c07ok ds1.drainedImpl (undisturbed ops') started ds.linked ds1.acceptedImpl h st r then []
           else ["c07.accepted-before-drain-not-handled-or-not-drained"]
         | _, _, _ => ["unparsable"]) ++
        (if ds1.lateAcceptImpl then ["c07.send-accepted-after-drain-returned"] else [])
      let key := ds.prefixKey ++ "|" ++ op
      ({ ds1 with m := m', ops := ops', prefixKey := key },
       { model := s!"{res} {snap m' ds.linked}", oracle := orc,
         nontrivial := ds.m.phase == .unstarted || o == .drain, key := some (key ++ " => " ++ impl) })

def run (ops impl : Array String) : IO Tally := replay ({} : DS) step ops impl

end Driver.EarlyD
