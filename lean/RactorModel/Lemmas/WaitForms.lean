import RactorModel.Model.WaitForms
import RactorModel.Lemmas.ExitRaceLive

/-!
Invariant of the `WaitForms` layer: every kid keeps the `ExitRace` invariant (each step of the layer
is a sequence of base steps of one kid plus port bookkeeping), a call that returned `Ok` recorded a
full stop and its kid is past `publish(Stopped)` for good, a call that failed at its send step was
not accepted, a returned wrapper has all its calls done.
-/

set_option linter.unusedSimpArgs false
set_option linter.unusedVariables false

namespace ExitRace

/-- once `Stopped` has been published the exiter never leaves the final stages -/
theorem stage12_step (g : G) (t : Tid) (h : Inv g) (h12 : 12 ≤ g.exiter.pc.stage) :
    12 ≤ (step g t).exiter.pc.stage := by
  by_cases he : t = .e
  · subst he; exact Nat.le_trans h12 (stage_step_e g h.toInvCore)
  · by_cases hu : t = .unwind
    · subst hu
      simp only [step]
      split
      · exact h12
      · split
        all_goals first | exact h12 | (rename_i heq; rw [heq] at h12; simp [EPc.stage] at h12)
    · rw [(other_steps_keep_exiter' g t he hu).1]; exact h12

theorem stage12_run (g : G) (l : List Tid) (h : Inv g) (h12 : 12 ≤ g.exiter.pc.stage) :
    12 ≤ (run g l).exiter.pc.stage := by
  induction l generalizing g with
  | nil => exact h12
  | cons t l ih =>
    simp only [run, List.foldl_cons]
    exact ih _ (inv_step g t h) (stage12_step g t h h12)

/-- `k'` is `k` after some steps of its own `ExitRace` machine (ports may differ) -/
def Adv (k k' : Kid) : Prop := ∃ l, k'.g = run k.g l

theorem Adv.refl' (k k' : Kid) (h : k'.g = k.g) : Adv k k' := ⟨[], by simp [run, h]⟩
theorem Adv.one (k k' : Kid) (t : Tid) (h : k'.g = step k.g t) : Adv k k' := ⟨[t], by simp [run, h]⟩
theorem Adv.ite (k k' : Kid) (b : Bool) (t : Tid) (h : k'.g = if b then step k.g t else k.g) : Adv k k' := by
  cases b
  · exact Adv.refl' _ _ (by simpa using h)
  · exact Adv.one _ _ t (by simpa using h)

theorem Adv.two (k k' : Kid) (t u : Tid) (h : k'.g = step (step k.g t) u) : Adv k k' :=
  ⟨[t, u], by simp [run, h]⟩

theorem Adv.inv {k k' : Kid} (h : Adv k k') (hi : Inv k.g) : Inv k'.g := by
  obtain ⟨l, e⟩ := h; rw [e]; exact inv_run _ l hi

theorem Adv.stage12 {k k' : Kid} (h : Adv k k') (hi : Inv k.g) (h12 : 12 ≤ k.g.exiter.pc.stage) :
    12 ≤ k'.g.exiter.pc.stage := by
  obtain ⟨l, e⟩ := h; rw [e]; exact stage12_run _ l hi h12

/-! ### what one caller step does -/

theorem sendStep_adv (kid : Kid) (c : Caller) : Adv kid (sendStep kid c).1 := by
  unfold sendStep
  split
  · exact Adv.refl' _ _ rfl
  · exact Adv.refl' _ _ rfl
  · split
    · split <;> exact Adv.refl' _ _ rfl
    · exact Adv.refl' _ _ rfl
  · exact Adv.ite _ _ kid.signalOpen .kill rfl
  · simp only
    split
    · exact Adv.one _ _ (.d c.d) rfl
    · split <;> exact Adv.one _ _ (.d c.d) rfl

theorem waitStep_adv (kid : Kid) (c : Caller) : Adv kid (waitStep kid c).1 := by
  unfold waitStep
  split
  · split <;> exact Adv.refl' _ _ rfl
  · simp only
    split <;> exact Adv.one _ _ (.w c.w) rfl

theorem callStep_adv (kid : Kid) (c : Caller) : Adv kid (callStep kid c).1 := by
  unfold callStep
  split
  · exact sendStep_adv kid c
  · exact waitStep_adv kid c
  · exact Adv.refl' _ _ rfl

theorem timeoutStep_adv (kid : Kid) (c : Caller) : Adv kid (timeoutStep kid c).1 := by
  unfold timeoutStep
  split
  · obtain ⟨l, e⟩ := waitStep_adv kid c
    dsimp only
    split
    · exact ⟨l, e⟩
    · refine ⟨l ++ [.abandon c.w], ?_⟩
      simp only [run, List.foldl_append, List.foldl_cons, List.foldl_nil] at e ⊢
      rw [← e]
  · exact Adv.refl' _ _ rfl

theorem sendStep_kid (kid : Kid) (c : Caller) : (sendStep kid c).2.kid = c.kid := by
  unfold sendStep
  split
  · rfl
  · rfl
  · split
    · split <;> rfl
    · rfl
  · rfl
  · simp only
    split
    · rfl
    · split <;> rfl

theorem waitStep_kid (kid : Kid) (c : Caller) : (waitStep kid c).2.kid = c.kid := by
  unfold waitStep
  split
  · split <;> rfl
  · simp only
    split <;> rfl

theorem callStep_kid (kid : Kid) (c : Caller) : (callStep kid c).2.kid = c.kid := by
  unfold callStep
  split
  · exact sendStep_kid kid c
  · exact waitStep_kid kid c
  · rfl

theorem timeoutStep_kid (kid : Kid) (c : Caller) : (timeoutStep kid c).2.kid = c.kid := by
  unfold timeoutStep
  split
  · dsimp only
    split
    · exact waitStep_kid kid c
    · exact waitStep_kid kid c
  · rfl

theorem callStep_done (kid : Kid) (c : Caller) (h : c.isDone = true) : (callStep kid c).2 = c := by
  unfold callStep
  split
  · rename_i e; simp [Caller.isDone, e] at h
  · rename_i e; simp [Caller.isDone, e] at h
  · rfl

theorem timeoutStep_done (kid : Kid) (c : Caller) (h : c.isDone = true) : (timeoutStep kid c).2 = c := by
  unfold timeoutStep
  split
  · rename_i e
    simp only [Bool.and_eq_true, beq_iff_eq] at e
    simp [Caller.isDone, e.1.2] at h
  · rfl

/-- what is known of a caller, relative to its kid -/
structure LOk (kid : Kid) (c : Caller) : Prop where
  ok : ∀ b, c.pc = .done (.ok b) → b = true ∧ 12 ≤ kid.g.exiter.pc.stage
  err : c.pc = .done .sendErr → c.accepted = false
  send : c.pc = .send → c.accepted = false

theorem LOk.adv {kid kid' : Kid} {c : Caller} (h : LOk kid c) (hi : Inv kid.g) (ha : Adv kid kid') :
    LOk kid' c :=
  ⟨fun b hb => ⟨(h.ok b hb).1, ha.stage12 hi (h.ok b hb).2⟩, h.err, h.send⟩

theorem sendStep_lok (kid : Kid) (c : Caller) (hs : c.pc = .send) (hc : LOk kid c) :
    LOk (sendStep kid c).1 (sendStep kid c).2 := by
  have hacc := hc.send hs
  unfold sendStep
  split
  · exact ⟨by simp, by simp, by simp⟩
  · exact ⟨by simp, by simp, by simp⟩
  · split
    · split
      · exact ⟨by simp, by simp, by simp⟩
      · exact ⟨by simp, by simpa using hacc, by simp⟩
    · exact ⟨by simp, by simpa using hacc, by simp⟩
  · exact ⟨by simp, by simp, by simp⟩
  · simp only
    split
    · exact ⟨by simp, by simp, by simp⟩
    · split
      · exact ⟨by simp, by simp, by simp⟩
      · exact ⟨by simp, by simpa using hacc, by simp⟩

theorem waitStep_lok (kid : Kid) (c : Caller) (hi : Inv kid.g) (hs : c.pc = .waiting) :
    LOk (waitStep kid c).1 (waitStep kid c).2 := by
  unfold waitStep
  split
  · split
    · rename_i hf
      have h15 := finished_stage hf
      refine ⟨fun b hb => ?_, by simp, by simp⟩
      simp only [CPc.done.injEq, Res.ok.injEq] at hb
      exact ⟨hb ▸ okNow_of_stage hi.toInvCore (by omega), by show 12 ≤ kid.g.exiter.pc.stage; omega⟩
    · exact ⟨by simp [hs], by simp [hs], by simp [hs]⟩
  · simp only
    have hi' : Inv (step kid.g (.w c.w)) := inv_step _ _ hi
    split
    · rename_i b hb
      refine ⟨fun b' hb' => ?_, by simp, by simp⟩
      simp only [CPc.done.injEq, Res.ok.injEq] at hb'
      subst hb'
      simp only [waiterPc, Option.map_eq_some_iff] at hb
      obtain ⟨w, hw, hpc⟩ := hb
      exact (hi'.ws w (List.mem_of_getElem? hw)).ret b hpc
    · exact ⟨by simp [hs], by simp [hs], by simp [hs]⟩

theorem callStep_lok (kid : Kid) (c : Caller) (hi : Inv kid.g) (hc : LOk kid c) :
    LOk (callStep kid c).1 (callStep kid c).2 := by
  unfold callStep
  split
  · rename_i e; exact sendStep_lok kid c e hc
  · rename_i e; exact waitStep_lok kid c hi e
  · exact hc

theorem timeoutStep_lok (kid : Kid) (c : Caller) (hi : Inv kid.g) (hc : LOk kid c) :
    LOk (timeoutStep kid c).1 (timeoutStep kid c).2 := by
  unfold timeoutStep
  split
  · rename_i e
    simp only [Bool.and_eq_true, beq_iff_eq] at e
    have hw := waitStep_lok kid c hi e.1.2
    dsimp only
    split
    · exact hw
    · exact ⟨by simp, by simp, by simp⟩
  · exact hc

/-! ### the invariant of the layer -/

def COk (kids : List Kid) (c : Caller) : Prop := ∀ kid, kids[c.kid]? = some kid → LOk kid c

structure XInv (x : X) : Prop where
  kids : ∀ k ∈ x.kids, Inv k.g
  callers : ∀ c ∈ x.callers, COk x.kids c
  has : ∀ c ∈ x.callers, c.pc ≠ .send → c.kid < x.kids.length
  wrappers : ∀ wr ∈ x.wrappers, wr.returned = true →
    ∀ j ∈ wr.callers, ∀ c, x.callers[j]? = some c → c.isDone = true

theorem cok_set {kids : List Kid} {k : Nat} {kid kid' : Kid} (hk : kids[k]? = some kid)
    (hi : Inv kid.g) (ha : Adv kid kid') {c : Caller} (h : COk kids c) : COk (kids.set k kid') c := by
  intro kid2 h2
  by_cases e : k = c.kid
  · subst e
    have hlt : c.kid < kids.length := (List.getElem?_eq_some_iff.1 hk).1
    rw [List.getElem?_set_self hlt] at h2
    cases h2
    exact (h kid hk).adv hi ha
  · rw [List.getElem?_set_ne e] at h2
    exact h kid2 h2

theorem xinv_kids_update (x : X) (k : Nat) (kid kid' : Kid) (h : XInv x) (hk : x.kids[k]? = some kid)
    (ha : Adv kid kid') : XInv { x with kids := x.kids.set k kid' } := by
  have hi : Inv kid.g := h.kids kid (List.mem_of_getElem? hk)
  exact ⟨forall_set h.kids (ha.inv hi), fun c hc => cok_set hk hi ha (h.callers c hc),
    fun c hc hs => by simpa [List.length_set] using h.has c hc hs, h.wrappers⟩

theorem xinv_caller_update (x : X) (j : Nat) (c c' : Caller) (kid kid' : Kid) (h : XInv x)
    (hj : x.callers[j]? = some c) (hk : x.kids[c.kid]? = some kid) (ha : Adv kid kid')
    (hkid : c'.kid = c.kid) (hl : LOk kid c → LOk kid' c') (hd : c.isDone = true → c' = c) :
    XInv { x with kids := x.kids.set c.kid kid', callers := x.callers.set j c' } := by
  have hi : Inv kid.g := h.kids kid (List.mem_of_getElem? hk)
  have hc : LOk kid c := h.callers c (List.mem_of_getElem? hj) kid hk
  have hlt : c.kid < x.kids.length := (List.getElem?_eq_some_iff.1 hk).1
  refine ⟨forall_set h.kids (ha.inv hi), ?_, ?_, ?_⟩
  · refine forall_set (fun c2 hc2 => cok_set hk hi ha (h.callers c2 hc2)) ?_
    intro kid2 h2
    simp only [hkid] at h2
    rw [List.getElem?_set_self hlt] at h2
    cases h2
    exact hl hc
  · refine forall_set (fun c2 hc2 hs => by simpa [List.length_set] using h.has c2 hc2 hs) ?_
    intro _
    simpa [List.length_set, hkid] using hlt
  · intro wr hwr hret j' hj' c2 h2
    simp only at h2
    by_cases e : j = j'
    · subst e
      have hjl : j < x.callers.length := (List.getElem?_eq_some_iff.1 hj).1
      rw [List.getElem?_set_self hjl] at h2
      cases h2
      have hdone := h.wrappers wr hwr hret j hj' c hj
      rw [hd hdone]; exact hdone
    · rw [List.getElem?_set_ne e] at h2
      exact h.wrappers wr hwr hret j' hj' c2 h2

theorem xinv_step (x : X) (t : XTid) (h : XInv x) : XInv (xstep x t) := by
  cases t with
  | kid k t =>
    simp only [xstep]
    split
    · exact h
    · rename_i kid hk
      exact xinv_kids_update x k kid _ h hk (Adv.one _ _ t rfl)
  | stop k =>
    simp only [xstep]
    split
    · exact h
    · rename_i kid hk
      exact xinv_kids_update x k kid _ h hk (Adv.refl' _ _ rfl)
  | kill k =>
    simp only [xstep]
    split
    · exact h
    · rename_i kid hk
      exact xinv_kids_update x k kid _ h hk (Adv.ite _ _ kid.signalOpen .kill rfl)
  | mark k =>
    simp only [xstep]
    split
    · exact h
    · rename_i kid hk
      exact xinv_kids_update x k kid _ h hk (Adv.refl' _ _ rfl)
  | call j =>
    simp only [xstep]
    split
    · exact h
    · rename_i c hj
      split
      · exact h
      · rename_i kid hk
        have hi : Inv kid.g := h.kids kid (List.mem_of_getElem? hk)
        exact xinv_caller_update x j c _ kid _ h hj hk (callStep_adv kid c) (callStep_kid kid c)
          (callStep_lok kid c hi) (callStep_done kid c)
  | timeout j =>
    simp only [xstep]
    split
    · exact h
    · rename_i c hj
      split
      · exact h
      · rename_i kid hk
        have hi : Inv kid.g := h.kids kid (List.mem_of_getElem? hk)
        exact xinv_caller_update x j c _ kid _ h hj hk (timeoutStep_adv kid c) (timeoutStep_kid kid c)
          (timeoutStep_lok kid c hi) (timeoutStep_done kid c)
  | wrap i =>
    simp only [xstep]
    split
    · exact h
    · rename_i wr hi
      split
      · rename_i hall
        refine ⟨h.kids, h.callers, h.has, ?_⟩
        intro wr2 hwr2 hret j hj c hc
        rcases List.mem_or_eq_of_mem_set hwr2 with h1 | h1
        · exact h.wrappers wr2 h1 hret j hj c hc
        · subst h1
          have := List.all_eq_true.1 hall j hj
          simp only [hc] at this
          exact this
      · exact h

theorem xinv_run (x : X) (sched : List XTid) (h : XInv x) : XInv (xrun x sched) := by
  induction sched generalizing x with
  | nil => exact h
  | cons t l ih =>
    simp only [xrun, List.foldl_cons]
    exact ih _ (xinv_step x t h)

theorem xinv_initial (x : X) (h : XInitial x) : XInv x := by
  refine ⟨fun k hk => inv_initial k.g (h.kids k hk), fun c hc kid _ => ?_,
    fun c hc hs => absurd (h.callers c hc).1 hs, fun wr hwr hret => ?_⟩
  · have := h.callers c hc
    exact ⟨by simp [this.1], by simp [this.1], fun _ => this.2⟩
  · rw [h.wrappers wr hwr] at hret; cases hret

/-- past `publish(Stopped)` the snapshot is the one of a fully stopped actor -/
theorem fullyStopped_of_stage {kid : Kid} (hi : Inv kid.g) (h12 : 12 ≤ kid.g.exiter.pc.stage) :
    kid.fullyStopped = true := okNow_of_stage hi.toInvCore h12

/-! ### a timeout has no effect on the actor -/

theorem step_w_keeps (g : G) (i : Nat) :
    (step g (.w i)).sh.status = g.sh.status ∧ (step g (.w i)).sh.flags = g.sh.flags ∧
    (step g (.w i)).sh.gen = g.sh.gen ∧ (step g (.w i)).exiter = g.exiter ∧
    (step g (.w i)).setters = g.setters := by
  simp only [step]
  split
  · exact ⟨rfl, rfl, rfl, rfl, rfl⟩
  · rename_i w hw
    obtain ⟨pc, wk⟩ := w
    cases pc <;> simp only [stepWaiter] <;> (repeat' split) <;>
      first | exact ⟨rfl, rfl, rfl, rfl, rfl⟩ | simp

theorem step_abandon_keeps (g : G) (i : Nat) :
    (step g (.abandon i)).sh.status = g.sh.status ∧ (step g (.abandon i)).sh.flags = g.sh.flags ∧
    (step g (.abandon i)).sh.gen = g.sh.gen ∧ (step g (.abandon i)).exiter = g.exiter ∧
    (step g (.abandon i)).setters = g.setters := by
  refine ⟨?_, ?_, ?_, ?_, ?_⟩ <;>
  · simp only [step]
    split
    · rfl
    · split
      · rfl
      · rfl
      · split
        · first | rfl | (simp only [notifyOne]; split <;> rfl)
        · rfl

theorem waitStep_keeps (kid : Kid) (c : Caller) :
    (waitStep kid c).1.g.sh.status = kid.g.sh.status ∧ (waitStep kid c).1.g.sh.flags = kid.g.sh.flags ∧
    (waitStep kid c).1.g.exiter = kid.g.exiter ∧ (waitStep kid c).1.ports = kid.ports := by
  have h := step_w_keeps kid.g c.w
  unfold waitStep
  split
  · split <;> exact ⟨rfl, rfl, rfl, rfl⟩
  · dsimp only
    split <;> exact ⟨h.1, h.2.1, h.2.2.2.1, rfl⟩

theorem timeoutStep_keeps (kid : Kid) (c : Caller) :
    (timeoutStep kid c).1.g.sh.status = kid.g.sh.status ∧ (timeoutStep kid c).1.g.sh.flags = kid.g.sh.flags ∧
    (timeoutStep kid c).1.g.exiter = kid.g.exiter ∧ (timeoutStep kid c).1.ports = kid.ports := by
  have h := waitStep_keeps kid c
  unfold timeoutStep
  split
  · dsimp only
    split
    · exact h
    · have h2 := step_abandon_keeps (waitStep kid c).1.g c.w
      exact ⟨h2.1.trans h.1, h2.2.1.trans h.2.1, h2.2.2.2.1.trans h.2.2.1, h.2.2.2⟩
  · exact ⟨rfl, rfl, rfl, rfl⟩

/-- the result a timer produces: `Ok` (the last poll completed) or `Timeout`, never a send error -/
theorem timeoutStep_result (kid : Kid) (c : Caller) (h : c.isDone = false) :
    (timeoutStep kid c).2 = c ∨ (∃ b, (timeoutStep kid c).2.pc = .done (.ok b)) ∨
      (timeoutStep kid c).2.pc = .done .timeout := by
  unfold timeoutStep
  split
  · rename_i e
    simp only [Bool.and_eq_true, beq_iff_eq, bne_iff_ne] at e
    dsimp only
    split
    · rename_i hd
      right; left
      revert hd
      unfold waitStep
      split
      · exact absurd ‹c.form = Form.join› e.2
      · dsimp only
        split
        · intro _; exact ⟨_, rfl⟩
        · intro hd; simp [Caller.isDone, e.1.2] at hd
    · right; right; rfl
  · left; rfl

/-! ### the registry entry of the name, as a state component (not a ghost flag)

`Sh.name` has three writers: `status.unreg_name` of the exiting actor (→ `none`, whoever holds the
entry), a successor registering the free name (→ `succ`), and nobody ever gives it back to the
exiting actor. From the step after `status.unreg_name` on, the entry is not the exiting actor's. -/

/-- what a step can do to the name entry: leave it, or remove it -/
def NameStep (old new : NameHolder) : Prop := new = old ∨ new = .none

theorem stepSet_nameStep (sh : Sh) (ws : List Waiter) (c : SPc) :
    NameStep sh.name (stepSet sh ws c).1.name := by
  by_cases h : ∃ s p, c = .unregName s p
  · obtain ⟨s, p, rfl⟩ := h; exact Or.inr rfl
  · exact Or.inl (stepSet_name sh ws c (fun s p e => h ⟨s, p, e⟩))

theorem stepExiter_nameStep (sh : Sh) (ws : List Waiter) (ex : Exiter) :
    NameStep sh.name (stepExiter sh ws ex).1.name := by
  obtain ⟨pc, post, lc, armed, unwound⟩ := ex
  cases pc <;> simp only [stepExiter] <;>
    first
    | exact Or.inl rfl
    | (rename_i c
       have := stepSet_nameStep sh ws c; revert this
       generalize stepSet sh ws c = r; obtain ⟨a, b, c'⟩ := r; intro this; cases c' <;> exact this)
    | (rename_i c rest
       have := stepSet_nameStep sh ws c; revert this
       generalize stepSet sh ws c = r; obtain ⟨a, b, c'⟩ := r; intro this; cases c' <;> exact this)

theorem stepSetter_nameStep (sh : Sh) (ws : List Waiter) (t : Setter) :
    NameStep sh.name (stepSetter sh ws t).1.name := by
  obtain ⟨call, rest⟩ := t
  cases call with
  | some c => simp only [stepSetter]; exact stepSet_nameStep sh ws c
  | none =>
    cases rest with
    | nil => exact Or.inl rfl
    | cons s rest => simp only [stepSetter]; exact stepSet_nameStep sh ws (.publish s)

/-- no step gives the name entry (back) to the exiting actor -/
theorem name_not_self_step (g : G) (t : Tid) (hn : g.sh.name ≠ .self) : (step g t).sh.name ≠ .self := by
  have key : ∀ n : NameHolder, NameStep g.sh.name n → n ≠ .self := by
    intro n h; rcases h with h | h
    · rw [h]; exact hn
    · rw [h]; decide
  cases t with
  | e => simp only [step]; exact key _ (stepExiter_nameStep _ _ _)
  | s i =>
    simp only [step]
    split
    · exact hn
    · exact key _ (stepSetter_nameStep _ _ _)
  | w i =>
    simp only [step]
    split
    · exact hn
    · rename_i w hw
      obtain ⟨pc, wk⟩ := w
      cases pc <;> simp only [stepWaiter] <;> (repeat' split) <;> exact hn
  | abandon i =>
    simp only [step]
    split
    · exact hn
    · split
      · exact hn
      · exact hn
      · split
        · simp only [notifyOne]; split <;> exact hn
        · exact hn
  | d i => simp only [step]; split <;> exact hn
  | succ =>
    simp only [step]
    split
    · simp
    · exact hn
  | unwind =>
    simp only [step]
    split
    · exact hn
    · split <;> (try split) <;> exact hn
  | kill => simp only [step]; split <;> exact hn

/-- at `status.unreg_name` the entry is removed -/
theorem name_none_after_unreg (g : G) (h : InvCore g) (h2 : g.exiter.pc.stage = 2) :
    (step g .e).sh.name = .none := by
  obtain ⟨sh, ex, setters, ws, drs⟩ := g
  obtain ⟨pc, post, lc, armed, unwound⟩ := ex
  have hv := h.valid
  simp only at h2 hv
  cases pc <;> (try rename_i c; cases c) <;> simp [EPc.stage] at h2 <;> simp [step, stepExiter, stepSet]

/-- stages 0 and 1 are left one at a time -/
theorem stage_small_step (g : G) (h : InvCore g) (h1 : g.exiter.pc.stage ≤ 1) :
    (step g .e).exiter.pc.stage ≤ 2 := by
  have h0 := h.sh.s0
  obtain ⟨sh, ex, setters, ws, drs⟩ := g
  obtain ⟨pc, post, lc, armed, unwound⟩ := ex
  have hv := h.valid
  simp only at h1 hv h0
  cases pc <;> (try rename_i c; cases c) <;> simp [EPc.stage] at h1 <;>
    simp only [EPc.valid, Bool.false_eq_true, Bool.and_eq_true, beq_iff_eq, decide_eq_true_eq] at hv
  · -- `set1 (publish s)`: the cleanup block is elected (status below `Stopping`)
    subst hv
    have hlt := h0 rfl
    have : (decide (stStopping ≥ stStopping) && decide (sh.status < stStopping)) = true := by simp [hlt]
    simp only [step, stepExiter, stepSet, this, if_true, EPc.stage]
    omega
  · simp [step, stepExiter, stepSet, EPc.stage]

/-- `3 ≤ stage → the name entry is not the exiting actor's` is an invariant -/
theorem name_gone_step (g : G) (t : Tid) (h : Inv g)
    (hn : 3 ≤ g.exiter.pc.stage → g.sh.name ≠ .self) :
    3 ≤ (step g t).exiter.pc.stage → (step g t).sh.name ≠ .self := by
  intro h3
  by_cases he : t = .e
  · subst he
    by_cases hs : 3 ≤ g.exiter.pc.stage
    · exact name_not_self_step g .e (hn hs)
    · by_cases h2 : g.exiter.pc.stage = 2
      · rw [name_none_after_unreg g h.toInvCore h2]; decide
      · have := stage_small_step g h.toInvCore (by omega); omega
  · by_cases hu : t = .unwind
    · subst hu
      have hs : 3 ≤ g.exiter.pc.stage := by
        by_cases hpc : g.exiter.pc = .terminate ∨ g.exiter.pc = .notifySup ∨ g.exiter.pc = .unlink
        · rcases hpc with e | e | e <;> rw [e] <;> simp [EPc.stage]
        · have hsame : (step g .unwind).exiter = g.exiter := by
            simp only [step]
            split
            · rfl
            · split
              all_goals first | rfl | (rename_i e; exact absurd (by simp [e]) hpc)
          rw [hsame] at h3; exact h3
      exact name_not_self_step g .unwind (hn hs)
    · rw [(other_steps_keep_exiter' g t he hu).1] at h3
      exact name_not_self_step g t (hn h3)

theorem name_gone_run (g : G) (l : List Tid) (h : Inv g)
    (hn : 3 ≤ g.exiter.pc.stage → g.sh.name ≠ .self) :
    3 ≤ (run g l).exiter.pc.stage → (run g l).sh.name ≠ .self := by
  induction l generalizing g with
  | nil => exact hn
  | cons t l ih =>
    simp only [run, List.foldl_cons]
    exact ih _ (inv_step g t h) (name_gone_step g t h hn)

/-! ### every step of the layer advances kids only by their own base steps -/

theorem Adv.trans {a b c : Kid} (h1 : Adv a b) (h2 : Adv b c) : Adv a c := by
  obtain ⟨l, e1⟩ := h1
  obtain ⟨m, e2⟩ := h2
  exact ⟨l ++ m, by rw [e2, e1]; simp [run, List.foldl_append]⟩

theorem adv_of_mem_set {kids : List Kid} {i : Nat} {kid kid' : Kid} (hk : kids[i]? = some kid)
    (ha : Adv kid kid') : ∀ k' ∈ kids.set i kid', ∃ k ∈ kids, Adv k k' := by
  intro k' hk'
  rcases List.mem_or_eq_of_mem_set hk' with h | h
  · exact ⟨k', h, Adv.refl' _ _ rfl⟩
  · exact ⟨kid, List.mem_of_getElem? hk, h ▸ ha⟩

theorem xstep_kids_adv (x : X) (t : XTid) : ∀ k' ∈ (xstep x t).kids, ∃ k ∈ x.kids, Adv k k' := by
  have same : ∀ k' ∈ x.kids, ∃ k ∈ x.kids, Adv k k' := fun k' h => ⟨k', h, Adv.refl' _ _ rfl⟩
  cases t with
  | kid k t =>
    simp only [xstep]; split
    · exact same
    · rename_i kid hk; exact adv_of_mem_set hk (Adv.one _ _ t rfl)
  | stop k =>
    simp only [xstep]; split
    · exact same
    · rename_i kid hk; exact adv_of_mem_set hk (Adv.refl' _ _ rfl)
  | kill k =>
    simp only [xstep]; split
    · exact same
    · rename_i kid hk; exact adv_of_mem_set hk (Adv.ite _ _ kid.signalOpen .kill rfl)
  | mark k =>
    simp only [xstep]; split
    · exact same
    · rename_i kid hk; exact adv_of_mem_set hk (Adv.refl' _ _ rfl)
  | call j =>
    simp only [xstep]; split
    · exact same
    · split
      · exact same
      · rename_i kid hk; exact adv_of_mem_set hk (callStep_adv kid _)
  | timeout j =>
    simp only [xstep]; split
    · exact same
    · split
      · exact same
      · rename_i kid hk; exact adv_of_mem_set hk (timeoutStep_adv kid _)
  | wrap i =>
    simp only [xstep]; split
    · exact same
    · split <;> exact same

theorem xrun_kids_adv (x : X) (l : List XTid) : ∀ k' ∈ (xrun x l).kids, ∃ k ∈ x.kids, Adv k k' := by
  induction l generalizing x with
  | nil => exact fun k' h => ⟨k', h, Adv.refl' _ _ rfl⟩
  | cons t l ih =>
    intro k' hk'
    simp only [xrun, List.foldl_cons] at hk'
    obtain ⟨k1, hk1, a1⟩ := ih (xstep x t) k' hk'
    obtain ⟨k0, hk0, a0⟩ := xstep_kids_adv x t k1 hk1
    exact ⟨k0, hk0, a0.trans a1⟩

/-- the name entry of every kid: released from `status.unreg_name` on, for good -/
theorem xrun_name_gone (x0 : X) (h0 : XInitial x0) (l : List XTid) :
    ∀ kid ∈ (xrun x0 l).kids, 3 ≤ kid.g.exiter.pc.stage → kid.g.sh.name ≠ .self := by
  intro kid hk
  obtain ⟨k0, hk0, ⟨m, e⟩⟩ := xrun_kids_adv x0 l kid hk
  have hi := h0.kids k0 hk0
  rw [e]
  exact name_gone_run k0.g m (inv_initial _ hi) (fun h3 => by rw [hi.exiter] at h3; simp [EPc.stage] at h3)

theorem loopGone_of_stage {pc : EPc} (h : 6 ≤ pc.stage) : pc.loopGone = true := by
  cases pc <;> (try rename_i c; cases c) <;> simp [EPc.stage] at h <;> rfl

/-! ### they do complete: every step of a call makes progress once the exit has finished -/

/-- steps a call still needs once its actor's exit sequence has finished -/
def Caller.rank (kid : Kid) (c : Caller) : Nat :=
  match c.pc with
  | .send => 6
  | .waiting => if c.form == .join then 1 else 1 + remaining kid.g c.w
  | .done _ => 0

theorem remaining_le (g : G) (i : Nat) : remaining g i ≤ 4 := by
  unfold remaining
  split
  · rename_i pc _; cases pc <;> simp [WPc.rank]
  · omega

theorem sendStep_pc (kid : Kid) (c : Caller) :
    ((sendStep kid c).2.pc = .waiting ∨ (sendStep kid c).2.pc = .done .sendErr) ∧
      (sendStep kid c).2.form = c.form := by
  unfold sendStep
  split
  · exact ⟨Or.inl rfl, rfl⟩
  · exact ⟨Or.inl rfl, rfl⟩
  · split
    · split
      · exact ⟨Or.inl rfl, rfl⟩
      · exact ⟨Or.inr rfl, rfl⟩
    · exact ⟨Or.inr rfl, rfl⟩
  · exact ⟨Or.inl rfl, rfl⟩
  · dsimp only
    split
    · exact ⟨Or.inl rfl, rfl⟩
    · split
      · exact ⟨Or.inl rfl, rfl⟩
      · exact ⟨Or.inr rfl, rfl⟩

theorem call_progress (kid : Kid) (c : Caller) (hi : Inv kid.g) (hf : kid.g.exiter.finished = true)
    (hd : c.isDone = false)
    (hslot : c.form ≠ .join → c.w < kid.g.waiters.length ∧ isAbandoned kid.g c.w = false) :
    Caller.rank (callStep kid c).1 (callStep kid c).2 < Caller.rank kid c := by
  unfold callStep
  split
  · -- the send step
    rename_i hs
    obtain ⟨hpc, hform⟩ := sendStep_pc kid c
    have hr := remaining_le (sendStep kid c).1.g (sendStep kid c).2.w
    simp only [Caller.rank, hs]
    rcases hpc with e | e <;> rw [e] <;> dsimp only
    · split <;> omega
    · omega
  · rename_i hs
    by_cases hj : c.form = .join
    · -- a join handle: the task has completed
      simp only [waitStep, hj, hf, if_true, Caller.rank, hs]
      simp
    · obtain ⟨hlt, hna⟩ := hslot hj
      have hjb : (c.form == Form.join) = false := by simpa using hj
      have hrank : Caller.rank kid c = 1 + remaining kid.g c.w := by simp [Caller.rank, hs, hjb]
      rw [hrank]
      unfold waitStep
      split
      · rename_i e; exact absurd e hj
      · dsimp only
        by_cases h0 : remaining kid.g c.w = 0
        · -- its waiter has already returned (somebody polled the slot): the call observes it
          have hret := returned_of_remaining_zero kid.g c.w hlt h0 hna
          have hw : ∃ w, kid.g.waiters[c.w]? = some w := ⟨_, List.getElem?_eq_getElem hlt⟩
          obtain ⟨w, hw⟩ := hw
          have hown := pcOf_own_step kid.g c.w w hw
          unfold isReturned at hret
          simp only [pcOf, hw, Option.map_some] at hret
          obtain ⟨pc, wk⟩ := w
          cases pc <;> simp at hret
          rename_i b
          have : waiterPc (step kid.g (.w c.w)) c.w = some (.returned b) := by
            have := hown; simp only [pcOf, stepWaiter] at this; exact this
          simp only [this, Caller.rank]
          omega
        · have hlt' := waiter_progress kid.g c.w hi.toInvCore hf (by omega)
          split
          · simp only [Caller.rank]; omega
          · simp only [Caller.rank, hs, hjb]
            have : ((false : Bool) = true) = False := by simp
            simp only [Bool.false_eq_true, if_false]
            omega
  · rename_i r hs; simp [Caller.isDone, hs] at hd

/-! ### terminal supervision events: one, or two after a panic in a later statement of `cleanup` -/

/-- the exiter is past `cleanup.notify` -/
def EPc.pastNotify : EPc → Bool
  | .unlink | .stopped | .set3 _ | .late _ _ | .done => true
  | _ => false

def b2n (b : Bool) : Nat := if b then 1 else 0

structure EvOk (g : G) : Prop where
  le : g.sh.supEvents ≤ b2n g.exiter.pc.pastNotify + b2n g.exiter.unwound
  ge : g.exiter.pc.pastNotify = true → 1 ≤ g.sh.supEvents

theorem stepSet_supEvents (sh : Sh) (ws : List Waiter) (c : SPc) :
    (stepSet sh ws c).1.supEvents = sh.supEvents := by
  cases c <;> simp only [stepSet, notifyOne] <;> (try split) <;> (try split) <;> rfl

theorem stepSetter_supEvents (sh : Sh) (ws : List Waiter) (t : Setter) :
    (stepSetter sh ws t).1.supEvents = sh.supEvents := by
  obtain ⟨call, rest⟩ := t
  cases call with
  | some c => simp only [stepSetter]; exact stepSet_supEvents sh ws c
  | none =>
    cases rest with
    | nil => rfl
    | cons s rest => simp only [stepSetter]; exact stepSet_supEvents sh ws (.publish s)

theorem lateEntry_past (l : List Nat) : (lateEntry l).pastNotify = true := by
  cases l <;> rfl

theorem EvOk.congr {g g' : G} (hs : g'.sh.supEvents = g.sh.supEvents)
    (hp : g'.exiter.pc.pastNotify = g.exiter.pc.pastNotify) (hu : g'.exiter.unwound = g.exiter.unwound)
    (h : EvOk g) : EvOk g' :=
  ⟨by rw [hs, hp, hu]; exact h.le, by rw [hs, hp]; exact h.ge⟩

theorem evok_e (g : G) (h : EvOk g) : EvOk (step g .e) := by
  obtain ⟨sh, ex, setters, ws, drs⟩ := g
  obtain ⟨pc, post, lc, armed, unwound⟩ := ex
  cases pc with
  | set1 c =>
    refine EvOk.congr ?_ ?_ ?_ h <;> simp only [step, stepExiter]
    · have := stepSet_supEvents sh ws c; revert this
      generalize stepSet sh ws c = r; obtain ⟨a, b, c'⟩ := r; intro this; cases c' <;> exact this
    · generalize stepSet sh ws c = r; obtain ⟨a, b, c'⟩ := r; cases c' <;> (try cases post) <;> rfl
    · generalize stepSet sh ws c = r; obtain ⟨a, b, c'⟩ := r; cases c' <;> rfl
  | set2 c =>
    refine EvOk.congr ?_ ?_ ?_ h <;> simp only [step, stepExiter]
    · have := stepSet_supEvents sh ws c; revert this
      generalize stepSet sh ws c = r; obtain ⟨a, b, c'⟩ := r; intro this; cases c' <;> exact this
    · generalize stepSet sh ws c = r; obtain ⟨a, b, c'⟩ := r; cases c' <;> rfl
    · generalize stepSet sh ws c = r; obtain ⟨a, b, c'⟩ := r; cases c' <;> rfl
  | set3 c =>
    refine EvOk.congr ?_ ?_ ?_ h <;> simp only [step, stepExiter]
    · have := stepSet_supEvents sh ws c; revert this
      generalize stepSet sh ws c = r; obtain ⟨a, b, c'⟩ := r; intro this; cases c' <;> exact this
    · generalize stepSet sh ws c = r; obtain ⟨a, b, c'⟩ := r
      cases c' <;> first | rfl | exact lateEntry_past lc
    · generalize stepSet sh ws c = r; obtain ⟨a, b, c'⟩ := r; cases c' <;> rfl
  | late c rest =>
    refine EvOk.congr ?_ ?_ ?_ h <;> simp only [step, stepExiter]
    · have := stepSet_supEvents sh ws c; revert this
      generalize stepSet sh ws c = r; obtain ⟨a, b, c'⟩ := r; intro this; cases c' <;> exact this
    · generalize stepSet sh ws c = r; obtain ⟨a, b, c'⟩ := r
      cases c' <;> first | rfl | exact lateEntry_past rest
    · generalize stepSet sh ws c = r; obtain ⟨a, b, c'⟩ := r; cases c' <;> rfl
  | postStop => (refine EvOk.congr ?_ ?_ ?_ h <;> rfl)
  | terminate => (refine EvOk.congr ?_ ?_ ?_ h <;> rfl)
  | notifySup =>
    obtain ⟨hle, hge⟩ := h
    refine ⟨?_, fun _ => by simp [step, stepExiter]⟩
    cases unwound <;> simp [step, stepExiter, EPc.pastNotify, b2n] at hle ⊢ <;> omega
  | unlink => (refine EvOk.congr ?_ ?_ ?_ h <;> rfl)
  | stopped => (refine EvOk.congr ?_ ?_ ?_ h <;> rfl)
  | done => (refine EvOk.congr ?_ ?_ ?_ h <;> rfl)

theorem evok_step (g : G) (t : Tid) (hi : Inv g) (h : EvOk g) : EvOk (step g t) := by
  cases t with
  | e => exact evok_e g h
  | s i =>
    have he := other_steps_keep_exiter g (.s i) (by simp) (by simp) (by simp)
    have hs : (step g (.s i)).sh.supEvents = g.sh.supEvents := by
      simp only [step]; split
      · rfl
      · exact stepSetter_supEvents _ _ _
    exact ⟨by rw [he, hs]; exact h.le, by rw [he, hs]; exact h.ge⟩
  | w i =>
    have he := other_steps_keep_exiter g (.w i) (by simp) (by simp) (by simp)
    have hs : (step g (.w i)).sh.supEvents = g.sh.supEvents := by
      simp only [step]; split
      · rfl
      · rename_i w hw
        obtain ⟨pc, wk⟩ := w
        cases pc <;> simp only [stepWaiter] <;> (repeat' split) <;> rfl
    exact ⟨by rw [he, hs]; exact h.le, by rw [he, hs]; exact h.ge⟩
  | abandon i =>
    have he := other_steps_keep_exiter g (.abandon i) (by simp) (by simp) (by simp)
    have hs : (step g (.abandon i)).sh.supEvents = g.sh.supEvents := by
      simp only [step]; split
      · rfl
      · split
        · rfl
        · rfl
        · split
          · simp only [notifyOne]; split <;> rfl
          · rfl
    exact ⟨by rw [he, hs]; exact h.le, by rw [he, hs]; exact h.ge⟩
  | d i =>
    have he := other_steps_keep_exiter g (.d i) (by simp) (by simp) (by simp)
    have hs : (step g (.d i)).sh.supEvents = g.sh.supEvents := by
      simp only [step]; split <;> rfl
    exact ⟨by rw [he, hs]; exact h.le, by rw [he, hs]; exact h.ge⟩
  | succ =>
    have he := other_steps_keep_exiter g .succ (by simp) (by simp) (by simp)
    have hs : (step g .succ).sh.supEvents = g.sh.supEvents := by
      simp only [step]; split <;> rfl
    exact ⟨by rw [he, hs]; exact h.le, by rw [he, hs]; exact h.ge⟩
  | kill =>
    obtain ⟨hpc, hun, _⟩ := other_steps_keep_exiter' g .kill (by simp) (by simp)
    have hs : (step g .kill).sh.supEvents = g.sh.supEvents := by
      simp only [step]; split <;> rfl
    exact ⟨by rw [hpc, hun, hs]; exact h.le, by rw [hpc, hs]; exact h.ge⟩
  | unwind =>
    obtain ⟨hle, hge⟩ := h
    have harm := hi.armed
    obtain ⟨sh, ex, setters, ws, drs⟩ := g
    obtain ⟨pc, post, lc, armed, unwound⟩ := ex
    simp only at hle hge harm
    cases unwound
    · cases pc <;> simp only [step, Bool.false_eq_true, if_false] <;>
        first
        | exact ⟨hle, hge⟩
        | (have ha : armed = true := harm (by simp [EPc.stage])
           subst ha
           simp only [if_true]
           refine ⟨?_, by simp [EPc.pastNotify]⟩
           simp only [EPc.pastNotify, b2n] at hle ⊢
           simp only [Bool.false_eq_true, if_false, if_true] at hle ⊢
           omega)
    · simp only [step, if_true]; exact ⟨hle, hge⟩

theorem evok_run (g : G) (l : List Tid) (hi : Inv g) (h : EvOk g) : EvOk (run g l) := by
  induction l generalizing g with
  | nil => exact h
  | cons t l ih =>
    simp only [run, List.foldl_cons]
    exact ih _ (inv_step g t hi) (evok_step g t hi h)

theorem finished_pastNotify {ex : Exiter} (h : ex.finished = true) : ex.pc.pastNotify = true := by
  obtain ⟨pc, post, lc, armed, unwound⟩ := ex
  cases pc <;> simp [Exiter.finished] at h <;> rfl

/-! ### `post_stop` is skipped only after an accepted kill -/

theorem stepSet_killPending (sh : Sh) (ws : List Waiter) (c : SPc) :
    (stepSet sh ws c).1.killPending = sh.killPending := by
  cases c <;> simp only [stepSet, notifyOne] <;> (try split) <;> (try split) <;> rfl

theorem stepSetter_killPending (sh : Sh) (ws : List Waiter) (t : Setter) :
    (stepSetter sh ws t).1.killPending = sh.killPending := by
  obtain ⟨call, rest⟩ := t
  cases call with
  | some c => simp only [stepSetter]; exact stepSet_killPending sh ws c
  | none =>
    cases rest with
    | nil => rfl
    | cons s rest => simp only [stepSetter]; exact stepSet_killPending sh ws (.publish s)

theorem stepExiter_hasPostStop (sh : Sh) (ws : List Waiter) (ex : Exiter) :
    (stepExiter sh ws ex).2.2.hasPostStop = ex.hasPostStop := by
  obtain ⟨pc, post, lc, armed, unwound⟩ := ex
  cases pc <;> simp only [stepExiter] <;>
    first
    | rfl
    | (rename_i c; generalize stepSet sh ws c = r; obtain ⟨a, b, c'⟩ := r; cases c' <;> rfl)
    | (rename_i c rest; generalize stepSet sh ws c = r; obtain ⟨a, b, c'⟩ := r; cases c' <;> rfl)

theorem stepExiter_killPending (sh : Sh) (ws : List Waiter) (ex : Exiter) :
    (stepExiter sh ws ex).1.killPending = sh.killPending := by
  obtain ⟨pc, post, lc, armed, unwound⟩ := ex
  cases pc <;> simp only [stepExiter] <;>
    first
    | rfl
    | (rename_i c
       have := stepSet_killPending sh ws c; revert this
       generalize stepSet sh ws c = r; obtain ⟨a, b, c'⟩ := r; intro this; cases c' <;> exact this)
    | (rename_i c rest
       have := stepSet_killPending sh ws c; revert this
       generalize stepSet sh ws c = r; obtain ⟨a, b, c'⟩ := r; intro this; cases c' <;> exact this)

theorem step_keeps_kp (g : G) (t : Tid) (ht : t ≠ .kill) :
    (step g t).exiter.hasPostStop = g.exiter.hasPostStop ∧ (step g t).sh.killPending = g.sh.killPending := by
  cases t with
  | e => simp only [step]; exact ⟨stepExiter_hasPostStop _ _ _, stepExiter_killPending _ _ _⟩
  | s i =>
    simp only [step]; split
    · first | exact ⟨rfl, rfl⟩ | simp
    · exact ⟨rfl, stepSetter_killPending _ _ _⟩
  | w i =>
    simp only [step]; split
    · first | exact ⟨rfl, rfl⟩ | simp
    · rename_i w hw
      obtain ⟨pc, wk⟩ := w
      cases pc <;> simp only [stepWaiter] <;> (repeat' split) <;> first | exact ⟨rfl, rfl⟩ | simp
  | abandon i =>
    simp only [step]; split
    · first | exact ⟨rfl, rfl⟩ | simp
    · split
      · first | exact ⟨rfl, rfl⟩ | simp
      · first | exact ⟨rfl, rfl⟩ | simp
      · split
        · simp only [notifyOne]; split <;> first | exact ⟨rfl, rfl⟩ | simp
        · first | exact ⟨rfl, rfl⟩ | simp
  | d i => simp only [step]; split <;> first | exact ⟨rfl, rfl⟩ | simp
  | succ => simp only [step]; split <;> first | exact ⟨rfl, rfl⟩ | simp
  | unwind =>
    simp only [step]; split
    · first | exact ⟨rfl, rfl⟩ | simp
    · split <;> (try split) <;> first | exact ⟨rfl, rfl⟩ | simp
  | kill => exact absurd rfl ht

/-- `hasPostStop` is what it was initially unless a kill was accepted before `post_stop` -/
theorem kp_step (p0 : Bool) (g : G) (t : Tid) (h : g.exiter.hasPostStop = (p0 && !g.sh.killPending)) :
    (step g t).exiter.hasPostStop = (p0 && !(step g t).sh.killPending) := by
  by_cases ht : t = .kill
  · subst ht
    simp only [step]
    split
    · simp only
      rw [h]; cases p0 <;> cases g.sh.killPending <;> rfl
    · exact h
  · obtain ⟨h1, h2⟩ := step_keeps_kp g t ht
    rw [h1, h2]; exact h

theorem kp_run (p0 : Bool) (g : G) (l : List Tid) (h : g.exiter.hasPostStop = (p0 && !g.sh.killPending)) :
    (run g l).exiter.hasPostStop = (p0 && !(run g l).sh.killPending) := by
  induction l generalizing g with
  | nil => exact h
  | cons t l ih =>
    simp only [run, List.foldl_cons]
    exact ih _ (kp_step p0 g t h)

end ExitRace
