import RactorModel.Model.Boxing
import Driver.Common

/-! Driver for the boxing model (C02 in cluster builds).
ops: `case` | `send <local|remote> <right|wrong|ser|nonser> <cell|ref>`
impl: `<ok|invalid-type|…> handled=<n> serialized=<n> alive=<bool>` -/

namespace Driver.BoxingD
open _root_.Boxing Driver

structure DS where
  loc : Target := ⟨false, 0, 0, true⟩
  rem : Target := ⟨true, 0, 0, true⟩

def parseKind? : String → Option MsgKind
  | "right" => some .right | "wrong" => some .wrong | "ser" => some .ser | "nonser" => some .nonser | _ => none

def showT (r : Res) (t : Target) : String :=
  s!"{match r with | .ok => "ok" | .invalidType => "invalid-type"} handled={t.handled} serialized={t.serialized} alive={t.alive}"

def step (ds : DS) (op impl : String) : DS × StepOut :=
  match words op with
  | ["case"] => ({}, { model := "ok" })
  | ["send", tgt, m, _via] =>
    match parseKind? m with
    | some k =>
      let t := if tgt == "remote" then ds.rem else ds.loc
      let (t', r) := send t k
      let ds' := if tgt == "remote" then { ds with rem := t' } else { ds with loc := t' }
      -- oracle on the implementation's own answer: a wrong-type / non-serializable-to-remote send
      -- must be refused, and a refused send must not change or disturb the target
      let refusedExpected := r == .invalidType
      let orc :=
        (if refusedExpected && !impl.startsWith "invalid-type" then ["c02.wrong-type-not-rejected"] else []) ++
        (if refusedExpected && !(impl.endsWith s!"handled={t.handled} serialized={t.serialized} alive=true")
          then ["c02.rejected-send-disturbed-actor"] else [])
      (ds', { model := showT r t', oracle := orc, nontrivial := true })
    | none => (ds, { model := "bad-op" })
  | _ => (ds, { model := "bad-op" })

def run (ops impl : Array String) : IO Tally := replay ({} : DS) step ops impl

end Driver.BoxingD
