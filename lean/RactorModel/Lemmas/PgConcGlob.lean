import RactorModel.Lemmas.PgConcRun

/-!
Never weakened, whatever is in flight: the forward map has unique keys and the scope index lists
exactly the groups that have members (every region that adds or removes a member updates the scope
index while it still holds the group entry).
-/

namespace Pg.Conc
open AList Pg Pg.Fine

structure Glob (st : State) : Prop where
  kMap : NodupKeys st.map
  idx : ∀ s g, g ∈ idxOf st s ↔ ∃ x, x ∈ membersOf st (s, g)

theorem glob_of_inv {st : State} (h : Inv st) : Glob st :=
  ⟨h.kMap, fun s g => by rw [h.idx, ne_nil_iff]⟩

theorem glob_congr {st st' : State} (h : Glob st) (hm : st'.map = st.map) (hi : st'.index = st.index) : Glob st' := by
  constructor
  · rw [hm]; exact h.kMap
  · intro s g; unfold idxOf membersOf; rw [hm, hi]; exact h.idx s g

theorem glob_of_trans {st st' : State} {e : Eff} (h : Glob st) (t : Trans st st' e) (hk : NodupKeys st'.map)
    (hi : st'.index = st.index) (hna : ∀ k x, ¬ e.addM k x) (hnd : ∀ k x, ¬ e.delM k x) : Glob st' := by
  refine ⟨hk, ?_⟩
  intro s g
  have : idxOf st' s = idxOf st s := by unfold idxOf; rw [hi]
  rw [this, h.idx]
  constructor
  · rintro ⟨x, hx⟩; exact ⟨x, (t.m _ x).mpr (Or.inl ⟨hx, hnd _ x⟩)⟩
  · rintro ⟨x, hx⟩
    rcases (t.m _ x).mp hx with ⟨y, _⟩ | y
    · exact ⟨x, y⟩
    · exact absurd y (hna _ x)

theorem glob_join {st : State} (h : Glob st) (s g : Nat) (as : List Nat) : Glob (join st s g as).1 := by
  constructor
  · by_cases hne : as.filter (alive st) = []
    · rw [join_noop st s g as hne]; exact h.kMap
    · rw [join_state st s g as hne]; exact nodupKeys_set h.kMap _ _
  · intro s' g'
    have hne : as.filter (alive st) ≠ [] ↔ ∃ x, x ∈ as ∧ x ∉ st.dead := by
      rw [ne_nil_iff]; simp only [mem_filter_alive]
    unfold idxOf
    rw [join_index_get]
    simp only [join_members, Prod.mk.injEq]
    by_cases c : s' = s ∧ as.filter (alive st) ≠ []
    · obtain ⟨rfl, c2⟩ := c
      rw [if_pos ⟨rfl, c2⟩]
      simp only [Option.getD_some, mem_ins, h.idx, true_and]
      obtain ⟨y, hy1, hy2⟩ := hne.mp c2
      constructor
      · rintro (rfl | ⟨x, hx⟩)
        · exact ⟨y, Or.inr ⟨rfl, hy1, hy2⟩⟩
        · exact ⟨x, Or.inl hx⟩
      · rintro ⟨x, hx | ⟨rfl, _⟩⟩
        · exact Or.inr ⟨x, hx⟩
        · exact Or.inl rfl
    · rw [if_neg c]
      have := h.idx s' g'
      unfold idxOf at this
      rw [this]
      constructor
      · rintro ⟨x, hx⟩; exact ⟨x, Or.inl hx⟩
      · rintro ⟨x, hx | ⟨⟨rfl, rfl⟩, h1, h2⟩⟩
        · exact ⟨x, hx⟩
        · exact absurd ⟨rfl, hne.mpr ⟨x, h1, h2⟩⟩ c

theorem glob_leave {st : State} (h : Glob st) (s g : Nat) (as : List Nat) {gs : GS}
    (hg : get st.map (s, g) = some gs) : Glob (leave st s g as).1 := by
  have hgm : membersOf st (s, g) = gs.members := by unfold membersOf; rw [hg]; rfl
  constructor
  · rw [leave_state st s g as hg]
    dsimp only
    exact nodupKeys_alter h.kMap _ _
  · intro s' g'
    have hfil : gs.members.filter (fun a => !as.contains a) = [] ↔ ¬ ∃ x, x ∈ membersOf st (s, g) ∧ x ∉ as := by
      rw [hgm, List.filter_eq_nil_iff]
      constructor
      · rintro h1 ⟨x, hx, hx2⟩; exact h1 x hx (by simpa using hx2)
      · intro h1 x hx hc; exact h1 ⟨x, hx, by simpa using hc⟩
    rw [leave_idxOf st s g as hg]
    simp only [leave_members st s g as hg, Prod.mk.injEq]
    by_cases c : s' = s ∧ gs.members.filter (fun a => !as.contains a) = []
    · obtain ⟨rfl, c2⟩ := c
      rw [if_pos ⟨rfl, c2⟩]
      simp only [mem_del, h.idx, true_and]
      have c3 := hfil.mp c2
      constructor
      · rintro ⟨⟨x, hx⟩, hne⟩
        exact ⟨x, hx, fun hh => hne hh.1⟩
      · rintro ⟨x, hx, hne⟩
        refine ⟨⟨x, hx⟩, ?_⟩
        rintro rfl
        exact c3 ⟨x, hx, fun hh => hne ⟨rfl, hh⟩⟩
    · rw [if_neg c, h.idx]
      constructor
      · rintro ⟨x, hx⟩
        by_cases e : s' = s ∧ g' = g
        · obtain ⟨rfl, rfl⟩ := e
          have : ¬ gs.members.filter (fun a => !as.contains a) = [] := fun z => c ⟨rfl, z⟩
          rw [hfil] at this
          have := Classical.not_not.mp this
          obtain ⟨y, hy, hy2⟩ := this
          exact ⟨y, hy, fun hh => hy2 hh.2⟩
        · exact ⟨x, hx, fun hh => e hh.1⟩
      · rintro ⟨x, hx, _⟩; exact ⟨x, hx⟩

theorem idxOf_removeFromIndex (st : State) (k : Key) (s' : Nat) :
    (get (removeFromIndex st.index k) s').getD [] = if s' = k.1 then del k.2 (idxOf st s') else idxOf st s' := by
  unfold idxOf removeFromIndex
  rw [get_alter]
  by_cases e : s' = k.1
  · rw [if_pos e, if_pos e, e]
    cases get st.index k.1 with
    | none => simp [del]
    | some l =>
      simp only [Option.bind_some, Option.getD_some]
      by_cases c : del k.2 l = []
      · rw [if_pos c, c]; rfl
      · rw [if_neg c]; rfl
  · rw [if_neg e, if_neg e]

theorem glob_leaveKey {st : State} (h : Glob st) (b : Nat) (k : Key) : Glob (leaveKey st b k).1 := by
  by_cases c : b ∈ membersOf st k
  · have t := trans_leaveKey st b k
    constructor
    · unfold leaveKey; rw [if_pos c]; exact nodupKeys_alter h.kMap _ _
    · intro s' g'
      have hi : idxOf (leaveKey st b k).1 s' =
          if del b (membersOf st k) = [] then (if s' = k.1 then del k.2 (idxOf st s') else idxOf st s')
          else idxOf st s' := by
        unfold leaveKey; rw [if_pos c]
        unfold idxOf
        simp only
        split
        · exact idxOf_removeFromIndex st k s'
        · rfl
      rw [hi]
      have hdel : del b (membersOf st k) = [] ↔ ¬ ∃ x, x ∈ membersOf st k ∧ x ≠ b := by
        constructor
        · rintro e ⟨x, hx, hne⟩
          have : x ∈ del b (membersOf st k) := mem_del.mpr ⟨hx, hne⟩
          rw [e] at this; cases this
        · intro h1
          apply List.eq_nil_iff_forall_not_mem.mpr
          intro x hx; exact h1 ⟨x, (mem_del.mp hx).1, (mem_del.mp hx).2⟩
      have hm : ∀ x, x ∈ membersOf (leaveKey st b k).1 (s', g') ↔ x ∈ membersOf st (s', g') ∧ ¬ ((s', g') = k ∧ x = b) := by
        intro x; rw [t.m]; simp [leaveKeyEff]
      simp only [hm]
      by_cases e : del b (membersOf st k) = []
      · rw [if_pos e]
        have e' := hdel.mp e
        by_cases e2 : s' = k.1
        · rw [if_pos e2]
          simp only [mem_del, h.idx]
          constructor
          · rintro ⟨⟨x, hx⟩, hne⟩
            refine ⟨x, hx, ?_⟩
            rintro ⟨hk, _⟩
            apply hne; rw [← hk]
          · rintro ⟨x, hx, hne⟩
            refine ⟨⟨x, hx⟩, ?_⟩
            intro hg
            have hk : (s', g') = k := by rw [e2, hg]
            apply e'
            refine ⟨x, hk ▸ hx, fun hxb => hne ⟨hk, hxb⟩⟩
        · rw [if_neg e2, h.idx]
          constructor
          · rintro ⟨x, hx⟩
            exact ⟨x, hx, fun hh => e2 (by rw [← hh.1])⟩
          · rintro ⟨x, hx, _⟩; exact ⟨x, hx⟩
      · rw [if_neg e, h.idx]
        have e' := Classical.not_not.mp (fun z => e (hdel.mpr z))
        constructor
        · rintro ⟨x, hx⟩
          by_cases hk : (s', g') = k
          · obtain ⟨y, hy, hyb⟩ := e'
            exact ⟨y, hk ▸ hy, fun hh => hyb hh.2⟩
          · exact ⟨x, hx, fun hh => hk hh.1⟩
        · rintro ⟨x, hx, _⟩; exact ⟨x, hx⟩
  · have : (leaveKey st b k).1 = st := by unfold leaveKey; rw [if_neg c]
    rw [this]; exact h

theorem glob_touchGroup {st : State} (h : Glob st) (k : Key) : Glob (touchGroup st k) :=
  glob_of_trans h (trans_of_same (same_touchGroup st k))
    (by unfold touchGroup; dsimp only; exact nodupKeys_alter h.kMap _ _) rfl (by simp) (by simp)

theorem glob_call {st : State} (h : Glob st) (pc : Pc) : Glob (callStep st pc).1 := by
  cases pc with
  | join s g as => exact h
  | joinFiltered s g as => exact h
  | joinIn s g as todo => exact h
  | joinEntered s g as p =>
    exact glob_of_trans h (trans_of_same (same_joinCleanup st s g as))
      (by show NodupKeys (joinCleanup st s g as).map; unfold joinCleanup; dsimp only; exact nodupKeys_alter h.kMap _ _) rfl
      (by simp) (by simp)
  | notify p => exact h
  | leave s g as =>
    show Glob (leaveEntry st s g as).1
    cases hg : get st.map (s, g) with
    | none => rw [leaveEntry_none st s g as hg]; exact h
    | some gs => rw [leaveEntry_some st s g as hg]; exact glob_leave h s g as hg
  | monitor g b => exact glob_congr h rfl rfl
  | monitorRel g b =>
    show Glob (monitorEntry st g b)
    unfold monitorEntry
    by_cases hd : b ∈ st.dead
    · have : alive st b = false := by simp [alive, hd]
      rw [this]; exact glob_touchGroup h _
    · have : alive st b = true := alive_iff.mpr hd
      rw [this, if_pos rfl]
      refine glob_of_trans h (trans_monitor_alive st g b hd) ?_ ?_ (by simp [monitorEff]) (by simp [monitorEff])
      · rw [monitor_alive_state st g b hd]; exact nodupKeys_set h.kMap _ _
      · rw [monitor_alive_state st g b hd]
  | monitorRecheck g b =>
    show Glob (monitorRecheck st g b)
    have t := trans_of_same (same_monitorRecheck st g b)
    refine glob_of_trans h t ?_ ?_ (by simp) (by simp)
    · unfold monitorRecheck; split
      · exact h.kMap
      · dsimp only; exact nodupKeys_alter h.kMap _ _
    · unfold monitorRecheck; split <;> rfl
  | monitorScope s b => exact glob_congr h rfl rfl
  | monitorScopeRel s b =>
    show Glob (monitorScopeEntry st s b)
    unfold monitorScopeEntry
    by_cases hd : b ∈ st.dead
    · have : alive st b = false := by simp [alive, hd]
      rw [this]; exact glob_congr h rfl rfl
    · have : alive st b = true := alive_iff.mpr hd
      rw [this, if_pos rfl, monitorScope_alive_state st s b hd]; exact glob_congr h rfl rfl
  | monitorScopeRecheck s b =>
    show Glob (monitorScopeRecheck st s b)
    refine glob_congr h ?_ ?_ <;> (unfold monitorScopeRecheck; split <;> rfl)
  | demonitor g b =>
    exact glob_of_trans h (trans_demonitor st g b)
      (by show NodupKeys (demonitor st g b).map; unfold demonitor; dsimp only; exact nodupKeys_alter h.kMap _ _) rfl (by simp [demonitorEff])
      (by simp [demonitorEff])
  | demonitorScope s b => exact glob_congr h rfl rfl
  | demonitorCall g b => exact h
  | demonitorScopeCall s b => exact h
  | demonitorFwd g b =>
    exact glob_of_trans h (trans_demonitorFwd st g b)
      (by show NodupKeys (demonitorFwdSt st g b).map; unfold demonitorFwdSt; dsimp only; exact nodupKeys_alter h.kMap _ _) rfl
      (by simp [demFwdEff]) (by simp [demFwdEff])
  | demonitorScopeFwd s b => exact glob_congr h rfl rfl
  | done => exact h

theorem glob_exreg {st : State} (h : Glob st) (b : Nat) (ph : Phase) (r : ExReg) :
    Glob (fstep b ⟨st, ph⟩ r.toFOp).st := by
  cases r with
  | mark => cases ph <;> first | exact h | exact glob_congr h rfl rfl
  | demTake => cases ph <;> first | exact h | exact glob_congr h rfl rfl
  | demKey k =>
    cases ph with
    | demon gk wk =>
      simp only [ExReg.toFOp, fstep]
      split
      · exact glob_of_trans h (trans_demonKey st b k)
          (by unfold demonKey; dsimp only; exact nodupKeys_alter h.kMap _ _) rfl (by simp [demonKeyEff])
          (by simp [demonKeyEff])
      · exact h
    | _ => exact h
  | demWKey s =>
    cases ph with
    | demon gk wk =>
      simp only [ExReg.toFOp, fstep]
      split
      · exact glob_congr h rfl rfl
      · exact h
    | _ => exact h
  | demDone =>
    cases ph with
    | demon gk wk =>
      cases gk with
      | nil => cases wk <;> exact h
      | cons _ _ => exact h
    | _ => exact h
  | take => cases ph <;> first | exact h | exact glob_congr h rfl rfl
  | lvKey k =>
    cases ph with
    | leaving mk rm =>
      simp only [ExReg.toFOp, fstep]
      split
      · exact glob_leaveKey h b k
      · exact h
    | _ => exact h
  | finish =>
    cases ph with
    | leaving mk rm =>
      cases mk with
      | nil => exact glob_congr h rfl rfl
      | cons _ _ => exact h
    | _ => exact h

theorem glob_joinCommit {st : State} (h : Glob st) (k : Key) (joined : List Nat) : Glob (joinCommit st k joined) := by
  by_cases hj : joined = []
  · unfold joinCommit; rw [if_pos hj]; exact h
  · constructor
    · unfold joinCommit; rw [if_neg hj]; exact nodupKeys_set h.kMap _ _
    · intro s' g'
      obtain ⟨y, hy⟩ := List.exists_mem_of_ne_nil _ hj
      have hi : idxOf (joinCommit st k joined) s' = if s' = k.1 then ins k.2 (idxOf st s') else idxOf st s' := by
        unfold joinCommit; rw [if_neg hj]
        unfold idxOf addToIndex
        simp only [get_alter]
        by_cases e : s' = k.1
        · rw [if_pos e, if_pos e, e]; rfl
        · rw [if_neg e, if_neg e]
      rw [hi]
      simp only [joinCommit_members]
      by_cases e : s' = k.1
      · rw [if_pos e]
        simp only [mem_ins, h.idx]
        constructor
        · rintro (rfl | ⟨x, hx⟩)
          · exact ⟨y, Or.inr ⟨by rw [e], hy⟩⟩
          · exact ⟨x, Or.inl hx⟩
        · rintro ⟨x, hx | ⟨hk, _⟩⟩
          · exact Or.inr ⟨x, hx⟩
          · left; rw [← hk]
      · rw [if_neg e, h.idx]
        constructor
        · rintro ⟨x, hx⟩; exact ⟨x, Or.inl hx⟩
        · rintro ⟨x, hx | ⟨hk, _⟩⟩
          · exact ⟨x, hx⟩
          · exact absurd (by rw [← hk]) e

theorem glob_step {g : G} (h : Glob g.st) (t : Tid) : Glob (step g t).st := by
  cases t with
  | ex b r =>
    by_cases hs : exSkip g b r
    · rw [step_ex_skip g b r hs]; exact h
    · rw [step_ex g b r hs]; exact glob_exreg h b _ r
  | call i =>
    cases hp : g.thr[i]? with
    | none => rw [step_call_none g i hp]; exact h
    | some pc =>
      by_cases hb : blocked g pc
      · rw [step_call_blocked g i pc hp hb]; exact h
      · by_cases c1 : ∃ s g' as, pc = .joinFiltered s g' as
        · obtain ⟨s, g', as, rfl⟩ := c1
          rw [step_call_lock g i s g' as hp hb]; exact glob_touchGroup h _
        · by_cases c2 : ∃ s g' as todo, pc = .joinIn s g' as todo
          · obtain ⟨s, g', as, todo, rfl⟩ := c2
            cases todo with
            | nil => rw [step_call_commit g i s g' as hp]; exact glob_joinCommit h _ _
            | cons x todo =>
              rw [step_call_one g i s g' as x todo hp]
              show Glob (if joinOk g (s, g') x then joinOne g.st (s, g') x else g.st)
              split
              · exact glob_congr h rfl rfl
              · exact h
          · have h1 : ∀ s g' as, pc ≠ .joinFiltered s g' as := fun s g' as e => c1 ⟨s, g', as, e⟩
            have h2 : ∀ s g' as todo, pc ≠ .joinIn s g' as todo := fun s g' as todo e => c2 ⟨s, g', as, todo, e⟩
            rw [step_call_other g i pc hp hb h1 h2]; exact glob_call h pc

theorem glob_run {g : G} (h : Glob g.st) (sched : List Tid) : Glob (run g sched).st := by
  unfold run
  induction sched generalizing g with
  | nil => exact h
  | cons t ts ih => exact ih (glob_step h t)

theorem mem_nonEmptyKeys_of_nodup {st : State} (hk : NodupKeys st.map) (k : Key) :
    k ∈ nonEmptyKeys st ↔ ∃ x, x ∈ membersOf st k := by
  unfold nonEmptyKeys
  simp only [List.mem_map, List.mem_filter, Bool.not_eq_eq_eq_not, Bool.not_true, List.isEmpty_eq_false_iff]
  constructor
  · rintro ⟨⟨k', gs⟩, ⟨hp, hne⟩, rfl⟩
    have hg := get_of_mem hk hp
    obtain ⟨x, hx⟩ := List.exists_mem_of_ne_nil _ hne
    refine ⟨x, ?_⟩
    unfold membersOf; rw [hg]; exact hx
  · rintro ⟨x, hx⟩
    cases hg : get st.map k with
    | none => unfold membersOf at hx; rw [hg] at hx; cases hx
    | some gs =>
      refine ⟨(k, gs), ⟨mem_of_get hg, ?_⟩, rfl⟩
      unfold membersOf at hx; rw [hg] at hx
      intro e
      have hx' : x ∈ gs.members := hx
      rw [e] at hx'; cases hx'

end Pg.Conc
