import RactorModel.Model.RegistryConc

/-!
# Model `Reg3` (C10, round 4 wave 2) — SEVERAL publisher threads per cell

Core Lean only.  `Reg2` (`Model/RegistryConc.lean`) has one program counter per actor: `publish` is enabled only
when `pc = .live`, so two `set_status` calls on ONE cell can never overlap — the second caller is silently
skipped while the first one runs its cleanup block.  In the code nothing forbids it: `ActorCell::set_status`
takes `&self`, any holder of the cell may call it from any thread.  Here every (cell, thread) pair has its own
program counter inside `set_status`:

```text
set_status(st):   prev = status.fetch_max(st)                  -- `publish a t st` (atomic)
                  if st ≥ Stopping ∧ prev < Stopping {         -- THIS call is elected (at most one per cell ever,
                      demonitor; unregister_pid; unregister }  --   the word only grows) — `bstep a t`, one each
                  (notify the waiters)                         -- `wait()` looks at the status word alone
                  return                                       -- `done a t` := the call's `st`
```

A call that is not elected returns at once — also while the elected caller is still inside its block.  That is the
whole point: "the status word is ≥ Stopping" does NOT mean "the name has been removed".

The constructor is the same program as in `Reg2` (`new` ; `regName` ; `regPid` / `regPidFail` ; `rollback`, one
DashMap operation each), so every interleaving of `Reg2` without monitors is a run of this model with one thread
per cell.  While a cell is under construction nobody has a reference to it: `set_status` is enabled only once the
constructor has returned `Ok` (`born`).  The pid monitors and their event log are not repeated here.

Ghost fields (never read by a step that changes a table or the status word): `el` = the thread whose call won
the election of the cell, `done a t` = the highest status of which a `set_status` call by `t` on `a` has RETURNED.
The hypotheses about the callers (`Reg3.Disc` and the weaker ones shown insufficient) are phrased with them.
-/

namespace Reg3

open Reg2 (Stmt blockProg upd stopping stopped)

/-- where thread `t` is inside `set_status` on one cell -/
inductive TPc
  | idle
  | blk (rest : List Stmt) (st : Nat)   -- elected, statements of the cleanup block still to run
  deriving DecidableEq, Repr

/-- where the constructor `ActorCell::new` of a cell is (`Reg2.Pc` without `live`/`blk`) -/
inductive CPc | none | name | pid | rollback | failed | done
  deriving DecidableEq, Repr

/-- the cell's name entry may be in the table as far as the constructor is concerned -/
def CPc.holds : CPc → Bool
  | .pid | .rollback | .done => true
  | _ => false

structure Cell where
  name : Option Nat := none
  remote : Bool := false
  status : Nat := 0
  /-- the constructor has returned `Ok`: references to the cell exist -/
  born : Bool := false
  /-- program counter of the constructor -/
  cons : CPc := .none
  /-- ghost: the thread whose `set_status` call was elected to run the cleanup block -/
  el : Option Nat := none
  deriving DecidableEq, Repr

structure State where
  cell : Nat → Cell := fun _ => {}
  /-- `thr a t`: thread `t` inside `set_status` on cell `a` -/
  thr : Nat → Nat → TPc := fun _ _ => .idle
  /-- ghost: `done a t` = highest status whose `set_status` call by `t` on `a` has returned -/
  done : Nat → Nat → Nat := fun _ _ => 0
  names : Nat → Option Nat := fun _ => none
  pids : Nat → Bool := fun _ => false

def init : State := {}

inductive Op
  | new (a : Nat) (name : Option Nat)
  | regName (a : Nat)
  | regPid (a : Nat)
  | regPidFail (a : Nat)
  | rollback (a : Nat)
  | spawnRemote (a : Nat) (name : Option Nat)
  | publish (a t st : Nat)
  | bstep (a t : Nat)
  deriving DecidableEq, Repr

def upd2 {α : Type} (f : Nat → Nat → α) (i j : Nat) (v : α) : Nat → Nat → α :=
  fun x y => if x = i ∧ y = j then v else f x y

/-- one statement of the cleanup block of cell `a` (whoever runs it) — `Reg2.exec` without the monitors -/
def exec (s : State) (a : Nat) : Stmt → State
  | .demonitor => s
  | .unregPid => if !(s.cell a).remote then { s with pids := upd s.pids a false } else s
  | .unregName =>
    match (s.cell a).name with
    | some n => if !(s.cell a).remote then { s with names := upd s.names n none } else s
    | none => s

def step (s : State) : Op → State
  | .new a name =>
    if (s.cell a).born = false ∧ (s.cell a).cons = .none then
      { s with cell := upd s.cell a { name := name, cons := if name.isSome then .name else .pid } }
    else s
  | .regName a =>
    match (s.cell a).cons, (s.cell a).name with
    | .name, some n =>
      if s.names n = none then
        { s with cell := upd s.cell a { s.cell a with cons := .pid }, names := upd s.names n (some a) }
      else { s with cell := upd s.cell a { s.cell a with cons := .failed } }   -- `AlreadyRegistered`
    | _, _ => s
  | .regPid a =>
    if (s.cell a).cons = .pid then
      { s with cell := upd s.cell a { s.cell a with cons := .done, born := true }, pids := upd s.pids a true }
    else s
  | .regPidFail a =>
    if (s.cell a).cons = .pid then
      { s with cell := upd s.cell a { s.cell a with cons := if (s.cell a).name.isSome then .rollback else .failed } }
    else s
  | .rollback a =>
    match (s.cell a).cons, (s.cell a).name with
    | .rollback, some n =>
      { s with cell := upd s.cell a { s.cell a with cons := .failed }, names := upd s.names n none }
    | _, _ => s
  | .spawnRemote a name =>
    if (s.cell a).born = false ∧ (s.cell a).cons = .none then
      { s with cell := upd s.cell a { name := name, remote := true, born := true, cons := .done } }
    else s
  | .publish a t st =>
    -- enabled: a reference exists (`born`), this thread is not already inside `set_status` on this cell
    if (s.cell a).born = true ∧ s.thr a t = .idle ∧ st ≤ stopped then
      let x := s.cell a
      if stopping ≤ st ∧ x.status < stopping then
        { s with cell := upd s.cell a { x with status := max x.status st, el := some t },
                 thr := upd2 s.thr a t (.blk blockProg st) }
      else
        { s with cell := upd s.cell a { x with status := max x.status st },
                 done := upd2 s.done a t (max (s.done a t) st) }
    else s
  | .bstep a t =>
    match s.thr a t with
    | .blk (stmt :: rest) st => { exec s a stmt with thr := upd2 s.thr a t (.blk rest st) }
    | .blk [] st => { s with thr := upd2 s.thr a t .idle, done := upd2 s.done a t (max (s.done a t) st) }
    | .idle => s

def run (s : State) (ops : List Op) : State := ops.foldl step s

/-! ### hypotheses about the callers, weakest first -/

/-- `Reg2.Ordered` read literally: `set_status(Stopped)` only on a cell whose status word is ≥ Stopping -/
def statusOrdered (s : State) : Op → Bool
  | .publish a _ st => decide (st = stopped → stopping ≤ (s.cell a).status)
  | _ => true

/-- stronger: the caller's OWN `set_status(≥ Stopping)` call on the cell has returned (what the text of
`ActorLifecycleGuard::cleanup` gives: `set_status(Stopping)` … `set_status(Stopped)`, same thread) -/
def ownOrdered (s : State) : Op → Bool
  | .publish a t st => decide (st = stopped → stopping ≤ s.done a t)
  | _ => true

/-- the discipline of the code base, for LOCAL cells (a remote cell never owns a registry entry):
every `set_status(≥ Stopping)` on one cell is issued by ONE thread of control — the task that owns the
`ActorLifecycleGuard` (`processing_loop`'s `set_status(Stopping)`, then `cleanup`'s `Stopping` and `Stopped`) —
and `Stopped` only after that thread's own `≥ Stopping` call has returned -/
def disc (s : State) : Op → Bool
  | .publish a t st =>
    -- (a call that is not enabled — no reference yet, or `t` already inside `set_status` on `a` — is no call)
    (s.cell a).remote || !(s.cell a).born || decide (s.thr a t ≠ .idle) ||
      decide (stopping ≤ st → (((s.cell a).el = none ∨ (s.cell a).el = some t) ∧ (st = stopped → stopping ≤ s.done a t)))
  | _ => true

def All (p : State → Op → Bool) : State → List Op → Bool
  | _, [] => true
  | s, op :: ops => p s op && All p (step s op) ops

/-- the code's discipline along a whole run -/
def Disc : State → List Op → Bool := All disc

/-- the weakest hypothesis (a property of the run, not of the program text): whenever a `set_status(Stopped)`
takes effect, the cell's name entry is already gone -/
def weakest (s : State) : Op → Prop
  | .publish a t st =>
    st = stopped → (s.cell a).born = true → s.thr a t = .idle → ∀ n, s.names n ≠ some a
  | _ => True

def Weakest : State → List Op → Prop
  | _, [] => True
  | s, op :: ops => weakest s op ∧ Weakest (step s op) ops

/-- clause 5 as a property of one state: no lookup returns a cell whose `wait()` has returned -/
def Sound (s : State) : Prop := ∀ n a, s.names n = some a → (s.cell a).status ≠ stopped

/-- … of every state the run goes through -/
def SoundAlong : State → List Op → Prop
  | s, [] => Sound s
  | s, op :: ops => Sound s ∧ SoundAlong (step s op) ops

def whereIs (s : State) (n : Nat) : Option Nat := s.names n
def whereIsPid (s : State) (a : Nat) : Option Nat := if s.pids a then some a else none

/-- thread-program-counter predicates used by the invariant -/
def TPc.hasName : TPc → Bool
  | .blk rest _ => rest.contains .unregName
  | .idle => false

def TPc.hasPid : TPc → Bool
  | .blk rest _ => rest.contains .unregPid
  | .idle => false

end Reg3
