import RactorModel.Model.Admission
import RactorModel.Model.StopPorts
import RactorModel.Model.AdmissionMeasure
import Driver.Common

/-! Driver for the `Admission` model (C02, C07).

ops (written by `harness/hcore/src/bin/admission.rs` after executing them on the real code):
  `case <progs>`               → `ok at=<p0>,<p1>,…`           (threads `;`, ops `,`, `s`/`sf`/`s[…]`/`d`/`b`)
  `step <tid> <point> [id=i]`  → `<c> <m> <n> st=<status> at=<next point|done>[ ret <kind> <id> <res>]`
  `rx run|stop|kill`           → `handled=<ids|-> exit=<reason|-> st=<status> self=<id:res,…|->`
  `end <progs> <signature>`    → `word=<c> <m> <n> st=<status> handled=<ids|-> sup=<events> alive=<0|1>`

One `step` line = one `Admission.step g (.t tid)`. `rx run` = the receiver dequeues until it blocks
(`recv*`) and, if it met the marker, exits (`setStatus Stopping, rxClose, rxFlush, setStatus
Stopped`); `rx stop|kill` = `rxStop` followed by the same exit sequence.

Round 4. Sends through `ActorCell::send_serialized` (`z`) and through a `DerivedActorRef` (`v…`) are
the model's `Op.send` (for `z` the two local boxing steps are taken together with the successful
`admit.cas`: the serialized path builds its `BoxedMessage` without calling `box_message`). Top-level
`t<n>` / `t` / `k` ops (`stop(Some("r<n>"))`, `stop(None)`, `kill()`) are steps of
`Model/StopPorts.lean` (`StopPorts.act`), composed here with the admission model: a thread's
`op.start` parks it at `port.stop|port.kill`, the next step is the one-shot port operation
(`cret stop <n|-> ok|refused`); an `rx` op first lets the actor's loop pick by `StopPorts.pick`
(signal > stop > message) and exits with that reason. `StopPorts.Obs.violations` — proved empty for
the model (`C07.stop_port_oracle_holds_of_model`) — judges the implementation's own results.

The oracle clauses are evaluated on the implementation's observations only (its words, return
values, handled sequence, supervisor events and the schedule as executed) at the `end` line.
-/

namespace Driver.Admission
open _root_.Admission Driver

/-! ### program parser -/

partial def parseOps (cs : List Char) : List Op × List Char :=
  match cs with
  | 'z' :: rest => more (Op.send [] false false) rest
  | 'v' :: rest => parseOps ('s' :: rest)
  | 's' :: rest =>
    let (bf, rest) := match rest with
      | 'f' :: r => (true, r)
      | r => (false, r)
    let (rs, rest) := match rest with
      | '!' :: r => (true, r)
      | r => (false, r)
    let (nested, rest) := match rest with
      | '[' :: r =>
        let (n, r') := parseOps r
        (n, match r' with | ']' :: r'' => r'' | r'' => r'')
      | r => ([], r)
    more (Op.send nested bf rs) rest
  | 'd' :: rest => more .drain rest
  | 'b' :: rest => more .bad rest
  | '-' :: rest => ([], rest)
  | rest => ([], rest)
where
  more (op : Op) (rest : List Char) : List Op × List Char :=
    match rest with
    | ',' :: r => let (l, r') := parseOps r; (op :: l, r')
    | r => ([op], r)

/-- number of `send`s (at any nesting depth) whose handling makes the actor send to itself -/
partial def countResend : List Op → Nat
  | [] => 0
  | .send nested _ rs :: l => (if rs then 1 else 0) + countResend nested + countResend l
  | _ :: l => countResend l

def parseProgs (s : String) : List (List Op) :=
  (s.splitOn ";").map (fun t => (parseOps t.toList).1)

/-- A top-level op of a worker thread: an op of the admission model (`ser`: through
`send_serialized`), or a request to one of the one-shot ports (`Model/StopPorts`). -/
inductive XOp where
  | adm (op : Op) (ser : Bool) (bad : Bool := false)
  | stop (r : Option Nat)
  | kill
  deriving Repr, Inhabited

/-- split a thread program at its top-level commas -/
def splitTop (cs : List Char) : List (List Char) :=
  let rec go (cs : List Char) (depth : Nat) (cur : List Char) (acc : List (List Char)) : List (List Char) :=
    match cs with
    | [] => (cur.reverse :: acc).reverse
    | '[' :: r => go r (depth + 1) ('[' :: cur) acc
    | ']' :: r => go r (depth - 1) (']' :: cur) acc
    | ',' :: r => if depth == 0 then go r 0 [] (cur.reverse :: acc) else go r depth (',' :: cur) acc
    | c :: r => go r depth (c :: cur) acc
  go cs 0 [] []

def parseXOps (t : String) : List XOp :=
  (splitTop t.toList).filterMap (fun piece =>
    match piece with
    | 'k' :: _ => some .kill
    | 't' :: r => some (.stop (String.ofList r).toNat?)
    | 'z' :: 'b' :: _ => some (.adm (Op.send [] false false) true true)
    | 'z' :: _ => some (.adm (Op.send [] false false) true)
    | _ => (parseOps piece).1.head?.map (fun op => .adm op false))

def admOps (l : List XOp) : List Op :=
  l.filterMap (fun x => match x with | .adm op _ _ => some op | _ => none)

/-! ### model side -/

def b01 (b : Bool) : String := if b then "1" else "0"

def showRes : Res → String
  | .ok => "ok" | .sendErr b => s!"sendErr({b})" | .invalidType => "invalidType" | .drainErr => "drainErr"
def showKind : RKind → String
  | .send => "send" | .drain => "drain" | .bad => "bad"
def showRet (r : Ret) : String := s!"ret {showKind r.kind} {r.id} {showRes r.res}"

def threadAt (g : G) (i : Nat) : String :=
  match g.threads[i]? with
  | some (f :: _) => if f.pc == .run && f.ops.isEmpty then "done" else f.point
  | _ => "done"

def showWord (w : Word) : String := s!"{b01 w.closed} {b01 w.marker} {w.count}"

def showReason : StopPorts.Reason → String
  | .killed => "killed"
  | .stop none => "-"
  | .stop (some n) => s!"r{n}"
  | .drained => "Drained"

def parseReason? (s : String) : Option StopPorts.Reason :=
  if s == "killed" then some .killed
  else if s == "Drained" then some .drained
  else if s == "-" then some (.stop none)
  else if s.startsWith "r" then (s.drop 1).toString.toNat?.map (fun n => .stop (some n))
  else none

/-- The receiver dequeues until it blocks. When it handles a flagged message the handler sends
one message to its own actor: handler thread `workers + nextH` runs one complete send. -/
def recvAll (g : G) (workers : Nat) (flagged : List Nat) (nextH : Nat) : Nat → G × Nat
  | 0 => (g, nextH)
  | fuel + 1 =>
    -- dequeue one item and, if it is a message, start its handler (two `recv` phases: the engine
    -- runs the actor task to quiescence, so nothing can land in between)
    let g' := step (step g .recv) .recv
    if g'.sh.handled.length == g.sh.handled.length then (g', nextH)
    else
      match g'.sh.handled.getLast? with
      | some id =>
        if flagged.contains id then
          let g'' := (List.replicate 12 (Tid.t (workers + nextH))).foldl step g'
          recvAll g'' workers flagged (nextH + 1) fuel
        else recvAll g' workers flagged nextH fuel
      | none => recvAll g' workers flagged nextH fuel

def exitSeq : List Tid := [.setStatus stStopping, .rxClose, .rxFlush, .setStatus stStopped]

/-! ### implementation-side bookkeeping for the oracle -/

structure ImplRet where
  kind : String
  id : Nat
  res : String
  /-- the observed `closed` bit just before the send's first step -/
  late : Bool
  /-- ids of the sends that had returned Ok (in the implementation) before this send's first step -/
  seenOk : List Nat := []
  /-- line of the send's first step and line of its return -/
  startLine : Nat
  retLine : Nat
  deriving Repr

structure Case where
  closed : Bool := false          -- last observed closed bit
  starts : List (Nat × Bool × Nat × List Nat) := []   -- id ↦ (late, line of the first step, ok ids so far)
  rets : List ImplRet := []
  handled : List Nat := []
  exits : List String := []       -- exit reasons seen by rx ops
  otherExit : Bool := false       -- an `rx stop|kill` was executed, or a thread's stop / kill was accepted
  /-- every stop / kill call of the implementation with its result (epoch 0 = before the exit was
  seen, 3 = after) -/
  calls : List StopPorts.Call := []
  /-- handler starts reported by an `rx` op that began with an accepted request pending -/
  overPort : Nat := 0
  /-- an `rx` op reported the actor Stopping / Stopped -/
  gone : Bool := false
  /-- ids of the serialized sends whose payload the actor cannot decode (`zb`) -/
  garbage : List Nat := []
  drainClosed : Bool := false     -- some `drain.close` step was executed
  raced : Bool := false           -- a drain.close was executed while another op was in flight
  line : Nat := 0
  deriving Repr

structure St where
  g : G := {}
  c : Case := {}
  exitReason : String := "-"      -- model-side: reason of the receiver's exit
  /-- number of worker threads; the threads after them run the handler's self-sends -/
  workers : Nat := 0
  /-- ids of the messages whose handling makes the actor send to itself -/
  flagged : List Nat := []
  /-- next unused handler thread -/
  nextH : Nat := 0
  /-- the one-shot ports and the loop's decision (`Model/StopPorts`) -/
  ps : StopPorts.S := {}
  /-- remaining top-level ops of each worker -/
  tops : List (List XOp) := []
  /-- the port request a worker is parked in front of -/
  ctl : List (Option XOp) := []
  /-- the worker's current top-level op goes through `send_serialized` -/
  serNow : List Bool := []
  /-- … with an undecodable payload -/
  badNow : List Bool := []
  /-- model side: ids of the undecodable messages -/
  garbage : List Nat := []
  /-- model and implementation already disagreed in this case: the rest of the case is not
  compared any more (one DIFF per case), the oracle still judges the implementation -/
  diverged : Bool := false
  /-- wave 2: step budget of the case = the ranking measure of its initial model state (`mu (init progs)`,
  theorem `C07.no_livelock_under_any_schedule`: no schedule has more effective steps) + slack for the
  port requests, which are not steps of the admission model -/
  budget : Nat := 0
  /-- worker steps the implementation has taken in this case -/
  nsteps : Nat := 0
  deriving Inhabited

instance : Inhabited Case := ⟨{}⟩

def parseKV (w : String) (k : String) : Option String :=
  if w.startsWith (k ++ "=") then some (w.drop (k.length + 1)).toString else none

/-- `ret <kind> <id> <res>` triples at the end of an observation -/
def parseRets : List String → List (String × Nat × String)
  | "ret" :: k :: i :: r :: rest => (k, i.toNat?.getD 0, r) :: parseRets rest
  | _ :: rest => parseRets rest
  | [] => []

def parseKind? : String → Option RKind
  | "send" => some .send | "drain" => some .drain | "bad" => some .bad | _ => none
/-- `sendErr(<back>)`: `Err(MessagingErr::SendErr(m))`, `<back>` = the id of the message `m` that the
real code handed back inside the error -/
def parseRes? (s : String) : Option Res :=
  match s with
  | "ok" => some .ok | "invalidType" => some .invalidType | "drainErr" => some .drainErr
  | _ =>
    match s.splitOn "(" with
    | ["sendErr", rest] =>
      (match rest.splitOn ")" with
       | [n, ""] => n.toNat?.map Res.sendErr
       | _ => none)
    | _ => none

/-- the result string is a `SendErr` (whatever message it carries) -/
def isSendErrS (s : String) : Bool :=
  match parseRes? s with | some (.sendErr _) => true | _ => false

/-- Oracle at the end of a case (all workers finished, the receiver ran until it blocked), on the
implementation's observations only. The state clauses are `Admission.Obs.violations` — the function
proved empty for the model in `Props/C07.lean` / `Props/C02.lean` (`oracle_holds_of_model`) —
applied to the implementation's `Obs` (for the `order` clause each send carries the ids of the sends
that had returned Ok before its first step, computed here from the executed schedule exactly as the
model's ghost `seenOk`); the remaining clauses concern return values the model does not have
(`wrong-return`, `bad-accepted`). -/
def oracleEnd (c : Case) (word : Word) (handled : List Nat) (sup : List String) (alive : Bool) : List String :=
  let drained := (sup.filter (· == "Terminated:Drained")).length
  let obs : Obs :=
    -- an undecodable serialized message is accepted, consumed at its turn and never reaches `handle`
    -- (`userHandled`): it is not a message of the actor's type, C02's "handled exactly once" is not owed
    { rets := (c.rets.filter (fun r => !c.garbage.contains r.id)).filterMap (fun r => do
        let k ← parseKind? r.kind; let res ← parseRes? r.res
        pure ⟨k, r.id, res, r.late, r.seenOk.filter (fun i => !c.garbage.contains i)⟩),
      handled := handled, word := word, drainedExits := drained, otherExit := c.otherExit, alive := alive }
  obs.violations ++
  (if c.rets.all (fun r => (parseKind? r.kind).isSome && (parseRes? r.res).isSome) then [] else ["wrong-return"]) ++
  -- C02 (d): a wrong-type send returns InvalidActorType
  (if (c.rets.filter (·.kind == "bad")).all (·.res == "invalidType") then [] else ["bad-accepted"]) ++
  (if c.drainClosed == word.closed then [] else ["closed-bit-differs"]) ++
  (if c.garbage.all (fun i => !handled.contains i) then [] else ["undecodable-message-handled"]) ++
  (if c.garbage.isEmpty || !sup.any (·.startsWith "Failed:") then [] else ["undecodable-message-failed-the-actor"]) ++
  -- round 4: the one-shot stop / signal ports (`StopPorts.Obs.violations`, proved empty for the model)
  (let terms := sup.filter (·.startsWith "Terminated:")
   let exit? := terms.head?.map (fun t => parseReason? (t.drop 11).toString)
   (match exit? with
    | some none => ["exit-reason-unknown"]
    | _ => []) ++
   (if terms.length ≤ 1 then [] else ["exited-twice"]) ++
   ({ calls := c.calls, exit := exit?.join, marker := word.marker, handledOverPort := c.overPort,
      final := true } : StopPorts.Obs).violations)

/-! ### free-running stress cases (oracle only) -/

structure SRec where
  id : Nat
  res : String
  t0 : Nat
  t1 : Nat

def parseSRecs (v : String) : List SRec :=
  if v == "-" then [] else
  (v.splitOn ",").filterMap (fun (e : String) => match e.splitOn ":" with
    | [i, r, a, b] => do
      let i ← String.toNat? i; let a ← String.toNat? a; let b ← String.toNat? b
      pure ⟨i, r, a, b⟩
    | _ => none)

/-- Oracle of a free-running case. Tickets come from one global counter, taken before a send
starts and after it returned: `t1 a < t0 b` means send `a` had returned before send `b` started. -/
def oracleStress (withDrain withStop : Bool) (rs : List SRec) (handled : List Nat)
    (drain : Option (Nat × Nat)) (sup : List String) (exited : Bool) : List String :=
  let oks := rs.filter (·.res == "ok")
  let drained := (sup.filter (· == "Terminated:Drained")).length
  (if nodupNat handled then [] else ["handled-twice"]) ++
  (if handled.all (fun i => oks.any (·.id == i)) then [] else ["handled-without-ok"]) ++
  (if rs.all (fun r => r.res == "ok" || isSendErrS r.res) then [] else ["wrong-return"]) ++
  -- C07 (2): a rejected send hands back exactly its own message (`Ret.backBad` on free-running records)
  (if rs.all (fun r => match parseRes? r.res with | some (.sendErr b) => b == r.id | _ => true) then []
    else ["handed-back-other-message"]) ++
  (if withStop || oks.all (fun r => handled.contains r.id) then [] else ["ok-not-handled"]) ++
  (if oks.all (fun a => oks.all (fun b =>
      !(a.t1 < b.t0) ||
        (match indexOf? handled a.id, indexOf? handled b.id with
         | some x, some y => x < y
         | none, some _ => false
         | _, _ => true))) then [] else ["order"]) ++
  (match drain with
   | some (_, d1) => if rs.all (fun r => !(d1 < r.t0) || isSendErrS r.res) then [] else ["admitted-after-close"]
   | none => []) ++
  (if drained ≤ 1 then [] else ["drained-twice"]) ++
  (if !withDrain || withStop || (drained == 1 && exited) then [] else ["drain-never-finishes"]) ++
  (if withDrain || drained == 0 then [] else ["drained-without-drain"])

/-! ### replay -/

/-- worker `i` is between two top-level ops -/
def atTop (g : G) (i : Nat) : Bool :=
  match g.threads[i]? with
  | some [f] => f.pc == .run
  | _ => false

/-- the point worker `i` is parked at, port requests included -/
def threadAtX (st : St) (i : Nat) : String :=
  match (st.ctl[i]?).join with
  | some (.stop _) => "port.stop"
  | some .kill => "port.kill"
  | some _ => "?"
  | none =>
    if i < st.workers && atTop st.g i then
      (if (st.tops[i]?.getD []).isEmpty then "done" else "op.start")
    else threadAt st.g i

/-- the serialized send path has no boxing steps: take the model's two local ones at once -/
def skipBoxing (g : G) (i : Nat) : G :=
  let isBoxing (g : G) : Bool := match g.threads[i]? with
    | some (f :: _) => f.pc == .box || f.pc == .boxing
    | _ => false
  let g := if isBoxing g then _root_.Admission.step g (.t i) else g
  if isBoxing g then _root_.Admission.step g (.t i) else g

/-- The actor task runs to quiescence with a stop / signal pending (or after the marker): the loop
picks by `StopPorts.pick`, `post_stop` completes, the ports are dropped. -/
def psExit (ps : StopPorts.S) : StopPorts.S :=
  [StopPorts.Act.poll true, .poll true, .dropPorts].foldl StopPorts.act ps

def implCalls (c : Case) (iw : List String) : Case :=
  let rec go (c : Case) : List String → Case
    | "cret" :: k :: r :: res :: rest =>
      let acc := res == "ok"
      go { c with calls := c.calls ++ [⟨k == "kill", if k == "kill" then none else r.toNat?, acc, if c.gone then 3 else 0⟩],
                  otherExit := c.otherExit || acc } rest
    | _ :: rest => go c rest
    | [] => c
  go c iw

def step1 (st : St) (op impl : String) : St × StepOut :=
  let c := { st.c with line := st.c.line + 1 }
  let st := { st with c := c }
  match words op with
  | ["case", progs] =>
    let xs := (progs.splitOn ";").map parseXOps
    let ps := xs.map admOps
    -- one extra thread per flagged send: it performs the handler's send to its own actor
    let h := (ps.map countResend).foldl (· + ·) 0
    let g := init (ps ++ List.replicate h [Op.send [] false false])
    let st' : St := { g := g, c := { line := 0 }, exitReason := "-", diverged := false, workers := ps.length,
                      tops := xs, ctl := xs.map (fun _ => none), serNow := xs.map (fun _ => false),
                      badNow := xs.map (fun _ => false),
                      budget := mu g + 8 * ((xs.map List.length).foldl (· + ·) 0) + 64 }
    let ats := ",".intercalate ((List.range ps.length).map (threadAtX st'))
    (st', { model := s!"ok at={ats}" })
  | "step" :: tid :: point :: opt =>
    match tid.toNat? with
    | none => (st, { model := "bad-op" })
    | some i =>
      let pre := threadAtX st i
      let preId : Option Nat := match st.g.threads[i]? with
        | some (f :: _) => some f.id
        | _ => none
      -- which kind of step is this?  a port request | the `op.start` of a port request | a step of
      -- the admission model (popping the worker's next top-level op when it starts one)
      let pending := (st.ctl[i]?).join
      let top := atTop st.g i && i < st.workers
      let next : Option XOp := if top then (st.tops[i]?.getD []).head? else none
      let (admStep, st, cretS) : Bool × St × String :=
        match pending with
        | some (.stop r) =>
          let ps' := StopPorts.act st.ps (.stop r)
          let acc := (ps'.calls.getLast?.map (·.accepted)).getD false
          (false, { st with ps := ps', ctl := st.ctl.set i none },
            s!" cret stop {match r with | some n => toString n | none => "-"} {if acc then "ok" else "refused"}")
        | some .kill =>
          let ps' := StopPorts.act st.ps .kill
          let acc := (ps'.calls.getLast?.map (·.accepted)).getD false
          (false, { st with ps := ps', ctl := st.ctl.set i none }, s!" cret kill - {if acc then "ok" else "refused"}")
        | _ =>
          match next with
          | some (.adm _ ser bad) =>
            (true, { st with tops := st.tops.set i ((st.tops[i]?.getD []).drop 1), serNow := st.serNow.set i ser,
                             badNow := st.badNow.set i bad,
                             garbage := if bad then st.g.sh.nextId :: st.garbage else st.garbage }, "")
          | some x =>
            (false, { st with tops := st.tops.set i ((st.tops[i]?.getD []).drop 1), ctl := st.ctl.set i (some x) }, "")
          | none => (true, st, "")
      let g' := if admStep then _root_.Admission.step st.g (.t i) else st.g
      let g' := if admStep && (st.serNow[i]?.getD false) then skipBoxing g' i else g'
      let flagged := if !admStep then st.flagged else match st.g.threads[i]? with
        | some (f :: _) =>
          (match f.pc, f.ops with
           | .run, .send _ _ true :: _ => st.g.sh.nextId :: st.flagged
           | .boxing, .send _ _ true :: _ => st.g.sh.nextId :: st.flagged
           | _, _ => st.flagged)
        | _ => st.flagged
      let st := { st with flagged := flagged }
      let newRets := g'.sh.rets.drop st.g.sh.rets.length
      let retS := String.join (newRets.map (fun r => " " ++ showRet r)) ++ cretS
      let idOk := match opt with
        | [w] => (match parseKV w "id" with
                  | some v => v.toNat? == preId
                  | none => true)
        | _ => true
      let prefixS := (if pre == point then "" else s!"model-at={pre} ") ++ (if idOk then "" else "model-id-differs ")
      let model := s!"{prefixS}{showWord g'.sh.word} st={g'.sh.status} at={threadAtX { st with g := g' } i}{retS}"
      -- implementation-side bookkeeping
      let iw := words impl
      let implClosed := iw.head? == some "1"
      let c := st.c
      let c := if point == "send.status" then
          match opt with
          | [w] => (match (parseKV w "id").bind (·.toNat?) with
                    | some id =>
                      let oks := (c.rets.filter (fun r => r.kind == "send" && r.res == "ok")).map (·.id)
                      { c with starts := (id, c.closed, c.line, oks) :: c.starts,
                               garbage := if (st.badNow[i]?.getD false) then id :: c.garbage else c.garbage }
                    | none => c)
          | _ => c
        else c
      let inflight := (List.range st.workers).any (fun k =>
        k != i && !(["op.start", "done"].contains (threadAtX st k)))
      let c := if point == "drain.close" then { c with drainClosed := true, raced := c.raced || inflight } else c
      let c := (parseRets iw).foldl (fun c (k, id, r) =>
        let (late, sl, oks) := match c.starts.find? (·.1 == id) with
          | some (_, l, s, o) => (l, s, o)
          | none => (false, 0, [])
        let (late, sl, oks) := if k == "send" then (late, sl, oks) else (false, c.line, [])
        { c with rets := c.rets ++ [{ kind := k, id := id, res := r, late := late, seenOk := oks, startLine := sl, retLine := c.line }] }) c
      let c := { c with closed := implClosed }
      let c := implCalls c iw
      ({ st with g := g', c := c }, { model := model })
  | ["rx", what] =>
    let alive := st.g.sh.rxOpen
    let g0 := st.g
    -- `rx stop|kill`: the controller's own request to the one-shot port first
    let ps0 := if what == "stop" then StopPorts.act st.ps (.stop none)
               else if what == "kill" then StopPorts.act st.ps .kill else st.ps
    let accS := if what == "run" then "" else s!" acc={b01 ((ps0.calls.getLast?.map (·.accepted)).getD false)}"
    -- what the biased select finds when the actor task runs
    let portPending := ps0.sigVal || ps0.stopVal.isSome
    let (g1, ps1, reason, nextH) :=
      if !alive then (g0, ps0, "-", st.nextH)
      else if portPending then
        let g := _root_.Admission.step g0 .rxStop
        let ps1 := psExit ps0
        (exitSeq.foldl _root_.Admission.step g, ps1, (ps1.phase.exit?.map showReason).getD "?", st.nextH)
      else
        let (g, nh) := recvAll g0 st.workers st.flagged st.nextH (2 * g0.sh.queue.length + 2 * st.flagged.length + 2)
        if g.sh.rxStopped then
          (exitSeq.foldl _root_.Admission.step g, psExit { ps0 with closed := true, marker := true, queue := [.drain] },
            "Drained", nh)
        else (g, ps0, "-", nh)
    let exited := alive && !g1.sh.rxOpen
    let newH := userHandled st.garbage (g1.sh.handled.drop g0.sh.handled.length)
    let selfRets := g1.sh.rets.drop g0.sh.rets.length
    let selfS := if selfRets.isEmpty then "-" else ",".intercalate (selfRets.map (fun r => s!"{r.id}:{showRes r.res}"))
    let model := s!"handled={showNats newH} exit={if exited then reason else "-"} st={g1.sh.status} self={selfS}{accS}"
    -- implementation side
    let iw := words impl
    let implH := (iw.findSome? (parseKV · "handled")).bind natList? |>.getD []
    let implExit := (iw.findSome? (parseKV · "exit")).getD "-"
    let c := st.c
    -- the controller's own request and its result
    let implAcc := (iw.findSome? (parseKV · "acc")) == some "1"
    let c := if what == "run" then c else
      { c with calls := c.calls ++ [⟨what == "kill", none, implAcc, if c.gone then 3 else 0⟩] }
    -- messages handled although an accepted request was pending when the actor task ran
    let pendingImpl := !c.gone && c.calls.any (·.accepted)
    let implSt := ((iw.findSome? (parseKV · "st")).bind (·.toNat?)).getD 0
    let c := { c with handled := c.handled ++ implH,
                      overPort := c.overPort + (if pendingImpl then implH.length else 0),
                      exits := if implExit == "-" then c.exits else c.exits ++ [implExit],
                      gone := c.gone || implSt ≥ stStopping,
                      -- a refused stop / kill has no effect: only an accepted one excuses unhandled messages
                      otherExit := c.otherExit || (what != "run" && implAcc) }
    -- the handler's sends to its own actor: complete sends that start and return on this line
    let implSelf : List (Nat × String) := match iw.findSome? (parseKV · "self") with
      | some "-" => []
      | some v => (v.splitOn ",").filterMap (fun (e : String) => match e.splitOn ":" with
          | [i, r] => (String.toNat? i).map (fun i => (i, r))
          | _ => none)
      | none => []
    let c : Case := implSelf.foldl (fun (c : Case) (x : Nat × String) =>
      let (id, r) := x
      let oks := (c.rets.filter (fun r => r.kind == "send" && r.res == "ok")).map (·.id)
      { c with rets := c.rets ++ [{ kind := "send", id := id, res := r, late := c.closed, seenOk := oks, startLine := c.line, retLine := c.line }],
               raced := c.raced || c.drainClosed }) c
    -- round 4: the actor task ran until it blocked, the actor is still alive and no stop / kill was
    -- accepted so far: every send that has returned Ok by now must have been handled by now
    let quietOrc := if implSt < stDraining + 1 && !c.gone && !c.calls.any (·.accepted) then
        quietViolations ((c.rets.filter (fun r => r.kind == "send" && r.res == "ok" && !c.garbage.contains r.id)).map (·.id)) c.handled
      else []
    ({ st with g := g1, ps := ps1, c := c, exitReason := if exited then reason else st.exitReason, nextH := nextH },
      { model := model, oracle := quietOrc })
  | "end" :: _ =>
    let g := st.g
    let sup := if g.sh.rxOpen then "Started" else s!"Started,Terminated:{st.exitReason}"
    let model := s!"word={showWord g.sh.word} st={g.sh.status} handled={showNats (userHandled st.garbage g.sh.handled)} sup={sup} alive={b01 g.sh.rxOpen}"
    -- oracle on the implementation's observations
    let iw := words impl
    let orc := match iw with
      | [w0, m, n, _, h, s, a] =>
        match parseKV w0 "word", n.toNat?, (parseKV h "handled").bind natList?, parseKV s "sup", parseKV a "alive" with
        | some c0, some n, some hs, some sup, some al =>
          let word : Word := ⟨c0 == "1", m == "1", n⟩
          let o := oracleEnd st.c word hs (sup.splitOn ",") (al == "1")
          -- the per-rx handled reports must add up to the final handled list
          o ++ (if st.c.handled == hs then [] else ["handled-reports-differ"])
        | _, _, _, _, _ => ["unparsable"]
      | _ => ["unparsable"]
    (st, { model := model, oracle := orc, nontrivial := st.c.raced || st.c.otherExit || st.c.calls.length ≥ 2 })
  | "stress" :: _ :: opts =>
    let iw := words impl
    let flag (k : String) : Bool := (opts.findSome? (parseKV · k)) == some "1"
    let rs := parseSRecs ((iw.findSome? (parseKV · "sends")).getD "-")
    let handled := ((iw.findSome? (parseKV · "handled")).bind natList?).getD []
    let drain := match ((iw.findSome? (parseKV · "drain")).getD "-").splitOn ":" with
      | [a, b] => (do let a ← String.toNat? a; let b ← String.toNat? b; pure (a, b) : Option (Nat × Nat))
      | _ => none
    let sup := ((iw.findSome? (parseKV · "sup")).getD "").splitOn ","
    let exited := (iw.findSome? (parseKV · "exited")) == some "1"
    -- round 4: stoppers / a killer racing free-running; judged by the epoch-free port oracle
    let calls : List StopPorts.Call := match (iw.findSome? (parseKV · "calls")) with
      | some "-" => []
      | some v => (v.splitOn ",").filterMap (fun (e : String) => match e.splitOn ":" with
          | [k, r, res] => some ⟨k == "kill", r.toNat?, res == "ok", 0⟩
          | _ => none)
      | none => []
    let terms := sup.filter (·.startsWith "Terminated:")
    let exit? := terms.head?.map (fun t => parseReason? (t.drop 11).toString)
    let portOrc :=
      (match exit? with | some none => ["exit-reason-unknown"] | _ => []) ++
      (if terms.length ≤ 1 then [] else ["exited-twice"]) ++
      ({ calls := calls, exit := exit?.join, marker := flag "drain", handledOverPort := 0,
         final := !calls.isEmpty } : StopPorts.Obs).freeViolations
    let orc := oracleStress (flag "drain") (flag "stop") rs handled drain sup exited ++ portOrc
    -- no model replay: free-running threads are judged by the oracle only
    (st, { model := impl, oracle := orc, nontrivial := flag "drain" && rs.any (·.res != "ok") && rs.any (·.res == "ok") })
  | "budget" :: _ =>
    -- the harness gave up on a case whose threads kept taking steps
    (st, { model := impl, oracle := ["no-progress-within-the-measure"] })
  | _ => (st, { model := "bad-op" })

def step (st : St) (op impl : String) : St × StepOut :=
  let (st', out) := step1 st op impl
  -- wave 2, C07 "a drain never leaves the actor running forever" / lock-freedom on the implementation's
  -- own trace: the real threads of a case take at most `mu (init progs)` steps (+ port requests)
  let (st', out) :=
    if op.startsWith "step " then
      let n := st'.nsteps + 1
      ({ st' with nsteps := n },
        if n == st'.budget + 1 then { out with oracle := out.oracle ++ ["no-progress-within-the-measure"] } else out)
    else (st', out)
  if st.diverged && !(op.startsWith "case ") && !(op.startsWith "stress ") then (st', { out with model := impl })
  else if out.model != impl then ({ st' with diverged := true }, out)
  else (st', out)

def run (ops impl : Array String) : IO Tally :=
  replay ({} : St) step ops impl

end Driver.Admission
