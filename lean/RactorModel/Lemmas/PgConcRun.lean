import RactorModel.Lemmas.PgConcInv

/-! The per-actor invariant holds along every schedule of `Pg.Conc`. -/

namespace Pg.Conc
open AList Pg Pg.Fine

/-- for every actor: the invariant of its phase -/
def AllInv (g : G) : Prop := ∀ a, AInv a g.st (phaseOf g a)

theorem phaseOf_ex (g : G) (b : Nat) (st' : State) (ph' : Phase) (ch : List Pending) (sn : List Ev) (a : Nat) :
    phaseOf { g with st := st', exits := set g.exits b ph', changes := ch, sent := sn } a =
      if a = b then ph' else phaseOf g a := by
  unfold phaseOf
  simp only [get_set]
  by_cases e : a = b
  · rw [if_pos e, if_pos e]; rfl
  · rw [if_neg e, if_neg e]

theorem step_ex_guard (g : G) (b : Nat) (r : ExReg) (hg : r = .mark ∧ b ∈ g.st.dead) : step g (.ex b r) = g := by
  simp only [step, hg, and_self, ↓reduceIte]

theorem step_ex (g : G) (b : Nat) (r : ExReg) (hg : ¬ (r = .mark ∧ b ∈ g.st.dead)) :
    step g (.ex b r) =
      { g with st := (fstep b ⟨g.st, phaseOf g b⟩ r.toFOp).st,
               exits := set g.exits b (fstep b ⟨g.st, phaseOf g b⟩ r.toFOp).ph,
               changes := g.changes ++ exRecs g.st b (phaseOf g b) r,
               sent := g.sent ++ exEvs g.st b (phaseOf g b) r } := by
  simp only [step, hg, ↓reduceIte]

theorem step_call_none (g : G) (i : Nat) (h : g.thr[i]? = none) : step g (.call i) = g := by
  simp only [step, h]

theorem step_call_some (g : G) (i : Nat) (pc : Pc) (h : g.thr[i]? = some pc) :
    step g (.call i) =
      { g with st := (callStep g.st pc).1, thr := g.thr.set i (callStep g.st pc).2.1,
               changes := g.changes ++ (callStep g.st pc).2.2.1, sent := g.sent ++ (callStep g.st pc).2.2.2 } := by
  simp only [step, h]

theorem allInv_step {g : G} (h : AllInv g) (t : Tid) : AllInv (step g t) := by
  cases t with
  | ex b r =>
    by_cases hg : r = .mark ∧ b ∈ g.st.dead
    · rw [step_ex_guard g b r hg]; exact h
    · rw [step_ex g b r hg]
      intro a
      simp only [phaseOf_ex]
      by_cases e : a = b
      · subst e
        rw [if_pos rfl]
        exact ainv_own (h a) r hg
      · rw [if_neg e]
        exact ainv_env (env_exreg (fun x => e x.symm) g.st (phaseOf g b) r) (h a)
  | call i =>
    cases hp : g.thr[i]? with
    | none => rw [step_call_none g i hp]; exact h
    | some pc =>
      rw [step_call_some g i pc hp]
      intro a
      exact ainv_env (env_call a g.st pc) (h a)

theorem allInv_run {g : G} (h : AllInv g) (sched : List Tid) : AllInv (run g sched) := by
  unfold run
  induction sched generalizing g with
  | nil => exact h
  | cons t ts ih => exact ih (allInv_step h t)

/-- a state reached by API-level ops (cross-index invariant `Inv`) is a valid start, whatever the
threads are about to call -/
theorem allInv_start {st : State} (h : Inv st) (calls : List Pc) : AllInv (start st calls) := by
  intro a
  have hph : phaseOf (start st calls) a = .live := rfl
  rw [hph]
  refine ⟨zinv_of_inv h a, ⟨fun k hk => (h.mem k a).mpr hk, fun k hk => (h.gmon k a).mpr hk,
    fun s hs => (h.wmon s a).mpr hs⟩, trivial, ?_⟩
  intro _ hd
  exact dead_owns_nothing h hd

end Pg.Conc
