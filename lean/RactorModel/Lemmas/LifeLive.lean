import RactorModel.Lemmas.Life
import RactorModel.Lemmas.LifeC03Spec

/-! Liveness of the `Life` actor (wave 2): every exit path ends in `Stopped` with the lifecycle guard
disarmed, and a pending kill / stop gets there within an explicit number of polls of the actor's task.

* `Reach a` — the state invariant of every reachable actor: no cell yet (and nothing in its signal /
  stop port), or alive with the guard armed, or `Dead` (ports dropped, status `Stopped`, guard disarmed).
* `kill_step` / `kill_run` — with `Signal::Kill` in the signal port, every op keeps the kill pending or
  ends the actor, emits no callback progress (`enter`/`tick`/`exit`), and ONE poll of the actor's task
  (`pollSpawn` while the start future exists, `poll` of the loop task) ends it: `N = 1`.
* `stop_step` / `stop_run` — with a stop in the stop port (or `post_stop` already open) the rank
  `cell 5 > pre 4 > ready 3 > post_start/idle/handler 2 > post_stop 1 > done 0` never grows and every
  *effective* poll (a task poll that does not find the open callback still suspended: the script supplied a
  returning segment, or no callback is open, or a kill is pending) decreases it.
* `abort_dead` / `dropSpawn_dead` — `JoinHandle::abort` / dropping the spawn future end the actor in that step. -/

namespace Life.Liveness
open Life

@[simp] theorem max_stopped (s : Status) : s.max .stopped = .stopped := by
  cases s <;> simp [Status.max, Status.rank]

/-- Ports dropped, status `Stopped`, guard disarmed, child set closed, no supervisor. -/
def Dead (a : Actor) : Prop :=
  a.phase = .done ∧ a.status = .stopped ∧ a.armed = false ∧ a.sigVal = false ∧ a.stopVal = none ∧
  a.kids = none ∧ a.sup = none

/-- The cell exists, its ports are open, the lifecycle guard is armed. -/
def Alive (a : Actor) : Prop := a.phase ≠ .fresh ∧ a.phase ≠ .done ∧ a.armed = true

def Fresh (a : Actor) : Prop := a.phase = .fresh ∧ a.sigVal = false ∧ a.stopVal = none

/-- Invariant of every reachable actor state. -/
def Reach (a : Actor) : Prop := Fresh a ∨ Alive a ∨ Dead a

def AD (a : Actor) : Prop := Alive a ∨ Dead a

/-! ### exit paths -/

theorem cleanup_drop_dead (a : Actor) (e : Option SupEv) (h : a.armed = true) :
    Dead ((cleanup a e).1.dropPorts) := by
  simp [cleanup, h, Dead, Actor.dropPorts, Actor.setStatus]

theorem finish_dead (a : Actor) (e : SupEv) (h : a.armed = true) : Dead (finish a e).1 := by
  simpa [finish] using cleanup_drop_dead a (some e) h

theorem failSpawn_dead (a : Actor) (r : SpawnRet) (h : a.armed = true) : Dead (failSpawn a r).1 := by
  simpa [failSpawn] using cleanup_drop_dead a none h

theorem killedInLoop_dead (a : Actor) (h : a.armed = true) : Dead (killedInLoop a).1 := by
  simp only [killedInLoop, handleSignal, andThen_fst]
  exact finish_dead _ _ (by simpa [Actor.setStatus] using h)

theorem killedOutsideLoop_dead (a : Actor) (h : a.armed = true) : Dead (killedOutsideLoop a).1 := by
  simp only [killedOutsideLoop, handleSignal, andThen_fst]
  exact finish_dead _ _ (by simpa using h)

/-! ### the loop's choice -/

/-- The phases in which the loop task exists and has been polled at least once after `post_start`. -/
def Phase.inLoop : Phase → Bool
  | .idle | .inMsg | .inSup | .postStop _ => true
  | _ => false

theorem listen_AD (a : Actor) (h : a.armed = true) :
    Dead (listen a).1 ∨ ((listen a).1.armed = true ∧ Phase.inLoop (listen a).1.phase = true ∧
      a.sigVal = false ∧
      (∀ r, a.stopVal = some r → (listen a).1.phase = .postStop r)) := by
  unfold listen
  split
  · exact Or.inl (killedInLoop_dead _ (by simpa using h))
  · rename_i hs
    right
    simp only [enterPostStop]
    split
    · simp_all [Actor.setStatus, Phase.inLoop]
    · split
      · simp_all [Phase.inLoop]
      · split <;> simp_all [Actor.setStatus, Phase.inLoop]

/-! ### side effects of a segment keep the control state -/

structure Keep (a a' : Actor) : Prop where
  phase : a'.phase = a.phase
  armed : a'.armed = a.armed
  stop : a.stopVal.isSome = true → a'.stopVal.isSome = true

theorem Keep.rfl' (a : Actor) : Keep a a := ⟨rfl, rfl, id⟩

theorem Keep.trans {a b c : Actor} (h1 : Keep a b) (h2 : Keep b c) : Keep a c :=
  ⟨h2.phase.trans h1.phase, h2.armed.trans h1.armed, fun h => h2.stop (h1.stop h)⟩

theorem runFx_keep (a : Actor) (f : Fx) : Keep a (runFx a f).1 := by
  cases f <;> simp only [runFx, apiSend, apiStop, apiKill]
  all_goals (repeat' split) <;> first
    | exact Keep.rfl' a
    | exact ⟨rfl, rfl, fun h => by simpa using h⟩
    | exact ⟨rfl, rfl, fun _ => by simp⟩

theorem runFxs_keep (fs : List Fx) (a : Actor) : Keep a (runFxs a fs).1 := by
  induction fs generalizing a with
  | nil => exact Keep.rfl' a
  | cons f fs ih =>
    simp only [runFxs, andThen_fst]
    exact (runFx_keep a f).trans (ih _)


/-! ### after a callback returned -/

theorem afterExit_AD (a : Actor) (r : Res) (h : a.armed = true) :
    Dead (afterExit a r).1 ∨ ((afterExit a r).1.armed = true ∧ Phase.inLoop (afterExit a r).1.phase = true ∧
      (∀ rs, a.phase ≠ .postStop rs) ∧
      (∀ r', a.stopVal = some r' → (afterExit a r).1.phase = .postStop r')) := by
  unfold afterExit
  split
  · simp only [andThen_fst]
    rcases listen_AD (a.setStatus .running) (by simpa [Actor.setStatus] using h) with hd | ⟨h1, h2, _, h4⟩
    · exact Or.inl hd
    · exact Or.inr ⟨h1, h2, by simp_all, fun r' hr => h4 r' (by simpa [Actor.setStatus] using hr)⟩
  · rcases listen_AD a h with hd | ⟨h1, h2, _, h4⟩
    · exact Or.inl hd
    · exact Or.inr ⟨h1, h2, by simp_all, h4⟩
  · rcases listen_AD a h with hd | ⟨h1, h2, _, h4⟩
    · exact Or.inl hd
    · exact Or.inr ⟨h1, h2, by simp_all, h4⟩
  · exact Or.inl (finish_dead _ _ h)
  · exact Or.inl (finish_dead _ _ h)
  · exact Or.inl (finish_dead _ _ h)
  · exact Or.inl (finish_dead _ _ (by simpa [Actor.setStatus] using h))

theorem afterPre_AD (a : Actor) (supOk : Bool) (r : Res) (h : a.armed = true) :
    Dead (afterPre a supOk r).1 ∨ ((afterPre a supOk r).1.phase = .ready ∧ (afterPre a supOk r).1.armed = true ∧
      (afterPre a supOk r).1.stopVal = a.stopVal ∧ (afterPre a supOk r).1.sigVal = a.sigVal) := by
  unfold afterPre
  split
  · exact Or.inl (failSpawn_dead _ _ h)
  · exact Or.inl (failSpawn_dead _ _ h)
  · split
    · split
      · exact Or.inl (failSpawn_dead _ _ h)
      · right; simp [h]
    · right; simp [h]

theorem runSeg_fst (a : Actor) (cb : Cb) (s : Seg) (k : Actor → Res → M) :
    (runSeg a cb s k).1 =
      if s.term = .tick then { (runFxs a s.fx).1 with gateW := (runFxs a s.fx).1.phase.isTask }
      else (k (runFxs a s.fx).1 s.term.res).1 := by
  simp only [runSeg, say, andThen_fst]
  cases s.term <;> simp

theorem noise_np {x : Ev} (h : x.isExitNoise = true) : C03.isProgress x = false := by
  cases x <;> simp_all [Ev.isExitNoise, C03.isProgress]

/-! ### API / environment ops keep the control state -/

theorem envOp_keep (a : Actor) (op : AOp) :
    (a.envOp op).1.phase = a.phase ∧ (a.envOp op).1.armed = a.armed ∧
    (a.envOp op).1.seg = a.seg ∧
    (a.sigVal = true → (a.envOp op).1.sigVal = true) ∧
    (a.stopVal.isSome = true → (a.envOp op).1.stopVal.isSome = true) ∧
    (∀ e ∈ evs (a.envOp op).2, C03.isProgress e = false) := by
  cases op <;> simp only [Actor.envOp, apiSend, apiStop, apiKill, apiDrain, apiCall, opSupArrive, opTreeTaken,
    opLink, opUnlink, doLink]
  all_goals (repeat' split)
  all_goals simp_all [C03.isProgress]


theorem envOp_dead (a : Actor) (op : AOp) (h : Dead a) : Dead (a.envOp op).1 := by
  obtain ⟨h1, h2, h3, h4, h5, h6, h7⟩ := h
  cases op <;> simp only [Actor.envOp, apiSend, apiStop, apiKill, apiDrain, apiCall, opSupArrive, opTreeTaken,
    opLink, opUnlink, doLink, Dead]
  all_goals (repeat' split)
  all_goals simp_all [Actor.portsOpen, Status.rank]


/-! ### abort / dropped spawn future: `Stopped` in that very step -/

theorem failSpawn_noise (a : Actor) (r : SpawnRet) : ∀ x ∈ evs (failSpawn a r).2, x.isExitNoise = true := by
  intro x hx
  simp only [failSpawn, andThen_snd, evs_append, List.mem_append] at hx
  rcases hx with hx | hx
  · exact cleanup_noise _ _ x hx
  · simp at hx; subst hx; rfl

theorem opAbort_dead (a : Actor) (ha : a.armed = true) (ht : a.phase.isTask = true) : Dead (opAbort a).1 := by
  simp only [opAbort, ht, ite_true, andThen_fst]
  exact cleanup_drop_dead _ _ ha

theorem opAbort_np (a : Actor) : ∀ e ∈ evs (opAbort a).2, C03.isProgress e = false := by
  intro e he
  unfold opAbort at he
  split at he
  · simp only [andThen_snd, andThen_fst, evs_append, List.mem_append] at he
    rcases he with he | he | he
    · split at he <;> simp at he <;> (try rcases he with rfl | rfl) <;> (try subst he) <;> rfl
    · exact noise_np (cleanup_noise _ _ _ he)
    · simp at he; subst he; rfl
  · simp at he

theorem opDropSpawn_dead (a : Actor) (ha : a.armed = true) (hp : a.phase = .cell ∨ a.phase = .pre) :
    Dead (opDropSpawn a).1 := by
  rcases hp with hp | hp <;> simp only [opDropSpawn, hp, andThen_fst] <;> exact cleanup_drop_dead _ _ ha

theorem opDropSpawn_np (a : Actor) : ∀ e ∈ evs (opDropSpawn a).2, C03.isProgress e = false := by
  intro e he
  unfold opDropSpawn at he
  split at he
  · simp only [andThen_snd, andThen_fst, evs_append, List.mem_append] at he
    rcases he with he | he | he
    · simp at he; subst he; rfl
    · exact noise_np (cleanup_noise _ _ _ he)
    · simp at he
  · simp only [andThen_snd, andThen_fst, evs_append, List.mem_append] at he
    rcases he with (he | he) | he | he
    · simp at he; rcases he with rfl | rfl <;> rfl
    · split at he <;> simp at he
    · exact noise_np (cleanup_noise _ _ _ he)
    · simp at he
  · simp at he

/-! ### a pending kill: one poll of the actor's task ends the actor -/

theorem pollOpen_kill (a : Actor) (cb : Cb) (ha : a.armed = true) (hs : a.sigVal = true) :
    Dead (pollOpen a cb).1 ∧ ∀ e ∈ evs (pollOpen a cb).2, C03.isProgress e = false := by
  unfold pollOpen
  simp only [hs, ite_true, say, andThen_fst, andThen_snd]
  constructor
  · split <;> first
      | exact killedInLoop_dead _ (by simpa using ha)
      | exact killedOutsideLoop_dead _ (by simpa using ha)
  · intro e he
    simp only [evs_append, evs_cons_ev, evs_nil, List.mem_append, List.mem_cons, List.not_mem_nil, or_false] at he
    rcases he with rfl | he
    · rfl
    · split at he <;> first
        | exact noise_np (killedInLoop_noise _ _ he)
        | exact noise_np (killedOutsideLoop_noise _ _ he)

theorem listen_kill (a : Actor) (ha : a.armed = true) (hs : a.sigVal = true) :
    Dead (listen a).1 ∧ ∀ e ∈ evs (listen a).2, C03.isProgress e = false := by
  unfold listen
  simp only [hs, ite_true]
  exact ⟨killedInLoop_dead _ (by simpa using ha), fun e he => noise_np (killedInLoop_noise _ _ he)⟩

theorem opPoll_kill (a : Actor) (ha : a.armed = true) (hs : a.sigVal = true) :
    (a.phase.isTask = true → Dead (opPoll a).1) ∧ (a.phase.isTask = false → (opPoll a).1 = a) ∧
    ∀ e ∈ evs (opPoll a).2, C03.isProgress e = false := by
  unfold opPoll
  split
  · simp only [hs, ite_true]
    exact ⟨fun _ => killedOutsideLoop_dead _ (by simpa using ha), by simp_all [Phase.isTask],
      fun e he => noise_np (killedOutsideLoop_noise _ _ he)⟩
  · have := listen_kill { a with woken := false } (by simpa using ha) (by simpa using hs)
    exact ⟨fun _ => this.1, by simp_all [Phase.isTask], this.2⟩
  · exact ⟨fun _ => (pollOpen_kill a _ ha hs).1, by simp_all [Phase.isTask], (pollOpen_kill a _ ha hs).2⟩
  · exact ⟨fun _ => (pollOpen_kill a _ ha hs).1, by simp_all [Phase.isTask], (pollOpen_kill a _ ha hs).2⟩
  · exact ⟨fun _ => (pollOpen_kill a _ ha hs).1, by simp_all [Phase.isTask], (pollOpen_kill a _ ha hs).2⟩
  · exact ⟨fun _ => (pollOpen_kill a _ ha hs).1, by simp_all [Phase.isTask], (pollOpen_kill a _ ha hs).2⟩
  · rename_i h1 h2 h3 h4 h5 h6
    refine ⟨fun ht => ?_, fun _ => rfl, by simp⟩
    cases hp : a.phase <;> simp_all [Phase.isTask]

theorem beginPre_kill (a : Actor) (ha : a.armed = true) (hs : a.sigVal = true) :
    Dead (beginPre a).1 ∧ ∀ e ∈ evs (beginPre a).2, C03.isProgress e = false := by
  unfold beginPre
  simp only [hs, ite_true, handleSignal, andThen_fst, andThen_snd]
  refine ⟨failSpawn_dead _ _ (by simpa using ha), fun e he => ?_⟩
  simp only [evs_append, evs_cons_eff, evs_nil, List.nil_append] at he
  exact noise_np (failSpawn_noise _ _ _ he)

theorem opPollSpawn_kill (a : Actor) (supOk : Bool) (ha : a.armed = true) (hs : a.sigVal = true) :
    ((a.phase = .cell ∨ a.phase = .pre) → Dead (opPollSpawn a supOk).1) ∧
    (¬ (a.phase = .cell ∨ a.phase = .pre) → (opPollSpawn a supOk).1 = a) ∧
    ∀ e ∈ evs (opPollSpawn a supOk).2, C03.isProgress e = false := by
  unfold opPollSpawn
  split
  · have key : Dead (startInstant a supOk).1 ∧ ∀ e ∈ evs (startInstant a supOk).2, C03.isProgress e = false := by
      unfold startInstant
      split
      · exact ⟨failSpawn_dead _ _ ha, fun e he => noise_np (failSpawn_noise _ _ _ he)⟩
      · simp only []
        split
        · split
          · split
            · exact ⟨failSpawn_dead _ _ (by simpa using ha), fun e he => noise_np (failSpawn_noise _ _ _ he)⟩
            · simp only [andThen_fst, andThen_snd, doLink_fst, evs_append, evs_doLink, List.nil_append]
              exact beginPre_kill _ (by simpa using ha) (by simpa using hs)
          · exact beginPre_kill _ (by simpa using ha) (by simpa using hs)
        · exact beginPre_kill _ (by simpa using ha) (by simpa using hs)
    exact ⟨fun _ => key.1, by simp_all, key.2⟩
  · simp only [hs, ite_true, say, handleSignal, andThen_fst, andThen_snd]
    refine ⟨fun _ => failSpawn_dead _ _ (by simpa using ha), by simp_all, fun e he => ?_⟩
    simp only [evs_append, evs_cons_ev, evs_cons_eff, evs_nil, List.nil_append, List.mem_append, List.mem_cons,
      List.not_mem_nil, or_false] at he
    rcases he with rfl | he
    · rfl
    · exact noise_np (failSpawn_noise _ _ _ he)
  · exact ⟨fun hp => by simp_all, fun _ => rfl, by simp⟩


/-! ### progress of a pending stop: the rank -/

/-- How many *effective* polls the actor is from `Stopped` once a stop is pending:
`cell 5 > pre 4 > ready 3 > post_start / idle / handler 2 > post_stop 1 > done 0`. -/
def rank (a : Actor) : Nat :=
  match a.phase with
  | .cell => 5 | .pre => 4 | .ready => 3
  | .postStart | .idle | .inMsg | .inSup => 2
  | .postStop _ => 1
  | .fresh | .done => 0

/-- A stop is in the stop port (accepted, not yet picked by the loop) or `post_stop` is already open. -/
def StopPend (a : Actor) : Prop := a.stopVal.isSome = true ∨ ∃ r, a.phase = .postStop r

/-- The script has supplied a segment that makes the open callback return. -/
def segReturns (a : Actor) : Bool :=
  match a.seg with
  | some s => decide (s.term ≠ .tick)
  | none => false

/-- A poll of the actor's task that does not find the open callback still suspended. -/
def effPoll (a : Actor) : AOp → Bool
  | .poll =>
    match a.phase with
    | .ready | .idle => true
    | .postStart | .inMsg | .inSup | .postStop _ => a.sigVal || segReturns a
    | _ => false
  | .pollSpawn _ =>
    match a.phase with
    | .cell => true
    | .pre => a.sigVal || segReturns a
    | _ => false
  | _ => false

/-- One step `a ⟶ x`: the actor ended, or it is alive and a pending stop stays pending with a rank that
did not grow (and fell, if `strict`). -/
def Prog (a x : Actor) (strict : Bool) : Prop :=
  Dead x ∨ (Alive x ∧ (StopPend a → StopPend x ∧ rank x ≤ rank a ∧ (strict = true → rank x < rank a)))

theorem rank_postStop {x : Actor} {r : Reason} (h : x.phase = .postStop r) : rank x = 1 := by simp [rank, h]

theorem Prog.of_keep {a x : Actor} (h : Alive a) (k : Keep a x) : Prog a x false := by
  right
  refine ⟨⟨by rw [k.phase]; exact h.1, by rw [k.phase]; exact h.2.1, by rw [k.armed]; exact h.2.2⟩, fun hs => ?_⟩
  refine ⟨?_, by simp [rank, k.phase], by simp⟩
  rcases hs with hs | ⟨r, hr⟩
  · exact Or.inl (k.stop hs)
  · exact Or.inr ⟨r, by rw [k.phase]; exact hr⟩

theorem Prog.same {a : Actor} (h : Alive a) : Prog a a false := Prog.of_keep h (Keep.rfl' a)

theorem runSeg_res (a : Actor) (cb : Cb) (s : Seg) (k : Actor → Res → M) :
    (s.term = .tick ∧ Keep a (runSeg a cb s k).1) ∨
    (s.term ≠ .tick ∧ ∃ a', Keep a a' ∧ (runSeg a cb s k).1 = (k a' s.term.res).1) := by
  rw [runSeg_fst]
  by_cases ht : s.term = .tick
  · left
    simp only [ht, ite_true, true_and]
    exact ⟨(runFxs_keep s.fx a).phase, (runFxs_keep s.fx a).armed, (runFxs_keep s.fx a).stop⟩
  · right
    simp only [ht, ite_false]
    exact ⟨ht, _, runFxs_keep s.fx a, rfl⟩

theorem pollOpen_prog (a : Actor) (cb : Cb) (h : Alive a)
    (hph : a.phase = .postStart ∨ a.phase = .inMsg ∨ a.phase = .inSup ∨ ∃ r, a.phase = .postStop r) :
    Prog a (pollOpen a cb).1 (a.sigVal || segReturns a) := by
  cases hs : a.sigVal with
  | true => exact Or.inl (pollOpen_kill a cb h.2.2 hs).1
  | false =>
    unfold pollOpen
    simp only [hs, Bool.false_eq_true, ite_false, Bool.false_or]
    cases hseg : a.seg with
    | none =>
      simp only [segReturns, hseg]
      exact Prog.of_keep h ⟨rfl, rfl, fun x => x⟩
    | some s =>
      simp only [segReturns, hseg]
      have key : ∀ b : Actor, Keep a b → Prog a (runSeg b cb s afterExit).1 (decide (s.term ≠ .tick)) := by
        intro b kb
        rcases runSeg_res b cb s afterExit with ⟨ht, k⟩ | ⟨ht, a', k, e⟩
        · simp only [ht, ne_eq, not_true_eq_false, decide_false]
          exact Prog.of_keep h (kb.trans k)
        · rw [e]
          have k := kb.trans k
          have ha' : a'.armed = true := by rw [k.armed]; exact h.2.2
          rcases afterExit_AD a' s.term.res ha' with hd | ⟨h1, h2, h3, h4⟩
          · exact Or.inl hd
          · right
            have hal : Alive (afterExit a' s.term.res).1 := by
              refine ⟨?_, ?_, h1⟩ <;> (intro hc; rw [hc] at h2; simp [Phase.inLoop] at h2)
            refine ⟨hal, fun hsp => ?_⟩
            have hp' : a'.phase = a.phase := k.phase
            rcases hsp with hsp | ⟨r, hr⟩
            · have : a'.stopVal.isSome = true := k.stop hsp
              obtain ⟨r', hr'⟩ := Option.isSome_iff_exists.mp this
              have hx := h4 r' hr'
              have e1 := rank_postStop hx
              have e3 : (∀ r, a.phase ≠ .postStop r) → rank a = 2 := by
                intro hn
                rcases hph with hq | hq | hq | ⟨r, hq⟩ <;> first | exact absurd hq (hn r) | simp [rank, hq]
              have e4 := e3 (fun r hr => h3 r (hp'.trans hr))
              exact ⟨Or.inr ⟨r', hx⟩, by omega, fun _ => by omega⟩
            · exact absurd (hp'.trans hr) (h3 r)
      exact key _ ⟨rfl, rfl, fun x => x⟩

theorem opPoll_prog (a : Actor) (h : Alive a) : Prog a (opPoll a).1 (effPoll a .poll) := by
  unfold opPoll
  split
  · rename_i hp
    simp only []
    split
    · exact Or.inl (killedOutsideLoop_dead _ (by simpa using h.2.2))
    · right
      refine ⟨⟨by simp, by simp, by simpa using h.2.2⟩, fun hs => ?_⟩
      rcases hs with hs | ⟨r, hr⟩
      · exact ⟨Or.inl (by simpa using hs), by simp [rank, hp], fun _ => by simp [rank, hp]⟩
      · simp [hp] at hr
  · rename_i hp
    rcases listen_AD { a with woken := false } (by simpa using h.2.2) with hd | ⟨h1, h2, _, h4⟩
    · exact Or.inl hd
    · right
      have hal : Alive (listen { a with woken := false }).1 := by
        refine ⟨?_, ?_, h1⟩ <;> (intro hc; rw [hc] at h2; simp [Phase.inLoop] at h2)
      refine ⟨hal, fun hsp => ?_⟩
      rcases hsp with hsp | ⟨r, hr⟩
      · obtain ⟨r', hr'⟩ := Option.isSome_iff_exists.mp hsp
        have hx := h4 r' (by simpa using hr')
        have e1 := rank_postStop hx
        have e2 : rank a = 2 := by simp [rank, hp]
        exact ⟨Or.inr ⟨r', hx⟩, by omega, fun _ => by omega⟩
      · simp [hp] at hr
  · rename_i hp
    have := pollOpen_prog a .postStart h (Or.inl hp)
    simpa [effPoll, hp] using this
  · rename_i hp
    have := pollOpen_prog a .handle h (Or.inr (Or.inl hp))
    simpa [effPoll, hp] using this
  · rename_i hp
    have := pollOpen_prog a .sup h (Or.inr (Or.inr (Or.inl hp)))
    simpa [effPoll, hp] using this
  · rename_i r hp
    have := pollOpen_prog a .postStop h (Or.inr (Or.inr (Or.inr ⟨r, hp⟩)))
    simpa [effPoll, hp] using this
  · rename_i h1 h2 h3 h4 h5 h6
    have : effPoll a .poll = false := by
      cases hp : a.phase <;> simp_all [effPoll]
    rw [this]
    exact Prog.same h


theorem beginPre_AD (b : Actor) (hb : b.armed = true) :
    Dead (beginPre b).1 ∨ ((beginPre b).1.phase = .pre ∧ (beginPre b).1.armed = true ∧
      (beginPre b).1.stopVal = b.stopVal) := by
  unfold beginPre
  split
  · simp only [handleSignal, andThen_fst]
    exact Or.inl (failSpawn_dead _ _ (by simpa using hb))
  · exact Or.inr ⟨rfl, hb, rfl⟩

theorem startInstant_AD (a : Actor) (supOk : Bool) (ha : a.armed = true) :
    Dead (startInstant a supOk).1 ∨ ((startInstant a supOk).1.phase = .pre ∧ (startInstant a supOk).1.armed = true ∧
      (startInstant a supOk).1.stopVal = a.stopVal) := by
  unfold startInstant
  split
  · exact Or.inl (failSpawn_dead _ _ ha)
  · simp only []
    split
    · split
      · split
        · exact Or.inl (failSpawn_dead _ _ (by simpa using ha))
        · simp only [andThen_fst, doLink_fst]
          exact beginPre_AD _ (by simpa using ha)
      · exact beginPre_AD _ (by simpa using ha)
    · exact beginPre_AD _ (by simpa using ha)

theorem opPollSpawn_prog (a : Actor) (supOk : Bool) (h : Alive a) :
    Prog a (opPollSpawn a supOk).1 (effPoll a (.pollSpawn supOk)) := by
  unfold opPollSpawn
  split
  · rename_i hp
    rcases startInstant_AD a supOk h.2.2 with hd | ⟨h1, h2, h3⟩
    · exact Or.inl hd
    · right
      refine ⟨⟨by simp [h1], by simp [h1], h2⟩, fun hsp => ?_⟩
      have e1 : rank (startInstant a supOk).1 = 4 := by simp [rank, h1]
      have e2 : rank a = 5 := by simp [rank, hp]
      refine ⟨?_, by omega, fun _ => by omega⟩
      rcases hsp with hsp | ⟨r, hr⟩
      · exact Or.inl (by rw [h3]; exact hsp)
      · simp [hp] at hr
  · rename_i hp
    split
    · simp only [say, handleSignal, andThen_fst]
      exact Or.inl (failSpawn_dead _ _ (by simpa using h.2.2))
    · rename_i hs
      have hs : a.sigVal = false := by simpa using hs
      cases hseg : a.seg with
      | none =>
        have : effPoll a (.pollSpawn supOk) = false := by simp [effPoll, hp, hs, segReturns, hseg]
        rw [this]; exact Prog.same h
      | some s =>
        simp only []
        have key : ∀ b : Actor, Keep a b →
            Prog a (runSeg b .preStart s (fun a r => afterPre a supOk r)).1 (decide (s.term ≠ .tick)) := by
          intro b kb
          rcases runSeg_res b .preStart s (fun a r => afterPre a supOk r) with ⟨ht, k⟩ | ⟨ht, a', k, e⟩
          · simp only [ht, ne_eq, not_true_eq_false, decide_false]
            exact Prog.of_keep h (kb.trans k)
          · rw [e]
            have k := kb.trans k
            have ha' : a'.armed = true := by rw [k.armed]; exact h.2.2
            rcases afterPre_AD a' supOk s.term.res ha' with hd | ⟨h1, h2, h3, _⟩
            · exact Or.inl hd
            · right
              refine ⟨⟨by simp [h1], by simp [h1], h2⟩, fun hsp => ?_⟩
              have e1 : rank (afterPre a' supOk s.term.res).1 = 3 := by simp [rank, h1]
              have e2 : rank a = 4 := by simp [rank, hp]
              refine ⟨?_, by omega, fun _ => by omega⟩
              rcases hsp with hsp | ⟨r, hr⟩
              · exact Or.inl (by rw [h3]; exact k.stop hsp)
              · simp [hp] at hr
        have : effPoll a (.pollSpawn supOk) = decide (s.term ≠ .tick) := by
          simp [effPoll, hp, hs, segReturns, hseg]
        rw [this]
        exact key _ ⟨rfl, rfl, fun x => x⟩
  · rename_i h1 h2
    have : effPoll a (.pollSpawn supOk) = false := by
      cases hp : a.phase <;> simp_all [effPoll]
    rw [this]
    exact Prog.same h

theorem pollMark_fst (a : Actor) (x : M) : (pollMark a x).1 = x.1 := by
  unfold pollMark; split <;> rfl

theorem pollMark_np (a : Actor) (x : M) (h : ∀ e ∈ evs x.2, C03.isProgress e = false) :
    ∀ e ∈ evs (pollMark a x).2, C03.isProgress e = false := by
  unfold pollMark
  split
  · intro e he
    simp only [evs_append, List.mem_append] at he
    rcases he with he | he
    · exact h e he
    · simp at he; subst he; rfl
  · exact h

/-- **Every op**, from an alive actor: it ends (`Dead`) or stays alive; a pending stop stays pending, its
rank never grows, and an effective poll makes it fall. -/
theorem step_prog (a : Actor) (op : AOp) (h : Alive a) : Prog a (a.stepCore op).1 (effPoll a op) := by
  cases op with
  | spawn sup name nameFree isLocal supOk =>
    simp only [Actor.stepCore, opSpawn]
    split
    · rename_i hp; exact absurd hp h.1
    · exact Prog.same h
  | spawnInstant sup name nameFree isLocal =>
    simp only [Actor.stepCore, opSpawnInstant]
    split
    · rename_i hp; exact absurd hp h.1
    · exact Prog.same h
  | pollSpawn supOk => exact opPollSpawn_prog a supOk h
  | dropSpawn =>
    simp only [Actor.stepCore, effPoll]
    by_cases hp : a.phase = .cell ∨ a.phase = .pre
    · exact Or.inl (opDropSpawn_dead a h.2.2 hp)
    · have : (opDropSpawn a).1 = a := by
        unfold opDropSpawn
        split <;> simp_all
      rw [this]; exact Prog.same h
  | poll =>
    simp only [Actor.stepCore, pollMark_fst]
    exact opPoll_prog a h
  | abort =>
    simp only [Actor.stepCore, effPoll]
    cases ht : a.phase.isTask with
    | true => exact Or.inl (opAbort_dead a h.2.2 ht)
    | false =>
      have : (opAbort a).1 = a := by simp [opAbort, ht]
      rw [this]; exact Prog.same h
  | resume s =>
    simp only [Actor.stepCore, effPoll, opResume]
    split
    · exact Prog.same h
    · split
      · exact Prog.same h
      · exact Prog.of_keep h ⟨rfl, rfl, fun x => x⟩
  | _ =>
    simp only [Actor.stepCore, effPoll, h.1, ite_false]
    obtain ⟨h1, h2, _, _, h5, _⟩ := envOp_keep a _
    exact Prog.of_keep h ⟨h1, h2, h5⟩


/-! ### a pending kill, op by op -/

/-- A poll of the actor's task: of the spawn future / start task while it exists (`cell`, `pre`), of the
loop task afterwards. -/
def taskPoll (a : Actor) : AOp → Bool
  | .poll => a.phase.isTask
  | .pollSpawn _ => decide (a.phase = .cell ∨ a.phase = .pre)
  | _ => false

theorem kill_step (a : Actor) (op : AOp) (h : Alive a) (hs : a.sigVal = true) :
    (Dead (a.stepCore op).1 ∨ (Alive (a.stepCore op).1 ∧ (a.stepCore op).1.sigVal = true)) ∧
    (taskPoll a op = true → Dead (a.stepCore op).1) ∧
    (∀ e ∈ evs (a.stepCore op).2, C03.isProgress e = false) := by
  have same : ∀ o : List Out, (∀ e ∈ evs o, C03.isProgress e = false) →
      (Dead a ∨ (Alive a ∧ a.sigVal = true)) ∧ (false = true → Dead a) ∧
      (∀ e ∈ evs o, C03.isProgress e = false) := fun o ho => ⟨Or.inr ⟨h, hs⟩, by simp, ho⟩
  cases op with
  | spawn sup name nameFree isLocal supOk =>
    simp only [Actor.stepCore, opSpawn, taskPoll]
    split
    · rename_i hp; exact absurd hp h.1
    · exact same _ (by simp)
  | spawnInstant sup name nameFree isLocal =>
    simp only [Actor.stepCore, opSpawnInstant, taskPoll]
    split
    · rename_i hp; exact absurd hp h.1
    · exact same _ (by simp)
  | pollSpawn supOk =>
    simp only [Actor.stepCore, taskPoll]
    obtain ⟨h1, h2, h3⟩ := opPollSpawn_kill a supOk h.2.2 hs
    refine ⟨?_, fun ht => h1 (by simpa using ht), h3⟩
    by_cases hp : a.phase = .cell ∨ a.phase = .pre
    · exact Or.inl (h1 hp)
    · rw [h2 hp]; exact Or.inr ⟨h, hs⟩
  | dropSpawn =>
    simp only [Actor.stepCore, taskPoll]
    refine ⟨?_, by simp, opDropSpawn_np a⟩
    by_cases hp : a.phase = .cell ∨ a.phase = .pre
    · exact Or.inl (opDropSpawn_dead a h.2.2 hp)
    · have : (opDropSpawn a).1 = a := by
        unfold opDropSpawn
        split <;> simp_all
      rw [this]; exact Or.inr ⟨h, hs⟩
  | poll =>
    simp only [Actor.stepCore, taskPoll, pollMark_fst]
    obtain ⟨h1, h2, h3⟩ := opPoll_kill a h.2.2 hs
    refine ⟨?_, h1, pollMark_np a _ h3⟩
    cases ht : a.phase.isTask with
    | true => exact Or.inl (h1 ht)
    | false => rw [h2 ht]; exact Or.inr ⟨h, hs⟩
  | abort =>
    simp only [Actor.stepCore, taskPoll]
    refine ⟨?_, by simp, opAbort_np a⟩
    cases ht : a.phase.isTask with
    | true => exact Or.inl (opAbort_dead a h.2.2 ht)
    | false =>
      have : (opAbort a).1 = a := by simp [opAbort, ht]
      rw [this]; exact Or.inr ⟨h, hs⟩
  | resume s =>
    simp only [Actor.stepCore, taskPoll, opResume]
    split
    · exact same _ (by simp)
    · split
      · exact same _ (by simp)
      · exact ⟨Or.inr ⟨⟨h.1, h.2.1, h.2.2⟩, hs⟩, by simp, by simp⟩
  | _ =>
    simp only [Actor.stepCore, taskPoll, h.1, ite_false]
    obtain ⟨h1, h2, _, h4, _, h6⟩ := envOp_keep a _
    exact ⟨Or.inr ⟨⟨by rw [h1]; exact h.1, by rw [h1]; exact h.2.1, by rw [h2]; exact h.2.2⟩, h4 hs⟩, by simp, h6⟩

/-! ### the other two cases of `Reach` -/

theorem dead_step (a : Actor) (op : AOp) (h : Dead a) :
    Dead (a.stepCore op).1 ∧ ∀ e ∈ evs (a.stepCore op).2, C03.isProgress e = false := by
  have hp := h.1
  cases op with
  | spawn sup name nameFree isLocal supOk => simp [Actor.stepCore, opSpawn, hp, h]
  | spawnInstant sup name nameFree isLocal => simp [Actor.stepCore, opSpawnInstant, hp, h]
  | pollSpawn supOk => simp [Actor.stepCore, opPollSpawn, hp, h]
  | dropSpawn => simp [Actor.stepCore, opDropSpawn, hp, h]
  | poll => simp [Actor.stepCore, opPoll, pollMark, Phase.isTask, hp, h]
  | abort => simp [Actor.stepCore, opAbort, Phase.isTask, hp, h]
  | resume s => simp [Actor.stepCore, opResume, Phase.openCb, hp, h]
  | _ =>
    simp only [Actor.stepCore, hp, reduceCtorEq, ite_false]
    exact ⟨envOp_dead a _ h, (envOp_keep a _).2.2.2.2.2⟩

theorem fresh_step (a : Actor) (op : AOp) (h : Fresh a) : Fresh (a.stepCore op).1 ∨ Alive (a.stepCore op).1 := by
  obtain ⟨hp, h1, h2⟩ := h
  cases op with
  | spawn sup name nameFree isLocal supOk =>
    simp only [Actor.stepCore, opSpawn, hp]
    (repeat' split) <;> simp_all [Fresh, Alive]
  | spawnInstant sup name nameFree isLocal =>
    simp only [Actor.stepCore, opSpawnInstant, hp]
    (repeat' split) <;> simp_all [Fresh, Alive]
  | pollSpawn supOk => simp [Actor.stepCore, opPollSpawn, hp, Fresh, h1, h2]
  | dropSpawn => simp [Actor.stepCore, opDropSpawn, hp, Fresh, h1, h2]
  | poll => simp [Actor.stepCore, opPoll, pollMark, Phase.isTask, hp, Fresh, h1, h2]
  | abort => simp [Actor.stepCore, opAbort, Phase.isTask, hp, Fresh, h1, h2]
  | resume s => simp [Actor.stepCore, opResume, Phase.openCb, hp, Fresh, h1, h2]
  | _ => simp [Actor.stepCore, hp, Fresh, h1, h2]

theorem reach_step (a : Actor) (op : AOp) (h : Reach a) : Reach (a.step op).1 := by
  show Reach (a.stepCore op).1
  rcases h with h | h | h
  · rcases fresh_step a op h with h' | h'
    · exact Or.inl h'
    · exact Or.inr (Or.inl h')
  · rcases step_prog a op h with h' | ⟨h', _⟩
    · exact Or.inr (Or.inr h')
    · exact Or.inr (Or.inl h')
  · exact Or.inr (Or.inr (dead_step a op h).1)

theorem reach_init (id : Nat) : Reach (Actor.init id) := Or.inl ⟨rfl, rfl, rfl⟩

theorem reach_run (ops : List AOp) (a : Actor) (h : Reach a) : Reach (a.run ops).1 := by
  induction ops generalizing a with
  | nil => exact h
  | cons op ops ih => exact ih _ (reach_step a op h)

/-- A value in the signal / stop port means the cell exists and is alive (guard armed). -/
theorem Reach.alive_of_sig {a : Actor} (h : Reach a) (hs : a.sigVal = true) : Alive a := by
  rcases h with h | h | h
  · rw [h.2.1] at hs; cases hs
  · exact h
  · rw [h.2.2.2.1] at hs; cases hs

theorem Reach.alive_of_stop {a : Actor} (h : Reach a) (hs : a.stopVal.isSome = true) : Alive a := by
  rcases h with h | h | h
  · rw [h.2.2] at hs; cases hs
  · exact h
  · rw [h.2.2.2.2.1] at hs; cases hs


/-! ### runs -/

theorem step_np (a : Actor) (op : AOp) (h : ∀ e ∈ evs (a.stepCore op).2, C03.isProgress e = false) :
    ∀ e ∈ evs (a.step op).2, C03.isProgress e = false := by
  intro e he
  rw [step_eq] at he
  simp only [evs_append, List.mem_append] at he
  rcases he with (he | he) | he
  · exact h e he
  · unfold supTail at he; split at he <;> simp at he; subst he; rfl
  · unfold snapTail at he; split at he <;> simp at he; subst he; rfl

/-- Polls of the actor's task along a run. -/
def pollCount (a : Actor) : List AOp → Nat
  | [] => 0
  | op :: ops => (if taskPoll a op then 1 else 0) + pollCount (a.step op).1 ops

/-- Effective polls of the actor's task along a run. -/
def effCount (a : Actor) : List AOp → Nat
  | [] => 0
  | op :: ops => (if effPoll a op then 1 else 0) + effCount (a.step op).1 ops

theorem dead_run (ops : List AOp) (a : Actor) (h : Dead a) :
    Dead (a.run ops).1 ∧ ∀ e ∈ (a.run ops).2, C03.isProgress e = false := by
  induction ops generalizing a with
  | nil => exact ⟨h, by simp [Actor.run]⟩
  | cons op ops ih =>
    obtain ⟨h1, h2⟩ := dead_step a op h
    obtain ⟨h3, h4⟩ := ih (a.step op).1 h1
    refine ⟨h3, fun e he => ?_⟩
    simp only [Actor.run, List.mem_append] at he
    rcases he with he | he
    · exact step_np a op h2 e he
    · exact h4 e he

theorem kill_run (ops : List AOp) (a : Actor) (h : Alive a) (hs : a.sigVal = true) :
    (Dead (a.run ops).1 ∨ (Alive (a.run ops).1 ∧ (a.run ops).1.sigVal = true)) ∧
    (1 ≤ pollCount a ops → Dead (a.run ops).1) ∧
    ∀ e ∈ (a.run ops).2, C03.isProgress e = false := by
  induction ops generalizing a with
  | nil => exact ⟨Or.inr ⟨h, hs⟩, by simp [pollCount], by simp [Actor.run]⟩
  | cons op ops ih =>
    obtain ⟨h1, h2, h3⟩ := kill_step a op h hs
    have hev : ∀ (t : List Ev), (∀ e ∈ t, C03.isProgress e = false) →
        ∀ e ∈ evs (a.step op).2 ++ t, C03.isProgress e = false := by
      intro t ht e he
      rcases List.mem_append.mp he with he | he
      · exact step_np a op h3 e he
      · exact ht e he
    rcases h1 with hd | ⟨hal, hsig⟩
    · obtain ⟨h4, h5⟩ := dead_run ops (a.step op).1 hd
      exact ⟨Or.inl h4, fun _ => h4, hev _ h5⟩
    · obtain ⟨i1, i2, i3⟩ := ih (a.step op).1 hal hsig
      refine ⟨i1, fun hc => ?_, hev _ i3⟩
      cases htp : taskPoll a op with
      | true => exact (dead_run ops _ (h2 htp)).1
      | false =>
        simp only [pollCount, htp, Bool.false_eq_true, ite_false, Nat.zero_add] at hc
        exact i2 hc

theorem rank_pos {a : Actor} (h : Alive a) : 1 ≤ rank a := by
  obtain ⟨h1, h2, _⟩ := h
  cases hp : a.phase <;> simp_all [rank]

theorem rank_le (a : Actor) : rank a ≤ 5 := by
  cases hp : a.phase <;> simp [rank, hp]

theorem stop_run (ops : List AOp) (a : Actor) (h : Alive a) (hs : StopPend a) :
    Dead (a.run ops).1 ∨
    (Alive (a.run ops).1 ∧ StopPend (a.run ops).1 ∧ rank (a.run ops).1 + effCount a ops ≤ rank a) := by
  induction ops generalizing a with
  | nil => exact Or.inr ⟨h, hs, by simp [effCount, Actor.run]⟩
  | cons op ops ih =>
    rcases step_prog a op h with hd | ⟨hal, hp⟩
    · exact Or.inl (dead_run ops _ hd).1
    · obtain ⟨p1, p2, p3⟩ := hp hs
      rcases ih (a.step op).1 hal p1 with hd | ⟨i1, i2, i3⟩
      · exact Or.inl hd
      · refine Or.inr ⟨i1, i2, ?_⟩
        have e0 : (a.step op).1 = (a.stepCore op).1 := rfl
        simp only [effCount, Actor.run]
        rw [e0] at i3 ⊢
        cases he : effPoll a op with
        | true => have := p3 he; simp only [ite_true]; omega
        | false => simp only [Bool.false_eq_true, ite_false]; omega


/-! ### from the trace to the state: accepted kills / stops are sticky in the C03 automaton -/

/-- A stop that found the stop port open. -/
def isStopAcc : Ev → Bool
  | .stopRet _ _ true => true
  | _ => false

theorem next_sticky {s s1 : C03.St} {e : Ev} (h : C03.next s e = .ok s1) :
    ((s.killed = true ∨ C03.isKillAcc e = true) → s1.killed = true) ∧
    ((s.stopAcc = true ∨ isStopAcc e = true) → s1.stopAcc = true) := by
  cases e <;> simp only [C03.next] at h <;> (repeat' split at h) <;>
    first
      | (cases h; done)
      | (cases h; simp_all [C03.isKillAcc, isStopAcc]; done)

theorem accepts_sticky {tr : List Ev} {s s' : C03.St} (h : accepts C03.next s tr = .ok s') :
    ((s.killed = true ∨ ∃ x ∈ tr, C03.isKillAcc x = true) → s'.killed = true) ∧
    ((s.stopAcc = true ∨ ∃ x ∈ tr, isStopAcc x = true) → s'.stopAcc = true) := by
  induction tr generalizing s with
  | nil =>
    simp only [accepts_nil] at h; cases h
    constructor
    · rintro (hk | ⟨x, hx, _⟩)
      · exact hk
      · cases hx
    · rintro (hk | ⟨x, hx, _⟩)
      · exact hk
      · cases hx
  | cons e es ih =>
    rw [accepts_cons] at h
    cases hn : C03.next s e with
    | error c => simp [hn] at h
    | ok s1 =>
      simp only [hn] at h
      obtain ⟨k1, t1⟩ := next_sticky hn
      obtain ⟨k2, t2⟩ := ih h
      constructor
      · rintro (hk | ⟨x, hx, hf⟩)
        · exact k2 (Or.inl (k1 (Or.inl hk)))
        · rcases List.mem_cons.mp hx with rfl | hx
          · exact k2 (Or.inl (k1 (Or.inr hf)))
          · exact k2 (Or.inr ⟨x, hx, hf⟩)
      · rintro (hk | ⟨x, hx, hf⟩)
        · exact t2 (Or.inl (t1 (Or.inl hk)))
        · rcases List.mem_cons.mp hx with rfl | hx
          · exact t2 (Or.inl (t1 (Or.inr hf)))
          · exact t2 (Or.inr ⟨x, hx, hf⟩)

theorem Reach.dead_of_done {a : Actor} (h : Reach a) (hd : a.phase = .done) : Dead a := by
  rcases h with h | h | h
  · rw [h.1] at hd; cases hd
  · exact absurd hd h.2.1
  · exact h

/-- After a trace containing an accepted kill the actor is `Dead` or the kill is still in the signal port. -/
theorem kill_event_pending (id : Nat) (ops0 : List AOp)
    (hk : ∃ e ∈ trace id ops0, C03.isKillAcc e = true) :
    Dead ((Actor.init id).run ops0).1 ∨
    (Alive ((Actor.init id).run ops0).1 ∧ ((Actor.init id).run ops0).1.sigVal = true) := by
  obtain ⟨s, hacc, hinv⟩ := C03.run_sim ops0 (Actor.init id) {} (C03.inv_init id)
  have hr := reach_run ops0 _ (reach_init id)
  have hkilled : s.killed = true := (accepts_sticky hacc).1 (Or.inr hk)
  rcases hinv with hd | ⟨hx, _, _⟩
  · exact Or.inl (hr.dead_of_done hd)
  · have hs := hx.kill.mp hkilled
    exact Or.inr ⟨hr.alive_of_sig hs, hs⟩

/-- After a trace containing an accepted stop the actor is `Dead`, or the stop is still in the stop port, or
`post_stop` is open. -/
theorem stop_event_pending (id : Nat) (ops0 : List AOp)
    (hk : ∃ e ∈ trace id ops0, isStopAcc e = true) :
    Dead ((Actor.init id).run ops0).1 ∨
    (Alive ((Actor.init id).run ops0).1 ∧ StopPend ((Actor.init id).run ops0).1) := by
  obtain ⟨s, hacc, hinv⟩ := C03.run_sim ops0 (Actor.init id) {} (C03.inv_init id)
  have hr := reach_run ops0 _ (reach_init id)
  have hst : s.stopAcc = true := (accepts_sticky hacc).2 (Or.inr hk)
  rcases hinv with hd | ⟨_, _, hso⟩
  · exact Or.inl (hr.dead_of_done hd)
  · by_cases hp : ∃ r, ((Actor.init id).run ops0).1.phase = .postStop r
    · obtain ⟨r, hpr⟩ := hp
      rcases hr with h | h | h
      · rw [h.1] at hpr; cases hpr
      · exact Or.inr ⟨h, Or.inr ⟨r, hpr⟩⟩
      · exact Or.inl h
    · have hs := hso (fun r hpr => hp ⟨r, hpr⟩) hst
      exact Or.inr ⟨hr.alive_of_stop hs, Or.inl hs⟩

end Life.Liveness
