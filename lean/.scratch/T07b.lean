import RactorModel.Props.C07
namespace C07
section XlateTieModel
open Generated.Admission GenAdmission Admission

/-- pc `aLoad` of the model takes exactly the branch the generated `try_admit_message` takes on
the encoded word. -/
theorem model_admit_load_follows_generated (enq : Except MessagingErr Unit) (s : Shared) (f : Frame)
    (rest : List Frame) (hpc : f.pc = .aLoad) (h : s.word.count + 1 < 2 ^ 62) :
    stepThread s (f :: rest) =
      match ActorProperties.try_admit_message enq (st s.word) with
      | .done _ => some (finish s f .sendErr rest)
      | .cas _ _ _ => some (s, { f with pc := .aCas s.word } :: rest) := by
  rw [generated_try_admit_eq_model enq s.word h]
  unfold stepThread
  simp only [hpc]
  cases s.word.closed <;> rfl

/-- pc `aCas seen`, exchange succeeding: the word the model installs is the `new` word of the
generated iteration (through `enc`). -/
theorem model_admit_cas_installs_generated (enq : Except MessagingErr Unit) (s : Shared) (f : Frame)
    (rest : List Frame) (hpc : f.pc = .aCas s.word) (hopen : s.word.closed = false)
    (h : s.word.count + 1 < 2 ^ 62) :
    ∃ s' st', stepThread s (f :: rest) = some (s', st') ∧
      ActorProperties.try_admit_message enq (st s.word) = .cas (enc s.word) (enc s'.word) (some ()) := by
  refine ⟨{ s with word := { s.word with count := s.word.count + 1 } }, { f with pc := .box } :: rest, ?_, ?_⟩
  · unfold stepThread
    simp only [hpc, ↓reduceIte]
  · rw [generated_try_admit_eq_model enq s.word h]
    simp [hopen]

/-- pc `dClose`: the word the model installs is the one `close_message_admission` computes. -/
theorem model_close_installs_generated (enq : Except MessagingErr Unit) (s : Shared) (f : Frame)
    (rest : List Frame) (hpc : f.pc = .dClose) (h : s.word.count < 2 ^ 62) :
    ∃ s' st', stepThread s (f :: rest) = some (s', st') ∧
      ActorProperties.close_message_admission enq (st s.word) = st s'.word := by
  refine ⟨{ s with word := { s.word with closed := true } }, { f with pc := .dStatus } :: rest, ?_, ?_⟩
  · unfold stepThread
    simp only [hpc]
  · exact generated_close_admission_eq_model enq s.word h

/-- pc `mLoad`: the marker program goes on to its exchange exactly when the generated
`send_drain_marker` iteration does. -/
theorem model_marker_load_follows_generated (enq : Except MessagingErr Unit) (s : Shared) (f : Frame)
    (rest : List Frame) (ret : Option Res) (hpc : f.pc = .mLoad ret) (h : s.word.count < 2 ^ 62) :
    stepThread s (f :: rest) =
      match ActorProperties.send_drain_marker enq (st s.word) with
      | .done _ => some (finish s f (mRet ret) rest)
      | .cas _ _ _ => some (s, { f with pc := .mCas s.word ret } :: rest) := by
  rw [generated_send_drain_marker_eq_model enq s.word h]
  unfold stepThread
  simp only [hpc]
  cases markerCond s.word <;> rfl

/-- pc `rel r` (ticket release): the word the model installs and its decision to enter the
marker program are the generated `MessageAdmission::drop`'s. -/
theorem model_release_follows_generated (enq : Except MessagingErr Unit) (s : Shared) (f : Frame)
    (rest : List Frame) (r : Res) (hpc : f.pc = .rel r) (h : s.word.count < 2 ^ 62) (hpos : 0 < s.word.count) :
    (MessageAdmission.drop enq (st s.word)).1 = st { s.word with count := s.word.count - 1 } ∧
    stepThread s (f :: rest) =
      (let s' := { s with word := { s.word with count := s.word.count - 1 } }
       if (MessageAdmission.drop enq (st s.word)).2 then some (s', { f with pc := .mLoad (some r) } :: rest)
       else some (finish s' f r rest)) := by
  rw [generated_ticket_release_eq_model enq s.word h hpos]
  refine ⟨rfl, ?_⟩
  unfold stepThread
  simp only [hpc]
end XlateTieModel
end C07
