import RactorModel.Model.Handshake

/-! # Lingering `node_sessions` entries (C18, wave 2 — additive extension of `Model/Handshake.lean`)

In `ractor_cluster/src/node.rs` a session that lost an election is `stop()`ped by
`ConnectionAuthenticated` (`loser.stop("duplicate_connection")`), and a session whose
pre-authentication `CheckSession` failed closes itself — but the ENTRY of that session stays in
`node_sessions` / `connection_ids` until the `NodeServer` handles the `ActorTerminated` supervision
event (`handle_supervisor_evt`: `node_sessions.entry(id).remove()`, `connection_ids.remove`,
`authenticated_sessions.remove`). `commit_authenticated` has removed the loser from
`authenticated_sessions`, so it is no election candidate any more (`candidates_for_peer(_, true)`),
but `check_session` looks the asker up by (peer name, nonce) among ALL of `node_sessions` — the
lingering entry still counts there.

`Model/Handshake.lean` drops a closed session at once (`matchA` filters `openA`). Here the state
additionally records which closed sessions have been REAPED (`ActorTerminated` handled); a closed
session that has not been reaped LINGERS:

* `LOp.f op` — the steps of `fStep` (late dials, election steps, failing ends): the world changes,
  nothing is reaped; whatever a step closes lingers from then on;
* `LOp.reapA a` / `reapB b` — the node handles `ActorTerminated` of its closed session: the entry is gone;
* `LOp.preSA a` / `preSB b` — the session-level pre-check `check_session` as the REAL table answers
  it: the (name, nonce) lookup ranges over the open AND the lingering sessions (`matchLA`); with
  exactly one match it is `check_candidate` (`stepPreA`, whose candidates are authenticated sessions
  only — a lingering entry is none), with several it is `NoOtherConnection` (nothing happens). -/

namespace Election

structure LState where
  w : List Link := []
  /-- sessions of node A / B whose `ActorTerminated` has been handled -/
  reapedA : List Nat := []
  reapedB : List Nat := []
  deriving Repr

/-- the `node_sessions` entry of the A-end / B-end of `l` is still there although the session is closed -/
def LState.lingersA (s : LState) (l : Link) : Bool := !l.openA && !s.reapedA.contains l.c.idA
def LState.lingersB (s : LState) (l : Link) : Bool := !l.openB && !s.reapedB.contains l.c.idB

/-- the lingering entries: ids of the closed, not yet reaped sessions on A / B -/
def LState.lingeringA (s : LState) : List Nat := (s.w.filter s.lingersA).map (·.c.idA)
def LState.lingeringB (s : LState) : List Nat := (s.w.filter s.lingersB).map (·.c.idB)

/-- `check_session`'s lookup on the real table: ids of the sessions in `node_sessions` — open or
lingering — whose nonce is `n` -/
def matchLA (s : LState) (n : Nat) : List Nat :=
  (s.w.filter (fun l => (l.openA || s.lingersA l) && nz l.c.nonce == nz n)).map (·.c.idA)
def matchLB (s : LState) (n : Nat) : List Nat :=
  (s.w.filter (fun l => (l.openB || s.lingersB l) && nz l.c.nonce == nz n)).map (·.c.idB)

/-- `stepPreSA` with the lookup over open and lingering sessions -/
def stepPreLA (o : Ordering) (s : LState) (a : Nat) : List Link :=
  match s.w.find? (fun l => l.c.idA == a) with
  | some l => if (matchLA s l.c.nonce).length == 1 then stepPreA o s.w a else s.w
  | none => s.w
def stepPreLB (o : Ordering) (s : LState) (b : Nat) : List Link :=
  match s.w.find? (fun l => l.c.idB == b) with
  | some l => if (matchLB s l.c.nonce).length == 1 then stepPreB o s.w b else s.w
  | none => s.w

inductive LOp
  | f (op : FOp)
  | reapA (a : Nat)
  | reapB (b : Nat)
  | preSA (a : Nat)
  | preSB (b : Nat)
  deriving Repr, DecidableEq

def lStep (o : Ordering) (s : LState) : LOp → LState
  | .f op => { s with w := fStep o s.w op }
  | .reapA a =>
    if s.w.any (fun l => l.c.idA == a && !l.openA) then { s with reapedA := s.reapedA ++ [a] } else s
  | .reapB b =>
    if s.w.any (fun l => l.c.idB == b && !l.openB) then { s with reapedB := s.reapedB ++ [b] } else s
  | .preSA a => { s with w := stepPreLA o s a }
  | .preSB b => { s with w := stepPreLB o s b }

def lRun (o : Ordering) (ops : List LOp) : LState := ops.foldl (lStep o) {}

/-- the connections a run dials -/
def lDials : List LOp → List Conn
  | [] => []
  | .f (.dial c) :: rest => c :: lDials rest
  | _ :: rest => lDials rest

end Election
