import RactorModel.Model.Remote

/-!
Lemmas for the `Remote` model (C20): FIFO pipelines, the proxy's tag/pending invariant,
the end-to-end invariant of `Net`, the control-stream mirror.
-/

namespace Remote

/-! ### pipelines -/

namespace Pipe
variable {α : Type}

theorem contents_push (x : α) (p : Pipe α) : contents (push x p) = contents p ++ [x] := by
  cases p with
  | nil => rfl
  | cons s rest => simp [push, contents]

theorem contents_foldl_push (xs : List α) (p : Pipe α) :
    contents (xs.foldl (fun p f => push f p) p) = contents p ++ xs := by
  induction xs generalizing p with
  | nil => simp
  | cons x xs ih => simp [ih, contents_push]

theorem move_spec (i : Nat) (p : Pipe α) :
    match (move i p).2 with
    | none => contents (move i p).1 = contents p
    | some x => contents p = x :: contents (move i p).1 := by
  induction p generalizing i with
  | nil => simp [move, contents]
  | cons s rest ih =>
    cases i with
    | zero =>
      cases rest with
      | nil =>
        cases s with
        | nil => simp [move, contents]
        | cons x s' => simp [move, contents]
      | cons t rest' =>
        cases s with
        | nil => simp [move, contents]
        | cons x s' => simp [move, contents]
    | succ i =>
      have h := ih i
      simp only [move]
      cases ho : (move i rest).2 with
      | none => rw [ho] at h; simp only [contents]; rw [h]
      | some x => rw [ho] at h; simp only [contents]; rw [h]; simp

theorem contents_clear (p : Pipe α) : contents (clear p) = [] := by
  induction p with
  | nil => rfl
  | cons s rest ih => simp [clear, contents] at ih ⊢; exact ih

end Pipe

/-! ### the proxy -/

/-- `pending` is strictly ascending by tag and no tag exceeds the counter -/
structure PInv (p : Proxy) : Prop where
  sorted : p.pending.Pairwise (fun a b => a.1 < b.1)
  le : ∀ e ∈ p.pending, e.1 ≤ p.tag

theorem pinv_init : PInv {} := ⟨List.Pairwise.nil, by simp⟩

theorem cleanup_sublist (closed : Nat → Bool) (p : Proxy) :
    (p.cleanup closed).pending.Sublist p.pending := by
  unfold Proxy.cleanup
  split
  · exact List.Sublist.refl _
  · exact List.filter_sublist

theorem cleanup_tag (closed : Nat → Bool) (p : Proxy) : (p.cleanup closed).tag = p.tag := by
  unfold Proxy.cleanup; split <;> rfl

/-- cleanup never removes an entry whose caller is still waiting -/
theorem cleanup_keeps_open (closed : Nat → Bool) (p : Proxy) :
    ∀ e ∈ p.pending, closed e.2 = false → e ∈ (p.cleanup closed).pending := by
  intro e he hc
  unfold Proxy.cleanup
  split
  · exact he
  · simp only [List.mem_filter]
    exact ⟨he, by simp [hc]⟩

/-- every entry cleanup removes has a closed port -/
theorem cleanup_removes_closed (closed : Nat → Bool) (p : Proxy) :
    ∀ e ∈ p.pending, e ∉ (p.cleanup closed).pending → closed e.2 = true := by
  intro e he hn
  cases hc : closed e.2 with
  | true => rfl
  | false => exact absurd (cleanup_keeps_open closed p e he hc) hn

theorem PInv.cleanup {p : Proxy} (closed : Nat → Bool) (h : PInv p) : PInv (p.cleanup closed) :=
  ⟨h.sorted.sublist (cleanup_sublist closed p),
   fun e he => by rw [cleanup_tag]; exact h.le e ((cleanup_sublist closed p).subset he)⟩

theorem inspect_length_le (p : Proxy) : p.inspect.length ≤ cleanupBudget := by
  unfold Proxy.inspect
  simp only [List.length_append, List.length_take, List.length_map]
  split <;> simp <;> omega

theorem removePending_sublist (p : Proxy) (t : Nat) : (p.removePending t).1.pending.Sublist p.pending := by
  simp only [Proxy.removePending]; exact List.filter_sublist

theorem PInv.removePending {p : Proxy} (t : Nat) (h : PInv p) : PInv (p.removePending t).1 :=
  ⟨h.sorted.sublist (removePending_sublist p t),
   fun e he => h.le e ((removePending_sublist p t).subset he)⟩

theorem PInv.nodup {p : Proxy} (h : PInv p) : (p.pending.map (·.1)).Nodup := by
  rw [List.Nodup, List.pairwise_map]
  exact h.sorted.imp (fun hlt => Nat.ne_of_lt hlt)

/-- in a well-formed proxy a tag determines its port -/
theorem PInv.functional {p : Proxy} (h : PInv p) {t q q' : Nat}
    (h1 : (t, q) ∈ p.pending) (h2 : (t, q') ∈ p.pending) : q = q' := by
  have hs := h.sorted
  generalize p.pending = l at *
  induction l with
  | nil => simp at h1
  | cons e l ih =>
    rw [List.pairwise_cons] at hs
    simp only [List.mem_cons] at h1 h2
    rcases h1 with rfl | h1 <;> rcases h2 with h2 | h2
    · exact (Prod.mk.inj h2).2.symm ▸ rfl
    · exact absurd (hs.1 _ h2) (by simp)
    · subst h2; exact absurd (hs.1 _ h1) (by simp)
    · exact ih h1 h2 hs.2

theorem removePending_port {p : Proxy} (h : PInv p) (t q : Nat) :
    (p.removePending t).2 = some q ↔ (t, q) ∈ p.pending := by
  simp only [Proxy.removePending, Option.map_eq_some_iff]
  constructor
  · rintro ⟨e, he, rfl⟩
    have := List.find?_some he
    have hm := List.mem_of_find?_eq_some he
    simp only [beq_iff_eq] at this
    rw [← this]; exact hm
  · intro hm
    cases hf : p.pending.find? (·.1 == t) with
    | none =>
      have := List.find?_eq_none.mp hf _ hm
      simp at this
    | some e =>
      have h1 := List.find?_some hf
      have h2 := List.mem_of_find?_eq_some hf
      simp only [beq_iff_eq] at h1
      refine ⟨e, rfl, ?_⟩
      have : e = (t, e.2) := by rw [← h1]
      rw [this] at h2
      exact h.functional h2 hm

theorem removePending_not_mem (p : Proxy) (t q : Nat) : (t, q) ∉ (p.removePending t).1.pending := by
  simp [Proxy.removePending]

theorem PInv.handle {p : Proxy} (closed : Nat → Bool) (up : Bool) (m : SerMsg) (h : PInv p) :
    PInv (p.handle closed up m).1 := by
  cases m with
  | call port payload =>
    have hc := h.cleanup closed
    have hnew : ∀ q : Proxy, PInv q →
        PInv { q with tag := q.tag + 1, pending := q.pending ++ [(q.tag + 1, port)] } := by
      intro q hq
      refine ⟨?_, ?_⟩
      · rw [List.pairwise_append]
        refine ⟨hq.sorted, by simp, ?_⟩
        intro a ha b hb
        simp only [List.mem_singleton] at hb
        subst hb
        have := hq.le a ha
        simp; omega
      · intro e he
        simp only [List.mem_append, List.mem_singleton] at he
        rcases he with he | rfl
        · have := hq.le e he; simp; omega
        · simp
    simp only [Proxy.handle]
    split
    · exact hnew _ hc
    · exact (hnew _ hc).removePending _
  | cast payload => simp only [Proxy.handle]; exact h.cleanup closed
  | reply tag data g =>
    simp only [Proxy.handle]
    have := (h.cleanup closed).removePending tag
    split <;> exact this

/-- the tag a `Call` gets is larger than every tag the proxy knows -/
theorem handle_call_tag {p : Proxy} (closed : Nat → Bool) (port payload : Nat) :
    (p.handle closed true (.call port payload)).2 = [.call (p.tag + 1) payload] ∧
    (p.handle closed true (.call port payload)).1.tag = p.tag + 1 := by
  simp [Proxy.handle, cleanup_tag]

theorem handle_tag_mono {p : Proxy} (closed : Nat → Bool) (up : Bool) (m : SerMsg) :
    p.tag ≤ (p.handle closed up m).1.tag := by
  cases m with
  | call port payload =>
    simp only [Proxy.handle]
    split <;> simp [Proxy.removePending, cleanup_tag]
  | cast payload => simp [Proxy.handle, cleanup_tag]
  | reply tag data g =>
    simp only [Proxy.handle]
    split <;> simp [Proxy.removePending, cleanup_tag]

/-! ### end to end: order -/

theorem itemsOf_append (l : List (SerMsg × Nat)) (x : SerMsg × Nat) :
    itemsOf (l ++ [x]) = itemsOf l ++ itemsOf [x] := by
  simp [itemsOf, List.filterMap_append]

@[simp] theorem itemsOf_call (q p s : Nat) : itemsOf [(SerMsg.call q p, s)] = [⟨true, s, p⟩] := rfl
@[simp] theorem itemsOf_cast (p s : Nat) : itemsOf [(SerMsg.cast p, s)] = [⟨false, s, p⟩] := rfl
@[simp] theorem itemsOf_reply (t d g s : Nat) : itemsOf [(SerMsg.reply t d g, s)] = [] := rfl
theorem itemsOf_cons (x : SerMsg × Nat) (l : List (SerMsg × Nat)) : itemsOf (x :: l) = itemsOf [x] ++ itemsOf l := by
  have := List.filterMap_append (l := [x]) (l' := l) (f := fun
    | (SerMsg.call _ payload, s) => some (Item.mk true s payload)
    | (SerMsg.cast payload, s) => some ⟨false, s, payload⟩
    | _ => none)
  exact this

structure OInv (n : Net) : Prop where
  pre : n.recvd <+: n.sent
  full : n.targetUp = true → n.linkUp = true → n.recvd ++ n.inflight = n.sent
  /-- after A's side went down the frames still travelling are the next ones B will receive -/
  chain : n.linkUp = false → n.targetUp = true → n.recvd ++ n.fwd.contents.map (·.item) <+: n.sent

theorem contents_replicate {α : Type} (k : Nat) : Pipe.contents (List.replicate k ([] : List α)) = [] := by
  induction k with
  | zero => rfl
  | succ k ih => simp [List.replicate_succ, Pipe.contents, ih]

theorem oinv_init (k k' : Nat) : OInv (Net.init k k') := by
  refine ⟨by simp [Net.init], ?_, ?_⟩
  · intro _ _
    simp [Net.init, Net.inflight, Net.mboxItems, itemsOf, contents_replicate]
  · intro h; simp [Net.init] at h

/-- frames the proxy emits for one mailbox message are exactly that message's item -/
theorem frames_of_handle (p : Proxy) (closed : Nat → Bool) (m : SerMsg) (sender : Nat) :
    ((p.handle closed true m).2.filterMap (Frame.ofOut sender m.port)).map (·.item) =
      itemsOf [(m, sender)] := by
  cases m with
  | call port payload => simp [Proxy.handle, Frame.ofOut]
  | cast payload => simp [Proxy.handle, Frame.ofOut]
  | reply tag data g =>
    simp only [Proxy.handle]
    split <;> (try split) <;> simp [Frame.ofOut]

/-- a proxy whose session is gone hands nothing to it -/
theorem frames_of_handle_down (p : Proxy) (closed : Nat → Bool) (m : SerMsg) (sender port : Nat) :
    (p.handle closed false m).2.filterMap (Frame.ofOut sender port) = [] := by
  cases m with
  | call q payload => simp [Proxy.handle]
  | cast payload => simp [Proxy.handle]
  | reply tag data g =>
    simp only [Proxy.handle]
    split <;> (try split) <;> simp [Frame.ofOut]

theorem OInv.step {n : Net} (op : Op) (h : OInv n) : OInv (n.step op) := by
  cases op with
  | cast sender payload =>
    simp only [Net.step]
    split
    · rename_i hl
      refine ⟨h.pre.trans (List.prefix_append _ _), ?_, fun hd => by simp [hl] at hd⟩
      intro ht _
      have := h.full ht hl
      simp only [Net.inflight, Net.mboxItems] at this ⊢
      rw [itemsOf_append, itemsOf_cast, ← this]
      simp
    · exact h
  | call sender payload =>
    simp only [Net.step]
    split
    · rename_i hl
      refine ⟨h.pre.trans (List.prefix_append _ _), ?_, fun hd => by simp [hl] at hd⟩
      intro ht _
      have := h.full ht hl
      simp only [Net.inflight, Net.mboxItems] at this ⊢
      rw [itemsOf_append, itemsOf_call, ← this]
      simp
    · exact ⟨h.pre, h.full, h.chain⟩
  | abandon port => exact ⟨h.pre, h.full, h.chain⟩
  | proxy =>
    simp only [Net.step]
    split
    · exact h
    · rename_i m sender rest hm
      cases hl : n.linkUp with
      | false =>
        rw [frames_of_handle_down]
        refine ⟨h.pre, fun _ hl' => by simp [hl] at hl', ?_⟩
        intro _ ht
        simpa using h.chain hl ht
      | true =>
        refine ⟨h.pre, ?_, fun hd => by simp [hl] at hd⟩
        intro ht _
        have hf := h.full ht hl
        simp only [Net.inflight, Net.mboxItems, hm] at hf
        rw [itemsOf_cons] at hf
        simp only [Net.inflight, Net.mboxItems, Pipe.contents_foldl_push, List.map_append]
        have := frames_of_handle n.px (n.closed.contains ·) m sender
        rw [this, ← hf]
        simp
  | moveF i =>
    simp only [Net.step]
    have hs := Pipe.move_spec i n.fwd
    split
    · rename_i ho
      rw [ho] at hs
      refine ⟨h.pre, ?_, ?_⟩
      · intro ht hl
        have := h.full ht hl
        simp only [Net.inflight, Net.mboxItems] at this ⊢
        rw [hs]; exact this
      · intro hd ht
        have := h.chain hd ht
        simp only at this ⊢
        rw [hs]; exact this
    · rename_i f ho
      rw [ho] at hs
      cases hl : n.linkUp with
      | false =>
        split
        · rename_i ht
          have hc := h.chain hl ht
          rw [hs, List.map_cons] at hc
          have hc' : (n.recvd ++ [f.item]) ++ (n.fwd.move i).1.contents.map (·.item) <+: n.sent := by
            simpa using hc
          have hpre : n.recvd ++ [f.item] <+: n.sent := (List.prefix_append _ _).trans hc'
          split
          · exact ⟨hpre, fun _ hl' => by simp [hl] at hl', fun _ _ => hc'⟩
          · exact ⟨hpre, fun _ hl' => by simp [hl] at hl', fun _ _ => hc'⟩
        · rename_i ht
          exact ⟨h.pre, fun ht' => absurd ht' ht, fun _ ht' => absurd ht' ht⟩
      | true =>
        split
        · rename_i ht
          have hf := h.full ht hl
          simp only [Net.inflight, Net.mboxItems, hs, List.map_cons] at hf
          have hfull : (n.recvd ++ [f.item]) ++ ((n.fwd.move i).1.contents.map (·.item) ++ n.mboxItems) = n.sent := by
            simp only [Net.mboxItems, List.append_assoc, List.singleton_append]; exact hf
          have hpre : n.recvd ++ [f.item] <+: n.sent := ⟨_, hfull⟩
          split
          · exact ⟨hpre, fun _ _ => hfull, fun hd => by simp [hl] at hd⟩
          · exact ⟨hpre, fun _ _ => hfull, fun hd => by simp [hl] at hd⟩
        · rename_i ht
          exact ⟨h.pre, fun ht' => absurd ht' ht, fun hd => by simp [hl] at hd⟩
  | answer hid data =>
    simp only [Net.step]
    split
    · exact h
    · exact ⟨h.pre, h.full, h.chain⟩
  | drop hid => exact ⟨h.pre, h.full, h.chain⟩
  | moveB i =>
    simp only [Net.step]
    have hs := Pipe.move_spec i n.back
    split
    · exact ⟨h.pre, h.full, h.chain⟩
    · rename_i r ho
      cases hl : n.linkUp with
      | false => exact ⟨h.pre, fun _ hl' => by simp [hl] at hl', fun _ ht => h.chain hl ht⟩
      | true =>
        refine ⟨h.pre, ?_, fun hd => by simp [hl] at hd⟩
        intro ht _
        have := h.full ht hl
        simp only [Net.inflight, Net.mboxItems] at this ⊢
        rw [itemsOf_append, itemsOf_reply, ← this]
        simp
  | targetExit =>
    exact ⟨h.pre, fun ht => by simp [Net.step] at ht, fun _ ht => by simp [Net.step] at ht⟩
  | cut =>
    refine ⟨h.pre, fun _ hl => by simp [Net.step] at hl, ?_⟩
    intro _ _
    simpa [Net.step, Pipe.contents_clear] using h.pre
  | loseA =>
    refine ⟨h.pre, fun _ hl => by simp [Net.step] at hl, ?_⟩
    intro _ ht
    simp only [Net.step] at ht ⊢
    cases hl : n.linkUp with
    | false => exact h.chain hl ht
    | true =>
      have := h.full ht hl
      simp only [Net.inflight] at this
      exact ⟨n.mboxItems, by rw [← this]; simp⟩

theorem OInv.run {n : Net} (ops : List Op) (h : OInv n) : OInv (n.run ops) := by
  induction ops generalizing n with
  | nil => exact h
  | cons op ops ih => exact ih (h.step op)

/-! ### end to end: reply correlation -/

theorem sorted_functional {l : List (Nat × Nat)} (hs : l.Pairwise (fun a b => a.1 < b.1))
    {t q q' : Nat} (h1 : (t, q) ∈ l) (h2 : (t, q') ∈ l) : q = q' := by
  induction l with
  | nil => simp at h1
  | cons e l ih =>
    rw [List.pairwise_cons] at hs
    simp only [List.mem_cons] at h1 h2
    rcases h1 with rfl | h1 <;> rcases h2 with h2 | h2
    · exact (Prod.mk.inj h2).2.symm ▸ rfl
    · exact absurd (hs.1 _ h2) (by simp)
    · subst h2; exact absurd (hs.1 _ h1) (by simp)
    · exact ih hs.2 h1 h2

structure NInv (n : Net) : Prop where
  px : PInv n.px
  asgSorted : n.assigned.Pairwise (fun a b => a.1 < b.1)
  asgLe : ∀ e ∈ n.assigned, e.1 ≤ n.px.tag
  pend : ∀ e ∈ n.px.pending, e ∈ n.assigned
  frames : ∀ f ∈ n.fwd.contents, f.item.isCall = true → (f.tag, f.gport) ∈ n.assigned
  handles : ∀ h ∈ n.handles, (h.tag, h.gport) ∈ n.assigned
  back : ∀ r ∈ n.back.contents, (r.tag, r.gport) ∈ n.assigned ∧ (r.gport, r.data) ∈ n.answered
  mbox : ∀ m ∈ n.mbox, ∀ t d g, m.1 = .reply t d g → (t, g) ∈ n.assigned ∧ (g, d) ∈ n.answered
  deliv : ∀ e ∈ n.delivered, e ∈ n.answered

theorem ninv_init (k k' : Nat) : NInv (Net.init k k') := by
  refine ⟨pinv_init, ?_, ?_, ?_, ?_, ?_, ?_, ?_, ?_⟩ <;> simp [Net.init, contents_replicate]

theorem NInv.step {n : Net} (op : Op) (h : NInv n) : NInv (n.step op) := by
  cases op with
  | cast sender payload =>
    simp only [Net.step]
    split
    · refine ⟨h.px, h.asgSorted, h.asgLe, h.pend, h.frames, h.handles, h.back, ?_, h.deliv⟩
      intro m hm t d g he
      simp only [List.mem_append, List.mem_singleton] at hm
      rcases hm with hm | rfl
      · exact h.mbox m hm t d g he
      · cases he
    · exact h
  | call sender payload =>
    simp only [Net.step]
    split
    · refine ⟨h.px, h.asgSorted, h.asgLe, h.pend, h.frames, h.handles, h.back, ?_, h.deliv⟩
      intro m hm t d g he
      simp only [List.mem_append, List.mem_singleton] at hm
      rcases hm with hm | rfl
      · exact h.mbox m hm t d g he
      · cases he
    · exact ⟨h.px, h.asgSorted, h.asgLe, h.pend, h.frames, h.handles, h.back, h.mbox, h.deliv⟩
  | abandon port => exact ⟨h.px, h.asgSorted, h.asgLe, h.pend, h.frames, h.handles, h.back, h.mbox, h.deliv⟩
  | proxy =>
    simp only [Net.step]
    split
    · exact h
    · rename_i m sender rest hm
      have hrest : ∀ x ∈ rest, x ∈ n.mbox := fun x hx => by rw [hm]; exact List.mem_cons_of_mem _ hx
      have hclean := h.px.cleanup (n.closed.contains ·)
      have hcsub : ∀ e ∈ (n.px.cleanup (n.closed.contains ·)).pending, e ∈ n.assigned :=
        fun e he => h.pend e ((cleanup_sublist _ _).subset he)
      have hmb' : ∀ x ∈ rest, ∀ t d g, x.1 = .reply t d g → (t, g) ∈ n.assigned ∧ (g, d) ∈ n.answered :=
        fun x hx => h.mbox x (hrest x hx)
      have hpx := h.px.handle (n.closed.contains ·) n.linkUp m
      cases m with
      | cast payload =>
        have hout : ∀ up, (n.px.handle (n.closed.contains ·) up (.cast payload)).2 = if up then [.cast payload] else [] :=
          fun up => rfl
        have hfst : ∀ up, (n.px.handle (n.closed.contains ·) up (.cast payload)).1 = n.px.cleanup (n.closed.contains ·) :=
          fun up => rfl
        cases hl : n.linkUp <;>
          simp only [hl, hout, hfst, Bool.false_eq_true, ↓reduceIte, List.filterMap_cons, List.filterMap_nil,
            List.append_nil, Frame.ofOut, List.foldl_cons, List.foldl_nil] <;>
          refine ⟨hclean, h.asgSorted, ?_, hcsub, ?_, h.handles, h.back, hmb', h.deliv⟩
        · intro e he; rw [cleanup_tag]; exact h.asgLe e he
        · exact h.frames
        · intro e he; rw [cleanup_tag]; exact h.asgLe e he
        · intro f hf hc
          simp only [Pipe.contents_push, List.mem_append, List.mem_singleton] at hf
          rcases hf with hf | rfl
          · exact h.frames f hf hc
          · simp at hc
      | call port payload =>
        cases hl : n.linkUp with
        | true =>
          rw [hl] at hpx
          have htag : ∀ e ∈ n.assigned, e.1 < n.px.tag + 1 := fun e he => Nat.lt_succ_of_le (h.asgLe e he)
          simp only [Proxy.handle, cleanup_tag, ↓reduceIte, List.filterMap_cons, List.filterMap_nil,
            List.append_nil, Frame.ofOut, SerMsg.port, List.foldl_cons, List.foldl_nil] at hpx ⊢
          refine ⟨hpx, ?_, ?_, ?_, ?_, ?_, ?_, ?_, h.deliv⟩
          · rw [List.pairwise_append]
            refine ⟨h.asgSorted, by simp, ?_⟩
            intro a ha b hb
            simp only [List.mem_singleton] at hb; subst hb
            exact htag a ha
          · intro e he
            simp only [List.mem_append, List.mem_singleton] at he
            rcases he with he | rfl
            · have := h.asgLe e he; simp only; omega
            · simp
          · intro e he
            simp only [List.mem_append, List.mem_singleton] at he ⊢
            rcases he with he | rfl
            · exact Or.inl (hcsub e he)
            · exact Or.inr rfl
          · intro f hf hc
            simp only [Pipe.contents_push, List.mem_append, List.mem_singleton] at hf ⊢
            rcases hf with hf | rfl
            · exact Or.inl (h.frames f hf hc)
            · exact Or.inr rfl
          · intro x hx; exact List.mem_append_left _ (h.handles x hx)
          · intro r hr; exact ⟨List.mem_append_left _ (h.back r hr).1, (h.back r hr).2⟩
          · intro x hx t d g he
            exact ⟨List.mem_append_left _ (hmb' x hx t d g he).1, (hmb' x hx t d g he).2⟩
        | false =>
          rw [hl] at hpx
          simp only [Proxy.handle, Bool.false_eq_true, ↓reduceIte, List.filterMap_nil,
            List.append_nil, List.foldl_nil] at hpx ⊢
          refine ⟨hpx, h.asgSorted, ?_, ?_, h.frames, h.handles, h.back, hmb', h.deliv⟩
          · intro e he
            have := h.asgLe e he
            simp only [Proxy.removePending, cleanup_tag]; omega
          · intro e he
            simp only [Proxy.removePending, List.mem_filter, List.mem_append, List.mem_singleton] at he
            rcases he.1 with he' | rfl
            · exact hcsub e he'
            · simp [cleanup_tag] at he
      | reply tag data g =>
        have hmb := h.mbox (.reply tag data g, sender) (by rw [hm]; simp) tag data g rfl
        have hrp := removePending_port hclean tag
        have hrem : ∀ e ∈ ((n.px.cleanup (n.closed.contains ·)).removePending tag).1.pending, e ∈ n.assigned :=
          fun e he => hcsub e ((removePending_sublist _ _).subset he)
        have htagle : ∀ e ∈ n.assigned, e.1 ≤ ((n.px.cleanup (n.closed.contains ·)).removePending tag).1.tag := by
          intro e he
          have := h.asgLe e he
          simp only [Proxy.removePending, cleanup_tag]; exact this
        simp only [Proxy.handle] at hpx ⊢
        cases hq : ((n.px.cleanup (n.closed.contains ·)).removePending tag).2 with
        | none =>
          simp only [hq, List.filterMap_nil, List.append_nil, List.foldl_nil] at hpx ⊢
          exact ⟨hpx, h.asgSorted, htagle, hrem, h.frames, h.handles, h.back, hmb', h.deliv⟩
        | some q =>
          have hqg : q = g := sorted_functional h.asgSorted (hcsub _ ((hrp q).mp hq)) hmb.1
          cases hcq : n.closed.contains q with
          | true =>
            simp only [hq, hcq, ↓reduceIte, List.filterMap_nil, List.append_nil, List.foldl_nil] at hpx ⊢
            exact ⟨hpx, h.asgSorted, htagle, hrem, h.frames, h.handles, h.back, hmb', h.deliv⟩
          | false =>
            simp only [hq, hcq, Bool.false_eq_true, ↓reduceIte, List.filterMap_cons, List.filterMap_nil,
              List.append_nil, Frame.ofOut, List.foldl_nil] at hpx ⊢
            refine ⟨hpx, h.asgSorted, htagle, hrem, h.frames, h.handles, h.back, hmb', ?_⟩
            intro e he
            simp only [List.mem_append, List.mem_singleton] at he
            rcases he with he | rfl
            · exact h.deliv e he
            · rw [hqg]; exact hmb.2
  | moveF i =>
    simp only [Net.step]
    have hs := Pipe.move_spec i n.fwd
    split
    · rename_i ho
      rw [ho] at hs
      refine ⟨h.px, h.asgSorted, h.asgLe, h.pend, ?_, h.handles, h.back, h.mbox, h.deliv⟩
      intro f hf; rw [hs] at hf; exact h.frames f hf
    · rename_i f ho
      rw [ho] at hs
      have hfr : ∀ x ∈ (n.fwd.move i).1.contents, x.item.isCall = true → (x.tag, x.gport) ∈ n.assigned :=
        fun x hx => h.frames x (by rw [hs]; exact List.mem_cons_of_mem _ hx)
      split
      · split
        · rename_i hc
          refine ⟨h.px, h.asgSorted, h.asgLe, h.pend, hfr, ?_, h.back, h.mbox, h.deliv⟩
          intro x hx
          simp only [List.mem_append, List.mem_singleton] at hx
          rcases hx with hx | rfl
          · exact h.handles x hx
          · exact h.frames f (by rw [hs]; simp) hc
        · exact ⟨h.px, h.asgSorted, h.asgLe, h.pend, hfr, h.handles, h.back, h.mbox, h.deliv⟩
      · exact ⟨h.px, h.asgSorted, h.asgLe, h.pend, hfr, h.handles, h.back, h.mbox, h.deliv⟩
  | answer hid data =>
    simp only [Net.step]
    split
    · exact h
    · rename_i hd hfind
      have hmem := List.mem_of_find?_eq_some hfind
      refine ⟨h.px, h.asgSorted, h.asgLe, h.pend, h.frames, ?_, ?_, ?_, ?_⟩
      · intro x hx; exact h.handles x (List.mem_filter.mp hx).1
      · intro r hr
        simp only [Pipe.contents_push, List.mem_append, List.mem_singleton] at hr
        rcases hr with hr | rfl
        · exact ⟨(h.back r hr).1, List.mem_append_left _ (h.back r hr).2⟩
        · exact ⟨h.handles hd hmem, by simp⟩
      · intro m hm t d g he
        exact ⟨(h.mbox m hm t d g he).1, List.mem_append_left _ (h.mbox m hm t d g he).2⟩
      · intro e he; exact List.mem_append_left _ (h.deliv e he)
  | drop hid =>
    refine ⟨h.px, h.asgSorted, h.asgLe, h.pend, h.frames, ?_, h.back, h.mbox, h.deliv⟩
    intro x hx; exact h.handles x (List.mem_filter.mp hx).1
  | moveB i =>
    simp only [Net.step]
    have hs := Pipe.move_spec i n.back
    split
    · rename_i ho
      rw [ho] at hs
      refine ⟨h.px, h.asgSorted, h.asgLe, h.pend, h.frames, h.handles, ?_, h.mbox, h.deliv⟩
      intro r hr; rw [hs] at hr; exact h.back r hr
    · rename_i r ho
      rw [ho] at hs
      refine ⟨h.px, h.asgSorted, h.asgLe, h.pend, h.frames, h.handles, ?_, ?_, h.deliv⟩
      · intro x hx; exact h.back x (by rw [hs]; exact List.mem_cons_of_mem _ hx)
      · intro m hm t d g he
        simp only [List.mem_append, List.mem_singleton] at hm
        rcases hm with hm | rfl
        · exact h.mbox m hm t d g he
        · simp only [SerMsg.reply.injEq] at he
          obtain ⟨rfl, rfl, rfl⟩ := he
          exact h.back r (by rw [hs]; simp)
  | targetExit =>
    exact ⟨h.px, h.asgSorted, h.asgLe, h.pend, h.frames, by simp [Net.step], h.back, h.mbox, h.deliv⟩
  | cut =>
    refine ⟨⟨by simp [Net.step], by simp [Net.step]⟩, h.asgSorted, h.asgLe, by simp [Net.step], ?_, by simp [Net.step], ?_, by simp [Net.step], h.deliv⟩
    · simp [Net.step, Pipe.contents_clear]
    · simp [Net.step, Pipe.contents_clear]
  | loseA =>
    refine ⟨⟨by simp [Net.step], by simp [Net.step]⟩, h.asgSorted, h.asgLe, by simp [Net.step], h.frames, h.handles, ?_,
      by simp [Net.step], h.deliv⟩
    simp [Net.step, Pipe.contents_clear]

theorem NInv.run {n : Net} (ops : List Op) (h : NInv n) : NInv (n.run ops) := by
  induction ops generalizing n with
  | nil => exact h
  | cons op ops ih => exact ih (h.step op)

/-! ### end to end: every caller gets at most one reply -/

def callPorts (l : List (SerMsg × Nat)) : List Nat :=
  l.filterMap fun | (.call q _, _) => some q | _ => none

def delivs (outs : List Out) : List (Nat × Nat) := outs.filterMap fun | .deliver q d => some (q, d) | _ => none

/-- how many times reply port `q` exists: stored in the proxy, already served, or still in
the mailbox -/
def Net.portCount (n : Net) (q : Nat) : Nat :=
  (n.px.pending.map (·.2)).count q + (n.delivered.map (·.1)).count q + (callPorts n.mbox).count q

theorem count_filter_remove (l : List (Nat × Nat)) (t q0 q : Nat) (h : (t, q0) ∈ l) :
    ((l.filter (·.1 != t)).map (·.2)).count q + (if q = q0 then 1 else 0) ≤ (l.map (·.2)).count q := by
  induction l with
  | nil => simp at h
  | cons e l ih =>
    simp only [List.mem_cons] at h
    by_cases he : e.1 = t
    · -- this entry is removed
      have hf : (e :: l).filter (·.1 != t) = l.filter (·.1 != t) := by simp [List.filter_cons, he]
      rw [hf]
      simp only [List.map_cons, List.count_cons]
      rcases h with h | h
      · have : e.2 = q0 := by rw [← h]
        have hle := (List.filter_sublist (l := l) (p := (·.1 != t))).map (·.2) |>.count_le q
        subst this
        by_cases hq : q = e.2
        · subst hq; simp; omega
        · have : ¬ e.2 = q := fun x => hq x.symm
          simp [hq, this]; omega
      · have := ih h
        omega
    · have hf : (e :: l).filter (·.1 != t) = e :: l.filter (·.1 != t) := by simp [List.filter_cons, he]
      rw [hf]
      rcases h with h | h
      · exact absurd (by rw [← h]) he
      · have := ih h
        simp only [List.map_cons, List.count_cons]
        omega

/-- one `handle_serialized`: ports only move from "stored" to "served", a call adds its own port -/
theorem handle_count {p : Proxy} (hp : PInv p) (closed : Nat → Bool) (up : Bool) (m : SerMsg) (q : Nat) :
    ((p.handle closed up m).1.pending.map (·.2)).count q + ((delivs (p.handle closed up m).2).map (·.1)).count q ≤
      (p.pending.map (·.2)).count q + (callPorts [(m, 0)]).count q := by
  have hcl := ((cleanup_sublist closed p).map (·.2)).count_le q
  cases m with
  | cast payload =>
    simp only [Proxy.handle, callPorts, delivs]
    split <;> simpa using hcl
  | call port payload =>
    simp only [Proxy.handle, callPorts, delivs, List.filterMap_cons, List.filterMap_nil]
    split
    · simp only [List.map_append, List.map_cons, List.map_nil, List.count_append, List.filterMap_cons,
        List.filterMap_nil, List.count_nil]
      omega
    · have := ((removePending_sublist
        ({ p.cleanup closed with tag := (p.cleanup closed).tag + 1,
                                 pending := (p.cleanup closed).pending ++ [((p.cleanup closed).tag + 1, port)] })
        ((p.cleanup closed).tag + 1)).map (·.2)).count_le q
      simp only [List.map_append, List.map_cons, List.map_nil, List.count_append, List.filterMap_nil,
        List.count_nil] at this ⊢
      omega
  | reply tag data g =>
    simp only [Proxy.handle, callPorts, delivs, List.filterMap_cons, List.filterMap_nil, List.count_nil]
    cases hq : ((p.cleanup closed).removePending tag).2 with
    | none =>
      have := ((removePending_sublist (p.cleanup closed) tag).map (·.2)).count_le q
      simp only [List.filterMap_nil, List.map_nil, List.count_nil]
      omega
    | some q0 =>
      have hm := (removePending_port (hp.cleanup closed) tag q0).mp hq
      have := count_filter_remove (p.cleanup closed).pending tag q0 q hm
      have hpend : ((p.cleanup closed).removePending tag).1.pending = (p.cleanup closed).pending.filter (·.1 != tag) := rfl
      rw [hpend]
      cases hcq : closed q0 with
      | true => simp only [hcq, ↓reduceIte, List.filterMap_nil, List.map_nil, List.count_nil]; omega
      | false =>
        simp only [hcq, Bool.false_eq_true, ↓reduceIte, List.filterMap_cons, List.filterMap_nil, List.map_cons,
          List.map_nil, List.count_cons, List.count_nil]
        have hb : (if q0 == q then 1 else 0) = (if q = q0 then 1 else 0) := by
          by_cases hqq : q = q0
          · subst hqq; simp
          · have : ¬ q0 = q := fun x => hqq x.symm
            simp [hqq, this]
        omega

structure UInv (n : Net) : Prop where
  px : PInv n.px
  once : ∀ q, n.portCount q ≤ 1
  fresh : ∀ q, n.nport ≤ q → n.portCount q = 0

theorem uinv_init (k k' : Nat) : UInv (Net.init k k') := by
  refine ⟨pinv_init, ?_, ?_⟩ <;> intro q <;> simp [Net.init, Net.portCount, callPorts]

theorem callPorts_cons (x : SerMsg × Nat) (l : List (SerMsg × Nat)) (q : Nat) :
    (callPorts (x :: l)).count q = (callPorts [(x.1, 0)]).count q + (callPorts l).count q := by
  rcases x with ⟨m, s⟩
  cases m <;> simp [callPorts, List.count_cons]
  omega

theorem UInv.step {n : Net} (op : Op) (h : UInv n) : UInv (n.step op) := by
  have same : ∀ n' : Net, n'.px = n.px → n'.delivered = n.delivered → n'.mbox = n.mbox → n'.nport = n.nport → UInv n' := by
    intro n' h1 h2 h3 h4
    refine ⟨by rw [h1]; exact h.px, ?_, ?_⟩
    · intro q; simp only [Net.portCount, h1, h2, h3]; exact h.once q
    · intro q hq; simp only [Net.portCount, h1, h2, h3]; rw [h4] at hq; exact h.fresh q hq
  cases op with
  | cast sender payload =>
    simp only [Net.step]
    split
    · refine ⟨h.px, ?_, ?_⟩
      · intro q
        have := h.once q
        simpa [Net.portCount, callPorts, List.filterMap_append] using this
      · intro q hq
        have := h.fresh q hq
        simpa [Net.portCount, callPorts, List.filterMap_append] using this
    · exact h
  | call sender payload =>
    simp only [Net.step]
    split
    · refine ⟨h.px, ?_, ?_⟩
      · intro q
        have h1 := h.once q
        have h2 := h.fresh q
        simp only [Net.portCount, callPorts, List.filterMap_append, List.filterMap_cons, List.filterMap_nil,
          List.count_append, List.count_cons, List.count_nil] at h1 h2 ⊢
        by_cases hq : n.nport = q
        · have := h2 (by omega)
          simp [hq] at this ⊢
          omega
        · simp [hq]; omega
      · intro q hq
        have := h.fresh q (by simp only at hq; omega)
        simp only [Net.portCount, callPorts, List.filterMap_append, List.filterMap_cons, List.filterMap_nil,
          List.count_append, List.count_cons, List.count_nil] at this ⊢
        have hne : ¬ n.nport = q := by simp only at hq; omega
        simp [hne]; omega
    · refine ⟨h.px, h.once, ?_⟩
      intro q hq
      exact h.fresh q (by simp only at hq; omega)
  | abandon port => exact same _ rfl rfl rfl rfl
  | proxy =>
    simp only [Net.step]
    split
    · exact h
    · rename_i m sender rest hm
      have hc := fun q => handle_count h.px (n.closed.contains ·) n.linkUp m q
      have hmb := fun q => callPorts_cons (m, sender) rest q
      have key : ∀ q, ((n.px.handle (n.closed.contains ·) n.linkUp m).1.pending.map (·.2)).count q +
          ((n.delivered ++ delivs (n.px.handle (n.closed.contains ·) n.linkUp m).2).map (·.1)).count q +
          (callPorts rest).count q ≤ n.portCount q := by
        intro q
        have h1 := hc q; have h2 := hmb q
        simp only [Net.portCount, hm, List.map_append, List.count_append] at *
        omega
      refine ⟨h.px.handle _ _ _, ?_, ?_⟩
      · intro q
        have h1 := key q; have h2 := h.once q
        show ((n.px.handle (n.closed.contains ·) n.linkUp m).1.pending.map (·.2)).count q +
          ((n.delivered ++ delivs (n.px.handle (n.closed.contains ·) n.linkUp m).2).map (·.1)).count q +
          (callPorts rest).count q ≤ 1
        omega
      · intro q hq
        have h1 := key q; have h2 := h.fresh q hq
        show ((n.px.handle (n.closed.contains ·) n.linkUp m).1.pending.map (·.2)).count q +
          ((n.delivered ++ delivs (n.px.handle (n.closed.contains ·) n.linkUp m).2).map (·.1)).count q +
          (callPorts rest).count q = 0
        omega
  | moveF i =>
    simp only [Net.step]
    split
    · exact same _ rfl rfl rfl rfl
    · split
      · split <;> exact same _ rfl rfl rfl rfl
      · exact same _ rfl rfl rfl rfl
  | answer hid data =>
    simp only [Net.step]
    split
    · exact h
    · exact same _ rfl rfl rfl rfl
  | drop hid => exact same _ rfl rfl rfl rfl
  | moveB i =>
    simp only [Net.step]
    split
    · exact same _ rfl rfl rfl rfl
    · refine ⟨h.px, ?_, ?_⟩
      · intro q
        have := h.once q
        simpa [Net.portCount, callPorts, List.filterMap_append] using this
      · intro q hq
        have := h.fresh q hq
        simpa [Net.portCount, callPorts, List.filterMap_append] using this
  | targetExit => exact same _ rfl rfl rfl rfl
  | cut =>
    refine ⟨⟨by simp [Net.step], by simp [Net.step]⟩, ?_, ?_⟩
    · intro q
      have := h.once q
      simp only [Net.step, Net.portCount, callPorts, List.map_nil, List.count_nil, List.filterMap_nil] at this ⊢
      omega
    · intro q hq
      have := h.fresh q hq
      simp only [Net.step, Net.portCount, callPorts, List.map_nil, List.count_nil, List.filterMap_nil] at this ⊢
      omega
  | loseA =>
    refine ⟨⟨by simp [Net.step], by simp [Net.step]⟩, ?_, ?_⟩
    · intro q
      have := h.once q
      simp only [Net.step, Net.portCount, callPorts, List.map_nil, List.count_nil, List.filterMap_nil] at this ⊢
      omega
    · intro q hq
      have := h.fresh q hq
      simp only [Net.step, Net.portCount, callPorts, List.map_nil, List.count_nil, List.filterMap_nil] at this ⊢
      omega

theorem UInv.run {n : Net} (ops : List Op) (h : UInv n) : UInv (n.run ops) := by
  induction ops generalizing n with
  | nil => exact h
  | cons op ops ih => exact ih (h.step op)

/-- no port is served twice -/
theorem UInv.delivered_nodup {n : Net} (h : UInv n) : (n.delivered.map (·.1)).Nodup := by
  rw [List.nodup_iff_count]
  intro q
  have := h.once q
  simp only [Net.portCount] at this
  omega

/-! ### tags over a whole history of the proxy -/

/-- one `handle_serialized` call with the environment it sees: the ports closed so far,
whether the session is reachable, the message -/
abbrev PStep := List Nat × Bool × SerMsg

def Proxy.runSteps (p : Proxy) (steps : List PStep) : Proxy × List Out :=
  steps.foldl (fun (acc : Proxy × List Out) e =>
    let r := acc.1.handle (e.1.contains ·) e.2.1 e.2.2
    (r.1, acc.2 ++ r.2)) (p, [])

def callTags (outs : List Out) : List Nat := outs.filterMap fun | .call t _ => some t | _ => none

theorem callTags_handle_le (p : Proxy) (closed : Nat → Bool) (up : Bool) (m : SerMsg) :
    ∀ t ∈ callTags (p.handle closed up m).2, p.tag < t ∧ t ≤ (p.handle closed up m).1.tag := by
  intro t ht
  cases m with
  | call port payload =>
    cases up with
    | true => simp [callTags, Proxy.handle, cleanup_tag] at ht ⊢; omega
    | false => simp [callTags, Proxy.handle] at ht
  | cast payload => simp only [Proxy.handle] at ht; split at ht <;> simp [callTags] at ht
  | reply tag data g =>
    simp only [Proxy.handle] at ht
    split at ht
    · split at ht <;> simp [callTags] at ht
    · simp [callTags] at ht

theorem runSteps_inv (p : Proxy) (steps : List PStep) (acc : List Out) (h : PInv p)
    (hs : (callTags acc).Pairwise (· < ·)) (hle : ∀ t ∈ callTags acc, t ≤ p.tag) :
    let r := steps.foldl (fun (a : Proxy × List Out) e =>
      let r := a.1.handle (e.1.contains ·) e.2.1 e.2.2
      (r.1, a.2 ++ r.2)) (p, acc)
    PInv r.1 ∧ (callTags r.2).Pairwise (· < ·) ∧ ∀ t ∈ callTags r.2, t ≤ r.1.tag := by
  induction steps generalizing p acc with
  | nil => exact ⟨h, hs, hle⟩
  | cons e steps ih =>
    simp only [List.foldl_cons]
    apply ih
    · exact h.handle _ _ _
    · simp only [callTags, List.filterMap_append]
      rw [List.pairwise_append]
      refine ⟨hs, ?_, ?_⟩
      · -- at most one call tag per handled message
        cases hm : e.2.2 with
        | call port payload =>
          cases hu : e.2.1 <;> simp [Proxy.handle]
        | cast payload => simp only [Proxy.handle]; split <;> simp
        | reply tag data g =>
          simp only [Proxy.handle]
          split
          · split <;> simp
          · simp
      · intro a ha b hb
        have := hle a ha
        have := (callTags_handle_le p (e.1.contains ·) e.2.1 e.2.2 b hb).1
        omega
    · intro t ht
      simp only [callTags, List.filterMap_append, List.mem_append] at ht
      rcases ht with ht | ht
      · have := hle t ht
        have := handle_tag_mono (p := p) (e.1.contains ·) e.2.1 e.2.2
        omega
      · exact (callTags_handle_le p (e.1.contains ·) e.2.1 e.2.2 t ht).2

/-! ### the control-stream mirror -/

theorem mem_ensure (m : Mirror) (pids : List Nat) (pid : Nat) :
    pid ∈ (m.ensure pids).proxies ↔ pid ∈ m.proxies ∨ pid ∈ pids := by
  simp only [Mirror.ensure]
  generalize m.proxies = ps
  induction pids generalizing ps with
  | nil => simp
  | cons p pids ih =>
    simp only [List.foldl_cons, List.mem_cons]
    rw [ih]
    by_cases hc : ps.contains p = true
    · simp only [hc, ↓reduceIte]
      have : p ∈ ps := by simpa using hc
      constructor
      · rintro (h | h)
        · exact Or.inl h
        · exact Or.inr (Or.inr h)
      · rintro (h | rfl | h)
        · exact Or.inl h
        · exact Or.inl this
        · exact Or.inr h
    · simp only [hc, Bool.false_eq_true, ↓reduceIte, List.mem_append, List.mem_singleton]
      constructor
      · rintro ((h | rfl) | h)
        · exact Or.inl h
        · exact Or.inr (Or.inl rfl)
        · exact Or.inr (Or.inr h)
      · rintro (h | rfl | h)
        · exact Or.inl (Or.inl h)
        · exact Or.inl (Or.inr rfl)
        · exact Or.inr h

theorem ensure_members (m : Mirror) (pids : List Nat) : (m.ensure pids).members = m.members := rfl

theorem ensure_nodup (m : Mirror) (pids : List Nat) (h : m.proxies.Nodup) : (m.ensure pids).proxies.Nodup := by
  simp only [Mirror.ensure]
  generalize m.proxies = ps at h
  induction pids generalizing ps with
  | nil => exact h
  | cons p pids ih =>
    simp only [List.foldl_cons]
    apply ih
    split
    · exact h
    · rename_i hc
      rw [List.nodup_append]
      refine ⟨h, by simp, ?_⟩
      intro a ha b hb
      simp only [List.mem_singleton] at hb
      subst hb
      intro hab; subst hab
      exact hc (by simpa using ha)

theorem mem_joinAll (ms : List (GKey × Nat)) (k : GKey) (pids : List Nat) (e : GKey × Nat) :
    e ∈ joinAll k pids ms ↔ e ∈ ms ∨ (e.1 = k ∧ e.2 ∈ pids) := by
  simp only [joinAll]
  induction pids generalizing ms with
  | nil => simp
  | cons p pids ih =>
    simp only [List.foldl_cons, List.mem_cons]
    rw [ih]
    by_cases hc : ms.contains (k, p) = true
    · simp only [hc, ↓reduceIte]
      have hm : (k, p) ∈ ms := by simpa using hc
      constructor
      · rintro (h | ⟨h1, h2⟩)
        · exact Or.inl h
        · exact Or.inr ⟨h1, Or.inr h2⟩
      · rintro (h | ⟨h1, rfl | h2⟩)
        · exact Or.inl h
        · left; rw [show e = (k, e.2) from Prod.ext h1 rfl]; exact hm
        · exact Or.inr ⟨h1, h2⟩
    · simp only [hc, Bool.false_eq_true, ↓reduceIte, List.mem_append, List.mem_singleton]
      constructor
      · rintro ((h | rfl) | ⟨h1, h2⟩)
        · exact Or.inl h
        · exact Or.inr ⟨rfl, Or.inl rfl⟩
        · exact Or.inr ⟨h1, Or.inr h2⟩
      · rintro (h | ⟨h1, rfl | h2⟩)
        · exact Or.inl (Or.inl h)
        · exact Or.inl (Or.inr (Prod.ext h1 rfl))
        · exact Or.inr ⟨h1, h2⟩

/-- joining `k'` : the membership of `(k, pid)` afterwards -/
theorem mem_joinAll_verdict (ms : List (GKey × Nat)) (k' k : GKey) (pids : List Nat) (pid : Nat) (acc : Option Bool)
    (h : (k, pid) ∈ ms ↔ acc = some true) :
    (k, pid) ∈ joinAll k' pids ms ↔ (if k' == k && pids.contains pid then some true else acc) = some true := by
  rw [mem_joinAll, h]
  simp only [List.contains_eq_mem, Bool.and_eq_true, beq_iff_eq, decide_eq_true_eq]
  by_cases hg : k' = k
  · subst hg
    by_cases hc : pid ∈ pids <;> simp [hc]
  · have : ¬ k = k' := fun e => hg e.symm
    simp [hg, this]

theorem mem_leaveAll_verdict (ms : List (GKey × Nat)) (k' k : GKey) (pids : List Nat) (pid : Nat) (acc : Option Bool)
    (h : (k, pid) ∈ ms ↔ acc = some true) :
    (k, pid) ∈ leaveAll k' pids ms ↔ (if k' == k && pids.contains pid then some false else acc) = some true := by
  simp only [leaveAll, List.mem_filter, h, List.contains_eq_mem, decide_eq_true_eq,
    Bool.and_eq_true, beq_iff_eq, Bool.not_eq_true', Bool.and_eq_false_imp]
  by_cases hg : k' = k
  · subst hg
    by_cases hc : pid ∈ pids <;> simp [hc]
  · have : ¬ k = k' := fun e => hg e.symm
    simp [hg, this]

theorem mem_exit_verdict (ms : List (GKey × Nat)) (k : GKey) (pids : List Nat) (pid : Nat) (acc : Option Bool)
    (h : (k, pid) ∈ ms ↔ acc = some true) :
    (k, pid) ∈ ms.filter (!pids.contains ·.2) ↔ (if pids.contains pid then some false else acc) = some true := by
  simp only [List.mem_filter, h, List.contains_eq_mem, decide_eq_true_eq,
    Bool.not_eq_true', decide_eq_false_iff_not]
  by_cases hc : pid ∈ pids <;> simp [hc]

theorem mirror_step_proxies (m : Mirror) (c : Ctl) (pid : Nat) (acc : Option Bool)
    (h : pid ∈ m.proxies ↔ acc = some true) :
    pid ∈ (m.step c).proxies ↔ verdict pid acc c = some true := by
  cases c with
  | spawn pids =>
    simp only [Mirror.step, verdict, mem_ensure, h, List.contains_eq_mem, decide_eq_true_eq]
    by_cases hc : pid ∈ pids <;> simp [hc]
  | terminate pids =>
    simp only [Mirror.step, verdict, List.mem_filter, h, List.contains_eq_mem, decide_eq_true_eq,
      Bool.not_eq_true', decide_eq_false_iff_not]
    by_cases hc : pid ∈ pids <;> simp [hc]
  | pgJoin s g pids =>
    simp only [Mirror.step, verdict, List.contains_eq_mem, decide_eq_true_eq]
    have : (pid ∈ (m.ensure pids).proxies) ↔ (acc = some true ∨ pid ∈ pids) := by rw [mem_ensure, h]
    rw [this]
    by_cases hc : pid ∈ pids <;> simp [hc]
  | pgLeave s g pids => simpa [Mirror.step, verdict] using h
  | close => simp [Mirror.step, verdict]

theorem mirror_run_proxies (m : Mirror) (cs : List Ctl) (pid : Nat) (acc : Option Bool)
    (h : pid ∈ m.proxies ↔ acc = some true) :
    pid ∈ (m.run cs).proxies ↔ cs.foldl (verdict pid) acc = some true := by
  induction cs generalizing m acc with
  | nil => exact h
  | cons c cs ih =>
    simp only [Mirror.run, List.foldl_cons]
    exact ih _ _ (mirror_step_proxies m c pid acc h)

theorem mirror_step_members (m : Mirror) (c : Ctl) (k : GKey) (pid : Nat) (acc : Option Bool)
    (h : (k, pid) ∈ m.members ↔ acc = some true) :
    (k, pid) ∈ (m.step c).members ↔ verdictG k pid acc c = some true := by
  cases c with
  | spawn pids => simpa [Mirror.step, verdictG, ensure_members] using h
  | terminate pids => exact mem_exit_verdict m.members k pids pid acc h
  | pgJoin s g pids =>
    simp only [Mirror.step, verdictG, ensure_members]
    exact mem_joinAll_verdict m.members (s, g) k pids pid acc h
  | pgLeave s g pids =>
    simp only [Mirror.step, verdictG]
    exact mem_leaveAll_verdict m.members (s, g) k pids pid acc h
  | close => simp [Mirror.step, verdictG]

theorem mirror_run_members (m : Mirror) (cs : List Ctl) (k : GKey) (pid : Nat) (acc : Option Bool)
    (h : (k, pid) ∈ m.members ↔ acc = some true) :
    (k, pid) ∈ (m.run cs).members ↔ cs.foldl (verdictG k pid) acc = some true := by
  induction cs generalizing m acc with
  | nil => exact h
  | cons c cs ih =>
    simp only [Mirror.run, List.foldl_cons]
    exact ih _ _ (mirror_step_members m c k pid acc h)

/-! ### the sending side: local pg, initial scan, notifications -/

/-- one local change and the notification forwarded for it do the same to `(k, pid)` -/
theorem apply_note (L : Memb) (ev : PgEv) (k : GKey) (pid : Nat) (acc : Option Bool)
    (h : (k, pid) ∈ L ↔ acc = some true) :
    (k, pid) ∈ L.apply ev ↔ verdictG k pid acc ev.note = some true := by
  cases ev with
  | join s g pids => exact mem_joinAll_verdict L (s, g) k pids pid acc h
  | leave s g pids => exact mem_leaveAll_verdict L (s, g) k pids pid acc h
  | exit p => exact mem_exit_verdict L k [p] pid acc h

theorem apply_notes (L : Memb) (evs : List PgEv) (k : GKey) (pid : Nat) (acc : Option Bool)
    (h : (k, pid) ∈ L ↔ acc = some true) :
    (k, pid) ∈ evs.foldl Memb.apply L ↔ (evs.map PgEv.note).foldl (verdictG k pid) acc = some true := by
  induction evs generalizing L acc with
  | nil => exact h
  | cons ev evs ih =>
    simp only [List.foldl_cons, List.map_cons]
    exact ih _ _ (apply_note L ev k pid acc h)

theorem mem_localMembers (L : Memb) (k : GKey) (pid : Nat) : pid ∈ localMembers L k ↔ (k, pid) ∈ L := by
  simp only [localMembers, List.mem_map, List.mem_filter, beq_iff_eq]
  constructor
  · rintro ⟨e, ⟨he, hk⟩, hp⟩
    rw [show (k, pid) = e from Prod.ext hk.symm hp.symm]; exact he
  · intro h; exact ⟨(k, pid), ⟨h, rfl⟩, rfl⟩

/-- the initial scan announces `(k, pid)` iff `k` is among the scanned keys and `pid` is a
local member of exactly that scope and group -/
theorem initialSync_verdict (keys : List GKey) (L : Memb) (k : GKey) (pid : Nat) (acc : Option Bool) :
    (initialSync keys L).foldl (verdictG k pid) acc = some true ↔
      acc = some true ∨ (k ∈ keys ∧ (k, pid) ∈ L) := by
  induction keys generalizing acc with
  | nil => simp [initialSync]
  | cons k' keys ih =>
    simp only [initialSync, List.filterMap_cons] at ih ⊢
    by_cases hem : (localMembers L k').isEmpty = true
    · simp only [hem, ↓reduceIte]
      rw [ih]
      have hno : ¬ (k, pid) ∈ L ∨ k ≠ k' := by
        by_cases hk : k = k'
        · subst hk
          left; intro hm
          have := (mem_localMembers L k pid).mpr hm
          rw [List.isEmpty_iff] at hem; rw [hem] at this; exact absurd this (by simp)
        · exact Or.inr hk
      simp only [List.mem_cons]
      constructor
      · rintro (h | ⟨h1, h2⟩)
        · exact Or.inl h
        · exact Or.inr ⟨Or.inr h1, h2⟩
      · rintro (h | ⟨h1 | h1, h2⟩)
        · exact Or.inl h
        · rcases hno with hno | hno
          · exact absurd h2 hno
          · exact absurd h1 hno
        · exact Or.inr ⟨h1, h2⟩
    · simp only [hem, Bool.false_eq_true, ↓reduceIte, List.foldl_cons]
      rw [ih]
      simp only [verdictG, List.mem_cons]
      by_cases hk : k' = k
      · subst hk
        by_cases hp : (k', pid) ∈ L
        · have : pid ∈ localMembers L k' := (mem_localMembers L k' pid).mpr hp
          simp [this, hp]
        · have : ¬ pid ∈ localMembers L k' := mt (mem_localMembers L k' pid).mp hp
          simp [this, hp]
      · have hk' : ¬ k = k' := fun e => hk e.symm
        simp [hk, hk']

theorem mirror_step_nodup (m : Mirror) (c : Ctl) (h : m.proxies.Nodup) : (m.step c).proxies.Nodup := by
  cases c with
  | spawn pids => exact ensure_nodup m pids h
  | terminate pids => exact h.sublist List.filter_sublist
  | pgJoin s g pids => exact ensure_nodup m pids h
  | pgLeave s g pids => exact h
  | close => exact List.nodup_nil

theorem mirror_run_nodup (m : Mirror) (cs : List Ctl) (h : m.proxies.Nodup) : (m.run cs).proxies.Nodup := by
  induction cs generalizing m with
  | nil => exact h
  | cons c cs ih => exact ih _ (mirror_step_nodup m c h)

end Remote
