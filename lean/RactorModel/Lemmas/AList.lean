import RactorModel.Model.AList

namespace AList

variable {κ : Type} {ν : Type} [DecidableEq κ]

@[simp] theorem get_nil (k : κ) : get ([] : List (κ × ν)) k = none := rfl

theorem get_cons (p : κ × ν) (l : List (κ × ν)) (k : κ) :
    get (p :: l) k = if p.1 = k then some p.2 else get l k := by
  simp only [get, List.find?_cons]
  by_cases h : p.1 = k <;> simp [h]

@[simp] theorem get_erase (l : List (κ × ν)) (k k' : κ) :
    get (erase l k) k' = if k' = k then none else get l k' := by
  induction l with
  | nil => simp [erase]
  | cons p l ih =>
    simp only [erase, List.filter_cons] at ih ⊢
    by_cases h : p.1 = k
    · simp only [h, decide_true, Bool.not_true, Bool.false_eq_true, ↓reduceIte, ih, get_cons]
      by_cases h' : k' = k
      · simp [h']
      · have : ¬ k = k' := fun e => h' e.symm
        simp [h', this]
    · simp only [h, decide_false, Bool.not_false, ↓reduceIte, get_cons, ih]
      by_cases h' : p.1 = k'
      · have : ¬ k' = k := fun e => h (h'.trans e)
        simp [h', this]
      · simp [h']

theorem get_append_single (l : List (κ × ν)) (k k' : κ) (v : ν) :
    get (l ++ [(k, v)]) k' = match get l k' with
      | some x => some x
      | none => if k' = k then some v else none := by
  induction l with
  | nil =>
    simp only [List.nil_append, get_cons, get_nil]
    by_cases e : k = k'
    · simp [e]
    · have : ¬ k' = k := fun x => e x.symm
      simp [e, this]
  | cons p l ih =>
    simp only [List.cons_append, get_cons]
    by_cases h : p.1 = k'
    · simp [h]
    · simp [h, ih]

@[simp] theorem get_set (l : List (κ × ν)) (k k' : κ) (v : ν) :
    get (set l k v) k' = if k' = k then some v else get l k' := by
  simp only [set, get_append_single, get_erase]
  by_cases e : k' = k
  · simp [e]
  · simp only [e, ↓reduceIte]
    cases get l k' <;> rfl

/-- keys are unique -/
def NodupKeys (l : List (κ × ν)) : Prop := l.Pairwise (fun p q => p.1 ≠ q.1)

theorem nodupKeys_nil : NodupKeys ([] : List (κ × ν)) := List.Pairwise.nil

theorem nodupKeys_erase {l : List (κ × ν)} (h : NodupKeys l) (k : κ) : NodupKeys (erase l k) :=
  List.Pairwise.filter _ h

theorem nodupKeys_set {l : List (κ × ν)} (h : NodupKeys l) (k : κ) (v : ν) : NodupKeys (set l k v) := by
  simp only [set, NodupKeys, List.pairwise_append, List.pairwise_cons, List.Pairwise.nil, and_true]
  refine ⟨nodupKeys_erase h k, by simp, ?_⟩
  intro p hp q hq
  simp only [List.mem_singleton] at hq; subst hq
  simp only [erase, List.mem_filter] at hp
  simpa using hp.2

theorem get_of_mem {l : List (κ × ν)} (h : NodupKeys l) {k : κ} {v : ν} (hm : (k, v) ∈ l) :
    get l k = some v := by
  induction l with
  | nil => simp at hm
  | cons p l ih =>
    rw [NodupKeys, List.pairwise_cons] at h
    rw [get_cons]
    rcases List.mem_cons.mp hm with rfl | hm'
    · simp
    · have : ¬ p.1 = k := fun e => h.1 _ hm' e
      simp only [this, ↓reduceIte]
      exact ih h.2 hm'

theorem mem_of_get {l : List (κ × ν)} {k : κ} {v : ν} (h : get l k = some v) : (k, v) ∈ l := by
  induction l with
  | nil => simp at h
  | cons p l ih =>
    rw [get_cons] at h
    by_cases e : p.1 = k
    · simp only [e, ↓reduceIte, Option.some.injEq] at h
      subst h; subst e; simp
    · simp only [e, ↓reduceIte] at h
      exact List.mem_cons_of_mem _ (ih h)

theorem mem_keys_iff {l : List (κ × ν)} {k : κ} : k ∈ keys l ↔ (get l k).isSome = true := by
  induction l with
  | nil => simp [keys]
  | cons p l ih =>
    simp only [keys, List.map_cons, List.mem_cons, get_cons] at ih ⊢
    by_cases e : p.1 = k
    · simp [e]
    · have : ¬ k = p.1 := fun x => e x.symm
      simp [e, this, ih]

/-! ### `ins`, `del` -/

variable {α : Type} [DecidableEq α]

@[simp] theorem mem_ins {x y : α} {l : List α} : y ∈ ins x l ↔ y = x ∨ y ∈ l := by
  unfold ins
  split
  · next h => constructor
              · exact Or.inr
              · rintro (rfl | h') <;> assumption
  · simp [or_comm]

theorem nodup_ins {x : α} {l : List α} (h : l.Nodup) : (ins x l).Nodup := by
  unfold ins
  split
  · exact h
  · next hn =>
    refine List.nodup_append.mpr ⟨h, by simp, ?_⟩
    intro a ha b hb e
    simp only [List.mem_singleton] at hb
    subst hb; subst e; exact hn ha

@[simp] theorem mem_del {x y : α} {l : List α} : y ∈ del x l ↔ y ∈ l ∧ y ≠ x := by
  simp [del]

theorem nodup_del {x : α} {l : List α} (h : l.Nodup) : (del x l).Nodup := h.filter _

end AList
