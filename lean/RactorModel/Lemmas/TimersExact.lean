import RactorModel.Lemmas.TimersBurst

/-! Round 4 (audit): delivery-level EXACTLY once — while the target accepts, every attempt is in the
mailbox or handled (and handled, at quiescent points); nothing sent after the close is ever handled. -/

namespace Timers

/-! ### one poll, against a target that accepts, pushes every attempt -/

structure MAll (id n0 : Nat) (b : Bool) (T0 : Target) (x : Timer × Target) : Prop where
  closed : x.2.closedAt = T0.closedAt
  ty : x.1.typed = b
  sub : ∀ m ∈ T0.mbox, m ∈ x.2.mbox
  all : x.1.kind.sends = true → b = true → T0.closedAt = none →
    ∀ k, n0 < k → k ≤ x.1.sentAt.length → (id, k) ∈ x.2.mbox

theorem Micro.mall {now id n0 : Nat} {b : Bool} {T0 : Target} {x y : Timer × Target} (m : Micro now id x y)
    (h : MAll id n0 b T0 x) : MAll id n0 b T0 y := by
  cases m with
  | arm τ T _ _ _ => exact ⟨h.closed, h.ty, h.sub, h.all⟩
  | panic τ T _ _ _ => exact ⟨h.closed, h.ty, h.sub, h.all⟩
  | prime τ T a _ _ _ _ _ => exact ⟨h.closed, h.ty, h.sub, h.all⟩
  | primeHead τ T a _ _ _ _ _ => exact ⟨h.closed, h.ty, h.sub, h.all⟩
  | ivHead τ T _ _ _ _ => exact ⟨h.closed, h.ty, h.sub, h.all⟩
  | ivFail τ T a hp hk ha hd hacc =>
    refine ⟨h.closed, h.ty, h.sub, ?_⟩
    intro _ hb hcl
    have hc : T.closedAt = none := h.closed.trans hcl
    have hty : τ.typed = true := h.ty.trans hb
    have : τ.canSend T = true := by simp [Timer.canSend, Target.accepts, hc, hty]
    rw [this] at hacc; cases hacc
  | saErr τ T a hp hk ha hd hacc =>
    refine ⟨h.closed, h.ty, h.sub, ?_⟩
    intro _ hb hcl
    have hc : T.closedAt = none := h.closed.trans hcl
    have hty : τ.typed = true := h.ty.trans hb
    have : τ.canSend T = true := by simp [Timer.canSend, Target.accepts, hc, hty]
    rw [this] at hacc; cases hacc
  | ivSend τ T a hp hk ha hd hacc =>
    refine ⟨h.closed, h.ty, fun m hm => List.mem_append_left _ (h.sub m hm), ?_⟩
    intro hs hb hcl k h1 h2
    have h2' : k ≤ τ.sentAt.length + 1 := by simpa using h2
    show (id, k) ∈ T.mbox ++ [(id, τ.sentAt.length + 1)]
    rcases Nat.lt_or_ge τ.sentAt.length k with hlt | hge
    · have : k = τ.sentAt.length + 1 := by omega
      subst this; simp
    · exact List.mem_append_left _ (h.all hs hb hcl k h1 hge)
  | saOk τ T a hp hk ha hd hacc =>
    refine ⟨h.closed, h.ty, fun m hm => List.mem_append_left _ (h.sub m hm), ?_⟩
    intro hs hb hcl k h1 h2
    have h2' : k ≤ τ.sentAt.length + 1 := by simpa using h2
    show (id, k) ∈ T.mbox ++ [(id, τ.sentAt.length + 1)]
    rcases Nat.lt_or_ge τ.sentAt.length k with hlt | hge
    · have : k = τ.sentAt.length + 1 := by omega
      subst this; simp
    · exact List.mem_append_left _ (h.all hs hb hcl k h1 hge)
  | exit τ T a hp hk ha hd =>
    exact ⟨by simpa using h.closed, h.ty, by simpa using h.sub, fun hs => by simp [hk, Kind.sends] at hs⟩
  | kill τ T a hp hk ha hd =>
    exact ⟨by simpa using h.closed, h.ty, by simpa using h.sub, fun hs => by simp [hk, Kind.sends] at hs⟩

theorem fireOne_mall (now id : Nat) (τ : Timer) (T : Target) :
    MAll id τ.sentAt.length τ.typed T (fireOne now id τ T) :=
  fireOne_ind now id (fun x => MAll id τ.sentAt.length τ.typed T x) (fun _ _ m hx => m.mall hx) τ T
    ⟨rfl, rfl, fun _ h => h, fun _ _ _ k h1 h2 => by
      have h2' : k ≤ τ.sentAt.length := h2
      omega⟩

/-! ### the target's task -/

theorem run_cases2 (T : Target) (now : Nat) :
    (T.run now = T ∧ (T.exit ≠ none ∨ T.stopping ≠ none ∨ T.starting = true)) ∨
    ((T.run now).closedAt = some (T.closedAt.getD now) ∧ (T.run now).mbox = [] ∧
      ∃ l : List (Nat × Nat), l.Sublist T.mbox ∧ (T.run now).handled = T.handled ++ l.map (fun m => (m.1, m.2, now))) ∨
    ((T.run now).closedAt = T.closedAt ∧ (T.run now).mbox = [] ∧
      (T.run now).handled = T.handled ++ T.mbox.map (fun m => (m.1, m.2, now))) := by
  unfold Target.run
  split
  · rename_i h; exact .inl ⟨rfl, .inl (isSome_ne_none h)⟩
  split
  · exact .inr (.inl ⟨rfl, rfl, [], List.nil_sublist _, by simp [Target.exitWith]⟩)
  split
  · rename_i h; exact .inl ⟨rfl, .inr (.inr h)⟩
  split
  · rename_i h; exact .inl ⟨rfl, .inr (.inl (isSome_ne_none h))⟩
  split
  · right; left; unfold Target.endLoop
    split <;> exact ⟨rfl, rfl, [], List.nil_sublist _, by simp [Target.exitWith]⟩
  · split
    · exact .inr (.inl ⟨rfl, rfl, _, List.take_sublist _ _, rfl⟩)
    · dsimp only
      split
      · right; left; unfold Target.endLoop; split <;> exact ⟨rfl, rfl, _, List.Sublist.refl _, rfl⟩
      · exact .inr (.inr ⟨rfl, rfl, rfl⟩)

theorem ids_moved (T : Target) (now : Nat) (m : Nat × Nat) :
    m ∈ (T.handled ++ T.mbox.map (fun m => (m.1, m.2, now))).map (fun h => (h.1, h.2.1)) ↔ m ∈ T.ids := by
  have e : (T.mbox.map (fun m => (m.1, m.2, now))).map (fun h => (h.1, h.2.1)) = T.mbox := by
    rw [List.map_map]
    have : ((fun h : Nat × Nat × Nat => (h.1, h.2.1)) ∘ fun m : Nat × Nat => (m.1, m.2, now)) = id := by
      funext m; rfl
    rw [this, List.map_id]
  rw [List.map_append, e]
  unfold Target.ids
  simp only [List.mem_append]
  exact Or.comm

/-- every message in flight or handled is one of the attempts its timer has made so far -/
theorem Inv.ids_bound' {s : State} (h : Inv s) : ∀ m ∈ s.target.ids, ∀ τ, s.timers[m.1]? = some τ →
    1 ≤ m.2 ∧ m.2 ≤ τ.sentAt.length := by
  intro m hm τ hτ
  refine ⟨?_, h.ids_bound m hm τ hτ⟩
  simp only [Target.ids, List.mem_append, List.mem_map] at hm
  rcases hm with hm | ⟨hd, hhd, rfl⟩
  · obtain ⟨_, _, _, h1, _⟩ := h.mbox_ok m hm; exact h1
  · obtain ⟨_, _, _, h1, _⟩ := handledOk_spec (h.handled_ok hd hhd); exact h1

theorem Inv.ids_lt {s : State} (h : Inv s) : ∀ m ∈ s.target.ids, m.1 < s.timers.length := by
  intro m hm
  simp only [Target.ids, List.mem_append, List.mem_map] at hm
  rcases hm with hm | ⟨hd, hhd, rfl⟩
  · obtain ⟨τ, e, _⟩ := h.mbox_ok m hm; exact getElem?_lt e
  · obtain ⟨τ, e, _⟩ := handledOk_spec (h.handled_ok hd hhd); exact getElem?_lt e

/-! ### the invariant -/

structure EInv (s : State) : Prop where
  acc : s.target.closedAt = none → ∀ i τ, s.timers[i]? = some τ → τ.kind.sends = true → τ.typed = true →
    ∀ k, 1 ≤ k → k ≤ τ.sentAt.length → (i, k) ∈ s.target.ids
  before : ∀ tc, s.target.closedAt = some tc → ∀ m ∈ s.target.ids, ∀ τ, s.timers[m.1]? = some τ →
    ∀ t, τ.sentAt[m.2 - 1]? = some t → t ≤ tc

theorem EInv.init : EInv init :=
  ⟨(by intro _ i τ h; simp [Timers.init] at h), (by intro tc h; simp [Timers.init] at h)⟩

/-- the target closes now (or was closed), the ids can only shrink / be reordered, the timers stay -/
theorem EInv.closing {s : State} (h : EInv s) (hi : Inv s) (T' : Target)
    (hc : T'.closedAt = some (s.target.closedAt.getD s.now)) (hsub : ∀ m ∈ T'.ids, m ∈ s.target.ids) :
    EInv { s with target := T' } := by
  refine ⟨fun hn => by simp [hc] at hn, ?_⟩
  intro tc htc m hm τ hτ t ht
  have htc' : s.target.closedAt.getD s.now = tc := by
    have : T'.closedAt = some tc := htc
    rw [hc] at this; exact Option.some.inj this
  cases hcl : s.target.closedAt with
  | some tc0 =>
    have : tc0 = tc := by simpa [hcl] using htc'
    subst this
    exact h.before tc0 hcl m (hsub m hm) τ hτ t ht
  | none =>
    have : s.now = tc := by simpa [hcl] using htc'
    subst this
    have hmem : τ ∈ s.timers := List.mem_iff_getElem?.mpr ⟨m.1, hτ⟩
    exact (hi.tinv τ hmem).sent_le t (List.mem_of_getElem? ht)

/-- closedAt and the timers unchanged, the ids the same set -/
theorem EInv.same {s : State} (h : EInv s) (T' : Target) (hc : T'.closedAt = s.target.closedAt)
    (hids : ∀ m, m ∈ T'.ids ↔ m ∈ s.target.ids) : EInv { s with target := T' } :=
  ⟨fun hn i τ hτ hs hty k h1 h2 => (hids _).mpr (h.acc (hc ▸ hn) i τ hτ hs hty k h1 h2),
   fun tc htc m hm τ hτ t ht => h.before tc (hc ▸ htc) m ((hids m).mp hm) τ hτ t ht⟩

theorem EInv.step {s : State} (h : EInv s) (hi : Inv s) (_hd : DInv s) (op : Op) : EInv (Timers.step s op) := by
  have addT : ∀ (x : Timer), x.sentAt = [] → EInv { s with timers := s.timers ++ [x] } := by
    intro x hx
    refine ⟨?_, ?_⟩
    · intro hn i τ hτ hs hty k h1 h2
      rcases Nat.lt_or_ge i s.timers.length with hlt | hge
      · have hτ' : s.timers[i]? = some τ := by
          have : (s.timers ++ [x])[i]? = some τ := hτ
          rwa [List.getElem?_append_left hlt] at this
        exact h.acc hn i τ hτ' hs hty k h1 h2
      · have : (s.timers ++ [x])[i]? = some τ := hτ
        have hmem : τ ∈ s.timers ++ [x] := List.mem_iff_getElem?.mpr ⟨i, this⟩
        have hi' : i < (s.timers ++ [x]).length := getElem?_lt this
        simp only [List.length_append, List.length_singleton] at hi'
        have : i = s.timers.length := by omega
        subst this
        have e : (s.timers ++ [x])[s.timers.length]? = some x := by simp
        have hτ2 : (s.timers ++ [x])[s.timers.length]? = some τ := hτ
        rw [e] at hτ2; cases hτ2
        rw [hx] at h2; simp at h2; omega
    · intro tc htc m hm τ hτ t ht
      have hlt := hi.ids_lt m hm
      have hτ' : s.timers[m.1]? = some τ := by
        have : (s.timers ++ [x])[m.1]? = some τ := hτ
        rwa [List.getElem?_append_left hlt] at this
      exact h.before tc htc m hm τ hτ' t ht
  cases op with
  | create k p => exact addT _ rfl
  | createX k p => exact addT _ rfl
  | tick d => exact ⟨h.acc, h.before⟩
  | mark => exact ⟨h.acc, h.before⟩
  | dropHandle i => exact ⟨h.acc, h.before⟩
  | hold => exact h.same _ rfl (fun _ => Iff.rfl)
  | startHold => exact h.same _ rfl (fun _ => Iff.rfl)
  | started => exact h.same _ rfl (fun _ => Iff.rfl)
  | fail =>
    have e : Timers.step s .fail = { s with target := s.target.poisonMsg } := rfl
    rw [e]
    unfold Target.poisonMsg
    split
    · exact h.same _ rfl (fun _ => Iff.rfl)
    · exact ⟨h.acc, h.before⟩
  | stop =>
    have e : Timers.step s .stop = { s with target := { s.target.stop .manual with manualStop := true } } := rfl
    rw [e]; exact h.same _ (by simp) (fun m => by simp [Target.ids])
  | kill =>
    have e : Timers.step s .kill = { s with target := { s.target.kill with manualKill := true } } := rfl
    rw [e]; exact h.same _ (by simp) (fun m => by simp [Target.ids])
  | abort i =>
    cases hτ : s.timers[i]? with
    | none => rw [step_abort_none hτ]; exact h
    | some τ =>
      rw [step_abort_some hτ]
      split
      · have hget : ∀ (j : Nat) (σ : Timer), (s.timers.set i (τ.finish .cancelled s.now))[j]? = some σ →
            ∃ σ0 : Timer, s.timers[j]? = some σ0 ∧ σ0.sentAt = σ.sentAt ∧ σ0.kind = σ.kind ∧ σ0.typed = σ.typed := by
          intro j σ hσ
          by_cases e : i = j
          · subst e
            simp only [List.getElem?_set, getElem?_lt hτ, ↓reduceIte, Option.some.injEq] at hσ
            subst hσ
            exact ⟨τ, hτ, rfl, rfl, rfl⟩
          · rw [List.getElem?_set_ne e] at hσ
            exact ⟨σ, hσ, rfl, rfl, rfl⟩
        refine ⟨?_, ?_⟩
        · intro hn j σ hσ hs hty k h1 h2
          obtain ⟨σ0, e0, e1, e2, e3⟩ := hget j σ hσ
          exact h.acc hn j σ0 e0 (e2 ▸ hs) (e3 ▸ hty) k h1 (e1 ▸ h2)
        · intro tc htc m hm σ hσ t ht
          obtain ⟨σ0, e0, e1, _, _⟩ := hget m.1 σ hσ
          exact h.before tc htc m hm σ0 e0 t (e1 ▸ ht)
      · exact h
  | drain =>
    have e : Timers.step s .drain = { s with target := s.target.drain s.now } := rfl
    rw [e]
    unfold Target.drain
    split
    · exact ⟨h.acc, h.before⟩
    · exact h.closing hi _ rfl (fun m hm => hm)
  | psrelease =>
    have e : Timers.step s .psrelease = { s with target := s.target.release s.now } := rfl
    rw [e]
    unfold Target.release
    split
    · refine h.closing hi _ rfl ?_
      intro m hm
      have : m ∈ (Target.exitWith { s.target with psGate := false } _ s.now).ids := hm
      rw [ids_exitWith] at this
      exact List.mem_append_right _ this
    · exact h.same _ rfl (fun _ => Iff.rfl)
  | target =>
    have e : Timers.step s .target = { s with target := s.target.run s.now } := rfl
    rw [e]
    rcases run_cases2 s.target s.now with ⟨e1, _⟩ | ⟨hc, hm, l, hl, hh⟩ | ⟨hc, hm, hh⟩
    · rw [e1]; exact ⟨h.acc, h.before⟩
    · refine h.closing hi _ hc ?_
      intro m hmm
      unfold Target.ids at hmm ⊢
      rw [hm, List.nil_append, hh, List.map_append, untag] at hmm
      simp only [List.mem_append] at hmm ⊢
      rcases hmm with hmm | hmm
      · exact .inr hmm
      · exact .inl (hl.subset hmm)
    · refine h.same _ hc ?_
      intro m
      unfold Target.ids
      rw [hm, List.nil_append, hh]
      exact ids_moved s.target s.now m
  | fire i =>
    cases hτ : s.timers[i]? with
    | none => rw [step_fire_none hτ]; exact h
    | some τ =>
      rw [step_fire_some hτ]
      have hm : τ ∈ s.timers := List.mem_iff_getElem?.mpr ⟨i, hτ⟩
      obtain ⟨_, hle, hf⟩ := fireOne_spec s.now i τ s.target hi.closed_le (hi.tinv τ hm)
      have hx := fireOne_mext s.now i τ s.target
      have ha := fireOne_mall s.now i τ s.target
      generalize fireOne s.now i τ s.target = r at hle hf hx ha
      obtain ⟨l, el, _, _, cl⟩ := hx.ext
      obtain ⟨app, eapp⟩ := hle.sent
      have hsub : ∀ m ∈ s.target.ids, m ∈ r.2.ids := by
        intro m hmm
        unfold Target.ids at hmm ⊢
        rw [hf.handled]
        simp only [List.mem_append] at hmm ⊢
        exact hmm.imp (ha.sub m) id
      refine ⟨?_, ?_⟩
      · intro hn j σ hσ hs hty k h1 h2
        have hn0 : s.target.closedAt = none := by rw [← hf.closedAt]; exact hn
        by_cases e : i = j
        · subst e
          simp only [List.getElem?_set, getElem?_lt hτ, ↓reduceIte, Option.some.injEq] at hσ
          subst hσ
          have hs0 : τ.kind.sends = true := by rw [← hle.kind]; exact hs
          have hty0 : τ.typed = true := by rw [← ha.ty]; exact hty
          rcases Nat.lt_or_ge τ.sentAt.length k with hlt | hge
          · exact List.mem_append_left _ (ha.all hs hty0 hn0 k hlt h2)
          · exact hsub _ (h.acc hn0 i τ hτ hs0 hty0 k h1 hge)
        · rw [List.getElem?_set_ne e] at hσ
          exact hsub _ (h.acc hn0 j σ hσ hs hty k h1 h2)
      · intro tc htc m hmm σ hσ t ht
        have htc0 : s.target.closedAt = some tc := by rw [← hf.closedAt]; exact htc
        have hl : l = [] := cl (by rw [htc0]; simp)
        have hmm0 : m ∈ s.target.ids := by
          unfold Target.ids at hmm ⊢
          rw [el, hl, List.append_nil, hf.handled] at hmm
          exact hmm
        by_cases e : i = m.1
        · have hσ' : (s.timers.set i r.1)[m.1]? = some σ := hσ
          rw [← e] at hσ'
          simp only [List.getElem?_set, getElem?_lt hτ, ↓reduceIte, Option.some.injEq] at hσ'
          subst hσ'
          obtain ⟨b1, b2⟩ := hi.ids_bound' m hmm0 τ (by rw [← e]; exact hτ)
          have hlt : m.2 - 1 < τ.sentAt.length := by omega
          rw [eapp, List.getElem?_append_left hlt] at ht
          exact h.before tc htc0 m hmm0 τ (by rw [← e]; exact hτ) t ht
        · rw [List.getElem?_set_ne e] at hσ
          exact h.before tc htc0 m hmm0 σ hσ t ht

theorem all3_steps {s : State} (hi : Inv s) (hd : DInv s) (he : EInv s) (ops : List Op) :
    EInv (Timers.steps s ops) := by
  induction ops generalizing s with
  | nil => exact he
  | cons op ops ih => exact ih (hi.step op) (hd.step hi op) (he.step hi hd op)

/-! ### quiescent points: nothing accepted is waiting -/

theorem run_mbox_nil (T : Target) (now : Nat) (h1 : T.exit ≠ none → T.closedAt ≠ none)
    (h2 : T.stopping ≠ none → T.closedAt ≠ none) (hn : (T.run now).closedAt = none)
    (hn2 : (T.run now).starting = false) : (T.run now).mbox = [] := by
  rcases run_cases2 T now with ⟨e, hx⟩ | ⟨hc, hm, _⟩ | ⟨_, hm, _⟩
  · rw [e] at hn hn2
    rcases hx with hx | hx | hx
    · exact absurd hn (h1 hx)
    · exact absurd hn (h2 hx)
    · rw [hx] at hn2; cases hn2
  · rw [hc] at hn; cases hn
  · exact hm

def QM (T : Target) : Prop := T.closedAt = none → T.starting = false → T.mbox = []

theorem exit_closed {s : State} (hi : Inv s) : s.target.exit ≠ none → s.target.closedAt ≠ none := by
  intro hne
  cases he : s.target.exit with
  | none => exact absurd he hne
  | some x =>
    obtain ⟨r, te⟩ := x
    obtain ⟨_, ⟨tc, hc, _⟩, _⟩ := hi.exit_ok r te he
    rw [hc]; simp

theorem expand_tail_mbox (s : State) (m : MOp) :
    (∃ l, expand s m = l ++ [.target, .mark]) ∨
      (∃ op, expand s m = [op, .mark] ∧ (Timers.step s op).target.mbox = s.target.mbox ∧
        (Timers.step s op).target.closedAt = s.target.closedAt ∧
        ((Timers.step s op).target.starting = s.target.starting ∨ (Timers.step s op).target.starting = true)) := by
  cases m with
  | create k p => exact .inl ⟨[.create k p, .fire s.timers.length], rfl⟩
  | createX k p => exact .inl ⟨[.createX k p, .fire s.timers.length], rfl⟩
  | adv d => exact .inl ⟨[.tick d] ++ fireAll s.timers.length, by simp [expand]⟩
  | advAbort d i => exact .inl ⟨[.tick d, .abort i] ++ fireAll s.timers.length, by simp [expand]⟩
  | advStop d => exact .inl ⟨[.tick d, .stop, .target] ++ fireAll s.timers.length, by simp [expand]⟩
  | advKill d => exact .inl ⟨[.tick d, .kill, .target] ++ fireAll s.timers.length, by simp [expand]⟩
  | advDrain d => exact .inl ⟨[.tick d, .drain, .target] ++ fireAll s.timers.length, by simp [expand]⟩
  | advDrop d i => exact .inl ⟨[.tick d, .dropHandle i] ++ fireAll s.timers.length, by simp [expand]⟩
  | stop => exact .inl ⟨[.stop], rfl⟩
  | kill => exact .inl ⟨[.kill], rfl⟩
  | drain => exact .inl ⟨[.drain], rfl⟩
  | psrelease => exact .inl ⟨[.psrelease], rfl⟩
  | fail => exact .inl ⟨[.fail], rfl⟩
  | advFail d => exact .inl ⟨[.tick d, .fail, .target] ++ fireAll s.timers.length, by simp [expand]⟩
  | hold => exact .inr ⟨.hold, rfl, rfl, rfl, .inl rfl⟩
  | startHold => exact .inr ⟨.startHold, rfl, rfl, rfl, .inr rfl⟩
  | started => exact .inl ⟨[.started], rfl⟩
  | dropHandle i => exact .inr ⟨.dropHandle i, rfl, rfl, rfl, .inl rfl⟩
  | abort i =>
    refine .inr ⟨.abort i, rfl, ?_⟩
    cases hτ : s.timers[i]? with
    | none => rw [step_abort_none hτ]; exact ⟨rfl, rfl, .inl rfl⟩
    | some τ => rw [step_abort_some hτ]; split <;> exact ⟨rfl, rfl, .inl rfl⟩

theorem qm_mstep {s : State} (hi : Inv s) (ha : AInv s) (hq : QM s.target) (m : MOp) : QM (mstep s m).target := by
  unfold Timers.mstep
  rcases expand_tail_mbox s m with ⟨l, e⟩ | ⟨op, e, e3, e4, e5⟩
  · rw [e, steps_append]
    have hi1 := hi.steps l
    have ha1 := ha.steps l
    generalize Timers.steps s l = s1 at hi1 ha1
    show QM (s1.target.run s1.now)
    exact run_mbox_nil _ _ (exit_closed hi1) ha1.sc
  · rw [e]
    show QM (Timers.step s op).target
    intro hn hn2
    rw [e4] at hn
    rw [e3]
    rcases e5 with e5 | e5
    · rw [e5] at hn2; exact hq hn hn2
    · rw [e5] at hn2; cases hn2

theorem qm_mrun (ms : List MOp) : ∀ {s : State}, Inv s → AInv s → QM s.target → QM (mrun s ms).target := by
  induction ms with
  | nil => intro s _ _ hq; exact hq
  | cons m ms ih =>
    intro s hi ha hq
    have hi' : Inv (mstep s m) := hi.steps _
    exact ih hi' (ainv_mstep ha m) (qm_mstep hi ha hq m)

/-- the oracle clause: a running target has handled every attempt made so far -/
theorem allHandledOk_of {s : State} (he : EInv s) (hq : QM s.target) : allHandledOk s = true := by
  unfold allHandledOk
  cases hcl : s.target.closedAt with
  | some tc => rfl
  | none =>
    cases hst : s.target.starting with
    | true => rfl
    | false =>
    simp only [Option.isSome_none, Bool.false_or]
    rw [List.all_eq_true]
    intro x hx
    obtain ⟨τ, i⟩ := x
    have hτ : s.timers[i]? = some τ := List.mem_zipIdx_iff_getElem?.mp hx
    simp only
    by_cases hs : τ.kind.sends = true
    · by_cases hty : τ.typed = true
      · simp only [hs, hty, Bool.not_true, Bool.false_or]
        rw [List.all_eq_true]
        intro j hj
        have hj' : j < τ.sentAt.length := List.mem_range.mp hj
        have := he.acc hcl i τ hτ hs hty (j + 1) (by omega) (by omega)
        unfold Target.ids at this
        rw [hq hcl hst, List.nil_append] at this
        exact List.contains_iff_mem.mpr this
      · have : τ.typed = false := by simpa using hty
        simp [this]
    · have : τ.kind.sends = false := by simpa using hs
      simp [this]

theorem sentBeforeClose_of {s : State} (he : EInv s) : sentBeforeCloseOk s = true := by
  unfold sentBeforeCloseOk
  cases hcl : s.target.closedAt with
  | none => rfl
  | some tc =>
    simp only
    rw [List.all_eq_true]
    intro h hh
    cases hτ : s.timers[h.1]? with
    | none => rfl
    | some τ =>
      simp only
      cases ht : τ.sentAt[h.2.1 - 1]? with
      | none => rfl
      | some t =>
        simp only [decide_eq_true_eq]
        exact he.before tc hcl (h.1, h.2.1)
          (List.mem_append_right _ (List.mem_map.mpr ⟨h, hh, rfl⟩)) τ hτ t ht

end Timers
