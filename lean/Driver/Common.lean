import Std.Data.HashSet
/-
Line-protocol plumbing shared by all model drivers. Core Lean only.

`driver <model> <ops-file> <impl-file>` replays the operations the harness executed on the
real implementation (`ops-file`, one op per line, with the concrete values the
implementation chose such as fresh actor ids) through the executable Lean model, compares
the model's observation for every op with the implementation's (`impl-file`, same line
numbering) and evaluates the property oracle — the same decidable predicate the theorems
are stated about — on the implementation's observations.

Output:  `DIFF <n> …` model/implementation disagreement at op n (correspondence broken)
         `ORACLE <n> <clause> …` the implementation's own trace violates the property
         `SUMMARY ops=… diffs=… oracle_fails=… nontrivial=… distinct=…`
-/

namespace Driver

def words (s : String) : List String :=
  (s.trimAscii.toString.splitOn " ").filter (· ≠ "")

def parseBool? (s : String) : Option Bool :=
  if s == "true" || s == "1" then some true
  else if s == "false" || s == "0" then some false
  else none

def splitOnChar (s : String) (c : Char) : List String := s.splitOn (String.singleton c)

def natList? (s : String) : Option (List Nat) :=
  if s == "-" || s == "" then some [] else (splitOnChar s ',').mapM (·.toNat?)

def showNats (l : List Nat) : String :=
  if l.isEmpty then "-" else ",".intercalate (l.map toString)

def readLines (path : String) : IO (Array String) := do
  let txt ← IO.FS.readFile path
  let ls := txt.splitOn "\n"
  let ls := if ls.getLast? == some "" then ls.dropLast else ls
  return ls.toArray

structure Tally where
  ops : Nat := 0
  diffs : Nat := 0
  oracleFails : Nat := 0
  nontrivial : Nat := 0
  distinct : Nat := 0
  deriving Repr

/-- Result of replaying one op: the model's observation, the oracle's verdicts on the
implementation's observation (clause names that failed), and whether the op is non-trivial. -/
structure StepOut where
  model : String
  oracle : List String := []
  nontrivial : Bool := false
  /-- what identifies the situation for the `distinct` count (default: the op line itself);
  set it when the same op text occurs in many different states -/
  key : Option String := none

/-- Generic replay loop for a model with state `σ`. -/
def replay {σ : Type} (init : σ) (step : σ → String → String → σ × StepOut)
    (ops impl : Array String) : IO Tally := do
  let mut st := init
  let mut t : Tally := {}
  let mut seen : Std.HashSet String := {}
  for i in [0:ops.size] do
    let op := ops[i]!
    let im := if h : i < impl.size then impl[i] else "<missing>"
    let (st', out) := step st op im
    st := st'
    t := { t with ops := t.ops + 1 }
    if out.nontrivial then
      t := { t with nontrivial := t.nontrivial + 1 }
      let k := out.key.getD (op ++ " => " ++ im)
      if !seen.contains k then
        seen := seen.insert k
        t := { t with distinct := t.distinct + 1 }
    if out.model != im then
      t := { t with diffs := t.diffs + 1 }
      IO.println s!"DIFF {i} op=[{op}] model=[{out.model}] impl=[{im}]"
    for c in out.oracle do
      t := { t with oracleFails := t.oracleFails + 1 }
      IO.println s!"ORACLE {i} {c} op=[{op}] impl=[{im}]"
  if impl.size > ops.size then
    t := { t with diffs := t.diffs + 1 }
    IO.println s!"DIFF {ops.size} op=[<none>] model=[<none>] impl=[{impl[ops.size]!}]"
  IO.println s!"SUMMARY ops={t.ops} diffs={t.diffs} oracle_fails={t.oracleFails} nontrivial={t.nontrivial} distinct={t.distinct}"
  return t

end Driver
