//! E-LTS harness for the `Life` model (C01, C03, C04; later C08, C09).
//!
//! Runs the REAL ractor actor runtime under the controlled-task engine (`hcore::lts`) and
//! records one op per line in `ops.txt` and what was observed after it in `impl.txt`:
//!
//!   case n | spawn a sup=p|- | pollspawn a | dropspawn a | poll a | abort a
//!   resume a [sendself:m] [stopself[:r]] [killself] (tick|ok|err:n|panic:n)
//!   send a m | stop a r|- | kill a | drain a
//!
//! observation: `<notes joined by "; ">|- | <a:Status/sup/nkids …> | run=<runnable actors>`
//!
//! Case streams: replayed op files (`--replay-ops f1,f2`; `--only-replay 1` stops after them), the exhaustive arrival-point sweep (phase × port-fill pattern ×
//! next op), structured random cases.

use hcore::lts::{run_paused, Fx, Seg, Term, World};
use hutil::{Args, Log, Rng, Stats};

#[derive(Clone, Debug)]
enum Op {
    Case(u64),
    Spawn(usize, Option<usize>, Option<String>),
    SpawnInstant(usize, Option<usize>, Option<String>),
    Link(usize, usize),
    Unlink(usize, usize),
    /// feature `monitors`: `m.monitor(a)` / `m.unmonitor(a)` (`Monitor(m, a, on)`)
    Monitor(usize, usize, bool),
    PollSpawn(usize),
    DropSpawn(usize),
    Poll(usize),
    Abort(usize),
    Resume(usize, Seg),
    Send(usize, u32),
    Stop(usize, Option<String>),
    Kill(usize),
    Drain(usize),
    Wait(u32, usize),
    PollWait(u32),
    Call(u32, usize),
    PollCall(u32),
}

impl std::fmt::Display for Op {
    fn fmt(&self, f: &mut std::fmt::Formatter<'_>) -> std::fmt::Result {
        match self {
            Op::Case(n) => write!(f, "case {n}"),
            Op::Spawn(a, sup, name) => write!(
                f,
                "spawn {a} sup={} name={}",
                sup.map(|p| p.to_string()).unwrap_or_else(|| "-".into()),
                name.clone().unwrap_or_else(|| "-".into())
            ),
            Op::SpawnInstant(a, sup, name) => write!(
                f,
                "spawninstant {a} sup={} name={}",
                sup.map(|p| p.to_string()).unwrap_or_else(|| "-".into()),
                name.clone().unwrap_or_else(|| "-".into())
            ),
            Op::Link(a, p) => write!(f, "link {a} {p}"),
            Op::Unlink(a, p) => write!(f, "unlink {a} {p}"),
            Op::Monitor(m, a, true) => write!(f, "monitor {m} {a}"),
            Op::Monitor(m, a, false) => write!(f, "unmonitor {m} {a}"),
            Op::PollSpawn(a) => write!(f, "pollspawn {a}"),
            Op::DropSpawn(a) => write!(f, "dropspawn {a}"),
            Op::Poll(a) => write!(f, "poll {a}"),
            Op::Abort(a) => write!(f, "abort {a}"),
            Op::Resume(a, s) => write!(f, "resume {a} {s}"),
            Op::Send(a, m) => write!(f, "send {a} {m}"),
            Op::Stop(a, Some(r)) => write!(f, "stop {a} {r}"),
            Op::Stop(a, None) => write!(f, "stop {a} -"),
            Op::Kill(a) => write!(f, "kill {a}"),
            Op::Drain(a) => write!(f, "drain {a}"),
            Op::Wait(w, a) => write!(f, "wait {w} {a}"),
            Op::PollWait(w) => write!(f, "pollwait {w}"),
            Op::Call(k, a) => write!(f, "call {k} {a}"),
            Op::PollCall(k) => write!(f, "pollcall {k}"),
        }
    }
}

fn parse_op(line: &str) -> Option<Op> {
    let w: Vec<&str> = line.split_whitespace().collect();
    let n = |s: &str| s.parse::<usize>().ok();
    Some(match w.as_slice() {
        ["case", k] => Op::Case(k.parse().ok()?),
        ["spawn", a, sup] => {
            let s = sup.strip_prefix("sup=")?;
            Op::Spawn(n(a)?, if s == "-" { None } else { Some(n(s)?) }, None)
        }
        ["spawn", a, sup, name] | ["spawn", a, sup, name, _] => {
            let s = sup.strip_prefix("sup=")?;
            let nm = name.strip_prefix("name=")?;
            Op::Spawn(
                n(a)?,
                if s == "-" { None } else { Some(n(s)?) },
                if nm == "-" { None } else { Some(nm.to_string()) },
            )
        }
        ["spawninstant", a, sup, name] | ["spawninstant", a, sup, name, _] => {
            let s = sup.strip_prefix("sup=")?;
            let nm = name.strip_prefix("name=")?;
            Op::SpawnInstant(
                n(a)?,
                if s == "-" { None } else { Some(n(s)?) },
                if nm == "-" { None } else { Some(nm.to_string()) },
            )
        }
        ["link", a, p] => Op::Link(n(a)?, n(p)?),
        ["unlink", a, p] => Op::Unlink(n(a)?, n(p)?),
        ["monitor", m, a] => Op::Monitor(n(m)?, n(a)?, true),
        ["unmonitor", m, a] => Op::Monitor(n(m)?, n(a)?, false),
        ["wait", w, a] => Op::Wait(w.parse().ok()?, n(a)?),
        ["pollwait", w] => Op::PollWait(w.parse().ok()?),
        ["call", k, a] => Op::Call(k.parse().ok()?, n(a)?),
        ["pollcall", k] => Op::PollCall(k.parse().ok()?),
        ["pollspawn", a] => Op::PollSpawn(n(a)?),
        ["dropspawn", a] => Op::DropSpawn(n(a)?),
        ["poll", a] => Op::Poll(n(a)?),
        ["abort", a] => Op::Abort(n(a)?),
        ["resume", a, rest @ ..] => Op::Resume(n(a)?, Seg::parse(rest)?),
        ["send", a, m] => Op::Send(n(a)?, m.parse().ok()?),
        ["stop", a, r] => Op::Stop(n(a)?, if *r == "-" { None } else { Some(r.to_string()) }),
        ["kill", a] => Op::Kill(n(a)?),
        ["drain", a] => Op::Drain(n(a)?),
        _ => return None,
    })
}

struct Run {
    w: World,
    log: Log,
    stats: Stats,
    /// fresh numbers for messages / error texts within a case
    ctr: u32,
    /// calls / waits whose future is still pending, reply ports held by an actor
    pending_calls: Vec<u32>,
    pending_waits: Vec<u32>,
    held: std::collections::HashMap<usize, Vec<u32>>,
    /// a segment with `spawnchild:c` was supplied to this actor and has not executed yet: slot `c` is
    /// reserved, nobody else may spawn meanwhile
    reserved: Option<(usize, usize)>,
    /// feature `monitors`: (monitor, monitored) pairs registered by the harness; actors whose
    /// `post_start` returned ok
    mon_pairs: Vec<(usize, usize)>,
    past_start: std::collections::HashSet<usize>,
    /// replaying corpus files: cycle-closing links are executed as recorded
    allow_cycles: bool,
}

impl Run {
    fn fresh(&mut self) -> u32 {
        self.ctr += 1;
        self.ctr
    }

    fn valid(&self, op: &Op) -> bool {
        let n = self.w.actors.len();
        match op {
            Op::Case(_) => true,
            Op::Spawn(a, sup, _) | Op::SpawnInstant(a, sup, _) => {
                self.reserved.is_none() && *a == n && sup.is_none_or(|p| p < n && self.w.me(p).is_some())
            }
            Op::Resume(a, seg) if seg.fx.iter().any(|x| matches!(x, Fx::SpawnChild(_))) => {
                let cs: Vec<usize> = seg.fx.iter().filter_map(|x| if let Fx::SpawnChild(c) = x { Some(*c) } else { None }).collect();
                *a < n && self.reserved.is_none() && cs.len() == 1 && cs[0] == n && self.w.me(*a).is_some()
                    && self.w.actors[*a].open.is_some() && !self.w.actors[*a].seg_pending
            }
            Op::Unlink(a, p) => *a < n && *p < n && a != p && self.w.me(*p).is_some(),
            Op::Monitor(m, a, _) => {
                self.w.monitors_enabled() && *a < n && *m < n && a != m && self.w.me(*m).is_some() && self.w.me(*a).is_some()
            }
            // a link that would close a supervision cycle is never generated (known finding F15: the code
            // accepts it and then loses the terminal event of an actor exiting on the cycle); the corpus
            // witness corpus/C04/e-lts-link-cycle.ops (replayed with `allow_cycles`) does close one
            Op::Link(a, p) => {
                *a < n && *p < n && self.w.me(*p).is_some() && (self.allow_cycles || (a != p && !self.w.would_cycle(*a, *p)))
            }
            Op::Wait(_, a) | Op::Call(_, a) => *a < n,
            Op::PollWait(_) | Op::PollCall(_) => true,
            Op::PollSpawn(a) | Op::DropSpawn(a) | Op::Poll(a) | Op::Abort(a) | Op::Resume(a, _) => *a < n,
            Op::Send(a, _) | Op::Stop(a, _) | Op::Kill(a) | Op::Drain(a) => *a < n,
        }
    }

    async fn exec(&mut self, op: Op) {
        if !self.valid(&op) {
            self.stats.bump("skipped-invalid");
            return;
        }
        let open_of = |w: &World, a: usize| w.actors[a].open.clone().unwrap_or_else(|| "none".into());
        match &op {
            Op::Case(id) => {
                self.w.cleanup().await;
                self.w.eng.reset();
                self.w.sync_shared();
                self.reserved = None;
                self.mon_pairs.clear();
                self.past_start.clear();
                *self.w.sh.tag.lock().unwrap() = format!("c{id}-");
                self.ctr = 0;
                self.pending_calls.clear();
                self.pending_waits.clear();
                self.held.clear();
                self.stats.bump("case");
            }
            Op::Spawn(_, sup, name) => {
                self.stats.bump(if sup.is_some() { "op.spawn-linked" } else { "op.spawn" });
                if name.is_some() {
                    self.stats.bump("op.spawn-named");
                }
                self.w.spawn_any(*sup, name.as_deref()).await;
            }
            Op::SpawnInstant(_, sup, name) => {
                self.stats.bump(if sup.is_some() { "op.spawninstant-linked" } else { "op.spawninstant" });
                if name.is_some() {
                    self.stats.bump("op.spawn-named");
                }
                self.w.spawn_instant(*sup, name.as_deref());
            }
            Op::Link(a, p) => {
                if self.w.would_cycle(*a, *p) {
                    self.stats.bump("op.link.would-close-a-cycle");
                }
                self.stats.bump(&format!("op.link@{}", open_of(&self.w, *a)));
                self.w.link(*a, *p);
            }
            Op::Unlink(a, p) => {
                self.stats.bump(&format!("op.unlink@{}", open_of(&self.w, *a)));
                self.w.unlink(*a, *p);
            }
            Op::Monitor(m, a, on) => {
                self.stats.bump(&format!("op.{}@{}", if *on { "monitor" } else { "unmonitor" }, open_of(&self.w, *a)));
                self.w.monitor(*m, *a, *on);
                self.mon_pairs.retain(|p| *p != (*m, *a));
                if *on {
                    self.mon_pairs.push((*m, *a));
                }
            }
            Op::Wait(w, a) => {
                self.stats.bump("op.wait");
                self.w.wait(*w, *a);
            }
            Op::PollWait(w) => {
                self.stats.bump("op.pollwait");
                self.w.pollwait(*w);
            }
            Op::Call(k, a) => {
                self.stats.bump("op.call");
                self.w.call(*k, *a);
            }
            Op::PollCall(k) => {
                self.stats.bump("op.pollcall");
                self.w.pollcall(*k);
            }
            Op::PollSpawn(a) => {
                if self.w.actors[*a].unstarted_instant() {
                    let me = self.w.me(*a);
                    let (stop_open, sig_open) = me.map(|m| m.get_cell().verif_ports_open()).unwrap_or((true, true));
                    self.stats.bump(&format!(
                        "op.pollspawn.instant-first{}{}",
                        if sig_open { "" } else { "+kill-pending" },
                        if stop_open { "" } else { "+stop-pending" }
                    ));
                }
                self.stats.bump("op.pollspawn");
                self.w.pollspawn_any(*a).await;
            }
            Op::DropSpawn(a) => {
                if self.w.actors[*a].inst_task.is_some() {
                    self.stats.bump("op.dropspawn.instant");
                }
                self.stats.bump(&format!("op.dropspawn@{}", open_of(&self.w, *a)));
                self.w.dropspawn_any(*a).await;
            }
            Op::Poll(a) => {
                self.stats.bump("op.poll");
                self.w.poll(*a).await;
            }
            Op::Abort(a) => {
                self.stats.bump(&format!("op.abort@{}", open_of(&self.w, *a)));
                self.w.abort(*a).await;
            }
            Op::Resume(a, seg) => {
                let t = match seg.term {
                    Term::Tick => "tick",
                    Term::Ok => "ok",
                    Term::Err(_) => "err",
                    Term::Panic(_) => "panic",
                };
                self.stats.bump(&format!("op.resume.{t}@{}", open_of(&self.w, *a)));
                for x in &seg.fx {
                    self.stats.bump(match x {
                        Fx::SendSelf(_) => "fx.sendself",
                        Fx::StopSelf(_) => "fx.stopself",
                        Fx::KillSelf => "fx.killself",
                        Fx::Reply(..) => "fx.reply",
                        Fx::Forget(_) => "fx.forget",
                        Fx::Join(_) => "fx.join",
                        Fx::SpawnChild(_) => "fx.spawnchild",
                    });
                    if let Fx::SpawnChild(c) = x {
                        self.reserved = Some((*a, *c));
                    }
                }
                self.w.resume(*a, seg.clone());
            }
            Op::Send(a, m) => {
                self.stats.bump("op.send");
                self.w.send(*a, *m);
            }
            Op::Stop(a, r) => {
                self.stats.bump(&format!("op.stop@{}", open_of(&self.w, *a)));
                self.w.stop(*a, r.clone());
            }
            Op::Kill(a) => {
                self.stats.bump(&format!("op.kill@{}", open_of(&self.w, *a)));
                self.w.kill(*a);
            }
            Op::Drain(a) => {
                self.stats.bump(&format!("op.drain@{}", open_of(&self.w, *a)));
                self.w.drain(*a);
            }
        }
        let obs = self.w.collect();
        // the reservation ends when the child was born or the segment can no longer execute
        if let Some((a, c)) = self.reserved {
            if self.w.actors.len() > c || !self.w.actors[a].seg_pending {
                self.reserved = None;
            }
        }
        for part in obs.split(" | ").next().unwrap_or("").split("; ") {
            let w: Vec<&str> = part.split(' ').collect();
            match w.as_slice() {
                ["emit", _, "Terminated", _, st, r] => {
                    let class = if r.starts_with('r') && r[1..].chars().all(|c| c.is_ascii_digit()) { "user" } else { r };
                    self.stats.bump(&format!("obs.emit.Terminated.{st}.{class}"))
                }
                ["emit", _, kind, ..] => self.stats.bump(&format!("obs.emit.{kind}")),
                ["monemit", _, kind, ..] => self.stats.bump(&format!("obs.monemit.{kind}")),
                ["cancelled", _, cb] => self.stats.bump(&format!("obs.cancelled.{cb}")),
                ["ret", r] if matches!(op, Op::Spawn(..) | Op::PollSpawn(_) | Op::SpawnInstant(..)) => {
                    let r = if r.starts_with("Err(startup:") { "Err(startup)" } else { r };
                    self.stats.bump(&format!("obs.spawn.{r}"))
                }
                ["call", k, r] => {
                    self.stats.bump(&format!("obs.call.{}", r.split('(').next().unwrap_or(r)));
                    if let Ok(k) = k.parse::<u32>() {
                        if *r == "Pending" {
                            if !self.pending_calls.contains(&k) {
                                self.pending_calls.push(k);
                            }
                        } else {
                            self.pending_calls.retain(|x| *x != k);
                        }
                    }
                }
                ["wait", w0, r] => {
                    self.stats.bump(&format!("obs.wait.{r}"));
                    if let Ok(w0) = w0.parse::<u32>() {
                        if *r == "Pending" {
                            if !self.pending_waits.contains(&w0) {
                                self.pending_waits.push(w0);
                            }
                        } else {
                            self.pending_waits.retain(|x| *x != w0);
                        }
                    }
                }
                ["enter", a, "handle", c] if c.starts_with("call") => {
                    if let (Ok(a), Ok(k)) = (a.parse::<usize>(), c[4..].parse::<u32>()) {
                        self.held.entry(a).or_default().push(k);
                    }
                }
                ["fx", "reply", k, ..] | ["fx", "forget", k, ..] => {
                    if let Ok(k) = k.parse::<u32>() {
                        for v in self.held.values_mut() {
                            v.retain(|x| *x != k);
                        }
                    }
                }
                ["join", _, r] => self.stats.bump(&format!("obs.join.{r}")),
                _ => {}
            }
        }
        let line = match &op {
            Op::Spawn(..) | Op::SpawnInstant(..) if self.w.local.is_some() => format!("{op} kind=local"),
            _ => op.to_string(),
        };
        for part in obs.split(" | ").next().unwrap_or("").split("; ") {
            let w: Vec<&str> = part.split(' ').collect();
            if let ["exit", a, "post_start", "ok"] = w.as_slice() {
                if let Ok(a) = a.parse::<usize>() {
                    self.past_start.insert(a);
                }
            }
        }
        self.log.rec(line, obs);
        // Bound of the tie (feature `monitors`): the code drops a dead monitor inside `notify_supervisor`,
        // the model after the step — they differ only when one poll makes two fan-outs (`ActorStarted` and
        // the terminal event) to a monitor that is already dead. So a monitor that dies before the monitored
        // actor has reported `ActorStarted` is un-monitored at once (as recorded ops).
        if self.w.monitors_enabled() && !matches!(op, Op::Case(_)) {
            let dead: Vec<(usize, usize)> = self
                .mon_pairs
                .iter()
                .copied()
                .filter(|(m, a)| {
                    *m < self.w.actors.len()
                        && *a < self.w.actors.len()
                        && !self.alive(*m)
                        && self.alive(*a)
                        && !self.past_start.contains(a)
                })
                .collect();
            for (m, a) in dead {
                self.stats.bump("op.unmonitor.auto-dead-monitor");
                self.w.monitor(m, a, false);
                self.mon_pairs.retain(|p| *p != (m, a));
                let obs = self.w.collect();
                self.log.rec(Op::Monitor(m, a, false).to_string(), obs);
            }
        }
    }

    fn alive(&self, a: usize) -> bool {
        let s = &self.w.actors[a];
        s.spawn_alive() || s.task_live()
    }

    /// Deterministic wrap-up: let every open callback return ok and poll whatever can move.
    async fn drive(&mut self, rounds: usize) {
        for _ in 0..rounds {
            let mut moved = false;
            for a in 0..self.w.actors.len() {
                if !self.alive(a) {
                    continue;
                }
                let (open, pend) = (self.w.actors[a].open.is_some(), self.w.actors[a].seg_pending);
                if open && !pend {
                    self.exec(Op::Resume(a, Seg { fx: vec![], term: Term::Ok })).await;
                    moved = true;
                }
                if self.w.actors[a].spawn_alive() {
                    if self.w.actors[a].seg_pending || self.w.actors[a].unstarted_instant() {
                        self.exec(Op::PollSpawn(a)).await;
                        moved = true;
                    }
                } else if self.w.actors[a].task_live() && self.w.actors[a].runnable() {
                    self.exec(Op::Poll(a)).await;
                    moved = true;
                }
            }
            if !moved {
                break;
            }
        }
    }

    async fn finish_case(&mut self) {
        self.drive(8).await;
        for a in 0..self.w.actors.len() {
            if self.alive(a) {
                self.exec(Op::Stop(a, None)).await;
            }
        }
        self.drive(8).await;
        for k in self.pending_calls.clone() {
            self.exec(Op::PollCall(k)).await;
        }
        for w0 in self.pending_waits.clone() {
            self.exec(Op::PollWait(w0)).await;
        }
    }

    fn rand_seg(&mut self, rng: &mut Rng, a: usize, wild: u64, p_fail: u64) -> Seg {
        let mut fx = Vec::new();
        if rng.chance(8, 100) {
            fx.push(Fx::Join(format!("g{}", rng.range(1, 2))));
        }
        if let Some(k) = self.held.get(&a).and_then(|v| v.first().copied()) {
            if rng.chance(60, 100) {
                fx.push(if rng.chance(4, 5) { Fx::Reply(k, self.fresh()) } else { Fx::Forget(k) });
            }
        } else if rng.chance(1, 100) {
            fx.push(Fx::Reply(999, 1));
        }
        if rng.chance(20, 100) {
            let m = self.fresh();
            fx.push(Fx::SendSelf(m));
        }
        if self.reserved.is_none() && self.w.actors.len() < 6 && self.w.me(a).is_some() && rng.chance(7, 100) {
            fx.push(Fx::SpawnChild(self.w.actors.len()));
        }
        if rng.chance(2 * wild, 100) {
            fx.push(Fx::StopSelf(if rng.chance(1, 2) { Some(format!("r{}", self.fresh())) } else { None }));
        }
        if rng.chance(wild, 100) {
            fx.push(Fx::KillSelf);
        }
        if fx.len() > 1 && rng.chance(1, 2) {
            fx.reverse();
        }
        let x = rng.below(100);
        let term = if x < p_fail {
            if rng.chance(1, 2) { Term::Err(self.fresh()) } else { Term::Panic(self.fresh()) }
        } else if x < p_fail + 20 {
            Term::Tick
        } else {
            Term::Ok
        };
        Seg { fx, term }
    }

    /// One structured random case. `wild` (0..3) scales how often lifecycles are disturbed
    /// (kill / stop / drain / abort / dropspawn), `p_fail` is the percentage of err/panic returns.
    async fn random_case(&mut self, rng: &mut Rng, id: u64) {
        self.exec(Op::Case(id)).await;
        let n_target = rng.range(1, 4) as usize;
        let steps = rng.range(10, 58);
        let wild = *rng.pick(&[0u64, 1, 1, 2, 3]);
        let p_fail = *rng.pick(&[0u64, 4, 10, 25]);
        self.stats.bump(&format!("gen.wild{wild}"));
        let mut i = 0;
        let mut dead_ops = 0;
        while i < steps {
            i += 1;
            let n = self.w.actors.len();
            let mut cand: Vec<(u64, Op)> = Vec::new();
            if n < n_target {
                let with_cell: Vec<usize> = (0..n).filter(|&p| self.w.me(p).is_some()).collect();
                let sup = if !with_cell.is_empty() && rng.chance(8, 10) { Some(*rng.pick(&with_cell)) } else { None };
                let name = if rng.chance(3, 10) { Some(format!("n{}", rng.range(1, 2))) } else { None };
                if rng.chance(3, 10) {
                    cand.push((if n == 0 { 1000 } else { 40 }, Op::SpawnInstant(n, sup, name)));
                } else {
                    cand.push((if n == 0 { 1000 } else { 40 }, Op::Spawn(n, sup, name)));
                }
            }
            for a in 0..n {
                let (sa, tl, open, pend, runnable) = {
                    let s = &self.w.actors[a];
                    (s.spawn_alive(), s.task_live(), s.open.is_some(), s.seg_pending, s.runnable())
                };
                let live = sa || tl;
                if sa {
                    let unst = self.w.actors[a].unstarted_instant();
                    cand.push((if pend { 120 } else if unst { 25 } else { 6 }, Op::PollSpawn(a)));
                    cand.push((3 * wild, Op::DropSpawn(a)));
                }
                if tl {
                    cand.push((if runnable { 100 } else { 6 }, Op::Poll(a)));
                    cand.push((3 * wild, Op::Abort(a)));
                }
                if live && open && !pend {
                    let seg = self.rand_seg(rng, a, wild, p_fail);
                    cand.push((100, Op::Resume(a, seg)));
                }
                if self.w.me(a).is_some() {
                    let k = if live { 10 } else if dead_ops < 3 { 1 } else { 0 };
                    let m = self.fresh();
                    cand.push((4 * k, Op::Send(a, m)));
                    cand.push((wild * k, Op::Kill(a)));
                    let r = if rng.chance(1, 2) { Some(format!("r{}", self.fresh())) } else { None };
                    cand.push(((wild + 1) * k / 2, Op::Stop(a, r)));
                    cand.push(((wild + 1) * k / 2, Op::Drain(a)));
                    cand.push((k, Op::Call(100 + self.fresh(), a)));
                    let others: Vec<usize> = (0..n).filter(|&p| p != a && self.w.me(p).is_some()).collect();
                    if !others.is_empty() {
                        let p = *rng.pick(&others);
                        cand.push(((wild + 1) * k / 3, Op::Link(a, p)));
                        let q = *rng.pick(&others);
                        cand.push(((wild + 1) * k / 4, Op::Unlink(a, q)));
                        if self.w.monitors_enabled() {
                            let m = *rng.pick(&others);
                            cand.push((3 * k / 2, Op::Monitor(m, a, true)));
                            let m2 = *rng.pick(&others);
                            cand.push((k / 3, Op::Monitor(m2, a, false)));
                        }
                    }
                    cand.push((k / 2, Op::Wait(100 + self.fresh(), a)));
                }
            }
            for k in self.pending_calls.clone() {
                cand.push((6, Op::PollCall(k)));
            }
            for w0 in self.pending_waits.clone() {
                cand.push((6, Op::PollWait(w0)));
            }
            cand.retain(|c| c.0 > 0);
            if cand.is_empty() {
                break;
            }
            // burst: fill several ports of one actor before its next poll
            if rng.chance(3 * wild, 100) {
                let cells: Vec<usize> = (0..n).filter(|&a| self.w.me(a).is_some() && self.alive(a)).collect();
                if !cells.is_empty() {
                    let a = *rng.pick(&cells);
                    let k = rng.range(2, 4);
                    let mut kinds = [0u8, 1, 2, 3, 0, 0];
                    rng.shuffle(&mut kinds);
                    for kind in kinds.iter().take(k as usize) {
                        let op = match kind {
                            0 => Op::Send(a, self.fresh()),
                            1 => Op::Stop(a, Some(format!("r{}", self.fresh()))),
                            2 => Op::Kill(a),
                            _ => Op::Drain(a),
                        };
                        self.exec(op).await;
                        i += 1;
                    }
                    self.stats.bump("gen.burst");
                    continue;
                }
            }
            let total: u64 = cand.iter().map(|c| c.0).sum();
            let mut x = rng.below(total);
            let mut chosen = cand[0].1.clone();
            for (wt, op) in cand {
                if x < wt {
                    chosen = op;
                    break;
                }
                x -= wt;
            }
            let tgt = match &chosen {
                Op::Send(a, _) | Op::Stop(a, _) | Op::Kill(a) | Op::Drain(a) | Op::Link(a, _) | Op::Unlink(a, _) => Some(*a),
                _ => None,
            };
            if tgt.is_some_and(|a| !self.alive(a)) {
                dead_ops += 1;
            }
            self.exec(chosen).await;
        }
        if rng.chance(2, 3) {
            self.finish_case().await;
        }
    }

    /// Exhaustive arrival-point sweep: phase × port-fill pattern × next op.
    async fn sweep(&mut self, id0: u64) -> u64 {
        let ok = || Seg { fx: vec![], term: Term::Ok };
        let phases = ["pre", "ready", "post_start", "idle", "handle", "sup", "post_stop"];
        let mut id = id0;
        for (pi, phase) in phases.iter().enumerate() {
            let has_open = !matches!(*phase, "ready" | "idle");
            let nexts: &[&str] = if has_open {
                &["poll", "ok", "tick", "err", "panic", "abort"]
            } else {
                &["poll", "abort"]
            };
            for fill in 0u32..32 {
                for next in nexts {
                    self.exec(Op::Case(id)).await;
                    id += 1;
                    self.stats.bump("sweep.cases");
                    // prefix: root supervisor 0 (task spawned, never polled: events queue up),
                    // target 1 (child of 0), child 2 of the target parked in post_start
                    let mut pre: Vec<Op> = vec![
                        Op::Spawn(0, None, None),
                        Op::Resume(0, ok()),
                        Op::PollSpawn(0),
                        Op::Spawn(1, Some(0), None),
                        Op::Spawn(2, Some(1), None),
                        Op::Resume(2, ok()),
                        Op::PollSpawn(2),
                        Op::Poll(2),
                    ];
                    if pi >= 1 {
                        pre.extend([Op::Resume(1, ok()), Op::PollSpawn(1)]);
                    }
                    if pi >= 2 {
                        pre.push(Op::Poll(1));
                    }
                    if pi >= 3 {
                        pre.extend([Op::Resume(1, ok()), Op::Poll(1)]);
                    }
                    match *phase {
                        "handle" => pre.extend([Op::Send(1, 100), Op::Poll(1)]),
                        "sup" => pre.extend([
                            Op::Spawn(3, Some(1), None),
                            Op::Resume(3, ok()),
                            Op::PollSpawn(3),
                            Op::Poll(3),
                            Op::Resume(3, ok()),
                            Op::Poll(3),
                            Op::Poll(1),
                        ]),
                        "post_stop" => pre.extend([Op::Stop(1, None), Op::Poll(1)]),
                        _ => {}
                    }
                    for op in pre {
                        self.exec(op).await;
                    }
                    // fill (lowest priority first, so arrival order is the reverse of priority)
                    if fill & 1 != 0 {
                        self.exec(Op::Send(1, 200)).await;
                    }
                    if fill & 16 != 0 {
                        self.exec(Op::Drain(1)).await;
                    }
                    if fill & 2 != 0 {
                        self.exec(Op::Kill(2)).await;
                        self.exec(Op::Poll(2)).await;
                    }
                    if fill & 4 != 0 {
                        self.exec(Op::Stop(1, Some("r1".into()))).await;
                    }
                    if fill & 8 != 0 {
                        self.exec(Op::Kill(1)).await;
                    }
                    let pollop = if *phase == "pre" { Op::PollSpawn(1) } else { Op::Poll(1) };
                    match *next {
                        "poll" => self.exec(pollop).await,
                        "abort" => {
                            let op = if *phase == "pre" { Op::DropSpawn(1) } else { Op::Abort(1) };
                            self.exec(op).await
                        }
                        t => {
                            let term = match t {
                                "ok" => Term::Ok,
                                "tick" => Term::Tick,
                                "err" => Term::Err(7),
                                _ => Term::Panic(8),
                            };
                            self.exec(Op::Resume(1, Seg { fx: vec![], term })).await;
                            self.exec(pollop).await;
                        }
                    }
                    self.finish_case().await;
                }
            }
        }
        id
    }
}

impl Run {
    /// C08 cut-point sweep: failure cause x await point (0/1 ticks before) x subset of what happened
    /// before the failure {joined a group, sent to self, a call queued, a waiter pending, named}.
    async fn spawn_sweep(&mut self, id0: u64) -> u64 {
        let ok = || Seg { fx: vec![], term: Term::Ok };
        let causes = ["err", "panic", "kill", "nolink", "dropspawn"];
        let mut id = id0;
        for cause in causes {
            for pre_ticks in 0..2u32 {
                for mask in 0u32..32 {
                    self.exec(Op::Case(id)).await;
                    id += 1;
                    self.stats.bump("spawnsweep.cases");
                    let named = mask & 16 != 0;
                    self.exec(Op::Spawn(0, None, None)).await;
                    self.exec(Op::Resume(0, ok())).await;
                    self.exec(Op::PollSpawn(0)).await;
                    self.exec(Op::Spawn(1, Some(0), if named { Some("n1".into()) } else { None })).await;
                    if pre_ticks > 0 {
                        self.exec(Op::Resume(1, Seg { fx: vec![], term: Term::Tick })).await;
                        self.exec(Op::PollSpawn(1)).await;
                    }
                    if mask & 4 != 0 {
                        self.exec(Op::Call(100, 1)).await;
                    }
                    if mask & 8 != 0 {
                        self.exec(Op::Wait(200, 1)).await;
                    }
                    self.exec(Op::Send(1, 7)).await;
                    let mut fx = Vec::new();
                    if mask & 1 != 0 {
                        fx.push(Fx::Join("g1".into()));
                    }
                    if mask & 2 != 0 {
                        fx.push(Fx::SendSelf(8));
                    }
                    match cause {
                        "err" | "panic" => {
                            let term = if cause == "err" { Term::Err(5) } else { Term::Panic(6) };
                            self.exec(Op::Resume(1, Seg { fx, term })).await;
                            self.exec(Op::PollSpawn(1)).await;
                        }
                        _ => {
                            self.exec(Op::Resume(1, Seg { fx, term: Term::Tick })).await;
                            self.exec(Op::PollSpawn(1)).await;
                            match cause {
                                "kill" => {
                                    self.exec(Op::Kill(1)).await;
                                    self.exec(Op::PollSpawn(1)).await;
                                }
                                "nolink" => {
                                    self.exec(Op::Drain(0)).await;
                                    self.exec(Op::Resume(1, ok())).await;
                                    self.exec(Op::PollSpawn(1)).await;
                                }
                                _ => self.exec(Op::DropSpawn(1)).await,
                            }
                        }
                    }
                    // afterwards: nothing of actor 1 may be left
                    self.exec(Op::PollCall(100)).await;
                    self.exec(Op::PollWait(200)).await;
                    self.exec(Op::Send(1, 9)).await;
                    self.exec(Op::Call(101, 1)).await;
                    self.exec(Op::Wait(201, 1)).await;
                    self.exec(Op::PollSpawn(1)).await;
                    self.exec(Op::Spawn(2, None, if named { Some("n1".into()) } else { None })).await;
                    self.exec(Op::Spawn(3, None, if named { Some("n1".into()) } else { None })).await;
                    self.finish_case().await;
                }
            }
        }
        id
    }
}

impl Run {
    /// Instant-spawn arrival sweep: what reaches the cell while it is still `Unstarted`
    /// (message, relink, stop, kill, drain: 32 subsets) x linked or not x {first poll, abort} of the
    /// start task; then the same with the arrivals during `pre_start`.
    async fn instant_sweep(&mut self, id0: u64) -> u64 {
        let ok = || Seg { fx: vec![], term: Term::Ok };
        let mut id = id0;
        for linked in [false, true] {
            for during_pre in [false, true] {
                for fill in 0u32..32 {
                    for next in ["poll", "drop", "err"] {
                        self.exec(Op::Case(id)).await;
                        id += 1;
                        self.stats.bump("instantsweep.cases");
                        self.exec(Op::Spawn(0, None, None)).await;
                        self.exec(Op::Resume(0, ok())).await;
                        self.exec(Op::PollSpawn(0)).await;
                        self.exec(Op::Spawn(1, None, None)).await;
                        self.exec(Op::Resume(1, ok())).await;
                        self.exec(Op::PollSpawn(1)).await;
                        self.exec(Op::SpawnInstant(2, if linked { Some(0) } else { None }, None)).await;
                        if during_pre {
                            self.exec(Op::PollSpawn(2)).await;
                        }
                        if fill & 1 != 0 {
                            self.exec(Op::Send(2, 200)).await;
                        }
                        if fill & 2 != 0 {
                            self.exec(Op::Link(2, 1)).await;
                        }
                        if fill & 16 != 0 {
                            self.exec(Op::Drain(2)).await;
                        }
                        if fill & 4 != 0 {
                            self.exec(Op::Stop(2, Some("r1".into()))).await;
                        }
                        if fill & 8 != 0 {
                            self.exec(Op::Kill(2)).await;
                        }
                        match next {
                            "poll" => self.exec(Op::PollSpawn(2)).await,
                            "drop" => self.exec(Op::DropSpawn(2)).await,
                            _ => {
                                if !during_pre {
                                    self.exec(Op::PollSpawn(2)).await;
                                }
                                self.exec(Op::Resume(2, Seg { fx: vec![], term: Term::Err(7) })).await;
                                self.exec(Op::PollSpawn(2)).await;
                            }
                        }
                        self.exec(Op::Send(2, 201)).await;
                        self.finish_case().await;
                    }
                }
            }
        }
        id
    }

    /// Monitor sweep (feature `monitors`): actor 1 (child of 0 or unsupervised) is monitored by a subset of
    /// {2, 3, its own supervisor 0}, one monitor possibly dead or un-monitored again, and then ends in
    /// every way: every monitor registered at that instant gets exactly one copy, without state.
    async fn monitor_sweep(&mut self, id0: u64) -> u64 {
        let ok = || Seg { fx: vec![], term: Term::Ok };
        let mut id = id0;
        for supervised in [true, false] {
            for mask in 0u32..8 {
                for variant in ["plain", "dead3", "unmon2", "late"] {
                    for exit in ["stop", "kill", "err", "abort", "drain", "poststart-panic", "poststop-err"] {
                        self.exec(Op::Case(id)).await;
                        id += 1;
                        self.stats.bump("monitorsweep.cases");
                        let mut pre: Vec<Op> = vec![
                            Op::Spawn(0, None, None),
                            Op::Resume(0, ok()),
                            Op::PollSpawn(0),
                            Op::Spawn(1, if supervised { Some(0) } else { None }, None),
                            Op::Spawn(2, None, None),
                            Op::Resume(2, ok()),
                            Op::PollSpawn(2),
                            Op::Spawn(3, None, None),
                            Op::Resume(3, ok()),
                            Op::PollSpawn(3),
                        ];
                        if variant != "late" {
                            if mask & 1 != 0 {
                                pre.push(Op::Monitor(2, 1, true));
                            }
                            if mask & 2 != 0 {
                                pre.push(Op::Monitor(3, 1, true));
                            }
                            if mask & 4 != 0 {
                                pre.push(Op::Monitor(0, 1, true));
                            }
                        }
                        pre.extend([Op::Resume(1, ok()), Op::PollSpawn(1), Op::Poll(1)]);
                        if exit != "poststart-panic" {
                            pre.extend([Op::Resume(1, ok()), Op::Poll(1)]);
                        }
                        if variant == "late" {
                            if mask & 1 != 0 {
                                pre.push(Op::Monitor(2, 1, true));
                            }
                            if mask & 2 != 0 {
                                pre.push(Op::Monitor(3, 1, true));
                            }
                            if mask & 4 != 0 {
                                pre.push(Op::Monitor(0, 1, true));
                            }
                        }
                        match variant {
                            "dead3" => pre.extend([Op::Kill(3), Op::Poll(3)]),
                            "unmon2" => pre.push(Op::Monitor(2, 1, false)),
                            _ => {}
                        }
                        for op in pre {
                            self.exec(op).await;
                        }
                        match exit {
                            "stop" => {
                                self.exec(Op::Stop(1, Some("r1".into()))).await;
                                self.exec(Op::Poll(1)).await;
                                self.exec(Op::Resume(1, ok())).await;
                                self.exec(Op::Poll(1)).await;
                            }
                            "kill" => {
                                self.exec(Op::Kill(1)).await;
                                self.exec(Op::Poll(1)).await;
                            }
                            "err" => {
                                self.exec(Op::Send(1, 100)).await;
                                self.exec(Op::Poll(1)).await;
                                self.exec(Op::Resume(1, Seg { fx: vec![], term: Term::Err(7) })).await;
                                self.exec(Op::Poll(1)).await;
                            }
                            "abort" => self.exec(Op::Abort(1)).await,
                            "drain" => {
                                self.exec(Op::Drain(1)).await;
                                self.exec(Op::Poll(1)).await;
                                self.exec(Op::Resume(1, ok())).await;
                                self.exec(Op::Poll(1)).await;
                            }
                            "poststart-panic" => {
                                self.exec(Op::Resume(1, Seg { fx: vec![], term: Term::Panic(8) })).await;
                                self.exec(Op::Poll(1)).await;
                            }
                            _ => {
                                self.exec(Op::Stop(1, None)).await;
                                self.exec(Op::Poll(1)).await;
                                self.exec(Op::Resume(1, Seg { fx: vec![], term: Term::Err(9) })).await;
                                self.exec(Op::Poll(1)).await;
                            }
                        }
                        self.finish_case().await;
                    }
                }
            }
        }
        id
    }

    /// Children spawned from INSIDE a callback (`spawn_linked_instant(.., myself)`): callback x how the
    /// segment ends x what happens next (the child starts first, the parent finishes first, the parent is
    /// killed, the child's start is aborted).
    async fn spawnchild_sweep(&mut self, id0: u64) -> u64 {
        let ok = || Seg { fx: vec![], term: Term::Ok };
        let mut id = id0;
        for phase in ["pre", "post_start", "handle", "post_stop"] {
            for term in ["ok", "err", "panic", "tick"] {
                for after in ["childfirst", "parentfirst", "killparent", "dropchild"] {
                    self.exec(Op::Case(id)).await;
                    id += 1;
                    self.stats.bump("spawnchildsweep.cases");
                    let mut pre: Vec<Op> = vec![
                        Op::Spawn(0, None, None),
                        Op::Resume(0, ok()),
                        Op::PollSpawn(0),
                        Op::Spawn(1, Some(0), None),
                    ];
                    if phase != "pre" {
                        pre.extend([Op::Resume(1, ok()), Op::PollSpawn(1), Op::Poll(1)]);
                    }
                    match phase {
                        "handle" => pre.extend([Op::Resume(1, ok()), Op::Send(1, 100), Op::Poll(1)]),
                        "post_stop" => pre.extend([Op::Resume(1, ok()), Op::Poll(1), Op::Stop(1, None), Op::Poll(1)]),
                        _ => {}
                    }
                    for op in pre {
                        self.exec(op).await;
                    }
                    let t = match term {
                        "ok" => Term::Ok,
                        "err" => Term::Err(7),
                        "panic" => Term::Panic(8),
                        _ => Term::Tick,
                    };
                    let pollop = if phase == "pre" { Op::PollSpawn(1) } else { Op::Poll(1) };
                    self.exec(Op::Resume(1, Seg { fx: vec![Fx::SpawnChild(2)], term: t })).await;
                    self.exec(pollop.clone()).await;
                    match after {
                        "childfirst" => {
                            self.exec(Op::PollSpawn(2)).await;
                            self.exec(Op::Resume(2, ok())).await;
                            self.exec(Op::PollSpawn(2)).await;
                        }
                        "parentfirst" => {
                            if term == "tick" {
                                self.exec(Op::Resume(1, ok())).await;
                                self.exec(pollop.clone()).await;
                            }
                            self.exec(Op::Poll(1)).await;
                            self.exec(Op::PollSpawn(2)).await;
                        }
                        "killparent" => {
                            self.exec(Op::Kill(1)).await;
                            self.exec(pollop.clone()).await;
                            self.exec(Op::PollSpawn(2)).await;
                        }
                        _ => self.exec(Op::DropSpawn(2)).await,
                    }
                    self.finish_case().await;
                }
            }
        }
        id
    }

    /// Re-link sweep: a supervised actor (child of 0, with its own child 2, another possible
    /// supervisor 3) is re-linked / unlinked through the public API in every phase, then runs on,
    /// fails, or is killed: every later event must go to the supervisor of that instant.
    async fn relink_sweep(&mut self, id0: u64) -> u64 {
        let ok = || Seg { fx: vec![], term: Term::Ok };
        let phases = ["pre", "ready", "post_start", "idle", "handle", "post_stop"];
        let mut id = id0;
        for (pi, phase) in phases.iter().enumerate() {
            for variant in 0..5u32 {
                for next in ["ok", "err", "kill", "stop"] {
                    self.exec(Op::Case(id)).await;
                    id += 1;
                    self.stats.bump("relinksweep.cases");
                    let mut pre: Vec<Op> = vec![
                        Op::Spawn(0, None, None),
                        Op::Resume(0, ok()),
                        Op::PollSpawn(0),
                        Op::Spawn(1, Some(0), None),
                        Op::Spawn(2, Some(1), None),
                        Op::Resume(2, ok()),
                        Op::PollSpawn(2),
                        Op::Poll(2),
                        Op::Spawn(3, None, None),
                        Op::Resume(3, ok()),
                        Op::PollSpawn(3),
                    ];
                    if pi >= 1 {
                        pre.extend([Op::Resume(1, ok()), Op::PollSpawn(1)]);
                    }
                    if pi >= 2 {
                        pre.push(Op::Poll(1));
                    }
                    if pi >= 3 {
                        pre.extend([Op::Resume(1, ok()), Op::Poll(1)]);
                    }
                    match *phase {
                        "handle" => pre.extend([Op::Send(1, 100), Op::Poll(1)]),
                        "post_stop" => pre.extend([Op::Stop(1, None), Op::Poll(1)]),
                        _ => {}
                    }
                    for op in pre {
                        self.exec(op).await;
                    }
                    match variant {
                        0 => self.exec(Op::Link(1, 3)).await,
                        1 => self.exec(Op::Unlink(1, 0)).await,
                        2 => {
                            self.exec(Op::Link(1, 3)).await;
                            self.exec(Op::Link(1, 0)).await;
                        }
                        3 => {
                            self.exec(Op::Unlink(1, 0)).await;
                            self.exec(Op::Link(1, 3)).await;
                        }
                        _ => {
                            self.exec(Op::Unlink(1, 3)).await;
                            self.exec(Op::Link(1, 1 + 2)).await;
                            self.exec(Op::Unlink(1, 3)).await;
                        }
                    }
                    let pollop = if *phase == "pre" { Op::PollSpawn(1) } else { Op::Poll(1) };
                    let has_open = !matches!(*phase, "ready" | "idle");
                    match next {
                        "kill" => {
                            self.exec(Op::Kill(1)).await;
                            self.exec(pollop).await;
                        }
                        "stop" => {
                            self.exec(Op::Stop(1, Some("r2".into()))).await;
                            self.exec(pollop).await;
                        }
                        t => {
                            if has_open {
                                let term = if t == "ok" { Term::Ok } else { Term::Err(7) };
                                self.exec(Op::Resume(1, Seg { fx: vec![], term })).await;
                            }
                            self.exec(pollop).await;
                        }
                    }
                    self.finish_case().await;
                }
            }
        }
        id
    }
}

fn main() {
    let args = Args::parse();
    let seed = args.u64("seed", 1);
    let cases = args.u64("cases", 300);
    let out = args.str("out", ".work/life");
    let corpus = args.str("replay-ops", "");
    let only_replay = args.u64("only-replay", 0) != 0;
    // 0: Send actors; 1: native thread-local actors; 2: Send actors on the thread-local spawner
    // through the blanket adapter `impl<T: Actor + Default> ThreadLocalActor for T`
    let local = args.u64("local", 0);
    let do_sweep = args.u64("sweep", 1) != 0 && !only_replay;
    let cases = if only_replay { 0 } else { cases };
    run_paused(async move {
        let mut rng = Rng::new(seed);
        let mut run = Run {
            w: World::new(),
            log: Log::create(std::path::Path::new(&out)).expect("out dir"),
            stats: Stats::default(),
            ctr: 0,
            pending_calls: Vec::new(),
            pending_waits: Vec::new(),
            held: Default::default(),
            reserved: None,
            mon_pairs: Vec::new(),
            past_start: Default::default(),
            allow_cycles: false,
        };
        if local == 2 {
            run.w.use_thread_local_adapter();
        } else if local == 1 {
            // thread-local actor variant: every actor is a `ThreadLocalActor` on one spawner thread
            run.w.use_thread_local();
        }
        // 1. corpus (minimised past failures, finding witnesses)
        run.allow_cycles = true;
        for f in corpus.split(',').filter(|f| !f.is_empty()) {
            let txt = std::fs::read_to_string(f).unwrap_or_default();
            for line in txt.lines() {
                let line = line.trim();
                if line.is_empty() || line.starts_with('#') {
                    continue;
                }
                match parse_op(line) {
                    Some(op) => run.exec(op).await,
                    None => run.stats.bump("corpus.unparsable"),
                }
            }
            run.stats.bump("corpus.files");
        }
        run.allow_cycles = false;
        // 2. exhaustive arrival-point sweep
        let mut id = 1_000_000;
        if do_sweep {
            id = run.sweep(id).await;
            id = run.spawn_sweep(id).await;
            id = run.instant_sweep(id).await;
            id = run.relink_sweep(id).await;
            id = run.spawnchild_sweep(id).await;
            if run.w.monitors_enabled() {
                id = run.monitor_sweep(id).await;
            }
        }
        let _ = id;
        // 3. structured random cases
        for c in 0..cases {
            run.random_case(&mut rng, c).await;
        }
        run.exec(Op::Case(u64::MAX)).await;
        run.stats.add("ops", run.log.lines);
        run.stats.write_json(&run.log.dir.join("stats.json"));
        run.log.finish();
    });
}
