import RactorModel.Lemmas.PgConcRun

/-!
Linearisation of `Pg.Conc`: every region changes the membership read off the forward map exactly
as the abstract specification says for the region's linearised operation — a `join` takes effect at the
`joinCommit` that ends its entry-lock region (for the actors it accepted one by one), a `leave` in its
entry-lock region, the automatic leave of an exiting actor one group at a time in the `leave_all`
iterations, and no other region changes membership at all.
-/

namespace Pg.Conc
open AList Pg Pg.Fine

theorem members_of_trans {st st' : State} {e : Eff} (t : Trans st st' e) (hna : ∀ k x, ¬ e.addM k x)
    (hnd : ∀ k x, ¬ e.delM k x) (k : Key) (x : Nat) : x ∈ membersOf st' k ↔ x ∈ membersOf st k := by
  rw [t.m]
  constructor
  · rintro (⟨h, _⟩ | h)
    · exact h
    · exact absurd h (hna k x)
  · intro h; exact Or.inl ⟨h, hnd k x⟩

theorem members_of_same {st st' : State} (h : Same st st') (k : Key) (x : Nat) :
    x ∈ membersOf st' k ↔ x ∈ membersOf st k := by rw [h.m]

/-- the regions of a caller thread stepped through `callStep`, other than `leave_scoped`'s entry-lock
region, leave membership alone -/
theorem call_members (st : State) (pc : Pc) (h2 : ∀ s g as, pc ≠ .leave s g as)
    (k : Key) (x : Nat) : x ∈ membersOf (callStep st pc).1 k ↔ x ∈ membersOf st k := by
  cases pc with
  | join s g as => exact Iff.rfl
  | joinFiltered s g as => exact Iff.rfl
  | joinIn s g as todo => exact Iff.rfl
  | joinEntered s g as p => exact members_of_same (same_joinCleanup st s g as) k x
  | notify p => exact Iff.rfl
  | leave s g as => exact absurd rfl (h2 s g as)
  | monitor g b => exact Iff.rfl
  | monitorRel g b =>
    show x ∈ membersOf (monitorEntry st g b) k ↔ _
    unfold monitorEntry
    by_cases hd : b ∈ st.dead
    · have : alive st b = false := by simp [alive, hd]
      rw [this]; exact members_of_same (same_touchGroup st _) k x
    · have : alive st b = true := alive_iff.mpr hd
      rw [this, if_pos rfl]
      exact members_of_trans (trans_monitor_alive st g b hd) (by simp [monitorEff]) (by simp [monitorEff]) k x
  | monitorRecheck g b => exact members_of_same (same_monitorRecheck st g b) k x
  | monitorScope s b => exact Iff.rfl
  | monitorScopeRel s b =>
    show x ∈ membersOf (monitorScopeEntry st s b) k ↔ _
    unfold monitorScopeEntry
    by_cases hd : b ∈ st.dead
    · have : alive st b = false := by simp [alive, hd]
      rw [this]; exact Iff.rfl
    · have : alive st b = true := alive_iff.mpr hd
      rw [this, if_pos rfl]
      exact members_of_trans (trans_monitorScope_alive st s b hd) (by simp [monitorScopeEff]) (by simp [monitorScopeEff]) k x
  | monitorScopeRecheck s b => exact members_of_same (same_monitorScopeRecheck st s b) k x
  | demonitor g b =>
    exact members_of_trans (trans_demonitor st g b) (by simp [demonitorEff]) (by simp [demonitorEff]) k x
  | demonitorScope s b => exact Iff.rfl
  | demonitorCall g b => exact Iff.rfl
  | demonitorScopeCall s b => exact Iff.rfl
  | demonitorFwd g b =>
    exact members_of_trans (trans_demonitorFwd st g b) (by simp [demFwdEff]) (by simp [demFwdEff]) k x
  | demonitorScopeFwd s b => exact Iff.rfl
  | done => exact Iff.rfl

/-- the linearised operation of an exit region that is taken -/
def exLin (b : Nat) (ph : Phase) : ExReg → Lin
  | .lvKey k' => match ph with
    | .leaving mk _ => if k' ∈ mk then Lin.leave1 k' b else Lin.none
    | _ => Lin.none
  | _ => Lin.none

/-- the effect of an exit region on membership -/
theorem exreg_members (st : State) (b : Nat) (ph : Phase) (r : ExReg) (k : Key) (x : Nat) :
    x ∈ membersOf (fstep b ⟨st, ph⟩ r.toFOp).st k ↔ specLin (fun k x => x ∈ membersOf st k) (exLin b ph r) k x := by
  cases r with
  | mark => cases ph <;> exact Iff.rfl
  | demTake => cases ph <;> exact Iff.rfl
  | demKey k0 =>
    cases ph with
    | demon gk wk =>
      simp only [ExReg.toFOp, fstep, specLin, exLin]
      split
      · exact members_of_trans (trans_demonKey st b k0) (by simp [demonKeyEff]) (by simp [demonKeyEff]) k x
      · exact Iff.rfl
    | _ => exact Iff.rfl
  | demWKey s =>
    cases ph with
    | demon gk wk =>
      simp only [ExReg.toFOp, fstep, specLin, exLin]
      split <;> exact Iff.rfl
    | _ => exact Iff.rfl
  | demDone =>
    cases ph with
    | demon gk wk =>
      cases gk with
      | nil => cases wk <;> exact Iff.rfl
      | cons _ _ => exact Iff.rfl
    | _ => exact Iff.rfl
  | take => cases ph <;> exact Iff.rfl
  | lvKey k0 =>
    cases ph with
    | leaving mk rm =>
      simp only [ExReg.toFOp, fstep, exLin]
      by_cases c : k0 ∈ mk
      · simp only [c, ↓reduceIte, specLin]
        rw [(trans_leaveKey st b k0).m]; simp [leaveKeyEff]
      · simp only [c, ↓reduceIte, specLin]
    | _ => exact Iff.rfl
  | finish =>
    cases ph with
    | leaving mk rm =>
      cases mk with
      | nil => exact Iff.rfl
      | cons _ _ => exact Iff.rfl
    | _ => exact Iff.rfl

theorem linOf_ex_taken (g : G) (b : Nat) (r : ExReg) (hs : ¬ exSkip g b r) :
    linOf g (.ex b r) = exLin b (phaseOf g b) r := by
  cases r with
  | lvKey k =>
    have hu : locked g k = false := ex_unlocked hs rfl
    simp only [linOf, exLin]
    cases phaseOf g b <;> simp [hu]
  | _ => simp only [linOf, exLin]

theorem linOf_ex_skipped (g : G) (b : Nat) (r : ExReg) (hs : exSkip g b r) : linOf g (.ex b r) = .none := by
  cases r with
  | lvKey k =>
    have hl : locked g k = true := by
      rcases hs with ⟨h, _⟩ | h
      · cases h
      · simpa [exNeedsKey] using h
    simp only [linOf]
    cases phaseOf g b <;> simp [hl]
  | _ => simp only [linOf]

theorem lin_step (g : G) (t : Tid) (k : Key) (x : Nat) :
    x ∈ membersOf (step g t).st k ↔ specLin (fun k x => x ∈ membersOf g.st k) (linOf g t) k x := by
  cases t with
  | ex b r =>
    by_cases hs : exSkip g b r
    · rw [step_ex_skip g b r hs, linOf_ex_skipped g b r hs]; simp only [specLin]
    · rw [step_ex g b r hs, linOf_ex_taken g b r hs]
      exact exreg_members g.st b (phaseOf g b) r k x
  | call i =>
    cases hp : g.thr[i]? with
    | none => rw [step_call_none g i hp]; simp only [linOf, hp, specLin]
    | some pc =>
      by_cases c1 : ∃ s g' as, pc = .joinFiltered s g' as
      · obtain ⟨s, g', as, rfl⟩ := c1
        have hl : linOf g (.call i) = .none := by simp only [linOf, hp]
        rw [hl]
        by_cases hb : blocked g (.joinFiltered s g' as)
        · rw [step_call_blocked g i _ hp hb]; simp only [specLin]
        · rw [step_call_lock g i s g' as hp hb]
          simp only [specLin]
          exact members_of_same (same_touchGroup g.st _) k x
      · by_cases c2 : ∃ s g' as todo, pc = .joinIn s g' as todo
        · obtain ⟨s, g', as, todo, rfl⟩ := c2
          cases todo with
          | nil =>
            rw [step_call_commit g i s g' as hp]
            simp only [linOf, hp, specLin]
            exact joinCommit_members g.st (s, g') _ k x
          | cons y todo =>
            rw [step_call_one g i s g' as y todo hp]
            simp only [linOf, hp, specLin]
            show x ∈ membersOf (if joinOk g (s, g') y then joinOne g.st (s, g') y else g.st) k ↔ _
            split <;> exact Iff.rfl
        · have h1 : ∀ s g' as, pc ≠ .joinFiltered s g' as := fun s g' as e => c1 ⟨s, g', as, e⟩
          have h2 : ∀ s g' as todo, pc ≠ .joinIn s g' as todo := fun s g' as todo e => c2 ⟨s, g', as, todo, e⟩
          by_cases c3 : ∃ s g' as, pc = .leave s g' as
          · obtain ⟨s, g', as, rfl⟩ := c3
            by_cases hb : blocked g (.leave s g' as)
            · rw [step_call_blocked g i _ hp hb]
              have hl : locked g (s, g') = true := by simpa [blocked, needsKey] using hb
              simp only [linOf, hp, hl, ↓reduceIte, specLin]
            · rw [step_call_other g i _ hp hb h1 h2]
              have hl : locked g (s, g') = false := unlocked_of_needs hb rfl
              simp only [linOf, hp, hl, Bool.false_eq_true, ↓reduceIte, specLin]
              show x ∈ membersOf (leaveEntry g.st s g' as).1 k ↔ _
              cases hg : get g.st.map (s, g') with
              | none =>
                rw [leaveEntry_none g.st s g' as hg]
                constructor
                · intro h
                  refine ⟨h, ?_⟩
                  rintro ⟨rfl, _⟩
                  unfold membersOf at h; rw [hg] at h; cases h
                · exact fun h => h.1
              | some gs => rw [leaveEntry_some g.st s g' as hg, leave_members g.st s g' as hg]
          · have h3 : ∀ s g' as, pc ≠ .leave s g' as := fun s g' as e => c3 ⟨s, g', as, e⟩
            have hl : linOf g (.call i) = .none := by
              simp only [linOf, hp]
              cases pc <;> first | rfl | exact absurd rfl (h3 _ _ _) | exact absurd rfl (h2 _ _ _ _)
              all_goals (rename_i todo; cases todo <;> first | rfl | exact absurd rfl (h2 _ _ _ _))
            rw [hl]; simp only [specLin]
            by_cases hb : blocked g pc
            · rw [step_call_blocked g i _ hp hb]
            · rw [step_call_other g i _ hp hb h1 h2]
              exact call_members g.st pc h3 k x

theorem specLin_congr {m m' : Key → Nat → Prop} (h : ∀ k x, m k x ↔ m' k x) (l : Lin) (k : Key) (x : Nat) :
    specLin m l k x ↔ specLin m' l k x := by
  cases l <;> simp only [specLin, h]

theorem absRun_congr {m m' : Key → Nat → Prop} (h : ∀ k x, m k x ↔ m' k x) (g : G) (sched : List Tid) (k : Key) (x : Nat) :
    absRun m g sched k x ↔ absRun m' g sched k x := by
  induction sched generalizing g m m' with
  | nil => exact h k x
  | cons t ts ih => exact ih (fun k x => specLin_congr h _ k x) (step g t)

/-- refinement along a whole schedule -/
theorem lin_run (g : G) (sched : List Tid) (k : Key) (x : Nat) :
    x ∈ membersOf (run g sched).st k ↔ absRun (fun k x => x ∈ membersOf g.st k) g sched k x := by
  induction sched generalizing g with
  | nil => exact Iff.rfl
  | cons t ts ih =>
    show x ∈ membersOf (run (step g t) ts).st k ↔ _
    rw [ih (step g t)]
    exact absRun_congr (fun k x => lin_step g t k x) (step g t) ts k x


/-! ### change records carry the recipients of the instant of the change -/

theorem call_records (st : State) (pc : Pc) : ∀ p ∈ (callStep st pc).2.2.1, p.to = recipients st (p.s, p.g) := by
  cases pc with
  | leave s g as =>
    intro p hp
    simp only [callStep, leaveEntry] at hp
    split at hp
    · simp at hp
    · simp only [Option.toList_some, List.mem_singleton] at hp; rw [hp]
  | _ => intro p hp; simp [callStep] at hp

theorem ex_records (st : State) (b : Nat) (ph : Phase) (r : ExReg) :
    ∀ p ∈ exRecs st b ph r, p.to = recipients st (p.s, p.g) ∧ p.isJoin = false ∧ p.actors = [b] := by
  cases r with
  | lvKey k =>
    cases ph with
    | leaving mk rm =>
      intro p hp
      simp only [exRecs] at hp
      split at hp
      · unfold leaveKey at hp
        split at hp
        · simp only [Option.map_some, Option.toList_some, List.mem_singleton] at hp
          rw [hp]; exact ⟨rfl, rfl, rfl⟩
        · simp at hp
      · simp at hp
    | _ => intro p hp; simp [exRecs] at hp
  | _ => intro p hp; simp [exRecs] at hp

theorem commitRec_to (g : G) (s g' : Nat) : ∀ p ∈ (commitRec g s g').toList, p.to = recipients g.st (p.s, p.g) := by
  intro p hp
  unfold commitRec at hp
  split at hp
  · simp at hp
  · simp only [Option.toList_some, List.mem_singleton] at hp; rw [hp]

theorem records_step (g : G) (t : Tid) :
    ∃ new, (step g t).changes = g.changes ++ new ∧ ∀ p ∈ new, p.to = recipients g.st (p.s, p.g) := by
  have triv : ∃ new, g.changes = g.changes ++ new ∧ ∀ p ∈ new, p.to = recipients g.st (p.s, p.g) :=
    ⟨[], by simp, by simp⟩
  cases t with
  | ex b r =>
    by_cases hs : exSkip g b r
    · rw [step_ex_skip g b r hs]; exact triv
    · rw [step_ex g b r hs]
      exact ⟨_, rfl, fun p hp => (ex_records g.st b _ r p hp).1⟩
  | call i =>
    cases hp : g.thr[i]? with
    | none => rw [step_call_none g i hp]; exact triv
    | some pc =>
      by_cases hb : blocked g pc
      · rw [step_call_blocked g i pc hp hb]; exact triv
      · by_cases c1 : ∃ s g' as, pc = .joinFiltered s g' as
        · obtain ⟨s, g', as, rfl⟩ := c1
          rw [step_call_lock g i s g' as hp hb]; exact triv
        · by_cases c2 : ∃ s g' as todo, pc = .joinIn s g' as todo
          · obtain ⟨s, g', as, todo, rfl⟩ := c2
            cases todo with
            | nil => rw [step_call_commit g i s g' as hp]; exact ⟨_, rfl, commitRec_to g s g'⟩
            | cons y todo => rw [step_call_one g i s g' as y todo hp]; exact triv
          · have h1 : ∀ s g' as, pc ≠ .joinFiltered s g' as := fun s g' as e => c1 ⟨s, g', as, e⟩
            have h2 : ∀ s g' as todo, pc ≠ .joinIn s g' as todo := fun s g' as todo e => c2 ⟨s, g', as, todo, e⟩
            rw [step_call_other g i pc hp hb h1 h2]
            exact ⟨_, rfl, call_records g.st pc⟩

/-- an actor enters an `accepted` set only while it is not stopping (the status re-check under its
relations lock) -/
theorem accepted_alive (g : G) (t : Tid) (k : Key) (y : Nat) (h : y ∈ accOf (step g t) k) :
    y ∈ accOf g k ∨ y ∉ g.st.dead := by
  cases t with
  | ex b r =>
    by_cases hs : exSkip g b r
    · rw [step_ex_skip g b r hs] at h; exact Or.inl h
    · rw [step_ex g b r hs] at h; exact Or.inl h
  | call i =>
    cases hp : g.thr[i]? with
    | none => rw [step_call_none g i hp] at h; exact Or.inl h
    | some pc =>
      by_cases hb : blocked g pc
      · rw [step_call_blocked g i pc hp hb] at h; exact Or.inl h
      · by_cases c1 : ∃ s g' as, pc = .joinFiltered s g' as
        · obtain ⟨s, g', as, rfl⟩ := c1
          rw [step_call_lock g i s g' as hp hb] at h
          replace h : y ∈ ((get (set g.locks (s, g') (i, as, [])) k).map (·.2.2)).getD [] := h
          rw [accOf_set] at h
          by_cases e : k = (s, g')
          · rw [if_pos e] at h; cases h
          · rw [if_neg e] at h; exact Or.inl h
        · by_cases c2 : ∃ s g' as todo, pc = .joinIn s g' as todo
          · obtain ⟨s, g', as, todo, rfl⟩ := c2
            cases todo with
            | nil =>
              rw [step_call_commit g i s g' as hp] at h
              replace h : y ∈ ((get (erase g.locks (s, g')) k).map (·.2.2)).getD [] := h
              rw [accOf_erase] at h
              by_cases e : k = (s, g')
              · rw [if_pos e] at h; cases h
              · rw [if_neg e] at h; exact Or.inl h
            | cons x todo =>
              rw [step_call_one g i s g' as x todo hp] at h
              by_cases ok : joinOk g (s, g') x = true
              · simp only [ok, ↓reduceIte] at h
                replace h : y ∈ ((get (set g.locks (s, g') (i, asOf g (s, g'), accOf g (s, g') ++ [x])) k).map (·.2.2)).getD [] := h
                rw [accOf_set] at h
                by_cases e : k = (s, g')
                · rw [if_pos e] at h
                  simp only [List.mem_append, List.mem_singleton] at h
                  rcases h with h | rfl
                  · exact Or.inl (e ▸ h)
                  · unfold joinOk at ok
                    simp only [Bool.and_eq_true] at ok
                    exact Or.inr (alive_iff.mp ok.1)
                · rw [if_neg e] at h; exact Or.inl h
              · simp only [ok, Bool.false_eq_true, ↓reduceIte] at h; exact Or.inl h
          · have h1 : ∀ s g' as, pc ≠ .joinFiltered s g' as := fun s g' as e => c1 ⟨s, g', as, e⟩
            have h2 : ∀ s g' as todo, pc ≠ .joinIn s g' as todo := fun s g' as todo e => c2 ⟨s, g', as, todo, e⟩
            rw [step_call_other g i pc hp hb h1 h2] at h; exact Or.inl h

/-- every effective membership change is recorded by the region that makes it: the record names the
group, contains the actor, and says whether it is a join or a leave -/
theorem change_recorded (g : G) (t : Tid) (k : Key) (x : Nat)
    (hch : ¬ (x ∈ membersOf (step g t).st k ↔ x ∈ membersOf g.st k)) :
    ∃ p, (step g t).changes = g.changes ++ [p] ∧ (p.s, p.g) = k ∧ x ∈ p.actors ∧
      (p.isJoin = true ↔ x ∈ membersOf (step g t).st k) ∧ p.to = recipients g.st k := by
  have hm := lin_step g t k x
  rw [hm] at hch
  cases t with
  | ex b r =>
    by_cases hs : exSkip g b r
    · rw [linOf_ex_skipped g b r hs] at hch; exfalso; apply hch; simp [specLin]
    · rw [linOf_ex_taken g b r hs] at hch hm
      rw [step_ex g b r hs] at hm ⊢
      cases r with
      | lvKey k0 =>
        cases hph : phaseOf g b with
        | leaving mk rm =>
          rw [hph] at hch hm
          simp only [exLin] at hch hm
          by_cases c : k0 ∈ mk
          · simp only [c, ↓reduceIte, specLin] at hch hm
            have hx : x ∈ membersOf g.st k ∧ k = k0 ∧ x = b := by
              by_cases h1 : x ∈ membersOf g.st k
              · by_cases h2 : k = k0 ∧ x = b
                · exact ⟨h1, h2⟩
                · exact absurd ⟨fun h => h.1, fun h => ⟨h, h2⟩⟩ hch
              · exact absurd ⟨fun h => h.1, fun h => absurd h h1⟩ hch
            obtain ⟨hx1, rfl, rfl⟩ := hx
            have hlk : (leaveKey g.st x k).2 = some (k, recipients g.st k) := by
              unfold leaveKey; rw [if_pos hx1]
            refine ⟨recPending x (k, recipients g.st k), ?_, rfl, by simp [recPending], ?_, rfl⟩
            · simp only [exRecs, c, ↓reduceIte, hlk, Option.map_some, Option.toList_some]
            · show (false = true ↔ _)
              rw [hm]; simp
          · exfalso; apply hch; simp [c, specLin]
        | _ => rw [hph] at hch; exfalso; apply hch; simp [specLin, exLin]
      | _ => exfalso; apply hch; simp [specLin, exLin]
  | call i =>
    cases hp : g.thr[i]? with
    | none => exfalso; apply hch; simp [linOf, hp, specLin]
    | some pc =>
      by_cases c2 : ∃ s g' as, pc = .joinIn s g' as []
      · obtain ⟨s, g', as, rfl⟩ := c2
        simp only [linOf, hp, specLin] at hch hm
        rw [step_call_commit g i s g' as hp] at hm ⊢
        have hx : x ∉ membersOf g.st k ∧ k = (s, g') ∧ x ∈ joinedOf g (s, g') := by
          by_cases h1 : x ∈ membersOf g.st k
          · exact absurd ⟨fun _ => h1, fun h => Or.inl h⟩ hch
          · by_cases h2 : k = (s, g') ∧ x ∈ joinedOf g (s, g')
            · exact ⟨h1, h2⟩
            · exact absurd ⟨fun h => h.elim id (fun z => absurd z h2), fun h => Or.inl h⟩ hch
        obtain ⟨hx1, rfl, hx2⟩ := hx
        have hne : joinedOf g (s, g') ≠ [] := by intro e; rw [e] at hx2; cases hx2
        have hcr : commitRec g s g' = some ⟨true, s, g', joinedOf g (s, g'), recipients g.st (s, g')⟩ := by
          simp [commitRec, hne]
        refine ⟨⟨true, s, g', joinedOf g (s, g'), recipients g.st (s, g')⟩, ?_, rfl, hx2, ?_, rfl⟩
        · simp only [hcr, Option.toList_some]
        · simp only [true_iff]; exact hm.mpr (Or.inr ⟨rfl, hx2⟩)
      · by_cases c3 : ∃ s g' as, pc = .leave s g' as
        · obtain ⟨s, g', as, rfl⟩ := c3
          simp only [linOf, hp] at hch hm
          by_cases hl : locked g (s, g') = true
          · exfalso; apply hch; simp [hl, specLin]
          · have hl' : locked g (s, g') = false := by simpa using hl
            have hb : ¬ blocked g (.leave s g' as) := by simp [blocked, needsKey, hl']
            simp only [hl', Bool.false_eq_true, ↓reduceIte, specLin] at hch hm
            rw [step_call_other g i _ hp hb (by intros; simp) (by intros; simp)] at hm ⊢
            have hx : x ∈ membersOf g.st k ∧ k = (s, g') ∧ x ∈ as := by
              by_cases h1 : x ∈ membersOf g.st k
              · by_cases h2 : k = (s, g') ∧ x ∈ as
                · exact ⟨h1, h2⟩
                · exact absurd ⟨fun h => h.1, fun h => ⟨h, h2⟩⟩ hch
              · exact absurd ⟨fun h => h.1, fun h => absurd h h1⟩ hch
            obtain ⟨hx1, rfl, hx2⟩ := hx
            cases hgm : get g.st.map (s, g') with
            | none => unfold membersOf at hx1; rw [hgm] at hx1; cases hx1
            | some gs =>
              have hle : (leaveEntry g.st s g' as).2 = some ⟨false, s, g', as, recipients g.st (s, g')⟩ := by
                simp [leaveEntry, hgm]
              refine ⟨⟨false, s, g', as, recipients g.st (s, g')⟩, ?_, rfl, hx2, ?_, rfl⟩
              · simp only [callStep, hle, Option.toList_some]
              · constructor
                · intro h; cases h
                · intro h; exact absurd ⟨rfl, hx2⟩ (hm.mp h).2
        · exfalso; apply hch
          have hl : linOf g (.call i) = .none := by
            simp only [linOf, hp]
            cases pc <;> try (first | rfl | exact absurd ⟨_, _, _, rfl⟩ c3)
            all_goals (rename_i todo; cases todo <;> first | rfl | exact absurd ⟨_, _, _, rfl⟩ c2)
          rw [hl]; simp [specLin]


/-- the payload of a record is sound for the state right after the region: every actor reported as
joined is a member, every actor reported as having left is not -/
def PayloadOk (st' : State) (p : Pending) : Prop :=
  ∀ x ∈ p.actors, (p.isJoin = true → x ∈ membersOf st' (p.s, p.g)) ∧ (p.isJoin = false → x ∉ membersOf st' (p.s, p.g))

theorem payload_step (g : G) (t : Tid) :
    ∃ new, (step g t).changes = g.changes ++ new ∧ ∀ p ∈ new, PayloadOk (step g t).st p := by
  have triv : ∀ st', ∃ new, g.changes = g.changes ++ new ∧ ∀ p ∈ new, PayloadOk st' p :=
    fun _ => ⟨[], by simp, by simp⟩
  cases t with
  | ex b r =>
    by_cases hs : exSkip g b r
    · rw [step_ex_skip g b r hs]; exact triv _
    · rw [step_ex g b r hs]
      refine ⟨_, rfl, ?_⟩
      intro p hp
      cases r with
      | lvKey k =>
        cases hph : phaseOf g b with
        | leaving mk rm =>
          rw [hph] at hp
          simp only [exRecs] at hp
          split at hp
          · next c =>
            unfold leaveKey at hp
            split at hp
            · simp only [Option.map_some, Option.toList_some, List.mem_singleton] at hp
              subst hp
              intro x hx
              simp only [recPending, List.mem_singleton] at hx
              subst hx
              refine ⟨(fun h => by cases h), fun _ => ?_⟩
              show x ∉ membersOf (fstep x ⟨g.st, Phase.leaving mk rm⟩ (ExReg.lvKey k).toFOp).st (k.1, k.2)
              simp only [ExReg.toFOp, fstep, c, ↓reduceIte]
              rw [(trans_leaveKey g.st x k).m]; simp [leaveKeyEff]
            · simp at hp
          · simp at hp
        | _ => rw [hph] at hp; simp [exRecs] at hp
      | _ => simp [exRecs] at hp
  | call i =>
    cases hp : g.thr[i]? with
    | none => rw [step_call_none g i hp]; exact triv _
    | some pc =>
      by_cases hb : blocked g pc
      · rw [step_call_blocked g i pc hp hb]; exact triv _
      · by_cases c1 : ∃ s g' as, pc = .joinFiltered s g' as
        · obtain ⟨s, g', as, rfl⟩ := c1
          rw [step_call_lock g i s g' as hp hb]; exact triv _
        · by_cases c2 : ∃ s g' as todo, pc = .joinIn s g' as todo
          · obtain ⟨s, g', as, todo, rfl⟩ := c2
            cases todo with
            | nil =>
              rw [step_call_commit g i s g' as hp]
              refine ⟨_, rfl, ?_⟩
              intro p hp'
              unfold commitRec at hp'
              split at hp'
              · simp at hp'
              · simp only [Option.toList_some, List.mem_singleton] at hp'
                subst hp'
                intro x hx
                refine ⟨fun _ => ?_, (fun h => by cases h)⟩
                exact (joinCommit_members g.st (s, g') _ (s, g') x).mpr (Or.inr ⟨rfl, hx⟩)
            | cons y todo => rw [step_call_one g i s g' as y todo hp]; exact triv _
          · have h1 : ∀ s g' as, pc ≠ .joinFiltered s g' as := fun s g' as e => c1 ⟨s, g', as, e⟩
            have h2 : ∀ s g' as todo, pc ≠ .joinIn s g' as todo := fun s g' as todo e => c2 ⟨s, g', as, todo, e⟩
            rw [step_call_other g i pc hp hb h1 h2]
            refine ⟨_, rfl, ?_⟩
            intro p hp'
            cases pc with
            | leave s g' as =>
              simp only [callStep, leaveEntry] at hp'
              split at hp'
              · simp at hp'
              · next gs hg =>
                simp only [Option.toList_some, List.mem_singleton] at hp'
                subst hp'
                intro x hx
                refine ⟨(fun h => by cases h), fun _ => ?_⟩
                show x ∉ membersOf (leaveEntry g.st s g' as).1 (s, g')
                rw [leaveEntry_some g.st s g' as hg, leave_members g.st s g' as hg]
                exact fun h => h.2 ⟨rfl, hx⟩
            | _ => simp [callStep] at hp'

end Pg.Conc
