import RactorModel.Model.AList

/-!
# Model `Pg` (C11) — process groups: the four indexes of `ractor/src/pg.rs`

Concrete state = the four `DashMap`s as association lists

* `map   : (scope, group) ↦ (members, listeners)`      `PgState.map`
* `index : scope ↦ groups that have members`           `PgState.index`
* `world : scope ↦ listeners`                          `PgState.world_listeners` (key `(scope,
            ALL_GROUPS)`; scope `allScopes = 0` is the `ALL_SCOPES_NOTIFICATION` sentinel)
* `rel   : actor ↦ (memberships, group monitors, world monitors)`   `PgState.actor_relations`

plus `dead` (actors whose status is `≥ Stopping`) and `remote` (actors with a remote id).
Sets (`HashMap` keys, `HashSet`s) and `Vec`s with push-if-absent are duplicate-free lists.

API-level ops are atomic (one call of the public function / one whole exit). Each function
below follows the Rust text statement by statement; the only restructuring is in `leaveAll`,
where the single loop over the drained membership set is written as three passes over the same
(duplicate-free) key set — map, scope index, events — each reading the pre-loop entry of its key.
Branches that only a concurrent exit can reach (the status re-check failing after the initial
filter) do not occur at this level; the fine-grained variant is `Pg.Fine` below.
-/

namespace Pg
open AList

abbrev Key := Nat × Nat

def allScopes : Nat := 0
def defaultScope : Nat := 1

structure GS where
  members : List Nat
  listeners : List Nat
  deriving DecidableEq, Repr

structure Rel where
  mem : List Key
  gmon : List Key
  wmon : List Nat
  deriving DecidableEq, Repr

def Rel.empty : Rel := ⟨[], [], []⟩
def Rel.isEmpty (r : Rel) : Bool := r.mem.isEmpty && r.gmon.isEmpty && r.wmon.isEmpty

structure State where
  map : List (Key × GS)
  index : List (Nat × List Nat)
  world : List (Nat × List Nat)
  rel : List (Nat × Rel)
  dead : List Nat
  remote : List Nat
  deriving DecidableEq, Repr

def init : State := ⟨[], [], [], [], [], []⟩

structure Ev where
  monitor : Nat
  join : Bool
  scope : Nat
  group : Nat
  actors : List Nat
  deriving DecidableEq, Repr

def alive (st : State) (a : Nat) : Bool := !st.dead.contains a

/-- insert-or-modify-or-remove one entry: `entry(k)` followed by `get_mut`/`insert`/`remove` -/
def alter {κ ν : Type} [DecidableEq κ] (l : List (κ × ν)) (k : κ) (f : Option ν → Option ν) : List (κ × ν) :=
  match f (get l k) with
  | none => erase l k
  | some v => set l k v

def alterMany {κ ν : Type} [DecidableEq κ] (l : List (κ × ν)) (ks : List κ) (f : Option ν → Option ν) :
    List (κ × ν) := ks.foldl (fun m k => alter m k f) l

def membersOf (st : State) (k : Key) : List Nat := ((get st.map k).map (·.members)).getD []
def listenersOf (st : State) (k : Key) : List Nat := ((get st.map k).map (·.listeners)).getD []
def worldOf (st : State) (s : Nat) : List Nat := (get st.world s).getD []

/-- `GroupState` entries are dropped when they have neither members nor listeners -/
def gsNorm (gs : GS) : Option GS := if gs.members = [] ∧ gs.listeners = [] then none else some gs

/-- `add_group_to_index` -/
def addToIndex (idx : List (Nat × List Nat)) (k : Key) : List (Nat × List Nat) :=
  alter idx k.1 (fun o => some (ins k.2 (o.getD [])))

/-- `remove_group_from_index` -/
def removeFromIndex (idx : List (Nat × List Nat)) (k : Key) : List (Nat × List Nat) :=
  alter idx k.1 (fun o => o.bind (fun gs => let gs' := del k.2 gs; if gs' = [] then none else some gs'))

/-- `notify_world_listeners`: scope listeners first, then the all-scopes listeners -/
def notifyWorld (st : State) (s g : Nat) (actors : List Nat) (isJoin : Bool) : List Ev :=
  ((worldOf st s).map (fun m => Ev.mk m isJoin s g actors)) ++
  ((worldOf st allScopes).map (fun m => Ev.mk m isJoin s g actors))

/-- who monitors group `k` directly, through its scope, or through all scopes — in sending order -/
def recipients (st : State) (k : Key) : List Nat := listenersOf st k ++ worldOf st k.1 ++ worldOf st allScopes

/-- `get_or_create_actor_relations` then a modification under the relations lock -/
def relUpdate (rel : List (Nat × Rel)) (a : Nat) (f : Rel → Rel) : List (Nat × Rel) :=
  alter rel a (fun o => some (f (o.getD Rel.empty)))

/-- `remove_empty_actor_relations` -/
def removeEmptyRel (rel : List (Nat × Rel)) (a : Nat) : List (Nat × Rel) :=
  alter rel a (fun o => o.bind (fun r => if r.isEmpty then none else some r))

/-- `join_scoped` -/
def join (st : State) (s g : Nat) (actors : List Nat) : State × List Ev :=
  let as1 := actors.filter (alive st)
  if as1 = [] then (st, [])
  else
    let gs := (get st.map (s, g)).getD ⟨[], []⟩
    let rel' := as1.foldl (fun r a => relUpdate r a (fun x => { x with mem := ins (s, g) x.mem })) st.rel
    let members' := as1.foldl (fun m a => ins a m) gs.members
    ({ st with map := set st.map (s, g) ⟨members', gs.listeners⟩,
               index := addToIndex st.index (s, g), rel := rel' },
     gs.listeners.map (fun m => Ev.mk m true s g as1) ++ notifyWorld st s g as1 true)

/-- `leave_scoped` -/
def leave (st : State) (s g : Nat) (actors : List Nat) : State × List Ev :=
  match get st.map (s, g) with
  | none => (st, [])
  | some gs =>
    let rel' := actors.foldl (fun r a => alter r a (fun o => o.map (fun x => { x with mem := del (s, g) x.mem }))) st.rel
    let members' := gs.members.filter (fun a => !actors.contains a)
    let map' := alter st.map (s, g) (fun _ => gsNorm ⟨members', gs.listeners⟩)
    let index' := if members' = [] then removeFromIndex st.index (s, g) else st.index
    ({ st with map := map', index := index', rel := rel' },
     gs.listeners.map (fun m => Ev.mk m false s g actors) ++ notifyWorld st s g actors false)

/-- `monitor` (default scope) -/
def monitor (st : State) (g a : Nat) : State :=
  let key : Key := (defaultScope, g)
  let rel1 := relUpdate st.rel a id                       -- get_or_create
  let gs := (get st.map key).getD ⟨[], []⟩                -- entry(key).or_default()
  if alive st a then
    { st with map := set st.map key ⟨gs.members, ins a gs.listeners⟩,
              rel := relUpdate rel1 a (fun x => { x with gmon := ins key x.gmon }) }
  else
    { st with map := alter (set st.map key gs) key (fun o => o.bind gsNorm),
              rel := removeEmptyRel rel1 a }

/-- `monitor_scope` -/
def monitorScope (st : State) (s a : Nat) : State :=
  let rel1 := relUpdate st.rel a id
  let ls := (get st.world s).getD []
  if alive st a then
    { st with world := set st.world s (ins a ls),
              rel := relUpdate rel1 a (fun x => { x with wmon := ins s x.wmon }) }
  else
    { st with world := alter (set st.world s ls) s (fun o => o.bind (fun l => if l = [] then none else some l)),
              rel := removeEmptyRel rel1 a }

/-- what a demonitor does to a group entry -/
def dropListener (a : Nat) (o : Option GS) : Option GS :=
  o.bind (fun gs => gsNorm ⟨gs.members, del a gs.listeners⟩)

def dropWorldListener (a : Nat) (o : Option (List Nat)) : Option (List Nat) :=
  o.bind (fun l => let l' := del a l; if l' = [] then none else some l')

/-- `demonitor` (default scope) -/
def demonitor (st : State) (g a : Nat) : State :=
  let key : Key := (defaultScope, g)
  { st with map := alter st.map key (dropListener a),
            rel := alter st.rel a (fun o => o.map (fun x => { x with gmon := del key x.gmon })) }

/-- `demonitor_scope` -/
def demonitorScope (st : State) (s a : Nat) : State :=
  { st with world := alter st.world s (dropWorldListener a),
            rel := alter st.rel a (fun o => o.map (fun x => { x with wmon := del s x.wmon })) }

/-- `demonitor_all` -/
def demonitorAll (st : State) (a : Nat) : State :=
  match get st.rel a with
  | none => st
  | some r =>
    { st with rel := set st.rel a { r with gmon := [], wmon := [] },
              map := alterMany st.map r.gmon (dropListener a),
              world := alterMany st.world r.wmon (dropWorldListener a) }

/-- what `leave_all` does to the entry of one of the actor's groups -/
def dropMember (a : Nat) (o : Option GS) : Option GS :=
  o.bind (fun gs => if a ∈ gs.members then gsNorm ⟨del a gs.members, gs.listeners⟩ else some gs)

/-- `leave_all` -/
def leaveAll (st : State) (a : Nat) : State × List Ev :=
  match get st.rel a with
  | none => (st, [])
  | some r =>
    let removed := r.mem.filter (fun k => decide (a ∈ membersOf st k))
    let emptied := removed.filter (fun k => del a (membersOf st k) = [])
    let st' := { st with rel := removeEmptyRel (set st.rel a { r with mem := [] }) a,
                         map := alterMany st.map r.mem (dropMember a),
                         index := emptied.foldl removeFromIndex st.index }
    (st', removed.flatMap (fun k =>
        (listenersOf st k).map (fun m => Ev.mk m false k.1 k.2 [a]) ++ notifyWorld st' k.1 k.2 [a] false))

/-- the pg part of `set_status(≥ Stopping)`: publish, `demonitor_all`, `leave_all` -/
def exit (st : State) (a : Nat) : State × List Ev :=
  if st.dead.contains a then (st, [])      -- the cleanup block runs once
  else leaveAll (demonitorAll { st with dead := st.dead ++ [a] } a) a

/-! ### Fine-grained exit (lock-step variant): the regions of `set_status`'s pg part

`exit` above is the composition of these steps with nothing in between. Under E-THR another
thread's `join`/`leave`/`monitor` runs between them; the harness reports each region.

* `markDead a`      `inner.set_status(≥ Stopping)` is published
* `demonTake a`, `demonKey a k`, `demonWKey a s`   `demonitor_all`: drain, then one entry at a time
* `takeMem a`       `leave_all`: memberships drained from the reverse index under its lock
* `leaveKey a k`    one iteration of the loop: the forward entry of `k` under its lock; the
                    recipients of the `Leave` are fixed here
* `finishLeave a`   `remove_empty_actor_relations` + the notifications
-/

def markDead (st : State) (a : Nat) : State := { st with dead := ins a st.dead }

/-- `demonitor_all`: monitor sets drained from the reverse index under its lock -/
def demonTake (st : State) (a : Nat) : State :=
  { st with rel := alter st.rel a (fun o => o.map (fun r => { r with gmon := [], wmon := [] })) }

/-- `demonitor_all`: one iteration over a group key (until then the stale listener keeps the
group entry alive, so a concurrent `leave_scoped` of that group still notifies) -/
def demonKey (st : State) (a : Nat) (k : Key) : State := { st with map := alter st.map k (dropListener a) }

/-- `demonitor_all`: one iteration over a world key -/
def demonWKey (st : State) (a : Nat) (s : Nat) : State := { st with world := alter st.world s (dropWorldListener a) }

def takeMem (st : State) (a : Nat) : State :=
  { st with rel := alter st.rel a (fun o => o.map (fun r => { r with mem := [] })) }

/-- returns the removal record `(key, recipients at that moment)` if `a` was still a member: group
listeners, scope listeners and all-scopes listeners are all read under the entry lock -/
def leaveKey (st : State) (a : Nat) (k : Key) : State × Option (Key × List Nat) :=
  if a ∈ membersOf st k then
    ({ st with map := alter st.map k (dropMember a),
               index := if del a (membersOf st k) = [] then removeFromIndex st.index k else st.index },
     some (k, recipients st k))
  else (st, none)

/-- `remove_empty_actor_relations`, then the notifications to the recorded recipients -/
def finishLeave (st : State) (a : Nat) (removed : List (Key × List Nat)) : State × List Ev :=
  ({ st with rel := removeEmptyRel st.rel a },
   removed.flatMap (fun r => r.2.map (fun m => Ev.mk m false r.1.1 r.1.2 [a])))

/-! ### `join_scoped` / `leave_scoped` in two regions: the entry lock, then the notifications

Everybody who is to be told is fixed under the group's entry lock: the per-group listener list is
cloned there (`Pending.gl`) and so are the scope and all-scopes listeners (`Pending.wl`,
`world_listeners_of` — since the `fix:` commit for finding F6; before it they were looked up only
when the notifications were sent). The notification region just sends. `leave_all` does the same
per drained key (`leaveKey` records the recipients, `finishLeave` sends). -/

structure Pending where
  isJoin : Bool
  s : Nat
  g : Nat
  actors : List Nat
  /-- the recipients, fixed at the entry region -/
  to : List Nat
  deriving DecidableEq, Repr

/-- the entry-lock region of `join_scoped` -/
def joinEntry (st : State) (s g : Nat) (actors : List Nat) : State × Option Pending :=
  let as1 := actors.filter (alive st)
  -- nobody passes the status re-check any more: `entry(key).or_default()` has nevertheless created
  -- the group entry; it stays (empty) until the clean-up region (`joinCleanup`) removes it, and a
  -- `leave_scoped` of that group running in between finds an entry and notifies
  if as1 = [] then ({ st with map := alter st.map (s, g) (fun o => some (o.getD ⟨[], []⟩)) }, none)
  else ((join st s g actors).1, some ⟨true, s, g, as1, recipients st (s, g)⟩)

/-- the entry-lock region of `leave_scoped` -/
def leaveEntry (st : State) (s g : Nat) (actors : List Nat) : State × Option Pending :=
  match get st.map (s, g) with
  | none => (st, none)
  | some _ => ((leave st s g actors).1, some ⟨false, s, g, actors, recipients st (s, g)⟩)

/-- the recipients before the F6 fix: group listeners of the entry region, but scope and all-scopes
listeners of the (later) notification region -/
def legacyRecipients (stEntry stNotify : State) (k : Key) : List Nat :=
  listenersOf stEntry k ++ worldOf stNotify k.1 ++ worldOf stNotify allScopes

/-- the notification region: it only sends; nothing is looked up any more -/
def notifyPending (p : Pending) : List Ev := p.to.map (fun m => Ev.mk m p.isJoin p.s p.g p.actors)

/-- `monitor`: the region after `drop(entry)`: status re-check and clean-up -/
def monitorRecheck (st : State) (g a : Nat) : State :=
  if alive st a then st
  else { st with map := alter st.map (defaultScope, g) (fun o => o.bind gsNorm), rel := removeEmptyRel st.rel a }

/-- `monitor_scope`: the region after `drop(entry)` -/
def monitorScopeRecheck (st : State) (s a : Nat) : State :=
  if alive st a then st
  else { st with world := alter st.world s (fun o => o.bind (fun l => if l = [] then none else some l)),
                 rel := removeEmptyRel st.rel a }

/-- `join_scoped`: the region after the entry lock: reverse-index entries created for actors
that turned out to be stopping are dropped again if empty, and so is a group entry that was
created for nobody -/
def joinCleanup (st : State) (s g : Nat) (actors : List Nat) : State :=
  { st with rel := (actors.filter (fun a => !alive st a)).foldl removeEmptyRel st.rel,
            map := alter st.map (s, g) (fun o => o.bind gsNorm) }

/-! ### Queries -/

def sortDedup (l : List Nat) : List Nat :=
  let a := l.toArray.qsort (· < ·)
  a.toList.eraseDups

def getMembers (st : State) (s g : Nat) : List Nat := membersOf st (s, g)
def getLocalMembers (st : State) (s g : Nat) : List Nat := (membersOf st (s, g)).filter (fun a => !st.remote.contains a)
def nonEmptyKeys (st : State) : List Key := (st.map.filter (fun p => !p.2.members.isEmpty)).map (·.1)
def whichGroups (st : State) : List Nat := (nonEmptyKeys st).map (·.2)
def whichScopes (st : State) : List Nat := (nonEmptyKeys st).map (·.1)
def whichScopesAndGroups (st : State) : List Key := nonEmptyKeys st
def whichScopedGroups (st : State) (s : Nat) : List Nat := (get st.index s).getD []

/-! ### One op = one API call -/

inductive Op
  | join (s g : Nat) (actors : List Nat)
  | leave (s g : Nat) (actors : List Nat)
  | monitor (g a : Nat)
  | monitorScope (s a : Nat)
  | demonitor (g a : Nat)
  | demonitorScope (s a : Nat)
  | exit (a : Nat)
  | newRemote (a : Nat)         -- bookkeeping: actor `a` has a remote id
  /-- `ActorCell::drain()` through any reference, however stale. The status word moves to `Draining`
  at most (which pg treats like `Running`), and NOT AT ALL when the actor is already `≥ Stopping`:
  pg's view — the four indexes and the set of stopping actors — is untouched. -/
  | drain (a : Nat)
  deriving DecidableEq, Repr

def step (st : State) : Op → State × List Ev
  | .join s g as => join st s g as
  | .leave s g as => leave st s g as
  | .monitor g a => (monitor st g a, [])
  | .monitorScope s a => (monitorScope st s a, [])
  | .demonitor g a => (demonitor st g a, [])
  | .demonitorScope s a => (demonitorScope st s a, [])
  | .exit a => exit st a
  | .newRemote a => ({ st with remote := ins a st.remote }, [])
  | .drain _ => (st, [])

def run (st : State) : List Op → State
  | [] => st
  | op :: ops => run (step st op).1 ops

/-! ### The abstract specification: a set of `(scope, group, actor)` plus monitor relations -/

/-- abstract membership, read off the forward map -/
def member (st : State) (s g a : Nat) : Prop := a ∈ membersOf st (s, g)
instance (st : State) (s g a : Nat) : Decidable (member st s g a) := by unfold member; infer_instance

def monitorsGroup (st : State) (k : Key) (m : Nat) : Prop := m ∈ listenersOf st k
def monitorsScope (st : State) (s m : Nat) : Prop := m ∈ worldOf st s

/-- the specification's transition on the membership relation -/
def specMember (before : Nat → Nat → Nat → Prop) (isAlive : Nat → Prop) : Op → Nat → Nat → Nat → Prop
  | .join s g as, s', g', a => before s' g' a ∨ (s' = s ∧ g' = g ∧ a ∈ as ∧ isAlive a)
  | .leave s g as, s', g', a => before s' g' a ∧ ¬ (s' = s ∧ g' = g ∧ a ∈ as)
  | .exit b, s', g', a => before s' g' a ∧ (a ≠ b ∨ ¬ isAlive b)
  | _, s', g', a => before s' g' a

/-- the specification's run: (membership relation, set of stopping actors), evolved op by op -/
def specRun : (Nat → Nat → Nat → Prop) × (Nat → Prop) → List Op → (Nat → Nat → Nat → Prop) × (Nat → Prop)
  | md, [] => md
  | md, op :: ops =>
    specRun (specMember md.1 (fun x => ¬ md.2 x) op, fun a => md.2 a ∨ (op = .exit a)) ops

/-! ### The observable predicate `ok` on a snapshot of the four indexes -/

def allKeysNodup (st : State) : Bool :=
  (keys st.map).Nodup && (keys st.index).Nodup && (keys st.world).Nodup && (keys st.rel).Nodup

/-- forward map ↔ reverse index, in both directions -/
def okMembers (st : State) : Bool :=
  (st.map.all fun p => p.2.members.all fun a => ((get st.rel a).map (·.mem)).getD [] |>.contains p.1) &&
  (st.rel.all fun q => q.2.mem.all fun k => (membersOf st k).contains q.1)

def okGroupMonitors (st : State) : Bool :=
  (st.map.all fun p => p.2.listeners.all fun m => ((get st.rel m).map (·.gmon)).getD [] |>.contains p.1) &&
  (st.rel.all fun q => q.2.gmon.all fun k => (listenersOf st k).contains q.1)

def okWorldMonitors (st : State) : Bool :=
  (st.world.all fun p => p.2.all fun m => ((get st.rel m).map (·.wmon)).getD [] |>.contains p.1) &&
  (st.rel.all fun q => q.2.wmon.all fun s => (worldOf st s).contains q.1)

/-- scope index lists exactly the groups that have members -/
def okIndex (st : State) : Bool :=
  (st.index.all fun p => !p.2.isEmpty && p.2.all fun g => !(membersOf st (p.1, g)).isEmpty) &&
  (st.map.all fun p => p.2.members.isEmpty || ((get st.index p.1.1).getD []).contains p.1.2)

/-- no empty entries -/
def okNoEmpty (st : State) : Bool :=
  (st.map.all fun p => !(p.2.members.isEmpty && p.2.listeners.isEmpty)) &&
  (st.world.all fun p => !p.2.isEmpty)

/-- an actor that is stopping/stopped owns nothing: member of no group, monitor of none -/
def okDead (st : State) : Bool :=
  st.dead.all fun a =>
    (get st.rel a).isNone &&
    (st.map.all fun p => !p.2.members.contains a && !p.2.listeners.contains a) &&
    (st.world.all fun p => !p.2.contains a)

def okSets (st : State) : Bool :=
  (st.map.all fun p => p.2.members.Nodup && p.2.listeners.Nodup) &&
  (st.world.all fun p => p.2.Nodup) &&
  (st.index.all fun p => p.2.Nodup) &&
  (st.rel.all fun q => q.2.mem.Nodup && q.2.gmon.Nodup && q.2.wmon.Nodup)

def failing (st : State) : List String :=
  (if allKeysNodup st then [] else ["duplicate-key"]) ++
  (if okMembers st then [] else ["members-vs-reverse-index"]) ++
  (if okGroupMonitors st then [] else ["group-listeners-vs-reverse-index"]) ++
  (if okWorldMonitors st then [] else ["world-listeners-vs-reverse-index"]) ++
  (if okIndex st then [] else ["scope-index-vs-members"]) ++
  (if okNoEmpty st then [] else ["empty-entry-left-behind"]) ++
  (if okDead st then [] else ["stopping-actor-still-member-or-monitor"]) ++
  (if okSets st then [] else ["duplicate-in-set"])

def ok (st : State) : Bool :=
  allKeysNodup st && okMembers st && okGroupMonitors st && okWorldMonitors st && okIndex st &&
  okNoEmpty st && okDead st && okSets st

/-- expected notifications of a `join`/`leave` of group `(s,g)` with payload `actors`, computed
from the monitor relations alone: one event per group monitor, per scope monitor, per
all-scopes monitor (in this order) -/
def expectedEvents (st : State) (isJoin : Bool) (s g : Nat) (actors : List Nat) : List Ev :=
  ((listenersOf st (s, g)) ++ worldOf st s ++ worldOf st allScopes).map (fun m => Ev.mk m isJoin s g actors)

/-- The specification of the notifications of one op, from the monitor relations of the state
before it: every effective join/leave (and one `Leave` per group an exiting actor was still in)
goes once to each actor monitoring the group, once to each monitoring its scope, once to each
monitoring all scopes — and nothing to anybody else. (The exiting actor itself has already been
demonitored.) -/
def specEvents (st : State) : Op → List Ev
  | .join s g as =>
    let as1 := as.filter (alive st)
    if as1 = [] then [] else expectedEvents st true s g as1
  | .leave s g as => if (get st.map (s, g)).isSome then expectedEvents st false s g as else []
  | .exit a =>
    if st.dead.contains a then []
    else ((keys st.map).filter (fun k => decide (a ∈ membersOf st k))).flatMap fun k =>
      (del a (listenersOf st k) ++ del a (worldOf st k.1) ++ del a (worldOf st allScopes)).map
        (fun m => Ev.mk m false k.1 k.2 [a])
  | _ => []

end Pg
