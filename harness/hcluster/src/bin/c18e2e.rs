//! C18 end-to-end engine (E-LTS with a random task scheduler): two REAL `NodeServer`s in
//! one process, K in-memory duplex connections opened in PRNG-chosen directions and order,
//! every ractor task gated by the `verif` controller so that the interleaving of the two
//! nodes' session/auth handshakes is chosen by the PRNG (deterministic per seed).
//! At quiescence the harness records what each node retained; the Lean driver judges it
//! with the C18 outcome oracle (`e2e` op).
//!
//! ops.txt line:  `e2e <nameA> <nameB> <k> <dirs: a|b per connection>`
//! impl.txt line: `<A: sorted kept connection indices>|<B: …>|<A: ready events of kept sessions, not de-duplicated>|<B: …>|<A: all ready events in order>|<B: …>`
//!
//! usage: c18e2e --seed S --cases N --out DIR

use std::sync::{Arc, Mutex};

use hutil::{Args, Log, Rng, Stats};
use ractor::{Actor, ActorRef};
use ractor_cluster::node::NodeServerSessionInformation;
use ractor_cluster::{BoxRead, BoxWrite, ClusterBidiStream, NodeEventSubscription, NodeServer, NodeServerMessage};

#[path = "../tcpq.rs"]
mod tcpq;

/// `--tcp 1`: the connections are REAL loopback TCP connections: the dialling node calls the real
/// `client_connect` (node/client.rs) towards a relay socket of the harness, the relay dials the
/// other node's real `Listener` (net/listener.rs) and copies bytes in PRNG-sized pieces.
static TCP: std::sync::atomic::AtomicBool = std::sync::atomic::AtomicBool::new(false);
fn tcp_mode() -> bool {
    TCP.load(std::sync::atomic::Ordering::Relaxed)
}

struct Duplex {
    stream: tokio::io::DuplexStream,
    label: String,
}
impl ClusterBidiStream for Duplex {
    fn split(self: Box<Self>) -> (BoxRead, BoxWrite) {
        let (r, w) = tokio::io::split(self.stream);
        (Box::new(r), Box::new(w))
    }
    fn peer_label(&self) -> Option<String> {
        Some(self.label.clone())
    }
    fn local_label(&self) -> Option<String> {
        Some(self.label.clone())
    }
}

#[derive(Default)]
struct Events {
    ready: Vec<String>,        // peer_addr labels of sessions reported ready
    disconnected: Vec<String>, // labels of sessions reported disconnected
    opened: Vec<(String, bool)>, // (label, is_server) of every session reported opened
}
struct Sub(Arc<Mutex<Events>>);
impl NodeEventSubscription for Sub {
    fn node_session_opened(&self, s: NodeServerSessionInformation) {
        self.0.lock().unwrap().opened.push((s.peer_addr, s.is_server));
    }
    fn node_session_disconnected(&self, s: NodeServerSessionInformation) {
        self.0.lock().unwrap().disconnected.push(s.peer_addr);
    }
    fn node_session_authenticated(&self, _: NodeServerSessionInformation) {}
    fn node_session_ready(&self, s: NodeServerSessionInformation) {
        self.0.lock().unwrap().ready.push(s.peer_addr);
    }
}

/// Poll gated tasks in PRNG order until none is runnable and `done()` holds (or budget ends).
async fn schedule(ctl: &ractor::verif::Controller, rng: &mut Rng, budget: usize, st: &mut Stats) -> bool {
    for _ in 0..budget {
        let runnable: Vec<_> = ctl.tasks().into_iter().filter(|t| t.runnable()).collect();
        if runnable.is_empty() {
            if tcp_mode() {
                // real sockets: rest = no gated task runnable AND the runtime idle AND nothing unread /
                // unsent / in flight on any socket of the process (an observable condition, not a pause)
                if tcpq::settle_with(|| ctl.tasks().iter().any(|t| t.runnable())).await {
                    return true;
                }
                continue;
            }
            // let un-gated helper tasks (our own) and IO wake-ups settle
            for _ in 0..3 {
                tokio::task::yield_now().await;
            }
            if ctl.tasks().iter().all(|t| !t.runnable()) {
                return true;
            }
            continue;
        }
        let t = runnable[rng.below(runnable.len() as u64) as usize].clone();
        let before = t.polls();
        t.grant();
        let mut spins = 0;
        while t.polls() == before && !t.is_done() {
            tokio::task::yield_now().await;
            spins += 1;
            if spins > 10_000 {
                st.bump("grant_not_polled");
                break;
            }
        }
        st.bump("polls");
    }
    false
}

async fn sessions(
    ctl: &ractor::verif::Controller,
    rng: &mut Rng,
    st: &mut Stats,
    node: &ActorRef<NodeServerMessage>,
) -> Vec<String> {
    let node = node.clone();
    let h = tokio::spawn(async move { ractor::call_t!(node, NodeServerMessage::GetSessions, 60_000) });
    let mut guard = 0;
    while !h.is_finished() {
        schedule(ctl, rng, 50, st).await;
        tokio::task::yield_now().await;
        guard += 1;
        if guard > 2000 {
            return vec!["<GetSessions-stuck>".into()];
        }
    }
    let mut v: Vec<String> = match h.await {
        Ok(Ok(m)) => m.into_values().map(|s| s.peer_addr).collect(),
        _ => vec!["<GetSessions-failed>".into()],
    };
    v.sort();
    v
}


/// Like `schedule`, but the tasks whose ids are in `starve` are never polled (a node whose
/// `NodeServer` does not get to run for a while: load, a slow subscriber callback, …).
async fn schedule_except(ctl: &ractor::verif::Controller, rng: &mut Rng, budget: usize, st: &mut Stats, starve: &[usize]) -> bool {
    for _ in 0..budget {
        let runnable: Vec<_> = ctl.tasks().into_iter().filter(|t| t.runnable() && !starve.contains(&t.id)).collect();
        if runnable.is_empty() {
            if tcp_mode() {
                if tcpq::settle_with(|| ctl.tasks().iter().any(|t| t.runnable() && !starve.contains(&t.id))).await {
                    return true;
                }
                continue;
            }
            for _ in 0..3 {
                tokio::task::yield_now().await;
            }
            if ctl.tasks().iter().all(|t| !t.runnable() || starve.contains(&t.id)) {
                return true;
            }
            continue;
        }
        let t = runnable[rng.below(runnable.len() as u64) as usize].clone();
        let before = t.polls();
        t.grant();
        let mut spins = 0;
        while t.polls() == before && !t.is_done() {
            tokio::task::yield_now().await;
            spins += 1;
            if spins > 10_000 {
                st.bump("grant_not_polled");
                break;
            }
        }
        st.bump("polls");
    }
    false
}

/// Spawn one NodeServer with the scheduler running alongside; returns the actor, its join handle
/// and the controller id of its message-loop task (the last task registered by the spawn).
async fn spawn_node_alone(
    ctl: &ractor::verif::Controller,
    rng: &mut Rng,
    st: &mut Stats,
    name: &str,
    host: &str,
) -> Option<(ActorRef<NodeServerMessage>, ractor::concurrency::JoinHandle<()>, usize)> {
    spawn_node_on(ctl, rng, st, name, host, None).await
}

/// `listen`: `with_listen_addr` (the listener binds that address directly) instead of the default
/// dual-stack `[::]` socket.
async fn spawn_node_on(
    ctl: &ractor::verif::Controller,
    rng: &mut Rng,
    st: &mut Stats,
    name: &str,
    host: &str,
    listen: Option<std::net::IpAddr>,
) -> Option<(ActorRef<NodeServerMessage>, ractor::concurrency::JoinHandle<()>, usize)> {
    let first = ctl.len();
    let enc = if tls_mode() { Some(ractor_cluster::IncomingEncryptionMode::Tls(tls_acceptor())) } else { None };
    let mut server = NodeServer::new(0, "cookie".to_string(), name.to_string(), host.to_string(), enc, None);
    if let Some(a) = listen {
        server = server.with_listen_addr(a);
    }
    let f = tokio::spawn(Actor::spawn(None, server, ()));
    let mut guard = 0;
    while !f.is_finished() {
        schedule(ctl, rng, 50, st).await;
        tokio::task::yield_now().await;
        guard += 1;
        if guard > 5000 {
            return None;
        }
    }
    let (a, h) = f.await.ok()?.ok()?;
    // tasks registered by the spawn: the listener's loop (spawned inside `pre_start`), then the
    // NodeServer's own message loop - the last one
    let last = ctl.len().checked_sub(1)?;
    if last < first {
        return None;
    }
    Some((a, h, last))
}

/// The election's own timeout (node_session.rs, `CheckSession` with a 500 ms deadline right after
/// authenticating). Node A's name sorts last, so a dial by A beats a dial by B.
///  1. connection c0 dialled by B is established and ready on both nodes;
///  2. A dials c1 (the connection both elections prefer); from then on A's `NodeServer` task is not
///     scheduled; everything else runs to rest: B elects c1 and closes c0, A's c1 session has
///     authenticated and waits for A's `NodeServer` to answer `CheckSession`;
///  3. the (paused) clock is advanced by `adv` ms (0 = control, 600 = past the deadline);
///  4. A's `NodeServer` runs again, everything runs to rest.
/// op  `e2t <nameA> <nameB> adv=<ms> c1=<a|b>`
/// impl `<A kept before>/<B kept before> <A kept>|<B kept>|<A ready events, raw>|<B ready events, raw>`
async fn timeout_case(log: &mut Log, st: &mut Stats, rng: &mut Rng, case_no: u64) {
    let pool = [("b", "a"), ("n2", "n10"), ("x", "Y")];
    let (na, nb) = *rng.pick(&pool);
    let adv: u64 = *rng.pick(&[0u64, 600, 600, 499, 5000]);
    // who dials c1: A (its session on A is client-side: only the POST-authentication check needs A's
    // NodeServer) or B (A's session is server-side: the PRE-authentication check times out => that
    // connection closes, the established link must stay)
    let c1_by_a = rng.chance(2, 3);
    let host = format!("t{case_no}");
    let ctl = ractor::verif::install();
    let Some((a, ha, a_task)) = spawn_node_alone(&ctl, rng, st, na, &host).await else {
        log.rec(format!("e2t {na} {nb} spawn-stuck"), "error");
        ractor::verif::uninstall();
        return;
    };
    let Some((b, hb, _)) = spawn_node_alone(&ctl, rng, st, nb, &host).await else {
        log.rec(format!("e2t {na} {nb} spawn-stuck"), "error");
        ractor::verif::uninstall();
        return;
    };
    let ev_a = Arc::new(Mutex::new(Events::default()));
    let ev_b = Arc::new(Mutex::new(Events::default()));
    a.cast(NodeServerMessage::SubscribeToEvents { id: "v".into(), subscription: Box::new(Sub(ev_a.clone())) }).unwrap();
    b.cast(NodeServerMessage::SubscribeToEvents { id: "v".into(), subscription: Box::new(Sub(ev_b.clone())) }).unwrap();
    schedule(&ctl, rng, 200, st).await;
    let open = |node: &ActorRef<NodeServerMessage>, s: tokio::io::DuplexStream, i: usize, is_server: bool| {
        node.cast(NodeServerMessage::ConnectionOpenedExternal { stream: Box::new(Duplex { stream: s, label: format!("c{i}") }), is_server }).unwrap();
    };
    // 1. c0, dialled by B
    let (sa, sb) = tokio::io::duplex(64 * 1024);
    open(&a, sa, 0, true);
    open(&b, sb, 0, false);
    schedule(&ctl, rng, 200_000, st).await;
    let before_a = sessions(&ctl, rng, st, &a).await;
    let before_b = sessions(&ctl, rng, st, &b).await;
    // 2. c1, dialled by A; A's NodeServer creates the session, then is starved
    let (sa, sb) = tokio::io::duplex(64 * 1024);
    open(&a, sa, 1, !c1_by_a);
    schedule(&ctl, rng, 200_000, st).await;
    open(&b, sb, 1, c1_by_a);
    let starve = [a_task];
    schedule_except(&ctl, rng, 200_000, st, &starve).await;
    if std::env::var("E2T_DEBUG").is_ok() {
        for t in ctl.tasks() {
            eprintln!("task {} name={:?} runnable={} done={} polls={} (a_task={a_task})", t.id, t.name, t.runnable(), t.is_done(), t.polls());
        }
        eprintln!("ready A {:?} B {:?}", ev_a.lock().unwrap().ready, ev_b.lock().unwrap().ready);
    }
    // 3. time passes
    if adv > 0 {
        tokio::time::advance(std::time::Duration::from_millis(adv)).await;
    }
    schedule_except(&ctl, rng, 200_000, st, &starve).await;
    // 4. A's NodeServer is back
    let quiet = schedule(&ctl, rng, 200_000, st).await;
    if !quiet {
        st.bump("not_quiescent");
    }
    let sa = sessions(&ctl, rng, st, &a).await;
    let sb = sessions(&ctl, rng, st, &b).await;
    let fmt = |v: &Vec<String>| if v.is_empty() { "-".to_string() } else { v.join(",") };
    let (ra, rb) = (ev_a.lock().unwrap().ready.clone(), ev_b.lock().unwrap().ready.clone());
    st.bump(&format!("e2t_adv_{adv}"));
    log.rec(
        format!("e2t {na}@{host} {nb}@{host} adv={adv} c1={}", if c1_by_a { "a" } else { "b" }),
        format!("{}/{} {}|{}|{}|{}", fmt(&before_a), fmt(&before_b), fmt(&sa), fmt(&sb), fmt(&ra), fmt(&rb)),
    );
    a.stop(None);
    b.stop(None);
    schedule(&ctl, rng, 200_000, st).await;
    ractor::verif::uninstall();
    ha.abort();
    hb.abort();
}


/// The session actors a node currently lists, by connection label.
async fn session_actors(
    ctl: &ractor::verif::Controller,
    rng: &mut Rng,
    st: &mut Stats,
    node: &ActorRef<NodeServerMessage>,
) -> Vec<(String, ActorRef<ractor_cluster::NodeSessionMessage>)> {
    let node = node.clone();
    let h = tokio::spawn(async move { ractor::call_t!(node, NodeServerMessage::GetSessions, 60_000) });
    let mut guard = 0;
    while !h.is_finished() {
        schedule(ctl, rng, 50, st).await;
        tokio::task::yield_now().await;
        guard += 1;
        if guard > 2000 {
            return vec![];
        }
    }
    match h.await {
        Ok(Ok(m)) => m.into_values().map(|s| (s.peer_addr.clone(), s.actor.clone())).collect(),
        _ => vec![],
    }
}

/// Session death, NodeServer cleanup and re-election on reconnection, through the REAL handlers
/// (`handle_supervisor_evt`, `ConnectionOpenedExternal`, `commit_authenticated`):
///  1. `k1` connections converge on one link;
///  2. that link's session is stopped on one node (`by`): its transport closes, the other node's
///     session exits too; at rest NEITHER node may list or elect anything of the dead link;
///  3. `k2` fresh connections are dialled: both nodes converge on one of the NEW ones.
/// op   `e2r <nameA> <nameB> <dirs1> <dirs2> by=<a|b>`
/// impl `<A kept>|<B kept> <A kept>|<B kept> <A kept>|<B kept>|<A ready of kept>|<B ready of kept>|<A disconnected, sorted>|<B …>`
async fn reconnect_case(log: &mut Log, st: &mut Stats, rng: &mut Rng, case_no: u64) {
    let pool = [("a", "b"), ("b", "a"), ("n1", "n10"), ("x", "Y")];
    let (na, nb) = *rng.pick(&pool);
    let host = format!("r{case_no}");
    let k1 = rng.range(1, 3) as usize;
    let k2 = rng.range(1, 3) as usize;
    let dirs: Vec<bool> = (0..k1 + k2).map(|_| rng.chance(1, 2)).collect();
    let by_a = rng.chance(1, 2);
    let ctl = ractor::verif::install();
    let Some((a, ha, _)) = spawn_node_alone(&ctl, rng, st, na, &host).await else {
        ractor::verif::uninstall();
        return;
    };
    let Some((b, hb, _)) = spawn_node_alone(&ctl, rng, st, nb, &host).await else {
        ractor::verif::uninstall();
        return;
    };
    let ev_a = Arc::new(Mutex::new(Events::default()));
    let ev_b = Arc::new(Mutex::new(Events::default()));
    a.cast(NodeServerMessage::SubscribeToEvents { id: "v".into(), subscription: Box::new(Sub(ev_a.clone())) }).unwrap();
    b.cast(NodeServerMessage::SubscribeToEvents { id: "v".into(), subscription: Box::new(Sub(ev_b.clone())) }).unwrap();
    schedule(&ctl, rng, 200, st).await;
    let fmt = |v: &Vec<String>| if v.is_empty() { "-".to_string() } else { v.join(",") };
    let open_some = async |range: std::ops::Range<usize>, rng: &mut Rng, st: &mut Stats| {
        for i in range {
            let (sa, sb) = tokio::io::duplex(64 * 1024);
            let a_is_server = !dirs[i];
            a.cast(NodeServerMessage::ConnectionOpenedExternal { stream: Box::new(Duplex { stream: sa, label: format!("c{i}") }), is_server: a_is_server }).unwrap();
            let n = rng.below(12) as usize;
            schedule(&ctl, rng, n, st).await;
            b.cast(NodeServerMessage::ConnectionOpenedExternal { stream: Box::new(Duplex { stream: sb, label: format!("c{i}") }), is_server: !a_is_server }).unwrap();
            let n = *rng.pick(&[0usize, 3, 10, 40, 400]);
            schedule(&ctl, rng, n, st).await;
        }
        schedule(&ctl, rng, 200_000, st).await;
    };
    // 1.
    open_some(0..k1, rng, st).await;
    let s1a = sessions(&ctl, rng, st, &a).await;
    let s1b = sessions(&ctl, rng, st, &b).await;
    // 2. the link's session dies on one node
    let victim = if by_a { &a } else { &b };
    for (_, actor) in session_actors(&ctl, rng, st, victim).await {
        actor.stop(Some("killed-by-harness".to_string()));
    }
    schedule(&ctl, rng, 200_000, st).await;
    let s2a = sessions(&ctl, rng, st, &a).await;
    let s2b = sessions(&ctl, rng, st, &b).await;
    // 3. reconnection
    open_some(k1..k1 + k2, rng, st).await;
    let s3a = sessions(&ctl, rng, st, &a).await;
    let s3b = sessions(&ctl, rng, st, &b).await;
    let ready_of = |ev: &Arc<Mutex<Events>>, kept: &Vec<String>| {
        let mut r: Vec<String> = ev.lock().unwrap().ready.iter().filter(|l| kept.contains(l)).cloned().collect();
        r.sort();
        r
    };
    let disc = |ev: &Arc<Mutex<Events>>| {
        let mut d = ev.lock().unwrap().disconnected.clone();
        d.sort();
        d
    };
    st.bump("e2r");
    let ds = |r: std::ops::Range<usize>| -> String { dirs[r].iter().map(|d| if *d { 'a' } else { 'b' }).collect() };
    log.rec(
        format!("e2r {na}@{host} {nb}@{host} {} {} by={}", ds(0..k1), ds(k1..k1 + k2), if by_a { "a" } else { "b" }),
        format!(
            "{}|{} {}|{} {}|{}|{}|{}|{}|{}",
            fmt(&s1a), fmt(&s1b), fmt(&s2a), fmt(&s2b), fmt(&s3a), fmt(&s3b),
            fmt(&ready_of(&ev_a, &s3a)), fmt(&ready_of(&ev_b, &s3b)), fmt(&disc(&ev_a)), fmt(&disc(&ev_b))
        ),
    );
    a.stop(None);
    b.stop(None);
    schedule(&ctl, rng, 200_000, st).await;
    ractor::verif::uninstall();
    ha.abort();
    hb.abort();
}


// ------------------------------------------------------------------ real TCP (`--tcp 1`)

use std::sync::atomic::{AtomicI64, Ordering};
use tokio::io::{AsyncReadExt, AsyncWriteExt};

/// How a relayed connection ends when its byte budget is used up / it is cut.
#[derive(Clone, Copy, PartialEq)]
enum CutHow {
    /// close both relay sockets (both nodes read EOF)
    Fin,
    /// abortive close (SO_LINGER 0) of both relay sockets: both nodes get ECONNRESET
    Rst,
    /// stop copying but keep the sockets: half-close towards the acceptor only
    HalfClose,
}

static LINK_NO: std::sync::atomic::AtomicU32 = std::sync::atomic::AtomicU32::new(0);

/// `--tls 1` (with `--tcp 1`): both nodes accept with `IncomingEncryptionMode::Tls` and dial with the real
/// `client_connect_enc`. The certificates are static test material generated once with openssl (a CA and
/// a `localhost` server certificate signed by it, valid 2020-2120; src/tls/): no certificate generator is
/// among the locked crates, rustls / rustls-pki-types (PEM parser) / aws-lc-rs are.
static TLS: std::sync::atomic::AtomicBool = std::sync::atomic::AtomicBool::new(false);
fn tls_mode() -> bool {
    TLS.load(std::sync::atomic::Ordering::Relaxed)
}
const CA_PEM: &[u8] = include_bytes!("../tls/ca.pem");
const SRV_PEM: &[u8] = include_bytes!("../tls/srv.pem");
const SRV_KEY: &[u8] = include_bytes!("../tls/srv.key");

fn tls_acceptor() -> tokio_rustls::TlsAcceptor {
    use tokio_rustls::rustls::pki_types::{pem::PemObject, CertificateDer, PrivateKeyDer};
    let _ = tokio_rustls::rustls::crypto::aws_lc_rs::default_provider().install_default();
    let cert = CertificateDer::from_pem_slice(SRV_PEM).expect("server certificate");
    let key = PrivateKeyDer::from_pem_slice(SRV_KEY).expect("server key");
    let cfg = tokio_rustls::rustls::ServerConfig::builder().with_no_client_auth().with_single_cert(vec![cert], key).expect("server config");
    tokio_rustls::TlsAcceptor::from(Arc::new(cfg))
}

fn tls_connector() -> tokio_rustls::TlsConnector {
    use tokio_rustls::rustls::pki_types::{pem::PemObject, CertificateDer};
    let _ = tokio_rustls::rustls::crypto::aws_lc_rs::default_provider().install_default();
    let mut roots = tokio_rustls::rustls::RootCertStore::empty();
    roots.add(CertificateDer::from_pem_slice(CA_PEM).expect("ca certificate")).expect("trust anchor");
    let cfg = tokio_rustls::rustls::ClientConfig::builder().with_root_certificates(roots).with_no_client_auth();
    tokio_rustls::TlsConnector::from(Arc::new(cfg))
}

/// the real client connect of the mode: `connect` or `connect_enc`
async fn real_connect(node: &ActorRef<NodeServerMessage>, ip: std::net::Ipv4Addr, port: u16) -> Result<(), ractor_cluster::node::client::ClientConnectErr> {
    if tls_mode() {
        let name = tokio_rustls::rustls::pki_types::ServerName::try_from("localhost").expect("server name");
        ractor_cluster::client_connect_enc(node, (ip, port), tls_connector(), name).await
    } else {
        ractor_cluster::client_connect(node, (ip, port)).await
    }
}

struct TcpLink {
    /// run-wide number of this link: both nodes' sessions see the peer address `tcpq::link_ip(g)`
    g: u32,
    /// bytes the dialler -> acceptor direction may still copy
    budget: Arc<AtomicI64>,
    cut: tokio::sync::watch::Sender<bool>,
    how: Arc<Mutex<CutHow>>,
}

/// One direction of the relay. PRNG-sized reads (so the next node sees partial frames), PRNG yields.
async fn tcp_pump(
    mut r: tokio::net::tcp::OwnedReadHalf,
    mut w: tokio::net::tcp::OwnedWriteHalf,
    mut rng: Rng,
    budget: Option<Arc<AtomicI64>>,
    cut: tokio::sync::watch::Sender<bool>,
    how: Arc<Mutex<CutHow>>,
) {
    use std::os::fd::AsRawFd;
    let mut buf = [0u8; 512];
    let mut cut_rx = cut.subscribe();
    loop {
        if *cut_rx.borrow() {
            break;
        }
        let mut max = *rng.pick(&[1usize, 3, 7, 16, 64, 512]);
        if let Some(b) = &budget {
            let left = b.load(Ordering::SeqCst);
            if left <= 0 {
                let _ = cut.send(true);
                break;
            }
            max = max.min(left as usize);
        }
        let n = tokio::select! {
            _ = cut_rx.changed() => break,
            x = r.read(&mut buf[..max]) => match x {
                Ok(0) | Err(_) => break,
                Ok(n) => n,
            },
        };
        if let Some(b) = &budget {
            b.fetch_sub(n as i64, Ordering::SeqCst);
        }
        if w.write_all(&buf[..n]).await.is_err() {
            break;
        }
        for _ in 0..rng.below(3) {
            tokio::task::yield_now().await;
        }
    }
    let h = *how.lock().unwrap();
    let was_cut = *cut_rx.borrow();
    if was_cut {
        match h {
            CutHow::Rst => {
                tcpq::set_reset_on_close(r.as_ref().as_raw_fd());
                tcpq::set_reset_on_close(w.as_ref().as_raw_fd());
                // no FIN before the RST: dropping an `OwnedWriteHalf` would shut the write side down
                w.forget();
                return;
            }
            CutHow::HalfClose => {
                let _ = w.shutdown().await;
                // keep reading (and discarding) so that the peer's close is seen and the socket goes away
                let mut sink = [0u8; 512];
                while let Ok(n) = r.read(&mut sink).await {
                    if n == 0 {
                        break;
                    }
                }
            }
            CutHow::Fin => {}
        }
    }
    // both halves dropped: FIN (or RST) to both nodes
}

/// `dialler` connects (real `client_connect`) to a fresh relay listener; the relay dials
/// `acceptor_port` (the other node's real `Listener`). Event-driven throughout.
async fn tcp_link(
    ctl: &ractor::verif::Controller,
    rng: &mut Rng,
    st: &mut Stats,
    dialler: &ActorRef<NodeServerMessage>,
    acceptor_port: u16,
    budget: i64,
    how: CutHow,
) -> Option<TcpLink> {
    let g = LINK_NO.fetch_add(1, Ordering::SeqCst);
    let ip = tcpq::link_ip(g);
    let (l, lp) = tcpq::listen_on(ip).ok()?;
    let d = dialler.clone();
    let h = tokio::spawn(async move { real_connect(&d, std::net::Ipv4Addr::from(ip), lp).await.is_ok() });
    let from_dialler = tcpq::accept_one(&l, 20).await?;
    // the relay is complete before the dialler's connect has returned: with TLS the handshake itself
    // runs through the relay (and through the acceptor's gated listener task)
    let to_acceptor = tcpq::dial_from(ip, acceptor_port).ok()?;
    let link = TcpLink {
        g,
        budget: Arc::new(AtomicI64::new(budget)),
        cut: tokio::sync::watch::channel(false).0,
        how: Arc::new(Mutex::new(how)),
    };
    let (dr, dw) = from_dialler.into_split();
    let (ar, aw) = to_acceptor.into_split();
    tokio::spawn(tcp_pump(dr, aw, rng.fork(), Some(link.budget.clone()), link.cut.clone(), link.how.clone()));
    tokio::spawn(tcp_pump(ar, dw, rng.fork(), None, link.cut.clone(), link.how.clone()));
    let mut guard = 0;
    while !h.is_finished() {
        schedule(ctl, rng, 5, st).await;
        guard += 1;
        if guard > 20_000 {
            return None;
        }
    }
    if !h.await.unwrap_or(false) {
        // raw TCP: cannot happen on an accepting listener; TLS: the handshake died with a doomed link -
        // `connect_enc` returned Err(Encryption) and (model: `setupFails` / `okTlsFails`) neither node
        // may get a session out of it
        st.bump("tcp_client_connect_failed");
        let _ = link.cut.send(true);
        return None;
    }
    st.bump("tcp_links");
    Some(link)
}

/// A connect to a port nobody listens on: the real `client_connect` must report the error and the
/// node must not get a session out of it. Returns (reported an error, sessions created).
async fn tcp_refused(ctl: &ractor::verif::Controller, rng: &mut Rng, st: &mut Stats, node: &ActorRef<NodeServerMessage>) -> (bool, usize) {
    // a port that was just free: bind, read the port, close
    let port = {
        let (l, p) = tcpq::listen().expect("probe listener");
        drop(l);
        p
    };
    let before = node.get_children().len();
    let d = node.clone();
    let h = tokio::spawn(async move {
        match real_connect(&d, std::net::Ipv4Addr::LOCALHOST, port).await {
            // the error must be the socket error, and say so
            Err(e) => {
                use std::error::Error;
                #[allow(deprecated)]
                let caused = e.cause().is_some();
                matches!(e, ractor_cluster::node::client::ClientConnectErr::Socket(_)) && format!("{e}").contains("Socket") && caused
            }
            Ok(()) => false,
        }
    });
    let mut guard = 0;
    while !h.is_finished() && guard < 2000 {
        schedule(ctl, rng, 5, st).await;
        guard += 1;
    }
    let err = h.await.unwrap_or(false);
    schedule(ctl, rng, 10_000, st).await;
    (err, node.get_children().len().saturating_sub(before))
}

struct TcpWorld {
    ctl: Arc<ractor::verif::Controller>,
    a: ActorRef<NodeServerMessage>,
    b: ActorRef<NodeServerMessage>,
    ha: ractor::concurrency::JoinHandle<()>,
    hb: ractor::concurrency::JoinHandle<()>,
    port: [u16; 2],
    ev_a: Arc<Mutex<Events>>,
    ev_b: Arc<Mutex<Events>>,
    links: Vec<TcpLink>,
    /// per link: did A dial it
    dialled_by_a: Vec<bool>,
    /// per node: connects to a dead port made / of which returned Err
    refused: [usize; 2],
    refused_errs: [usize; 2],
    /// per node: link numbers of connections the HARNESS made to its listener while the process was
    /// out of file descriptors (accept() failed with EMFILE until the descriptors came back)
    starved: [Vec<u32>; 2],
}

impl TcpWorld {
    async fn new(rng: &mut Rng, st: &mut Stats, na: &str, nb: &str, host: &str) -> Option<TcpWorld> {
        let ctl = ractor::verif::install();
        let p0 = tcpq::listening_ports();
        // one node in two binds 127.0.0.1 explicitly (`with_listen_addr`), the other the default dual-stack socket
        let v4 = Some(std::net::IpAddr::V4(std::net::Ipv4Addr::LOCALHOST));
        let (la, lb) = match rng.below(4) {
            0 => (v4, None),
            1 => (None, v4),
            2 => (v4, v4),
            _ => (None, None),
        };
        let (a, ha, _) = spawn_node_on(&ctl, rng, st, na, host, la).await?;
        let p1 = tcpq::listening_ports();
        let (b, hb, _) = spawn_node_on(&ctl, rng, st, nb, host, lb).await?;
        let p2 = tcpq::listening_ports();
        let pa = *p1.iter().find(|p| !p0.contains(p))?;
        let pb = *p2.iter().find(|p| !p1.contains(p))?;
        let ev_a = Arc::new(Mutex::new(Events::default()));
        let ev_b = Arc::new(Mutex::new(Events::default()));
        a.cast(NodeServerMessage::SubscribeToEvents { id: "v".into(), subscription: Box::new(Sub(ev_a.clone())) }).ok()?;
        b.cast(NodeServerMessage::SubscribeToEvents { id: "v".into(), subscription: Box::new(Sub(ev_b.clone())) }).ok()?;
        schedule(&ctl, rng, 200, st).await;
        Some(TcpWorld { ctl, a, b, ha, hb, port: [pa, pb], ev_a, ev_b, links: Vec::new(), dialled_by_a: Vec::new(), refused: [0; 2], refused_errs: [0; 2], starved: [Vec::new(), Vec::new()] })
    }

    /// connection index `i` dialled by A (`a_dials`) or by B
    async fn open(&mut self, rng: &mut Rng, st: &mut Stats, a_dials: bool, budget: i64, how: CutHow) -> bool {
        let (d, ap) = if a_dials { (self.a.clone(), self.port[1]) } else { (self.b.clone(), self.port[0]) };
        match tcp_link(&self.ctl, rng, st, &d, ap, budget, how).await {
            Some(l) => {
                self.links.push(l);
                self.dialled_by_a.push(a_dials);
                true
            }
            None => false,
        }
    }

    /// `peer_addr` of a session of node A (`side` 0) / B (`side` 1) -> `c<i>`
    fn label(&self, _side: usize, addr: &str) -> String {
        let g = tcpq::link_of(addr);
        match self.links.iter().position(|l| Some(l.g) == g) {
            Some(i) => format!("c{i}"),
            None => format!("c999{}", tcpq::port_of(addr).unwrap_or(0)),
        }
    }

    async fn kept(&self, rng: &mut Rng, st: &mut Stats, side: usize) -> Vec<String> {
        let node = if side == 0 { &self.a } else { &self.b };
        let mut v: Vec<String> = sessions(&self.ctl, rng, st, node).await.iter().map(|s| if s.starts_with('<') { s.clone() } else { self.label(side, s) }).collect();
        v.sort();
        v
    }

    fn ready(&self, side: usize) -> Vec<String> {
        let ev = if side == 0 { &self.ev_a } else { &self.ev_b };
        ev.lock().unwrap().ready.iter().map(|s| self.label(side, s)).collect()
    }

    fn disconnected(&self, side: usize) -> Vec<String> {
        let ev = if side == 0 { &self.ev_a } else { &self.ev_b };
        let mut d: Vec<String> = ev.lock().unwrap().disconnected.iter().map(|s| self.label(side, s)).collect();
        d.sort();
        d
    }

    /// The `lsn` lines (Model/Listener.lean): what was done to node `side`'s listener / through its
    /// `client_connect`, and the sessions it reported opened. `idx[j]` = index of link j.
    fn lsn(&self, side: usize, idx: &[usize], log: &mut Log) {
        let mut acc: Vec<usize> = Vec::new();
        let mut dial: Vec<usize> = Vec::new();
        for (j, by_a) in self.dialled_by_a.iter().enumerate() {
            let i = idx.get(j).copied().unwrap_or(9990 + j);
            if (*by_a && side == 0) || (!*by_a && side == 1) { dial.push(i) } else { acc.push(i) }
        }
        for n in 0..self.starved[side].len() {
            acc.push(500 + n);
        }
        acc.sort_unstable();
        dial.sort_unstable();
        let ev = if side == 0 { &self.ev_a } else { &self.ev_b };
        let mut srv: Vec<usize> = Vec::new();
        let mut cli: Vec<usize> = Vec::new();
        for (addr, is_server) in ev.lock().unwrap().opened.iter() {
            let g = tcpq::link_of(addr);
            let i = match self.links.iter().position(|l| Some(l.g) == g) {
                Some(j) => idx.get(j).copied().unwrap_or(9990 + j),
                None => match self.starved[side].iter().position(|x| Some(*x) == g) {
                    Some(n) => 500 + n,
                    None => 99900,
                },
            };
            if *is_server { srv.push(i) } else { cli.push(i) }
        }
        srv.sort_unstable();
        cli.sort_unstable();
        let f = |v: &[usize]| if v.is_empty() { "-".to_string() } else { v.iter().map(|i| format!("c{i}")).collect::<Vec<_>>().join(",") };
        log.rec(
            format!("lsn {} acc={} dial={} refused={}", if side == 0 { "a" } else { "b" }, f(&acc), f(&dial), self.refused[side]),
            format!("errs={} server={} client={}", self.refused_errs[side], f(&srv), f(&cli)),
        );
    }

    async fn finish(self, rng: &mut Rng, st: &mut Stats) {
        for l in &self.links {
            let _ = l.cut.send(true);
        }
        self.a.stop(None);
        self.b.stop(None);
        schedule(&self.ctl, rng, 200_000, st).await;
        ractor::verif::uninstall();
        // observation (not a clause): is a stopped node's port still bound?
        let still: usize = tcpq::listening_ports().iter().filter(|p| self.port.contains(p)).count();
        st.add("tcp_ports_still_listening_after_node_stop", still as u64);
        self.ha.abort();
        self.hb.abort();
        tcpq::settle().await;
        let still: usize = tcpq::listening_ports().iter().filter(|p| self.port.contains(p)).count();
        st.add("tcp_ports_still_listening_after_join_abort", still as u64);
    }
}

fn fmt_l(v: &[String]) -> String {
    if v.is_empty() { "-".to_string() } else { v.join(",") }
}

/// `e2e` over real TCP: k connections in PRNG directions and order with PRNG scheduling in between;
/// additionally 0-2 DOOMED connections (indices >= k, not part of the op) that are cut - FIN, RST or
/// half-close - after fewer bytes than the first handshake frame, and in one case of three a connect
/// to a dead port first. Same op / observation format as the in-memory case: the oracle needs no change.
async fn tcp_case(log: &mut Log, st: &mut Stats, rng: &mut Rng, case_no: u64) {
    let pool = [("a", "b"), ("b", "a"), ("n1", "n10"), ("x", "Y"), ("node2", "node10")];
    let (na, nb) = *rng.pick(&pool);
    let k = rng.range(1, 4) as usize;
    let dir_mode = rng.below(4);
    let dirs: Vec<bool> = (0..k)
        .map(|_| match dir_mode {
            0 => true,
            1 => false,
            _ => rng.chance(1, 2),
        })
        .collect();
    let host = format!("h{case_no}");
    let Some(mut w) = TcpWorld::new(rng, st, na, nb, &host).await else {
        log.rec(format!("e2e {na} {nb} {k} spawn-stuck"), "error");
        ractor::verif::uninstall();
        return;
    };
    if rng.chance(1, 3) {
        let side = rng.below(2) as usize;
        let node = if side == 0 { w.a.clone() } else { w.b.clone() };
        let (err, made) = tcp_refused(&w.ctl, rng, st, &node).await;
        st.bump("tcp_refused_connects");
        w.refused[side] += 1;
        if err {
            w.refused_errs[side] += 1;
        }
        let _ = made; // a session made out of it shows in the `lsn` line (an opened session of no link)
    }
    if rng.chance(1, 4) {
        // accept() ERRORS on the real listener: a connection waits in the accept queue while the process
        // has no free descriptor (EMFILE); the listener must keep going and accept it once descriptors
        // are back - exactly one server-side session for it (it is closed again before the election part)
        let side = rng.below(2) as usize;
        let g = LINK_NO.fetch_add(1, Ordering::SeqCst);
        if let Ok(sock) = tcpq::dial_from(tcpq::link_ip(g), w.port[side]) {
            let opened_before = (if side == 0 { &w.ev_a } else { &w.ev_b }).lock().unwrap().opened.len();
            if let Some(guard) = tcpq::exhaust_fds() {
                let n = *rng.pick(&[5usize, 40, 200]);
                schedule(&w.ctl, rng, n, st).await;
                let during = (if side == 0 { &w.ev_a } else { &w.ev_b }).lock().unwrap().opened.len();
                if during == opened_before {
                    st.bump("tcp_accept_starved");
                }
                drop(guard);
            }
            schedule(&w.ctl, rng, 400_000, st).await;
            if !tls_mode() {
                w.starved[side].push(g);
            } // TLS: the harness never speaks TLS on it - the acceptor's handshake fails, NO session
            drop(sock);
            schedule(&w.ctl, rng, 400_000, st).await;
            st.bump("tcp_accept_error_phases");
        }
    }
    let mut order: Vec<usize> = (0..k).collect();
    rng.shuffle(&mut order);
    // the real connections first get their indices in `order`; `links[j]` is connection `order[j]`
    let mut opened: Vec<usize> = Vec::new();
    for &i in &order {
        if w.open(rng, st, dirs[i], i64::MAX, CutHow::Fin).await {
            opened.push(i);
        }
        let n = *rng.pick(&[0usize, 3, 10, 40, 400]);
        schedule(&w.ctl, rng, n, st).await;
        if rng.chance(1, 3) {
            // a doomed connection: dies before its first frame is complete
            let how = *rng.pick(&[CutHow::Fin, CutHow::Rst, CutHow::HalfClose]);
            let budget = rng.below(30) as i64;
            let by_a = rng.chance(1, 2);
            if w.open(rng, st, by_a, budget, how).await {
                opened.push(usize::MAX);
                st.bump(match how {
                    CutHow::Fin => "tcp_doomed_fin",
                    CutHow::Rst => "tcp_doomed_rst",
                    CutHow::HalfClose => "tcp_doomed_halfclose",
                });
            }
            let n = *rng.pick(&[0usize, 3, 40]);
            schedule(&w.ctl, rng, n, st).await;
        }
    }
    let quiet = schedule(&w.ctl, rng, 400_000, st).await;
    if !quiet {
        st.bump("not_quiescent");
    }
    // index of link j: the real ones as opened, the doomed ones k, k+1, …
    let mut next_doomed = k;
    let idx: Vec<usize> = opened
        .iter()
        .map(|&i| {
            if i == usize::MAX {
                next_doomed += 1;
                next_doomed - 1
            } else {
                i
            }
        })
        .collect();
    let relabel = |v: Vec<String>| -> Vec<String> {
        v.into_iter()
            .map(|l| match l.strip_prefix('c').and_then(|x| x.parse::<usize>().ok()) {
                Some(j) if j < idx.len() => format!("c{}", idx[j]),
                _ => l,
            })
            .collect()
    };
    let mut sa = relabel(w.kept(rng, st, 0).await);
    let mut sb = relabel(w.kept(rng, st, 1).await);
    sa.sort();
    sb.sort();
    let raw_a = relabel(w.ready(0));
    let raw_b = relabel(w.ready(1));
    let mut ra: Vec<String> = raw_a.iter().filter(|l| sa.contains(l)).cloned().collect();
    let mut rb: Vec<String> = raw_b.iter().filter(|l| sb.contains(l)).cloned().collect();
    ra.sort();
    rb.sort();
    st.add("ready_events", (raw_a.len() + raw_b.len()) as u64);
    if dirs.iter().any(|d| *d) && dirs.iter().any(|d| !*d) {
        st.bump("e2e_both_directions");
    }
    st.bump(&format!("e2e_k{k}"));
    let dirs_s: String = dirs.iter().map(|d| if *d { 'a' } else { 'b' }).collect();
    log.rec(
        format!("e2e {na}@{host} {nb}@{host} {k} {dirs_s}"),
        format!("{}|{}|{}|{}|{}|{}", fmt_l(&sa), fmt_l(&sb), fmt_l(&ra), fmt_l(&rb), fmt_l(&raw_a), fmt_l(&raw_b)),
    );
    w.lsn(0, &idx, log);
    w.lsn(1, &idx, log);
    w.finish(rng, st).await;
}

/// `e2r` over real TCP: the established link dies because the RELAY cuts it at rest - FIN, RST or a
/// half-close (by = which node sees it first is immaterial to the oracle) -, then fresh dials.
async fn tcp_reconnect_case(log: &mut Log, st: &mut Stats, rng: &mut Rng, case_no: u64) {
    let pool = [("a", "b"), ("b", "a"), ("n1", "n10"), ("x", "Y")];
    let (na, nb) = *rng.pick(&pool);
    let host = format!("r{case_no}");
    let k1 = rng.range(1, 3) as usize;
    let k2 = rng.range(1, 3) as usize;
    let dirs: Vec<bool> = (0..k1 + k2).map(|_| rng.chance(1, 2)).collect();
    let how = *rng.pick(&[CutHow::Fin, CutHow::Rst, CutHow::HalfClose]);
    let Some(mut w) = TcpWorld::new(rng, st, na, nb, &host).await else {
        ractor::verif::uninstall();
        return;
    };
    for i in 0..k1 {
        w.open(rng, st, dirs[i], i64::MAX, how).await;
        let n = *rng.pick(&[0usize, 3, 10, 40, 400]);
        schedule(&w.ctl, rng, n, st).await;
    }
    schedule(&w.ctl, rng, 400_000, st).await;
    let s1a = w.kept(rng, st, 0).await;
    let s1b = w.kept(rng, st, 1).await;
    // the surviving link is cut by the relay, at rest (all k1 relays are told; the losers are gone already)
    for l in &w.links {
        let _ = l.cut.send(true);
    }
    st.bump(match how {
        CutHow::Fin => "tcp_cut_fin",
        CutHow::Rst => "tcp_cut_rst",
        CutHow::HalfClose => "tcp_cut_halfclose",
    });
    schedule(&w.ctl, rng, 400_000, st).await;
    let s2a = w.kept(rng, st, 0).await;
    let s2b = w.kept(rng, st, 1).await;
    for i in k1..k1 + k2 {
        w.open(rng, st, dirs[i], i64::MAX, CutHow::Fin).await;
        let n = *rng.pick(&[0usize, 3, 10, 40, 400]);
        schedule(&w.ctl, rng, n, st).await;
    }
    schedule(&w.ctl, rng, 400_000, st).await;
    let s3a = w.kept(rng, st, 0).await;
    let s3b = w.kept(rng, st, 1).await;
    let ready_of = |side: usize, kept: &Vec<String>| {
        let mut r: Vec<String> = w.ready(side).into_iter().filter(|l| kept.contains(l)).collect();
        r.sort();
        r
    };
    st.bump("e2r");
    let ds = |r: std::ops::Range<usize>| -> String { dirs[r].iter().map(|d| if *d { 'a' } else { 'b' }).collect() };
    log.rec(
        format!("e2r {na}@{host} {nb}@{host} {} {} by=a", ds(0..k1), ds(k1..k1 + k2)),
        format!(
            "{}|{} {}|{} {}|{}|{}|{}|{}|{}",
            fmt_l(&s1a), fmt_l(&s1b), fmt_l(&s2a), fmt_l(&s2b), fmt_l(&s3a), fmt_l(&s3b),
            fmt_l(&ready_of(0, &s3a)), fmt_l(&ready_of(1, &s3b)), fmt_l(&w.disconnected(0)), fmt_l(&w.disconnected(1))
        ),
    );
    w.finish(rng, st).await;
}


async fn one_case(log: &mut Log, st: &mut Stats, rng: &mut Rng, case_no: u64) {
    let pool = [("a", "b"), ("b", "a"), ("n1", "n10"), ("x", "Y"), ("node2", "node10")];
    let (na, nb) = *rng.pick(&pool);
    let k = rng.range(1, 4) as usize;
    let dir_mode = rng.below(4);
    let dirs: Vec<bool> = (0..k)
        .map(|_| match dir_mode {
            0 => true,
            1 => false,
            _ => rng.chance(1, 2),
        })
        .collect(); // true = A dialled

    let ctl = ractor::verif::install();
    let host = format!("h{case_no}");
    let spawn_node = |name: &str| {
        Actor::spawn(
            None,
            NodeServer::new(0, "cookie".to_string(), name.to_string(), host.clone(), None, None),
            (),
        )
    };
    // drive the spawn futures: the actor tasks are gated, so run the scheduler alongside
    let fa = tokio::spawn(spawn_node(na));
    let fb = tokio::spawn(spawn_node(nb));
    let mut guard = 0;
    while !(fa.is_finished() && fb.is_finished()) {
        schedule(&ctl, rng, 50, st).await;
        tokio::task::yield_now().await;
        guard += 1;
        if guard > 5000 {
            log.rec(format!("e2e {na} {nb} {k} spawn-stuck"), "error");
            ractor::verif::uninstall();
            return;
        }
    }
    let (a, ha) = fa.await.unwrap().expect("node A");
    let (b, hb) = fb.await.unwrap().expect("node B");
    let ev_a = Arc::new(Mutex::new(Events::default()));
    let ev_b = Arc::new(Mutex::new(Events::default()));
    a.cast(NodeServerMessage::SubscribeToEvents { id: "v".into(), subscription: Box::new(Sub(ev_a.clone())) }).unwrap();
    b.cast(NodeServerMessage::SubscribeToEvents { id: "v".into(), subscription: Box::new(Sub(ev_b.clone())) }).unwrap();
    schedule(&ctl, rng, 200, st).await;

    // open the connections; between openings run a PRNG-chosen number of scheduler steps so
    // that handshakes overlap in every possible way
    let mut order: Vec<usize> = (0..k).collect();
    rng.shuffle(&mut order);
    for i in order {
        let (sa, sb) = tokio::io::duplex(64 * 1024);
        let a_is_server = !dirs[i];
        let first_a = rng.chance(1, 2);
        let open_a = NodeServerMessage::ConnectionOpenedExternal {
            stream: Box::new(Duplex { stream: sa, label: format!("c{i}") }),
            is_server: a_is_server,
        };
        let open_b = NodeServerMessage::ConnectionOpenedExternal {
            stream: Box::new(Duplex { stream: sb, label: format!("c{i}") }),
            is_server: !a_is_server,
        };
        if first_a {
            a.cast(open_a).unwrap();
            let n = rng.below(12) as usize;
            schedule(&ctl, rng, n, st).await;
            b.cast(open_b).unwrap();
        } else {
            b.cast(open_b).unwrap();
            let n = rng.below(12) as usize;
            schedule(&ctl, rng, n, st).await;
            a.cast(open_a).unwrap();
        }
        let n = *rng.pick(&[0usize, 3, 10, 40, 400]);
        schedule(&ctl, rng, n, st).await;
    }
    let quiet = schedule(&ctl, rng, 200_000, st).await;
    if !quiet {
        st.bump("not_quiescent");
    }
    let sa = sessions(&ctl, rng, st, &a).await;
    let sb = sessions(&ctl, rng, st, &b).await;
    let alive_ready = |ev: &Arc<Mutex<Events>>, kept: &Vec<String>| {
        let e = ev.lock().unwrap();
        // NO de-duplication: a session reported ready twice shows up twice
        let mut r: Vec<String> = e.ready.iter().filter(|l| kept.contains(l)).cloned().collect();
        r.sort();
        (r, e.ready.len())
    };
    let (ra, nra) = alive_ready(&ev_a, &sa);
    let (rb, nrb) = alive_ready(&ev_b, &sb);
    // the raw event streams, in order of arrival (ready events of sessions closed since included)
    let (raw_a, raw_b) = (ev_a.lock().unwrap().ready.clone(), ev_b.lock().unwrap().ready.clone());
    st.add("ready_events", (nra + nrb) as u64);
    if dirs.iter().any(|d| *d) && dirs.iter().any(|d| !*d) {
        st.bump("e2e_both_directions");
    }
    st.bump(&format!("e2e_k{k}"));
    let dirs_s: String = dirs.iter().map(|d| if *d { 'a' } else { 'b' }).collect();
    let fmt = |v: &Vec<String>| if v.is_empty() { "-".to_string() } else { v.join(",") };
    log.rec(
        format!("e2e {na}@{host} {nb}@{host} {k} {dirs_s}"),
        format!("{}|{}|{}|{}|{}|{}", fmt(&sa), fmt(&sb), fmt(&ra), fmt(&rb), fmt(&raw_a), fmt(&raw_b)),
    );

    // tear down: stop both nodes and let everything run to completion
    a.stop(None);
    b.stop(None);
    schedule(&ctl, rng, 200_000, st).await;
    ractor::verif::uninstall();
    ha.abort();
    hb.abort();
}

#[tokio::main(flavor = "current_thread", start_paused = true)]
async fn main() {
    let args = Args::parse();
    let seed = args.u64("seed", 1);
    let cases = args.u64("cases", 40);
    let out = args.str("out", "/tmp/c18e2e");
    let mut rng = Rng::new(seed);
    let mut log = Log::create(std::path::Path::new(&out)).unwrap();
    let mut st = Stats::default();
    let tcp = args.u64("tcp", 0) == 1;
    TCP.store(tcp, Ordering::Relaxed);
    TLS.store(tcp && args.u64("tls", 0) == 1, Ordering::Relaxed);
    tcpq::STRICT.store(tcp, Ordering::Relaxed);
    for c in 0..cases {
        if tcp {
            tcp_case(&mut log, &mut st, &mut rng, c).await;
            if c % 5 == 3 {
                tcp_reconnect_case(&mut log, &mut st, &mut rng, c).await;
            }
            continue;
        }
        one_case(&mut log, &mut st, &mut rng, c).await;
        if c % 10 == 7 {
            timeout_case(&mut log, &mut st, &mut rng, c).await;
        }
        if c % 10 == 3 {
            reconnect_case(&mut log, &mut st, &mut rng, c).await;
        }
    }
    if tcp {
        tcpq::stats(&mut st);
    }
    st.add("lines", log.lines);
    st.write_json(&std::path::Path::new(&out).join("stats.json"));
    log.finish();
}
