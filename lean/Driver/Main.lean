import Driver.Common
import Driver.C18
import Driver.Life
import Driver.C09
import Driver.C08
import Driver.Registry
import Driver.C16
import Driver.C20

def main (args : List String) : IO UInt32 := do
  match args with
  | [model, opsPath, implPath] =>
    let ops ← Driver.readLines opsPath
    let impl ← Driver.readLines implPath
    let t ← match model with
      | "c18" => Driver.C18.run ops impl
      | "life-c01" => Driver.LifeDrv.run .c01 ops impl
      | "life-c03" => Driver.LifeDrv.run .c03 ops impl
      | "life-c04" => Driver.LifeDrv.run .c04 ops impl
      | "life-residue" => Driver.LifeDrv.run .residue ops impl
      | "c09" => Driver.C09.run ops impl
      | "c08" => Driver.C08.run ops impl
      | "registry" => Driver.Registry.run ops impl
      | "c16" => Driver.C16.run ops impl
      | "c20" => Driver.C20.run ops impl
      | _ => do IO.eprintln s!"unknown model {model}"; return 2
    return (if t.diffs == 0 && t.oracleFails == 0 then 0 else 1)
  | _ =>
    IO.eprintln "usage: driver <model> <ops-file> <impl-file>"
    return 2
