import Driver.Common
import Driver.C18
import Driver.Life
import Driver.C09
import Driver.C09Pure
import Driver.CallRace
import Driver.Boxing
import Driver.C08
import Driver.SpawnClean
import Driver.Early
import Driver.EarlyStep
import Driver.Registry
import Driver.Reg2
import Driver.PidRegistry
import Driver.Pg
import Driver.C16
import Driver.C20
import Driver.C12
import Driver.C05
import Driver.TreeMx
import Driver.Admission
import Driver.ExitRace
import Driver.C19
import Driver.C17
import Driver.LeakyBucket
import Driver.Factory
import Driver.Heartbeat

def main (args : List String) : IO UInt32 := do
  match args with
  | [model, opsPath, implPath] =>
    let ops ← Driver.readLines opsPath
    let impl ← Driver.readLines implPath
    let t ← match model with
      | "c18" => Driver.C18.run ops impl
      | "life-c01" => Driver.LifeDrv.run .c01 ops impl
      | "life-c03" => Driver.LifeDrv.run .c03 ops impl
      | "life-c04" => Driver.LifeDrv.run .c04 ops impl
      | "life-residue" => Driver.LifeDrv.run .residue ops impl
      | "life-c02" => Driver.LifeDrv.run .c02 ops impl
      | "c09" => Driver.C09.run ops impl
      | "c09pure" => Driver.C09Pure.run ops impl
      | "c09race" => Driver.CallRaceD.run ops impl
      | "c02-rpc" => Driver.C09.runC02 ops impl
      | "c02-box" => Driver.BoxingD.run ops impl
      | "c08" => Driver.C08.run ops impl
      | "c08-clean" => Driver.SpawnCleanD.run ops impl
      | "c07-early" => Driver.EarlyD.run ops impl
      | "c07-earlystep" => Driver.EarlyStepD.run ops impl
      | "registry" => Driver.Registry.run ops impl
      | "reg2" => Driver.Reg2D.run ops impl
      | "pidreg" => Driver.PidRegistry.run ops impl
      | "pg" => Driver.Pg.run ops impl
      | "c16" => Driver.C16.run ops impl
      | "c20" => Driver.C20.run ops impl
      | "c12" => Driver.C12.run ops impl
      | "c12-free" => Driver.C12.runFree ops impl
      | "c05" => Driver.C05.run ops impl
      | "c07-tree" => Driver.C05.runC07 ops impl
      | "c05-mx" => Driver.TreeMx.run ops impl
      | "admission" => Driver.Admission.run ops impl
      | "exitrace" => Driver.ExitRace.run ops impl
      | "c19" => Driver.C19.run ops impl
      | "c17" => Driver.C17.run ops impl
      | "leakybucket" => Driver.LeakyBucket.run ops impl
      | "heartbeat" => Driver.HeartbeatD.run ops impl
      | "factory" => Driver.Factory.run "" ops impl
      | "factory-c13" => Driver.Factory.run "c13-" ops impl
      | "factory-c14" => Driver.Factory.run "c14-" ops impl
      | "factory-c15" => Driver.Factory.run "c15-" ops impl
      | _ => do IO.eprintln s!"unknown model {model}"; return 2
    return (if t.diffs == 0 && t.oracleFails == 0 then 0 else 1)
  | _ =>
    IO.eprintln "usage: driver <model> <ops-file> <impl-file>"
    return 2
