import RactorModel.Generated.LeakyBucket
import RactorModel.Model.LeakyBucket

/-!
# GenLeakyBucket — abstraction from the `LeakyBucketRateLimiter` structure `rs2lean` generates
from `ractor/src/factory/ratelim.rs` to the model's static `Cfg` + dynamic `LB`.
-/

namespace GenLeakyBucket
open Generated.LeakyBucket

def absCfg (instLim : Nat) (s : LeakyBucketRateLimiter) : LeakyBucket.Cfg := ⟨s.refill, s.interval, s.max, instLim⟩
def absLB (s : LeakyBucketRateLimiter) : LeakyBucket.LB := ⟨s.balance, s.deadline⟩
def conc (c : LeakyBucket.Cfg) (s : LeakyBucket.LB) : LeakyBucketRateLimiter := ⟨c.refill, c.interval, c.max, s.balance, s.deadline⟩

theorem abs_conc (c : LeakyBucket.Cfg) (s : LeakyBucket.LB) :
    absCfg c.instLim (conc c s) = c ∧ absLB (conc c s) = s := ⟨rfl, rfl⟩

/-- `Duration::new(r / 10^9, r % 10^9)` rebuilds `r` when the seconds fit in `u64`. -/
theorem split_nanos (r : Nat) (h : r < 2 ^ 64 * 1000000000) :
    Option.getD (Rust.tryFrom 64 (r / 1000000000)) 18446744073709551615 * 1000000000
      + Option.getD (Rust.tryFrom 32 (r % 1000000000)) 4294967295 = r := by
  have h1 : r / 1000000000 < 2 ^ 64 := by omega
  have h2 : r % 1000000000 < 2 ^ 32 := by omega
  simp only [Rust.tryFrom, h1, h2, ↓reduceIte, Option.getD_some]
  omega

theorem periods_eq (q : Nat) (h : q + 1 < 2 ^ 128) :
    Option.getD (Rust.tryFrom 64 (Rust.satAdd 128 q 1)) 18446744073709551615 = min (q + 1) LeakyBucket.USIZE_MAX := by
  have : Rust.satAdd 128 q 1 = q + 1 := by unfold Rust.satAdd; omega
  rw [this]
  unfold Rust.tryFrom LeakyBucket.USIZE_MAX
  split <;> simp <;> omega

end GenLeakyBucket
