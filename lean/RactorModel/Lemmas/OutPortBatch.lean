import RactorModel.Lemmas.OutPortV2Acct

/-!
The one-send-per-step port task, run through a whole batch without interference, computes
the closed-form `dispatchBatch` (the three nested loops of `dispatch_batch`).
-/

namespace OutPort
variable {M O : Type}

theorem steps_add (a b : Nat) (st : V2 M O) :
    V2.steps (a + b) st = ((V2.steps b (V2.steps a st).1).1, (V2.steps a st).2 ++ (V2.steps b (V2.steps a st).1).2) := by
  induction a generalizing st with
  | zero => simp [V2.steps]
  | succ a ih =>
    rw [Nat.succ_add]
    simp only [V2.steps]
    rw [ih]
    simp [List.append_assoc]

/-- if `st` reaches `st'` making calls `cs`, and `st'` reaches `st''` making `cs'`, then … -/
theorem steps_trans {st st' st'' : V2 M O} {cs cs' : List (Call M)}
    (h1 : ∃ n, V2.steps n st = (st', cs)) (h2 : ∃ n, V2.steps n st' = (st'', cs')) :
    ∃ n, V2.steps n st = (st'', cs ++ cs') := by
  obtain ⟨a, ha⟩ := h1
  obtain ⟨b, hb⟩ := h2
  exact ⟨a + b, by rw [steps_add, ha]; simp [hb]⟩

theorem steps_one {st : V2 M O} : ∃ n, V2.steps n st = (st.task.1, st.task.2.toList) :=
  ⟨1, by simp [V2.steps]⟩

/-- inner loop: serving one subscriber with what is left of the segment -/
theorem steps_sendSeg (left : List M) : ∀ (st : V2 M O) (srv todo : List (Sub M O)) (s : Sub M O) (seg : List M)
    (rest : List (Cmd M O)), st.pc = .disp srv (s :: todo) seg left rest →
    ∃ n, V2.steps n st =
      ({ st with pc := if (sendSeg st.dead s left).2.1 then .disp (srv ++ [(sendSeg st.dead s left).1]) todo seg seg rest
                       else .disp srv todo seg seg rest,
                 gone := if (sendSeg st.dead s left).2.1 then st.gone else st.gone ++ [(sendSeg st.dead s left).1] },
       (sendSeg st.dead s left).2.2) := by
  induction left with
  | nil =>
    intro st srv todo s seg rest hpc
    refine ⟨1, ?_⟩
    simp [V2.steps, V2.task, hpc, sendSeg]
  | cons m ms ih =>
    intro st srv todo s seg rest hpc
    cases hc : s.conv m with
    | none =>
      cases hd : st.dead.contains s.actor with
      | true =>
        have hd' : s.actor ∈ st.dead := by simpa using hd
        refine ⟨1, ?_⟩
        simp [V2.steps, V2.task, hpc, hc, hd', sendSeg]
      | false =>
      have hd' : s.actor ∉ st.dead := by simpa using hd
      have h1 : st.task = ({ st with pc := .disp srv ({ s with offered := s.offered ++ [m] } :: todo) seg ms rest },
          some ⟨s.key, m, true⟩) := by simp [V2.task, hpc, hc, hd']
      have h2 := ih { st with pc := .disp srv ({ s with offered := s.offered ++ [m] } :: todo) seg ms rest }
        srv todo { s with offered := s.offered ++ [m] } seg rest rfl
      have := steps_trans (steps_one (st := st)) (by rw [h1]; exact h2)
      simpa [h1, sendSeg, hc, hd'] using this
    | some o =>
      cases hd : st.dead.contains s.actor with
      | true =>
        have hd' : s.actor ∈ st.dead := by simpa using hd
        refine ⟨1, ?_⟩
        simp [V2.steps, V2.task, hpc, hc, hd', sendSeg]
      | false =>
        have hd' : s.actor ∉ st.dead := by simpa using hd
        let s' : Sub M O := { s with offered := s.offered ++ [m], got := s.got ++ [o] }
        have h1 : st.task = ({ st with pc := .disp srv (s' :: todo) seg ms rest }, some ⟨s.key, m, true⟩) := by
          simp [V2.task, hpc, hc, hd', s']
        have h2 := ih { st with pc := .disp srv (s' :: todo) seg ms rest } srv todo s' seg rest rfl
        have := steps_trans (steps_one (st := st)) (by rw [h1]; exact h2)
        simpa [h1, sendSeg, hc, hd', s'] using this

/-- middle loop: serving every remaining subscriber with the segment -/
theorem steps_dispatchSeg (todo : List (Sub M O)) : ∀ (st : V2 M O) (srv : List (Sub M O)) (seg : List M)
    (rest : List (Cmd M O)), st.pc = .disp srv todo seg seg rest →
    ∃ n, V2.steps n st =
      ({ st with pc := .disp (srv ++ (dispatchSeg st.dead seg todo).1) [] seg seg rest,
                 gone := st.gone ++ (dispatchSeg st.dead seg todo).2.1 },
       (dispatchSeg st.dead seg todo).2.2) := by
  induction todo with
  | nil =>
    intro st srv seg rest hpc
    refine ⟨0, ?_⟩
    simp only [V2.steps, dispatchSeg, List.append_nil]
    rw [← hpc]
  | cons s t ih =>
    intro st srv seg rest hpc
    have h1 := steps_sendSeg seg st srv t s seg rest hpc
    cases hk : (sendSeg st.dead s seg).2.1 with
    | true =>
      simp only [hk, ↓reduceIte] at h1
      have h2 := ih { st with pc := .disp (srv ++ [(sendSeg st.dead s seg).1]) t seg seg rest }
        (srv ++ [(sendSeg st.dead s seg).1]) seg rest rfl
      have := steps_trans h1 h2
      simpa [dispatchSeg, hk, List.append_assoc] using this
    | false =>
      simp only [hk, Bool.false_eq_true, ↓reduceIte] at h1
      have h2 := ih { st with pc := .disp srv t seg seg rest, gone := st.gone ++ [(sendSeg st.dead s seg).1] }
        srv seg rest rfl
      have := steps_trans h1 h2
      simpa [dispatchSeg, hk, List.append_assoc] using this

theorem spanData_shape (r : List (Cmd M O)) :
    (spanData r).2 = [] ∨ ∃ s' r', (spanData r).2 = .sub s' :: r' := by
  induction r with
  | nil => left; rfl
  | cons c r' ihr =>
    cases c with
    | data m => simpa [spanData] using ihr
    | sub s' => right; exact ⟨s', r', by simp [spanData]⟩

theorem dispatchBatch_acc (ad : Bool) (dead : List Nat) (subs gone : List (Sub M O)) (acc seg : List M)
    (rest : List (Cmd M O)) :
    dispatchBatch ad dead subs gone acc (seg.map Cmd.data ++ rest) = dispatchBatch ad dead subs gone (acc ++ seg) rest := by
  induction seg generalizing acc with
  | nil => simp
  | cons m seg ih =>
    simp only [List.map_cons, List.cons_append, dispatchBatch]
    rw [ih]; simp

/-- outer loop: from the start of a segment to the end of the batch -/
theorem steps_dispatchBatch (k : Nat) : ∀ (rest : List (Cmd M O)), rest.length ≤ k →
    ∀ (st : V2 M O) (subs : List (Sub M O)) (seg : List M), st.pc = .disp [] subs seg seg rest →
    (rest = [] ∨ ∃ s r, rest = .sub s :: r) →
    ∃ n, V2.steps n st =
      ({ st with pc := .top (dispatchBatch st.allowDup st.dead subs st.gone seg rest).1,
                 gone := (dispatchBatch st.allowDup st.dead subs st.gone seg rest).2.1 },
       (dispatchBatch st.allowDup st.dead subs st.gone seg rest).2.2) := by
  induction k with
  | zero =>
    intro rest hk st subs seg hpc _
    have hr : rest = [] := List.length_eq_zero_iff.mp (Nat.le_zero.mp hk)
    subst hr
    have h1 := steps_dispatchSeg subs st [] seg [] hpc
    simp only [List.nil_append] at h1
    -- one more step: `nextSeg … [] = top`
    have h2 : ∃ n, V2.steps n { st with pc := .disp (dispatchSeg st.dead seg subs).1 [] seg seg [],
                                        gone := st.gone ++ (dispatchSeg st.dead seg subs).2.1 } =
        ({ st with pc := .top (dispatchSeg st.dead seg subs).1, gone := st.gone ++ (dispatchSeg st.dead seg subs).2.1 }, []) :=
      ⟨1, by simp [V2.steps, V2.task, nextSeg]⟩
    have := steps_trans h1 h2
    simpa [dispatchBatch] using this
  | succ k ih =>
    intro rest hk st subs seg hpc hshape
    rcases hshape with rfl | ⟨s, r, rfl⟩
    · exact ih [] (by simp) st subs seg hpc (Or.inl rfl)
    · have h1 := steps_dispatchSeg subs st [] seg (.sub s :: r) hpc
      simp only [List.nil_append] at h1
      -- the `SetSubscriber` entry is applied and the next segment starts
      rcases hsp : spanData r with ⟨seg', rest'⟩
      have hr := spanData_eq' hsp
      have hshape' : rest' = [] ∨ ∃ s' r', rest' = .sub s' :: r' := by
        have := spanData_shape r
        rw [hsp] at this; exact this
      have hlen : rest'.length ≤ k := by
        have := spanData_snd_length r
        rw [hsp] at this
        simp only [List.length_cons] at hk
        simp only at this
        omega
      let st1 : V2 M O := { st with pc := .disp (dispatchSeg st.dead seg subs).1 [] seg seg (.sub s :: r),
                                    gone := st.gone ++ (dispatchSeg st.dead seg subs).2.1 }
      let a := applySub st.allowDup (dispatchSeg st.dead seg subs).1 s
      let st2 : V2 M O := { st with pc := .disp [] a.1 seg' seg' rest',
                                    gone := st.gone ++ (dispatchSeg st.dead seg subs).2.1 ++ a.2.toList }
      have h2 : ∃ n, V2.steps n st1 = (st2, []) :=
        ⟨1, by simp [V2.steps, V2.task, nextSeg, hsp, st1, st2, a]⟩
      have h3 := ih rest' hlen st2 a.1 seg' rfl hshape'
      have := steps_trans (steps_trans h1 h2) h3
      simp only [List.append_nil] at this
      have hb : ∀ g, dispatchBatch st.allowDup st.dead a.1 g [] r =
          dispatchBatch st.allowDup st.dead a.1 g seg' rest' := by
        intro g; rw [hr, dispatchBatch_acc]; simp
      simpa [dispatchBatch, hb, st2, a, List.append_assoc] using this

theorem sendSeg_nil (dead : List Nat) (s : Sub M O) : sendSeg dead s [] = (s, true, []) := rfl

theorem dispatchSeg_nil_seg (dead : List Nat) (subs : List (Sub M O)) :
    dispatchSeg dead [] subs = (subs, [], []) := by
  induction subs with
  | nil => rfl
  | cons s t ih => simp [dispatchSeg, sendSeg_nil, ih]

/-- From the moment the port task has taken `batch` out of the channel to the moment it is
back at the top of its loop it performs exactly `dispatchBatch`, provided the set of dead
subscribers does not change meanwhile. -/
theorem task_runs_dispatchBatch (st : V2 M O) (subs : List (Sub M O)) (batch : List (Cmd M O)) :
    ∃ n, V2.steps n { st with pc := (nextSeg st.allowDup subs st.gone batch).1,
                              gone := (nextSeg st.allowDup subs st.gone batch).2 } =
      ({ st with pc := .top (dispatchBatch st.allowDup st.dead subs st.gone [] batch).1,
                 gone := (dispatchBatch st.allowDup st.dead subs st.gone [] batch).2.1 },
       (dispatchBatch st.allowDup st.dead subs st.gone [] batch).2.2) := by
  cases batch with
  | nil =>
    refine ⟨0, ?_⟩
    simp [V2.steps, nextSeg, dispatchBatch, dispatchSeg_nil_seg]
  | cons c r =>
    cases c with
    | data m =>
      rcases hsp : spanData (Cmd.data m :: r) with ⟨seg, rest⟩
      have hr := spanData_eq' hsp
      have hshape : rest = [] ∨ ∃ s' r', rest = .sub s' :: r' := by
        have := spanData_shape (Cmd.data m :: r); rw [hsp] at this; exact this
      have := steps_dispatchBatch rest.length rest (Nat.le_refl _)
        { st with pc := .disp [] subs seg seg rest } subs seg rfl hshape
      have hb : dispatchBatch st.allowDup st.dead subs st.gone [] (Cmd.data m :: r) =
          dispatchBatch st.allowDup st.dead subs st.gone seg rest := by
        rw [hr, dispatchBatch_acc]; simp
      simpa [nextSeg, hsp, hb] using this
    | sub s =>
      rcases hsp : spanData r with ⟨seg, rest⟩
      have hr := spanData_eq' hsp
      have hshape : rest = [] ∨ ∃ s' r', rest = .sub s' :: r' := by
        have := spanData_shape r; rw [hsp] at this; exact this
      have := steps_dispatchBatch rest.length rest (Nat.le_refl _)
        { st with pc := .disp [] (applySub st.allowDup subs s).1 seg seg rest,
                  gone := st.gone ++ (applySub st.allowDup subs s).2.toList }
        (applySub st.allowDup subs s).1 seg rfl hshape
      have hb : ∀ g, dispatchBatch st.allowDup st.dead (applySub st.allowDup subs s).1 g [] r =
          dispatchBatch st.allowDup st.dead (applySub st.allowDup subs s).1 g seg rest := by
        intro g; rw [hr, dispatchBatch_acc]; simp
      simpa [nextSeg, hsp, dispatchBatch, dispatchSeg_nil_seg, hb] using this

end OutPort
