import RactorModel.Lemmas.RegistryView

/-!
# C10 — a name maps to at most one live actor and is released on exit

Property theorems only. Model: `Model/Registry.lean` (one op = one atomic region of the real
code between two schedule points, so an op list is an arbitrary interleaving of any number of
threads); lemmas: `Lemmas/Registry.lean`, `Lemmas/RegistryView.lean`.

`step false` is the code after the `fix:` commit (finding F2 repaired), `step true` the
behaviour before it; the legacy statements are kept so that the history of the finding stays
machine-checked: negation on a witness, `_partial` under `noNamedRemoteProxy`.
-/

namespace C10
open Registry

/-- Every state the (repaired) code can reach, under every interleaving, satisfies the
observable predicate `Registry.ok` — the predicate the driver evaluates on the real
implementation after every step: one entry per name; whoever `where_is` returns registered
that name, is local and is not `Stopped`; every successfully spawned local actor that has not
begun to stop is found under its name (no foreign unregister removed it); at most one live
actor per name; the same for the pid table. -/
theorem ok_reachable (ops : List Op) : ok (view (run false init ops)) = true :=
  ok_of_inv (inv_run (inv_init false) ops) (fun h => by cases h)

/-- (i) atomic `entry`: a registration by a fresh cell succeeds iff the name is vacant … -/
theorem register_ok_iff_vacant (l : Bool) (s : State) (a n : Nat) :
    (step l s (.register a n)).2 = .ok ↔ (fresh s a = true ∧ whereIs s n = none) := by
  simp only [step]
  by_cases hf : fresh s a = true <;> by_cases hw : (whereIs s n).isSome = true <;>
    simp_all [Option.isSome_iff_ne_none]

/-- … and a failed one (`AlreadyRegistered`) changes nothing at all (frame lemma). -/
theorem register_dup_frame (l : Bool) (s : State) (a n : Nat)
    (h : (step l s (.register a n)).2 ≠ .ok) : (step l s (.register a n)).1 = s := by
  simp only [step] at h ⊢
  by_cases hf : fresh s a = true <;> by_cases hw : (whereIs s n).isSome = true <;> simp_all

/-- … and it has no side effect on the pid table's listeners either: no `PidLifecycleEvent`
(`Spawn`/`Terminate`) is broadcast for the rejected cell (cluster builds). -/
theorem register_dup_no_pid_events (l : Bool) (s : State) (a n : Nat)
    (h : (step l s (.register a n)).2 ≠ .ok) : pidEvents s (.register a n) = [] := by
  simp only [step] at h
  simp only [pidEvents]
  by_cases hf : fresh s a = true <;> by_cases hw : (whereIs s n).isSome = true <;>
    simp_all [Option.isSome_iff_ne_none]

/-- Every pid lifecycle event ever broadcast, in any run, concerns a local actor that was really
created (registered successfully or unnamed) — never a rejected cell, never a remote proxy. -/
theorem pid_events_sound (l : Bool) (ops : List Op) (e : Bool × Nat) (he : e ∈ runEvents l init ops) :
    ∃ x ∈ (run l init ops).actors, x.id = e.2 ∧ x.remote = false :=
  runEvents_actor l ops init e he

/-- (i) Of any set of same-name registrations racing between two exits (no unregister step in
the segment) at most one succeeds, and none if the name was taken at the start — for every
start state, any number of threads and every interleaving. -/
theorem at_most_one_winner (l : Bool) (s : State) (ops : List Op) (n : Nat)
    (hu : ∀ op ∈ ops, isUnreg op = false) :
    ((trace l s ops).filter (isWin n)).length + occ s n ≤ 1 := by
  have := winners_count l n ops s hu
  have : occ (run l s ops) n ≤ 1 := by unfold occ; split <;> omega
  omega

/-- (i) … and exactly one succeeds when the name was vacant and at least one attempt ran. -/
theorem exactly_one_winner (l : Bool) (s : State) (ops : List Op) (n : Nat)
    (hu : ∀ op ∈ ops, isUnreg op = false) (hvac : whereIs s n = none)
    (hatt : ∃ e ∈ trace l s ops, isAttempt n e = true) :
    ((trace l s ops).filter (isWin n)).length = 1 := by
  have hc := winners_count l n ops s hu
  have h0 : occ s n = 0 := by simp [occ, hvac]
  suffices occ (run l s ops) n = 1 by omega
  clear hc h0 hvac
  induction ops generalizing s with
  | nil => simp [trace] at hatt
  | cons op ops ih =>
    obtain ⟨e, he, hatt⟩ := hatt
    simp only [trace, List.mem_cons] at he
    have hu' : ∀ o ∈ ops, isUnreg o = false := fun o ho => hu o (by simp [ho])
    rcases he with rfl | he
    · have h1 := attempt_occ l s op n hatt
      have h2 := occ_mono l n ops (step l s op).1 hu'
      have : occ (run l (step l s op).1 ops) n ≤ 1 := by unfold occ; split <;> omega
      simp only [run]; omega
    · exact ih (step l s op).1 hu' ⟨e, he, hatt⟩

/-- (ii) `where_is n = some a` ⇒ `a` is a local actor that registered `n` and has not yet
executed its unregister step (`pc < 3`), hence is not `Stopped`: it is never an actor whose
`wait()` has returned. Holds before and after the fix. -/
theorem whereIs_sound (l : Bool) (ops : List Op) (n a : Nat)
    (h : whereIs (run l init ops) n = some a) :
    ∃ x ∈ (run l init ops).actors, x.id = a ∧ x.name = some n ∧ x.remote = false ∧ x.pc < 3 ∧
      x.status < stopped := by
  have hi := inv_run (inv_init l) ops
  obtain ⟨x, hx, h1, h2, h3, h4⟩ := hi.holder _ (whereIs_mem h)
  exact ⟨x, hx, h1, h2, h3, h4, status_lt_stopped_of_pc hi hx h4⟩

/-- (ii) an actor whose `wait()` can return (status `Stopped`) is found under no name. -/
theorem waited_not_found (l : Bool) (ops : List Op) (a : Nat)
    (h : (step l (run l init ops) (.waitRet a)).2 = .ok) (n : Nat) :
    whereIs (run l init ops) n ≠ some a := by
  intro hw
  obtain ⟨x, hx, h1, _, _, _, h5⟩ := whereIs_sound l ops n a hw
  have hi := inv_run (inv_init l) ops
  have hg : getA (run l init ops) a = some x := by
    cases hg : getA (run l init ops) a with
    | none =>
      have hfr : fresh (run l init ops) a = true := by simp [fresh, hg]
      have := fresh_iff.mp hfr x hx
      exact absurd h1 this
    | some y =>
      obtain ⟨hy, hya⟩ := getA_some hg
      rw [id_inj hi.ids hx hy (h1.trans hya.symm)]
  simp only [step, statusOf, hg, Option.map_some, Option.getD_some] at h
  split at h
  · omega
  · cases h

/-- (ii) release: once every local actor that ever carried the name `n` has finished its
exit (status `Stopped` — what `wait()` waits for), the name is vacant and the next spawn
under `n` succeeds. -/
theorem name_free_after_exit (ops : List Op) (n b : Nat)
    (hall : ∀ x ∈ (run false init ops).actors, x.name = some n → x.remote = true ∨ x.status = stopped)
    (hb : fresh (run false init ops) b = true) :
    (step false (run false init ops) (.register b n)).2 = .ok := by
  rw [register_ok_iff_vacant]
  refine ⟨hb, ?_⟩
  cases hw : whereIs (run false init ops) n with
  | none => rfl
  | some a =>
    obtain ⟨x, hx, _, h2, h3, _, h5⟩ := whereIs_sound false ops n a hw
    rcases hall x hx h2 with h | h
    · rw [h3] at h; cases h
    · omega

/-- (iii) FULL STATEMENT (true of the repaired code): no unregister step — of any actor,
local or remote proxy, in any state the code can reach — removes an entry that belongs to
somebody else. -/
theorem no_stale_unregister (ops : List Op) (a n b : Nat)
    (hw : whereIs (run false init ops) n = some b) (hne : b ≠ a) :
    whereIs (step false (run false init ops) (.unregName a)).1 n = some b := by
  have hi := inv_run (inv_init false) ops
  have hi' : Inv false (step false (run false init ops) (.unregName a)).1 := inv_step hi _
  generalize run false init ops = s at *
  apply whereIs_some_of_mem hi'.keys
  have hmem := whereIs_mem hw
  simp only [step]
  cases hg : getA s a with
  | none => exact hmem
  | some x0 =>
    simp only
    split
    · exact hmem
    · next hpc =>
      obtain ⟨hx0, hid⟩ := getA_some hg
      simp only [setA_names]
      split
      · next m hm =>
        simp only [Bool.false_or]
        split
        · next hloc =>
          refine mem_removeName.mpr ⟨hmem, ?_⟩
          show n ≠ m
          intro e; subst e
          have hin0 := hi.visible (fun h => by cases h) x0 hx0 (by simpa using hloc) n hm (by omega)
          exact hne ((key_unique hi.keys hmem hin0).trans hid)
        · exact hmem
      · exact hmem

/-- (iii) is FALSE of the code before the fix (finding F2). Witness: local actor 0 spawns as
name 7; a `RemoteActor` proxy 1 is created for a peer actor that is also called 7 (it is never
registered); the proxy stops. Afterwards actor 0 is `Running` but `where_is 7 = none`. -/
def f2Witness : List Op := spawnNamedOps 0 7 ++ spawnProxyOps 1 (some 7) ++ exitOps 1

theorem stale_unregister_legacy :
    whereIs (run true init (spawnNamedOps 0 7 ++ spawnProxyOps 1 (some 7))) 7 = some 0 ∧
    whereIs (run true init f2Witness) 7 = none ∧
    statusOf (run true init f2Witness) 0 = 2 ∧
    ok (view (run true init f2Witness)) = false ∧
    failing (view (run true init f2Witness)) = ["live-actor-lost-its-name"] := by
  decide

/-- (iii) `_partial` for the legacy code: the property holds on every run in which no remote
proxy is created with a name. -/
theorem ok_reachable_legacy_partial (ops : List Op) (h : noNamedRemoteProxy ops = true) :
    ok (view (run true init ops)) = true :=
  ok_of_inv (inv_run (inv_init true) ops)
    (fun _ => noNamedProxy_run true ops init (by simp [noNamedProxy, init]) h)

/-- A late `drain()` on an actor that has begun to stop changes nothing at all: the status word is
not rewound (seeded changes C10-4 / C11-4 break exactly this), so the lifecycle guard's final
`set_status(Stopping)` is not a first transition and the cleanup block is not run again. -/
theorem late_drain_is_noop (l : Bool) (s : State) (a : Nat) (x : Actor) (hg : getA s a = some x)
    (h : x.status ≥ stopping) : step l s (.drain a) = (s, .ok) := by
  simp only [step, hg]
  rw [if_neg]
  intro c; omega

/-- Nothing that can be done through a stale reference to an exiting actor touches either table
or any actor: in particular the names of the live actors stay where they are. -/
theorem exiting_actor_env_frame (l : Bool) (s : State) (a : Nat) (x : Actor) (hg : getA s a = some x)
    (h : x.status ≥ stopping) (op : Op) (hop : isStaleRefOp a op = true) : (step l s op).1 = s := by
  cases op with
  | drain b =>
    simp only [isStaleRefOp, beq_iff_eq] at hop
    subst hop
    rw [late_drain_is_noop l s b x hg h]
  | lookup n => rfl
  | lookupPid b => rfl
  | waitRet b => rfl
  | _ => simp [isStaleRefOp] at hop

/-- …and `drain()` on a live actor only moves its status word (to `Draining`): both tables and the
cleanup election are as before. -/
theorem drain_keeps_tables (l : Bool) (s : State) (a : Nat) :
    (step l s (.drain a)).1.names = s.names ∧ (step l s (.drain a)).1.pids = s.pids := by
  simp only [step]
  split
  · exact ⟨rfl, rfl⟩
  · split <;> exact ⟨rfl, rfl⟩

/-- Status words only grow (`fetch_max`) and the cleanup block is elected at most once. -/
theorem cleanup_once (l : Bool) (s : State) (a st : Nat) (x : Actor) (hg : getA s a = some x)
    (hpc : x.pc ≠ 0) (hi : Inv l s) :
    ∀ y ∈ (step l s (.publish a st)).1.actors, y.id = a → y.pc = x.pc ∧ y.status ≥ x.status := by
  obtain ⟨hx, hid⟩ := getA_some hg
  have hp := (hi.pcs x hx).1
  intro y hy hya
  simp only [step, hg] at hy
  split at hy
  · have := getA_unique hi.ids hg hy hya; subst this; exact ⟨rfl, Nat.le_refl _⟩
  · split at hy
    · have := getA_unique hi.ids hg hy hya; subst this; exact ⟨rfl, Nat.le_refl _⟩
    · obtain ⟨z, hz, rfl⟩ := mem_setA.mp hy
      split at hya
      · next e =>
        have := getA_unique hi.ids hg hz e; subst this
        rw [if_pos e]
        simp only [electPc]
        have : ¬ (st ≥ stopping ∧ z.status < stopping) := fun c => hpc (hp.mpr c.2)
        rw [if_neg this]
        exact ⟨rfl, Nat.le_max_left _ _⟩
      · next e => exact absurd hya e

/-! ### Non-vacuity -/

/-- two threads race for the name 7, the loser gets `dup`; the winner exits; a third spawn wins -/
example :
    (trace false init ([.register 0 7, .register 1 7] ++ [.publish 0 1, .publish 0 2] ++ exitOps 0 ++
        [.waitRet 0, .lookup 7, .register 2 7, .lookup 7])).map (·.2) =
      [.ok, .dup, .prev 0, .prev 1, .prev 2, .ok, .ok, .prev 5, .ok, .found none, .ok,
       .found (some (2, 0))] := by decide

/-- the F2 witness is harmless for the repaired code -/
example : ok (view (run false init f2Witness)) = true ∧ whereIs (run false init f2Witness) 7 = some 0 := by
  decide

example : noNamedRemoteProxy (spawnNamedOps 0 7 ++ spawnProxyOps 1 none ++ exitOps 1) = true := by decide
example : noNamedRemoteProxy f2Witness = false := by decide

end C10

#print axioms C10.ok_reachable
#print axioms C10.register_ok_iff_vacant
#print axioms C10.register_dup_frame
#print axioms C10.register_dup_no_pid_events
#print axioms C10.pid_events_sound
#print axioms C10.at_most_one_winner
#print axioms C10.exactly_one_winner
#print axioms C10.whereIs_sound
#print axioms C10.waited_not_found
#print axioms C10.name_free_after_exit
#print axioms C10.no_stale_unregister
#print axioms C10.stale_unregister_legacy
#print axioms C10.ok_reachable_legacy_partial
#print axioms C10.cleanup_once
#print axioms C10.late_drain_is_noop
#print axioms C10.exiting_actor_env_frame
#print axioms C10.drain_keeps_tables
