import RactorModel.Model.Session
import RactorModel.Lemmas.Auth

/-! Helper lemmas for the session gate (C17). -/

namespace Session
open Auth

section
variable {C D : Type} [DecidableEq D] (H : C → Nat → D)

/-- No effect of the list is one the property gates behind authentication. -/
def NoGated (eff : List (Effect D)) : Prop := ∀ e ∈ eff, e.gated = false

omit [DecidableEq D] in
theorem NoGated.append {a b : List (Effect D)} (ha : NoGated a) (hb : NoGated b) : NoGated (a ++ b) := by
  intro e he
  rcases List.mem_append.mp he with h | h
  · exact ha e h
  · exact hb e h

/-- What `handle_auth` (client side) can do: only sends / notifications / stop, the peer's
name may be recorded, everything else untouched; `Ok` only if the state machine said so. -/
theorem authClient_spec (cfg : Cfg C) (st : SState D) (env : Env) (c : Client D) (m : Msg D) :
    NoGated (authClient H cfg st env c m).2 ∧
    (authClient H cfg st env c m).1.proxies = st.proxies ∧
    (authClient H cfg st env c m).1.advertised = st.advertised ∧
    (authClient H cfg st env c m).1.monitoring = st.monitoring ∧
    (authClient H cfg st env c m).1.ready = st.ready ∧
    (∃ c', (authClient H cfg st env c m).1.auth = .client c' ∧ c'.wf H cfg.cookie ∧
      (c'.isOk = true → c.next H cfg.cookie env.fresh m = .ok) ∧
      (c'.isClose = true → (authClient H cfg st env c m).1.stopped = true ∧
        Effect.stopSelf "auth_fail" ∈ (authClient H cfg st env c m).2)) := by
  have hwf := Client.next_wf H cfg.cookie env.fresh c m
  unfold authClient
  generalize Client.next H cfg.cookie env.fresh c m = next at hwf
  cases next with
  | waitingChallenge s =>
    simp only
    cases Status.ofWire s <;>
      simp [NoGated, Effect.gated, Client.isClose, Client.isOk, Client.wf]
  | waitingAck n cs sc reply ours e =>
    simp [NoGated, Effect.gated, Client.isClose, Client.isOk, hwf]
  | waitingStatus => simp [NoGated, Effect.gated, Client.isClose, Client.isOk, Client.wf]
  | ok => simp [NoGated, Effect.gated, Client.isClose, Client.isOk, Client.wf]
  | close => simp [NoGated, Effect.gated, Client.isClose, Client.isOk, Client.wf]

theorem authServer_spec (cfg : Cfg C) (st : SState D) (env : Env) (s : Server D) (m : Msg D) :
    NoGated (authServer H cfg st env s m).2 ∧
    (authServer H cfg st env s m).1.proxies = st.proxies ∧
    (authServer H cfg st env s m).1.advertised = st.advertised ∧
    (authServer H cfg st env s m).1.monitoring = st.monitoring ∧
    (authServer H cfg st env s m).1.ready = st.ready ∧
    (∃ s', (authServer H cfg st env s m).1.auth = .server s' ∧ s'.wf H cfg.cookie ∧
      (s'.isOk = true → (s.next H cfg.cookie env.fresh m).isOk = true) ∧
      (s'.isClose = true → (authServer H cfg st env s m).1.stopped = true ∧
        Effect.stopSelf "auth_fail" ∈ (authServer H cfg st env s m).2)) := by
  have hwf := Server.next_wf H cfg.cookie env.fresh s m
  unfold authServer
  generalize Server.next H cfg.cookie env.fresh s m = next at hwf
  cases next with
  | havePeerName n =>
    simp only
    cases env.check.status with
    | none => simp [NoGated, Effect.gated, Server.isClose, Server.isOk, Server.wf]
    | some status =>
      cases status <;>
        simp [NoGated, Effect.gated, Server.isClose, Server.isOk, Server.wf, Server.startChallenge]
  | ok d => simp [NoGated, Effect.gated, Server.isClose, Server.isOk, Server.wf]
  | waitingName => simp [NoGated, Effect.gated, Server.isClose, Server.isOk, Server.wf]
  | waitingClientStatus => simp [NoGated, Effect.gated, Server.isClose, Server.isOk, Server.wf]
  | waitingReply c d => simp [NoGated, Effect.gated, Server.isClose, Server.isOk, hwf]
  | close => simp [NoGated, Effect.gated, Server.isClose, Server.isOk, Server.wf]

theorem handleAuth_spec (cfg : Cfg C) (st : SState D) (env : Env) (m : Msg D)
    (hno : st.auth.isOk = false) :
    NoGated (handleAuth H cfg st env m).2 ∧
    (handleAuth H cfg st env m).1.proxies = st.proxies ∧
    (handleAuth H cfg st env m).1.advertised = st.advertised ∧
    (handleAuth H cfg st env m).1.monitoring = st.monitoring ∧
    (handleAuth H cfg st env m).1.ready = st.ready ∧
    (handleAuth H cfg st env m).1.auth.wf H cfg.cookie ∧
    (st.auth.wf H cfg.cookie → (handleAuth H cfg st env m).1.auth.isOk = true →
      presents H cfg.cookie st.auth (.frame (.auth m))) ∧
    ((handleAuth H cfg st env m).1.auth.isClose = true → (handleAuth H cfg st env m).1.stopped = true ∧
      ∃ r, Effect.stopSelf r ∈ (handleAuth H cfg st env m).2) ∧
    (st.auth.isClose = true → (handleAuth H cfg st env m).1.auth.isClose = true) := by
  unfold handleAuth
  rw [if_neg (by simp [hno])]
  obtain ⟨auth, name, connId, rdy, proxies, advertised, monitoring, stopped⟩ := st
  simp only at hno ⊢
  have hauth : auth = auth := rfl
  cases auth with
  | client c =>
    by_cases hcl : c.isClose = true
    · -- already closed: stop again, the state machine stays closed
      have hcc : c = .close := by cases c <;> simp_all [Client.isClose]
      subst hcc
      have sp := authClient_spec H cfg ⟨.client .close, name, connId, rdy, proxies, advertised, monitoring, true⟩ env (.close : Client D) m
      obtain ⟨h1, h2, h3, h4, h5, c', h6, h7, h8, h9⟩ := sp
      have hn := Client.next_close H cfg.cookie env.fresh m
      simp only [AuthSt.isClose, Client.isClose, if_true]
      refine ⟨?_, h2, h3, h4, h5, ?_, ?_, ?_, ?_⟩
      · apply NoGated.append
        · intro e he; simp at he; rcases he with rfl | rfl <;> rfl
        · exact h1
      · rw [h6]; exact h7
      · intro _ hok
        rw [h6] at hok
        have := h8 hok
        rw [hn] at this
        exact absurd this (by simp)
      · intro _
        refine ⟨?_, "auth_fail", by simp⟩
        unfold authClient
        simp [hn, Client.isClose]
      · intro _
        unfold authClient
        simp [hn, Client.isClose, AuthSt.isClose]
    · have sp := authClient_spec H cfg ⟨.client c, name, connId, rdy, proxies, advertised, monitoring, stopped⟩ env c m
      obtain ⟨h1, h2, h3, h4, h5, c', h6, h7, h8, h9⟩ := sp
      have hcl' : c.isClose = false := by simpa using hcl
      simp only [AuthSt.isClose, hcl', Bool.false_eq_true, if_false, List.nil_append]
      refine ⟨h1, h2, h3, h4, h5, ?_, ?_, ?_, ?_⟩
      · rw [h6]; exact h7
      · intro hwf hok
        rw [h6] at hok
        have hn := h8 hok
        obtain ⟨n, cs, sc, reply, ours, e, hst, hm⟩ := (Client.next_ok_iff H cfg.cookie env.fresh c m).mp hn
        subst hst; subst hm
        simp only [presents]
        exact ⟨trivial, hwf.2⟩
      · intro hclose
        rw [h6] at hclose
        exact ⟨(h9 hclose).1, "auth_fail", (h9 hclose).2⟩
      · intro h; exact absurd h (by simp)
  | server s =>
    by_cases hcl : s.isClose = true
    · have hcc : s = .close := by cases s <;> simp_all [Server.isClose]
      subst hcc
      have sp := authServer_spec H cfg ⟨.server .close, name, connId, rdy, proxies, advertised, monitoring, true⟩ env (.close : Server D) m
      obtain ⟨h1, h2, h3, h4, h5, s', h6, h7, h8, h9⟩ := sp
      have hn := Server.next_close H cfg.cookie env.fresh m
      simp only [AuthSt.isClose, Server.isClose, if_true]
      refine ⟨?_, h2, h3, h4, h5, ?_, ?_, ?_, ?_⟩
      · apply NoGated.append
        · intro e he; simp at he; rcases he with rfl | rfl <;> rfl
        · exact h1
      · rw [h6]; exact h7
      · intro _ hok
        rw [h6] at hok
        have := h8 hok
        rw [hn] at this
        exact absurd this (by simp [Server.isOk])
      · intro _
        refine ⟨?_, "auth_fail", by simp⟩
        unfold authServer
        simp [hn, Server.isClose]
      · intro _
        unfold authServer
        simp [hn, Server.isClose, AuthSt.isClose]
    · have sp := authServer_spec H cfg ⟨.server s, name, connId, rdy, proxies, advertised, monitoring, stopped⟩ env s m
      obtain ⟨h1, h2, h3, h4, h5, s', h6, h7, h8, h9⟩ := sp
      have hcl' : s.isClose = false := by simpa using hcl
      simp only [AuthSt.isClose, hcl', Bool.false_eq_true, if_false, List.nil_append]
      refine ⟨h1, h2, h3, h4, h5, ?_, ?_, ?_, ?_⟩
      · rw [h6]; exact h7
      · intro hwf hok
        rw [h6] at hok
        have hn := h8 hok
        have : ∃ d, Server.next H cfg.cookie env.fresh s m = .ok d := by
          cases hx : Server.next H cfg.cookie env.fresh s m <;> simp_all [Server.isOk]
        obtain ⟨d, hd⟩ := this
        obtain ⟨c, e, c', hst, hm, _⟩ := (Server.next_ok_iff H cfg.cookie env.fresh s m d).mp hd
        subst hst; subst hm
        simp only [presents]
        exact ⟨trivial, hwf⟩
      · intro hclose
        rw [h6] at hclose
        exact ⟨(h9 hclose).1, "auth_fail", (h9 hclose).2⟩
      · intro h; exact absurd h (by simp)

end

section
variable {C D : Type}

theorem spawnMissing_spec (pids : List Nat) : ∀ (st : SState D),
    (spawnMissing st pids).1.auth = st.auth ∧ (spawnMissing st pids).1.advertised = st.advertised ∧
    (spawnMissing st pids).1.monitoring = st.monitoring ∧ (spawnMissing st pids).1.stopped = st.stopped ∧
    (∀ e ∈ (spawnMissing st pids).2, ∃ p, e = .spawnProxy p) := by
  induction pids with
  | nil => intro st; simp [spawnMissing]
  | cons p ps ih =>
    intro st
    unfold spawnMissing
    split
    · exact ih st
    · have := ih { st with proxies := st.proxies ++ [p] }
      simp only at this ⊢
      refine ⟨this.1, this.2.1, this.2.2.1, this.2.2.2.1, ?_⟩
      intro e he
      simp only [List.mem_cons] at he
      rcases he with rfl | he
      · exact ⟨p, rfl⟩
      · exact this.2.2.2.2 e he

theorem terminateAll_spec (pids : List Nat) : ∀ (st : SState D),
    (terminateAll st pids).1.auth = st.auth ∧ (terminateAll st pids).1.advertised = st.advertised ∧
    (terminateAll st pids).1.monitoring = st.monitoring ∧ (terminateAll st pids).1.stopped = st.stopped ∧
    (∀ e ∈ (terminateAll st pids).2, ∃ p, e = .stopProxy p) := by
  induction pids with
  | nil => intro st; simp [terminateAll]
  | cons p ps ih =>
    intro st
    unfold terminateAll
    split
    · have := ih { st with proxies := st.proxies.filter (· != p) }
      simp only at this ⊢
      refine ⟨this.1, this.2.1, this.2.2.1, this.2.2.2.1, ?_⟩
      intro e he
      simp only [List.mem_cons] at he
      rcases he with rfl | he
      · exact ⟨p, rfl⟩
      · exact this.2.2.2.2 e he
    · exact ih st

theorem authorized_spec (st : SState D) (env : Env) (pid : Nat) :
    (authorized st env pid).1.auth = st.auth ∧ (authorized st env pid).1.monitoring = st.monitoring ∧
    (authorized st env pid).1.stopped = st.stopped ∧
    (∀ p ∈ (authorized st env pid).1.advertised, p ∈ st.advertised) ∧
    ((authorized st env pid).2 = true → pid ∈ st.advertised ∧ env.remotable pid = true) := by
  unfold authorized
  split
  · rename_i hc
    split
    · rename_i hr
      refine ⟨rfl, rfl, rfl, fun p hp => hp, fun _ => ⟨by simpa using hc, hr⟩⟩
    · refine ⟨rfl, rfl, rfl, ?_, by simp⟩
      intro p hp
      exact (List.mem_filter.mp hp).1
  · exact ⟨rfl, rfl, rfl, fun p hp => hp, by simp⟩

/-- `handle_node`: nothing happens before authentication; deliveries only to advertised,
remotable pids; the authentication state is untouched. -/
theorem handleNode_spec (st : SState D) (env : Env) (n : NodeMsg) :
    (handleNode st env n).1.auth = st.auth ∧ (handleNode st env n).1.monitoring = st.monitoring ∧
    (handleNode st env n).1.stopped = st.stopped ∧
    (∀ p ∈ (handleNode st env n).1.advertised, p ∈ st.advertised) ∧
    ((handleNode st env n).2 ≠ [] → st.auth.isOk = true) ∧
    (∀ pid c, Effect.deliverLocal pid c ∈ (handleNode st env n).2 →
      pid ∈ st.advertised ∧ env.remotable pid = true) ∧
    (∀ e ∈ (handleNode st env n).2, ∀ f, e ≠ .send f) := by
  unfold handleNode
  by_cases hok : st.auth.isOk = true
  · simp only [hok, Bool.not_true, Bool.false_eq_true, if_false]
    cases n with
    | cast to =>
      have a := authorized_spec st env to
      simp only
      refine ⟨a.1, a.2.1, a.2.2.1, a.2.2.2.1, fun _ => trivial, ?_, ?_⟩
      · intro pid c hm
        by_cases hk : (authorized st env to).2 = true
        · simp [hk] at hm
          obtain ⟨rfl, _⟩ := hm
          exact a.2.2.2.2 hk
        · simp [hk] at hm
      · intro e he f
        by_cases hk : (authorized st env to).2 = true
        · simp [hk] at he
          subst he; simp
        · simp [hk] at he
    | call to tag =>
      have a := authorized_spec st env to
      simp only
      refine ⟨a.1, a.2.1, a.2.2.1, a.2.2.2.1, fun _ => trivial, ?_, ?_⟩
      · intro pid c hm
        by_cases hk : (authorized st env to).2 = true
        · simp [hk] at hm
          obtain ⟨rfl, _⟩ := hm
          exact a.2.2.2.2 hk
        · simp [hk] at hm
      · intro e he f
        by_cases hk : (authorized st env to).2 = true
        · simp [hk] at he
          subst he; simp
        · simp [hk] at he
    | reply to tag =>
      simp only
      refine ⟨trivial, trivial, trivial, fun p hp => hp, fun _ => trivial, ?_, ?_⟩
      · intro pid c hm; split at hm <;> simp at hm
      · intro e he f; split at he <;> simp at he; subst he; simp
    | empty => simp
  · have : st.auth.isOk = false := by simpa using hok
    simp [this]

/-- `handle_control`: nothing happens before authentication; it never delivers to a local
actor, never touches the authentication state or the allow-list. -/
theorem handleControl_spec (cfg : Cfg C) (st : SState D) (env : Env) (c : CtlMsg) :
    (handleControl cfg st env c).1.auth = st.auth ∧
    (handleControl cfg st env c).1.monitoring = st.monitoring ∧
    (handleControl cfg st env c).1.stopped = st.stopped ∧
    (handleControl cfg st env c).1.advertised = st.advertised ∧
    ((handleControl cfg st env c).2 ≠ [] → st.auth.isOk = true) ∧
    (∀ pid k, Effect.deliverLocal pid k ∉ (handleControl cfg st env c).2) ∧
    (∀ e ∈ (handleControl cfg st env c).2, ∀ ps, e ≠ .send (.control (.spawn ps))) := by
  unfold handleControl
  by_cases hok : st.auth.isOk = true
  · simp only [hok, Bool.not_true, Bool.false_eq_true, if_false]
    cases c with
    | ready => cases st.ready <;> simp
    | spawn pids =>
      have a := spawnMissing_spec pids st
      refine ⟨a.1, a.2.2.1, a.2.2.2.1, a.2.1, fun _ => trivial, ?_, ?_⟩
      · intro pid k hm; obtain ⟨p, hp⟩ := a.2.2.2.2 _ hm; simp at hp
      · intro e he ps; obtain ⟨p, hp⟩ := a.2.2.2.2 _ he; subst hp; simp
    | terminate pids =>
      have a := terminateAll_spec pids st
      refine ⟨a.1, a.2.2.1, a.2.2.2.1, a.2.1, fun _ => trivial, ?_, ?_⟩
      · intro pid k hm; obtain ⟨p, hp⟩ := a.2.2.2.2 _ hm; simp at hp
      · intro e he ps; obtain ⟨p, hp⟩ := a.2.2.2.2 _ he; subst hp; simp
    | ping => simp
    | pong => simp
    | pgJoin scope group pids =>
      have a := spawnMissing_spec pids st
      simp only
      refine ⟨a.1, a.2.2.1, a.2.2.2.1, a.2.1, fun _ => trivial, ?_, ?_⟩
      · intro pid k hm
        rcases List.mem_append.mp hm with h | h
        · obtain ⟨p, hp⟩ := a.2.2.2.2 _ h; simp at hp
        · split at h <;> simp at h
      · intro e he ps
        rcases List.mem_append.mp he with h | h
        · obtain ⟨p, hp⟩ := a.2.2.2.2 _ h; subst hp; simp
        · split at h <;> simp at h; subst h; simp
    | pgLeave scope group pids =>
      simp only
      refine ⟨trivial, trivial, trivial, trivial, fun _ => trivial, ?_, ?_⟩
      · intro pid k hm; split at hm <;> simp at hm
      · intro e he ps; split at he <;> simp at he; subst he; simp
    | enumerate name conn =>
      cases env.sessions <;> simp
    | nodeSessions peers =>
      by_cases ht : cfg.transitive = true
      · simp only [ht, if_true]
        refine ⟨trivial, trivial, trivial, trivial, fun _ => trivial, ?_, ?_⟩
        · intro pid k hm
          simp at hm
        · intro e he ps
          simp only [List.singleton_append, List.mem_cons, List.mem_map] at he
          rcases he with rfl | ⟨p, _, rfl⟩ <;> simp
      · have : cfg.transitive = false := by simpa using ht
        simp [this]
    | empty => simp
  · have : st.auth.isOk = false := by simpa using hok
    simp [this]

theorem afterAuthenticated_spec (cfg : Cfg C) (st : SState D) (env : Env) :
    (afterAuthenticated cfg st env).1.auth = st.auth ∧
    (afterAuthenticated cfg st env).1.stopped = st.stopped ∧
    (afterAuthenticated cfg st env).1.advertised = st.advertised ++ env.localPids ∧
    (∀ pid k, Effect.deliverLocal pid k ∉ (afterAuthenticated cfg st env).2) ∧
    (env.localPids ≠ [] → Effect.send (.control (.spawn env.localPids)) ∈ (afterAuthenticated cfg st env).2) := by
  unfold afterAuthenticated
  refine ⟨rfl, rfl, rfl, ?_, ?_⟩
  · intro pid k hm
    simp at hm
  · intro hne
    have : env.localPids.isEmpty = false := by simpa using hne
    simp [this]

end

section
variable {C D : Type} [DecidableEq D] (H : C → Nat → D)

/-- Everything the proofs need to know about one step, as a record of facts about the result
`r` of handling one input in state `st`. -/
structure StepFacts (cfg : Cfg C) (st : SState D) (env : Env) (i : In D) (r : SState D × List (Effect D)) : Prop where
  wf : st.auth.wf H cfg.cookie → r.1.auth.wf H cfg.cookie
  gate : ∀ e ∈ r.2, e.gated = true → r.1.auth.isOk = true
  okStable : st.auth.isOk = true → r.1.auth.isOk = true
  okNeeds : st.auth.wf H cfg.cookie → st.auth.isOk = false → r.1.auth.isOk = true → presents H cfg.cookie st.auth i
  closeAbs : st.auth.isClose = true → r.1.auth.isClose = true
  closeStops : st.auth.isClose = false → r.1.auth.isClose = true →
    r.1.stopped = true ∧ ∃ reason, Effect.stopSelf reason ∈ r.2
  deliver : ∀ pid k, Effect.deliverLocal pid k ∈ r.2 → pid ∈ st.advertised ∧ env.remotable pid = true
  inert : (st.monitoring = true → st.auth.isOk = true) → r.1.auth.isOk = false →
    r.1.proxies = st.proxies ∧ r.1.advertised = st.advertised ∧ r.1.monitoring = st.monitoring
  monInv : (st.monitoring = true → st.auth.isOk = true) → r.1.monitoring = true → r.1.auth.isOk = true
  announced : ∀ p ∈ r.1.advertised, p ∈ st.advertised ∨ ∃ ps, Effect.send (.control (.spawn ps)) ∈ r.2 ∧ p ∈ ps

omit [DecidableEq D] in
theorem StepFacts.noop (cfg : Cfg C) (st : SState D) (env : Env) (i : In D) :
    StepFacts H cfg st env i (st, []) where
  wf h := h
  gate e he := by simp at he
  okStable h := h
  okNeeds _ h1 h2 := by simp_all
  closeAbs h := h
  closeStops h1 h2 := by simp_all
  deliver pid k h := by simp at h
  inert _ _ := ⟨rfl, rfl, rfl⟩
  monInv h := h
  announced p hp := Or.inl hp

omit [DecidableEq D] in
theorem isOk_not_isClose (a : AuthSt D) (h : a.isOk = true) : a.isClose = false := by
  cases a with
  | server s => cases s <;> simp_all [AuthSt.isOk, AuthSt.isClose, Server.isOk, Server.isClose]
  | client c => cases c <;> simp_all [AuthSt.isOk, AuthSt.isClose, Client.isOk, Client.isClose]

theorem onAuthFrame_facts (cfg : Cfg C) (st : SState D) (env : Env) (m : Msg D) :
    StepFacts H cfg st env (.frame (.auth m)) (onAuthFrame H cfg st env m) := by
  by_cases hp : st.auth.isOk = true
  · -- already authenticated: `handle_auth` returns at once
    have h0 : handleAuth H cfg st env m = (st, []) := by simp [handleAuth, hp]
    have : onAuthFrame H cfg st env m = (st, []) := by simp [onAuthFrame, h0, hp]
    rw [this]
    exact StepFacts.noop H cfg st env _
  · have hno : st.auth.isOk = false := by simpa using hp
    obtain ⟨sNG, sPx, sAdv, sMon, _, sWf, sPres, sClose, sAbs⟩ := handleAuth_spec H cfg st env m hno
    unfold onAuthFrame
    simp only [hno, Bool.not_false, Bool.true_and]
    generalize handleAuth H cfg st env m = r0 at *
    by_cases hok : r0.1.auth.isOk = true
    · have hncl := isOk_not_isClose _ hok
      simp only [hok, if_true]
      by_cases hel : (r0.1.name.isSome && env.elected) = true
      · simp only [hel, if_true]
        obtain ⟨aAuth, aStop, aAdv, aDel, aSpawn⟩ := afterAuthenticated_spec cfg r0.1 env
        refine
          { wf := ?_, gate := ?_, okStable := ?_, okNeeds := ?_, closeAbs := ?_, closeStops := ?_,
            deliver := ?_, inert := ?_, monInv := ?_, announced := ?_ }
        · intro _; rw [aAuth]; exact sWf
        · intro e _ _; rw [aAuth]; exact hok
        · intro h; rw [hno] at h; exact absurd h (by simp)
        · intro hwf _ _; exact sPres hwf hok
        · intro h; have := sAbs h; rw [hncl] at this; exact absurd this (by simp)
        · intro _ h; rw [aAuth, hncl] at h; exact absurd h (by simp)
        · intro pid k hm
          simp only [List.append_assoc, List.mem_append] at hm
          rcases hm with h | h | h | h
          · have := sNG _ h; simp [Effect.gated] at this
          · simp at h
          · exact absurd h (aDel pid k)
          · split at h <;> simp at h
        · intro _ h; rw [aAuth, hok] at h; exact absurd h (by simp)
        · intro _ _; rw [aAuth]; exact hok
        · intro p hp
          rw [aAdv, sAdv] at hp
          rcases List.mem_append.mp hp with h | h
          · exact Or.inl h
          · refine Or.inr ⟨env.localPids, ?_, h⟩
            have hne : env.localPids ≠ [] := by intro he; rw [he] at h; simp at h
            simp only [List.append_assoc, List.mem_append]
            exact Or.inr (Or.inr (Or.inl (aSpawn hne)))
      · have hel' : (r0.1.name.isSome && env.elected) = false := by simpa using hel
        simp only [hel', Bool.false_eq_true, if_false]
        refine
          { wf := ?_, gate := ?_, okStable := ?_, okNeeds := ?_, closeAbs := ?_, closeStops := ?_,
            deliver := ?_, inert := ?_, monInv := ?_, announced := ?_ }
        · intro _; exact sWf
        · intro e _ _; exact hok
        · intro h; rw [hno] at h; exact absurd h (by simp)
        · intro hwf _ _; exact sPres hwf hok
        · intro h; have := sAbs h; rw [hncl] at this; exact absurd this (by simp)
        · intro _ h; simp only at h; rw [hncl] at h; exact absurd h (by simp)
        · intro pid k hm
          simp only [List.append_assoc, List.mem_append] at hm
          rcases hm with h | h | h
          · have := sNG _ h; simp [Effect.gated] at this
          · simp at h
          · simp at h
        · intro _ h; simp only at h; rw [hok] at h; exact absurd h (by simp)
        · intro _ _; exact hok
        · intro p hp; simp only at hp; rw [sAdv] at hp; exact Or.inl hp
    · have hok' : r0.1.auth.isOk = false := by simpa using hok
      simp only [hok', Bool.false_eq_true, if_false]
      refine
        { wf := ?_, gate := ?_, okStable := ?_, okNeeds := ?_, closeAbs := ?_, closeStops := ?_,
          deliver := ?_, inert := ?_, monInv := ?_, announced := ?_ }
      · intro _; exact sWf
      · intro e he hg; have := sNG _ he; rw [this] at hg; exact absurd hg (by simp)
      · intro h; rw [hno] at h; exact absurd h (by simp)
      · intro _ _ h; rw [hok'] at h; exact absurd h (by simp)
      · exact sAbs
      · intro _ h; exact sClose h
      · intro pid k hm; have := sNG _ hm; simp [Effect.gated] at this
      · intro _ _; exact ⟨sPx, sAdv, sMon⟩
      · intro hinv hm; rw [sMon] at hm; have := hinv hm; rw [hno] at this; exact absurd this (by simp)
      · intro p hp; rw [sAdv] at hp; exact Or.inl hp

omit [DecidableEq D] in
/-- a step that leaves the authentication state alone and emits only `send`s -/
theorem StepFacts.sendOnly (cfg : Cfg C) (st : SState D) (env : Env) (i : In D) (st' : SState D)
    (f : Frame D) (hauth : st'.auth = st.auth) (hmon : st'.monitoring = st.monitoring)
    (hpx : st'.proxies = st.proxies) (hm : st.monitoring = true)
    (hadv : ∀ p ∈ st'.advertised, p ∈ st.advertised ∨ ∃ ps, f = .control (.spawn ps) ∧ p ∈ ps) :
    StepFacts H cfg st env i (st', [.send f]) where
  wf h := by rw [hauth]; exact h
  gate e he hg := by simp at he; subst he; simp [Effect.gated] at hg
  okStable h := by rw [hauth]; exact h
  okNeeds _ h1 h2 := by simp only at h2; rw [hauth, h1] at h2; exact absurd h2 (by simp)
  closeAbs h := by rw [hauth]; exact h
  closeStops h1 h2 := by simp only at h2; rw [hauth, h1] at h2; exact absurd h2 (by simp)
  deliver p k h := by simp at h
  inert hinv h := by
    simp only at h
    rw [hauth] at h
    have := hinv hm
    rw [h] at this
    exact absurd this (by simp)
  monInv hinv _ := by rw [hauth]; exact hinv hm
  announced p hp := by
    rcases hadv p hp with h | ⟨ps, rfl, h⟩
    · exact Or.inl h
    · exact Or.inr ⟨ps, by simp, h⟩

theorem handle_facts (cfg : Cfg C) (st : SState D) (env : Env) (i : In D) :
    StepFacts H cfg st env i (handle H cfg st env i) := by
  unfold handle
  by_cases hs : st.stopped = true
  · simp only [hs, if_true]; exact StepFacts.noop H cfg st env i
  · have hs' : st.stopped = false := by simpa using hs
    simp only [hs', Bool.false_eq_true, if_false]
    cases i with
    | pidSpawn pid rem =>
      simp only
      split
      · rename_i hc
        simp only [Bool.and_eq_true] at hc
        refine StepFacts.sendOnly H cfg st env _ _ _ ?_ ?_ ?_ hc.1 ?_ <;> try rfl
        intro p hp
        simp only [List.mem_append, List.mem_singleton] at hp
        rcases hp with h | rfl
        · exact Or.inl h
        · exact Or.inr ⟨[p], rfl, by simp⟩
      · exact StepFacts.noop H cfg st env _
    | pidTerminate pid rem =>
      simp only
      split
      · rename_i hc
        simp only [Bool.and_eq_true] at hc
        refine StepFacts.sendOnly H cfg st env _ _ _ ?_ ?_ ?_ hc.1 ?_ <;> try rfl
        intro p hp
        exact Or.inl (List.mem_filter.mp hp).1
      · exact StepFacts.noop H cfg st env _
    | pgChanged join scope group pids =>
      simp only
      split
      · rename_i hc
        simp only [Bool.and_eq_true] at hc
        refine StepFacts.sendOnly H cfg st env _ _ _ ?_ ?_ ?_ hc.1 ?_ <;> try rfl
        intro p hp
        exact Or.inl hp
      · exact StepFacts.noop H cfg st env _
    | frame f =>
      simp only
      split
      · -- self connection: stop, nothing else
        refine
          { wf := fun h => h, gate := ?_, okStable := fun h => h, okNeeds := ?_, closeAbs := fun h => h,
            closeStops := ?_, deliver := ?_, inert := ?_, monInv := fun h => h, announced := fun p hp => Or.inl hp }
        · intro e he hg; simp at he; subst he; simp [Effect.gated] at hg
        · intro _ h1 h2; simp only at h2; rw [h1] at h2; exact absurd h2 (by simp)
        · intro h1 h2; simp only at h2; rw [h1] at h2; exact absurd h2 (by simp)
        · intro p k hm; simp at hm
        · intro _ _; exact ⟨rfl, rfl, rfl⟩
      · cases f with
        | auth m => exact onAuthFrame_facts H cfg st env m
        | node n =>
          simp only
          obtain ⟨nAuth, nMon, _, nAdv, nOk, nDel, nSend⟩ := handleNode_spec st env n
          refine
            { wf := ?_, gate := ?_, okStable := ?_, okNeeds := ?_, closeAbs := ?_, closeStops := ?_,
              deliver := nDel, inert := ?_, monInv := ?_, announced := ?_ }
          · intro h; rw [nAuth]; exact h
          · intro e he _; rw [nAuth]; exact nOk (List.ne_nil_of_mem he)
          · intro h; rw [nAuth]; exact h
          · intro _ h1 h2; rw [nAuth, h1] at h2; exact absurd h2 (by simp)
          · intro h; rw [nAuth]; exact h
          · intro h1 h2; rw [nAuth, h1] at h2; exact absurd h2 (by simp)
          · intro _ h
            rw [nAuth] at h
            have : handleNode st env n = (st, []) := by simp [handleNode, h]
            rw [this]; exact ⟨rfl, rfl, rfl⟩
          · intro hinv hm; rw [nMon] at hm; rw [nAuth]; exact hinv hm
          · intro p hp; exact Or.inl (nAdv p hp)
        | control c =>
          simp only
          obtain ⟨cAuth, cMon, _, cAdv, cOk, cDel, cSend⟩ := handleControl_spec cfg st env c
          refine
            { wf := ?_, gate := ?_, okStable := ?_, okNeeds := ?_, closeAbs := ?_, closeStops := ?_,
              deliver := ?_, inert := ?_, monInv := ?_, announced := ?_ }
          · intro h; rw [cAuth]; exact h
          · intro e he _; rw [cAuth]; exact cOk (List.ne_nil_of_mem he)
          · intro h; rw [cAuth]; exact h
          · intro _ h1 h2; rw [cAuth, h1] at h2; exact absurd h2 (by simp)
          · intro h; rw [cAuth]; exact h
          · intro h1 h2; rw [cAuth, h1] at h2; exact absurd h2 (by simp)
          · intro p k hm; exact absurd hm (cDel p k)
          · intro _ h
            rw [cAuth] at h
            have : handleControl cfg st env c = (st, []) := by simp [handleControl, h]
            rw [this]; exact ⟨rfl, rfl, rfl⟩
          · intro hinv hm; rw [cMon] at hm; rw [cAuth]; exact hinv hm
          · intro p hp; rw [cAdv] at hp; exact Or.inl hp
        | empty => exact StepFacts.noop H cfg st env _

end
end Session
