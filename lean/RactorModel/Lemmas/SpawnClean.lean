import RactorModel.Model.SpawnClean

namespace SpawnClean

/-- position in the cleanup sequence: `k ≤ idx pc` = the first `k - 1` cleanup steps have run -/
def Pc.idx : Pc → Nat
  | .cStopping => 1 | .cUnregPid => 2 | .cUnregName => 3 | .cPgDemon => 4 | .cPgLeave => 5
  | .cTerminate => 6 | .cTake => 7 | .cNotify => 8 | .cUnlink => 9 | .cTreeUnlink => 10 | .cStopped => 11
  | .cPubStopped => 12 | .cStatusNotify => 13 | .cNotifyWaiters => 14 | .done => 15
  | _ => 0

structure Inv (w : W) : Prop where
  stLe : w.status ≤ 6
  chain : failed w = true → 1 ≤ w.pc.idx ∨ w.pc = .kTake
  aStopping : failed w = true → 2 ≤ w.pc.idx → 5 ≤ w.status
  aPid : failed w = true → 3 ≤ w.pc.idx → w.pidReg = false
  aName : failed w = true → 4 ≤ w.pc.idx → w.nameMine = false
  aMon : failed w = true → 5 ≤ w.pc.idx → w.monitors = []
  aMem : failed w = true → 6 ≤ w.pc.idx → w.members = []
  aKids : failed w = true → 8 ≤ w.pc.idx → w.kidsOpen = false
  aSup : failed w = true → 11 ≤ w.pc.idx → w.supSlot = false
  aStopped : failed w = true → 13 ≤ w.pc.idx → w.status = 6
  aDone : failed w = true → w.pc.idx = 15 → w.waiting = 0 ∧ w.portsOpen = false
  supSame : w.supKids = w.supSlot
  never : w.handled = 0 ∧ w.events = 0
  queued : ∀ p, w.ports[p]? = some .waiting → w.portsOpen = true ∧ Item.call p ∈ w.mailbox
  flushed : w.portsOpen = false → w.mailbox = []

theorem inv_init : Inv ({} : W) := by
  constructor <;> simp [failed, Pc.idx]

theorem queued_dropPorts (w : W) (hq : ∀ p, w.ports[p]? = some .waiting → w.portsOpen = true ∧ Item.call p ∈ w.mailbox) :
    ∀ p : Nat, (dropPorts w).ports[p]? ≠ some PortSt.waiting := by
  intro p hp
  simp only [dropPorts, List.getElem?_mapIdx] at hp
  cases hx : w.ports[p]? with
  | none => simp [hx] at hp
  | some x =>
    simp only [hx, Option.map_some, Option.some.injEq] at hp
    cases x with
    | waiting =>
      have := (hq p hx).2
      simp [this] at hp
    | replied => simp at hp
    | senderError => simp at hp
    | sendErr => simp at hp

theorem inv_sideEffects (c : Cfg) (w : W) (h : Inv w) (hnf : failed w = false) :
    Inv (sideEffects c w) := by
  obtain ⟨a1, a2, a3, a4, a5, a6, a7, a8, a9, a10, a11, a12, a13, a14, a15⟩ := h
  have hf : failed (sideEffects c w) = false := by simpa [sideEffects, failed] using hnf
  have vac : ∀ {P : Prop}, failed (sideEffects c w) = true → P := fun h => by rw [hf] at h; cases h
  refine ⟨a1, vac, vac, vac, vac, vac, vac, vac, vac, vac, vac, a12, a13, ?_, ?_⟩
  · intro p hp
    have := a14 p hp
    refine ⟨this.1, ?_⟩
    simp only [sideEffects]
    split
    · exact this.2
    · exact List.mem_append_left _ this.2
  · intro hp
    have hp' : w.portsOpen = false := hp
    simp only [sideEffects, hp', Bool.not_false, Bool.or_true, if_true]
    exact a15 hp'

theorem inv_at_cStopping (c : Cfg) (w : W) (h : Inv w) (hpc : w.pc = .cStopping) : Inv (spawnStep c w) := by
  obtain ⟨a1, a2, a3, a4, a5, a6, a7, a8, a9, a10, a11, a12, a13, a14, a15⟩ := h
  simp only [spawnStep, hpc]
  constructor <;> grind [failed, Pc.idx]

theorem inv_at_cUnregPid (c : Cfg) (w : W) (h : Inv w) (hpc : w.pc = .cUnregPid) : Inv (spawnStep c w) := by
  obtain ⟨a1, a2, a3, a4, a5, a6, a7, a8, a9, a10, a11, a12, a13, a14, a15⟩ := h
  simp only [spawnStep, hpc]
  constructor <;> grind [failed, Pc.idx]

theorem inv_at_cUnregName (c : Cfg) (w : W) (h : Inv w) (hpc : w.pc = .cUnregName) : Inv (spawnStep c w) := by
  obtain ⟨a1, a2, a3, a4, a5, a6, a7, a8, a9, a10, a11, a12, a13, a14, a15⟩ := h
  simp only [spawnStep, hpc]
  constructor <;> grind [failed, Pc.idx]

theorem inv_at_cPgDemon (c : Cfg) (w : W) (h : Inv w) (hpc : w.pc = .cPgDemon) : Inv (spawnStep c w) := by
  obtain ⟨a1, a2, a3, a4, a5, a6, a7, a8, a9, a10, a11, a12, a13, a14, a15⟩ := h
  simp only [spawnStep, hpc]
  constructor <;> grind [failed, Pc.idx]

theorem inv_at_cPgLeave (c : Cfg) (w : W) (h : Inv w) (hpc : w.pc = .cPgLeave) : Inv (spawnStep c w) := by
  obtain ⟨a1, a2, a3, a4, a5, a6, a7, a8, a9, a10, a11, a12, a13, a14, a15⟩ := h
  simp only [spawnStep, hpc]
  constructor <;> grind [failed, Pc.idx]

theorem inv_at_cTerminate (c : Cfg) (w : W) (h : Inv w) (hpc : w.pc = .cTerminate) : Inv (spawnStep c w) := by
  obtain ⟨a1, a2, a3, a4, a5, a6, a7, a8, a9, a10, a11, a12, a13, a14, a15⟩ := h
  simp only [spawnStep, hpc]
  constructor <;> grind [failed, Pc.idx]

theorem inv_at_cTake (c : Cfg) (w : W) (h : Inv w) (hpc : w.pc = .cTake) : Inv (spawnStep c w) := by
  obtain ⟨a1, a2, a3, a4, a5, a6, a7, a8, a9, a10, a11, a12, a13, a14, a15⟩ := h
  simp only [spawnStep, hpc]
  constructor <;> grind [failed, Pc.idx]

theorem inv_at_cNotify (c : Cfg) (w : W) (h : Inv w) (hpc : w.pc = .cNotify) : Inv (spawnStep c w) := by
  obtain ⟨a1, a2, a3, a4, a5, a6, a7, a8, a9, a10, a11, a12, a13, a14, a15⟩ := h
  simp only [spawnStep, hpc]
  constructor <;> grind [failed, Pc.idx]

theorem inv_at_cTreeUnlink (c : Cfg) (w : W) (h : Inv w) (hpc : w.pc = .cTreeUnlink) : Inv (spawnStep c w) := by
  obtain ⟨a1, a2, a3, a4, a5, a6, a7, a8, a9, a10, a11, a12, a13, a14, a15⟩ := h
  simp only [spawnStep, hpc]
  constructor <;> grind [failed, Pc.idx]

theorem inv_at_cStopped (c : Cfg) (w : W) (h : Inv w) (hpc : w.pc = .cStopped) : Inv (spawnStep c w) := by
  obtain ⟨a1, a2, a3, a4, a5, a6, a7, a8, a9, a10, a11, a12, a13, a14, a15⟩ := h
  simp only [spawnStep, hpc]
  constructor <;> grind [failed, Pc.idx]

theorem inv_at_cPubStopped (c : Cfg) (w : W) (h : Inv w) (hpc : w.pc = .cPubStopped) : Inv (spawnStep c w) := by
  obtain ⟨a1, a2, a3, a4, a5, a6, a7, a8, a9, a10, a11, a12, a13, a14, a15⟩ := h
  simp only [spawnStep, hpc]
  constructor <;> grind [failed, Pc.idx]

theorem inv_at_cStatusNotify (c : Cfg) (w : W) (h : Inv w) (hpc : w.pc = .cStatusNotify) : Inv (spawnStep c w) := by
  obtain ⟨a1, a2, a3, a4, a5, a6, a7, a8, a9, a10, a11, a12, a13, a14, a15⟩ := h
  simp only [spawnStep, hpc]
  constructor <;> grind [failed, Pc.idx]

theorem inv_at_kTake (c : Cfg) (w : W) (h : Inv w) (hpc : w.pc = .kTake) : Inv (spawnStep c w) := by
  obtain ⟨a1, a2, a3, a4, a5, a6, a7, a8, a9, a10, a11, a12, a13, a14, a15⟩ := h
  simp only [spawnStep, hpc]
  constructor <;> grind [failed, Pc.idx]

theorem inv_at_unstarted (c : Cfg) (w : W) (h : Inv w) (hpc : w.pc = .unstarted) : Inv (spawnStep c w) := by
  obtain ⟨a1, a2, a3, a4, a5, a6, a7, a8, a9, a10, a11, a12, a13, a14, a15⟩ := h
  simp only [spawnStep, hpc]
  split <;> constructor <;> grind [failed, Pc.idx]

theorem inv_at_cUnlink (c : Cfg) (w : W) (h : Inv w) (hpc : w.pc = .cUnlink) : Inv (spawnStep c w) := by
  obtain ⟨a1, a2, a3, a4, a5, a6, a7, a8, a9, a10, a11, a12, a13, a14, a15⟩ := h
  simp only [spawnStep, hpc]
  split <;> constructor <;> grind [failed, Pc.idx]

theorem inv_at_selfLink (c : Cfg) (w : W) (h : Inv w) (hpc : w.pc = .selfLink) : Inv (spawnStep c w) := by
  obtain ⟨a1, a2, a3, a4, a5, a6, a7, a8, a9, a10, a11, a12, a13, a14, a15⟩ := h
  simp only [spawnStep, hpc]
  split <;> constructor <;> grind [failed, Pc.idx]

theorem inv_at_link (c : Cfg) (w : W) (h : Inv w) (hpc : w.pc = .link) : Inv (spawnStep c w) := by
  obtain ⟨a1, a2, a3, a4, a5, a6, a7, a8, a9, a10, a11, a12, a13, a14, a15⟩ := h
  simp only [spawnStep, hpc]
  split <;> constructor <;> grind [failed, Pc.idx, linkRefused]

theorem inv_at_pre (c : Cfg) (w : W) (h : Inv w) (hpc : w.pc = .pre) : Inv (spawnStep c w) := by
  obtain ⟨a1, a2, a3, a4, a5, a6, a7, a8, a9, a10, a11, a12, a13, a14, a15⟩ := h
  simp only [spawnStep, hpc]
  cases c.outcome <;> simp only <;> (try split) <;> (try split) <;> constructor <;> grind [failed, Pc.idx]

theorem inv_at_pubStarting (c : Cfg) (w : W) (h : Inv w) (hpc : w.pc = .pubStarting) : Inv (spawnStep c w) := by
  obtain ⟨a1, a2, a3, a4, a5, a6, a7, a8, a9, a10, a11, a12, a13, a14, a15⟩ := h
  have hnf : failed w = false := by
    cases hf : failed w
    · rfl
    · have := a2 hf; simp [hpc, Pc.idx] at this
  simp only [spawnStep, hpc]
  split
  · constructor <;> grind [failed, Pc.idx]
  · apply inv_sideEffects c _ _ (by simpa [failed] using hnf)
    cases c.selflink <;> constructor <;> grind [failed, Pc.idx]

theorem inv_at_cNotifyWaiters (c : Cfg) (w : W) (h : Inv w) (hpc : w.pc = .cNotifyWaiters) : Inv (spawnStep c w) := by
  obtain ⟨a1, a2, a3, a4, a5, a6, a7, a8, a9, a10, a11, a12, a13, a14, a15⟩ := h
  simp only [spawnStep, hpc]
  have hq := queued_dropPorts { w with released := w.released + w.waiting, waiting := 0, pc := .done } a14
  constructor <;> simp only [dropPorts] at hq ⊢ <;> (try grind [failed, Pc.idx])

theorem inv_spawnStep (c : Cfg) (w : W) (h : Inv w) : Inv (spawnStep c w) := by
  cases hpc : w.pc
  case init => simp only [spawnStep, hpc]; exact h
  case started => simp only [spawnStep, hpc]; exact h
  case done => simp only [spawnStep, hpc]; exact h
  case cStopping => exact inv_at_cStopping c w h hpc
  case cUnregPid => exact inv_at_cUnregPid c w h hpc
  case cUnregName => exact inv_at_cUnregName c w h hpc
  case cPgDemon => exact inv_at_cPgDemon c w h hpc
  case cPgLeave => exact inv_at_cPgLeave c w h hpc
  case cTerminate => exact inv_at_cTerminate c w h hpc
  case cTake => exact inv_at_cTake c w h hpc
  case cNotify => exact inv_at_cNotify c w h hpc
  case cTreeUnlink => exact inv_at_cTreeUnlink c w h hpc
  case cStopped => exact inv_at_cStopped c w h hpc
  case cPubStopped => exact inv_at_cPubStopped c w h hpc
  case cStatusNotify => exact inv_at_cStatusNotify c w h hpc
  case kTake => exact inv_at_kTake c w h hpc
  case unstarted => exact inv_at_unstarted c w h hpc
  case cUnlink => exact inv_at_cUnlink c w h hpc
  case selfLink => exact inv_at_selfLink c w h hpc
  case link => exact inv_at_link c w h hpc
  case pre => exact inv_at_pre c w h hpc
  case pubStarting => exact inv_at_pubStarting c w h hpc
  case cNotifyWaiters => exact inv_at_cNotifyWaiters c w h hpc

theorem inv_step (c : Cfg) (w : W) (op : Op) (h : Inv w) : Inv (step c w op) := by
  cases op with
  | step => exact inv_spawnStep c w h
  | begin =>
    have h0 := h
    obtain ⟨a1, a2, a3, a4, a5, a6, a7, a8, a9, a10, a11, a12, a13, a14, a15⟩ := h
    simp only [step]
    split
    · exact h0
    · rename_i hpc
      simp only [ne_eq, Decidable.not_not] at hpc
      split
      · constructor <;> grind [failed, Pc.idx]
      · split <;> constructor <;> grind [failed, Pc.idx]
  | cast =>
    obtain ⟨a1, a2, a3, a4, a5, a6, a7, a8, a9, a10, a11, a12, a13, a14, a15⟩ := h
    simp only [step]
    split
    · constructor <;> assumption
    · constructor <;> grind [failed, Pc.idx]
  | call =>
    obtain ⟨a1, a2, a3, a4, a5, a6, a7, a8, a9, a10, a11, a12, a13, a14, a15⟩ := h
    simp only [step]
    split
    · constructor <;> assumption
    · split
      · constructor <;> (try assumption)
        intro p hp
        rw [List.getElem?_append] at hp
        split at hp
        · exact a14 p hp
        · cases hx : ([PortSt.sendErr] : List PortSt)[p - w.ports.length]? with
          | none => rw [hx] at hp; cases hp
          | some x =>
            rw [hx] at hp
            have : x = .sendErr := by
              have := List.mem_of_getElem? hx; simpa using this
            subst this; cases hp
      · rename_i hc
        constructor <;> (try assumption) <;> grind [failed, Pc.idx]
  | wait =>
    obtain ⟨a1, a2, a3, a4, a5, a6, a7, a8, a9, a10, a11, a12, a13, a14, a15⟩ := h
    simp only [step]
    split
    · constructor <;> assumption
    · split <;> constructor <;> grind [failed, Pc.idx]
  | joinExt g =>
    obtain ⟨a1, a2, a3, a4, a5, a6, a7, a8, a9, a10, a11, a12, a13, a14, a15⟩ := h
    simp only [step]
    split
    · constructor <;> assumption
    · rename_i hc
      constructor <;> (try assumption)
      intro hf h6
      have h6' : 6 ≤ w.pc.idx := h6
      have := a3 hf (by omega)
      simp at hc
      omega
  | stop =>
    obtain ⟨a1, a2, a3, a4, a5, a6, a7, a8, a9, a10, a11, a12, a13, a14, a15⟩ := h
    simp only [step]
    split <;> constructor <;> assumption
  | kill =>
    obtain ⟨a1, a2, a3, a4, a5, a6, a7, a8, a9, a10, a11, a12, a13, a14, a15⟩ := h
    simp only [step]
    split <;> constructor <;> assumption
  | drain =>
    obtain ⟨a1, a2, a3, a4, a5, a6, a7, a8, a9, a10, a11, a12, a13, a14, a15⟩ := h
    simp only [step]
    split
    · constructor <;> assumption
    · constructor <;> grind [failed, Pc.idx]
  | supSet st =>
    obtain ⟨a1, a2, a3, a4, a5, a6, a7, a8, a9, a10, a11, a12, a13, a14, a15⟩ := h
    simp only [step]
    split <;> constructor <;> grind [failed, Pc.idx]

theorem inv_run (c : Cfg) (ops : List Op) : ∀ w : W, Inv w → Inv (ops.foldl (step c) w) := by
  induction ops with
  | nil => intro w h; exact h
  | cons op rest ih => intro w h; exact ih _ (inv_step c w op h)

theorem inv_reach (c : Cfg) (ops : List Op) : Inv (run c ops) := inv_run c ops _ inv_init

/-- the spawn thread never loses or invents a `wait()` caller -/
theorem waitSum_spawnStep (c : Cfg) (w : W) :
    (spawnStep c w).waiting + (spawnStep c w).released = w.waiting + w.released ∧
    (spawnStep c w).exists_ = w.exists_ ∧ ((spawnStep c w).pc = .init ↔ w.pc = .init) := by
  unfold spawnStep
  cases hpc : w.pc <;> simp only <;> (try split) <;> (try split) <;> (try split) <;>
    simp [sideEffects, dropPorts, hpc] <;> (try omega)
  all_goals (cases c.outcome <;> simp <;> (try split) <;> (try split) <;> simp)

/-- every `wait()` issued on the cell is either parked or has returned — never lost -/
theorem waitSum_run (c : Cfg) (ops : List Op) : ∀ w : W, w.exists_ = true → w.pc ≠ .init →
    (ops.foldl (step c) w).waiting + (ops.foldl (step c) w).released =
      w.waiting + w.released + ops.count .wait ∧
    (ops.foldl (step c) w).exists_ = true := by
  induction ops with
  | nil => intro w h _; simp [h]
  | cons op rest ih =>
    intro w he hp
    have key : (step c w op).exists_ = true ∧ (step c w op).pc ≠ .init ∧
        (step c w op).waiting + (step c w op).released =
          w.waiting + w.released + (if op = .wait then 1 else 0) := by
      cases op with
      | step =>
        have := waitSum_spawnStep c w
        refine ⟨by simp only [step]; rw [this.2.1]; exact he, ?_, by simp only [step]; simp; exact this.1⟩
        simp only [step]; intro h; exact hp (this.2.2.mp h)
      | begin => simp [step, hp, he]
      | cast => simp only [step]; split <;> simp [he, hp]
      | call => simp only [step, he]; simp; split <;> simp [hp]
      | wait => simp only [step, he]; simp; split <;> simp [hp] <;> omega
      | joinExt g => simp only [step]; split <;> simp [he, hp]
      | stop => simp only [step]; split <;> simp [he, hp]
      | kill => simp only [step]; split <;> simp [he, hp]
      | drain => simp [step, he, hp]
      | supSet st => simp only [step]; split <;> simp [he, hp]
    have := ih (step c w op) key.1 key.2.1
    simp only [List.foldl_cons, List.count_cons]
    refine ⟨?_, this.2⟩
    rw [this.1, key.2.2]
    by_cases h : op = .wait <;> simp [h] <;> omega

/-- a name clash: the spawn ends at once and nothing of the world is ever touched -/
structure Untouched (w : W) : Prop where
  pc : w.pc = .done
  res : w.res = .errName
  noCell : w.exists_ = false
  fields : w.nameMine = false ∧ w.pidReg = false ∧ w.members = [] ∧ w.monitors = [] ∧ w.supSlot = false ∧
    w.supKids = false ∧ w.mailbox = [] ∧ w.ports = [] ∧ w.waiting = 0 ∧ w.released = 0 ∧ w.status = 0 ∧
    w.stopReq = false ∧ w.killReq = false ∧ w.admClosed = false

theorem untouched_step (c : Cfg) (w : W) (op : Op) (h : Untouched w) : Untouched (step c w op) := by
  obtain ⟨h1, h2, h3, h4⟩ := h
  cases op <;> simp only [step, spawnStep, h1, h3] <;> (try split) <;> constructor <;> simp_all

theorem untouched_run (c : Cfg) (ops : List Op) : ∀ w : W, Untouched w → Untouched (ops.foldl (step c) w) := by
  induction ops with
  | nil => intro w h; exact h
  | cons op rest ih => intro w h; exact ih _ (untouched_step c w op h)

/-- from the invariant: a failed spawn whose thread is done is clean -/
theorem clean_of_inv (w : W) (h : Inv w) (hf : failed w = true) (hd : w.pc = .done) : clean w = true := by
  obtain ⟨a1, a2, a3, a4, a5, a6, a7, a8, a9, a10, a11, a12, a13, a14, a15⟩ := h
  have i15 : w.pc.idx = 15 := by simp [hd, Pc.idx]
  have hst := a10 hf (by omega)
  have hdone := a11 hf i15
  have hmb := a15 hdone.2
  have hports : w.ports.all (· != .waiting) = true := by
    rw [List.all_eq_true]
    intro x hx
    obtain ⟨p, hp⟩ := List.getElem?_of_mem hx
    cases x with
    | waiting => have := (a14 p hp).1; rw [hdone.2] at this; cases this
    | _ => rfl
  simp only [clean, hst, a5 hf (by omega), a4 hf (by omega), a7 hf (by omega), a6 hf (by omega),
    a9 hf (by omega), a12, a8 hf (by omega), hdone.1, hdone.2, hmb, hports, a13.1, a13.2]
  simp

/-- the cleanup runs to its end: every spawn-thread step inside the cleanup moves on -/
theorem togo_step (c : Cfg) (w : W) (h : w.pc.inCleanup = true) :
    (spawnStep c w).pc.togo < w.pc.togo ∧ ((spawnStep c w).pc.inCleanup = true ∨ (spawnStep c w).pc = .done) := by
  unfold spawnStep
  cases hpc : w.pc <;> simp [hpc, Pc.inCleanup, Pc.togo] at h ⊢
  case cUnlink => split <;> simp [Pc.togo]
  case cNotifyWaiters => simp [dropPorts, Pc.togo]

end SpawnClean
