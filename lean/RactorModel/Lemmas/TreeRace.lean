import RactorModel.Lemmas.TreeProps

/-! The exit sequence as a small-step machine: it computes `exit`, and a `link` at any position
either is refused or comes before everything — in which case the new child is in the kill set. -/

namespace Tree

theorem xrun_add (fixed : Bool) (a : Nat) : ∀ (m n : Nat) (x : X), xrun fixed a (m + n) x = xrun fixed a n (xrun fixed a m x) := by
  intro m
  induction m with
  | zero => intro n x; simp [xrun]
  | succ m ih => intro n x; rw [Nat.succ_add]; simp only [xrun]; exact ih n _

theorem xrun_done (fixed : Bool) (a : Nat) : ∀ (n : Nat) (t : State), xrun fixed a n ⟨t, .done⟩ = ⟨t, .done⟩ := by
  intro n
  induction n with
  | zero => intro t; rfl
  | succ n ih => intro t; simp only [xrun, xstep]; exact ih t

/-- the worklist phase of the machine computes `loop` (for any sufficient fuel) -/
theorem xrun_loop (fixed : Bool) (a : Nat) : ∀ (f : Nat) (t : State) (pending : List Nat), Inv t →
    pending.length + totalKids t t.n ≤ f →
    ∃ k, xrun fixed a k ⟨t, .loop pending⟩ = ⟨loop fixed f t pending, .detach⟩ := by
  intro f
  induction f with
  | zero =>
    intro t pending _ hf
    have : pending = [] := List.length_eq_zero_iff.mp (by omega)
    subst this; exact ⟨1, rfl⟩
  | succ f ih =>
    intro t pending hi hf
    cases pending with
    | nil => exact ⟨1, rfl⟩
    | cons y rest =>
      obtain ⟨k, hk⟩ := ih (visit fixed t y).1 ((visit fixed t y).2 ++ rest) (hi.visit fixed y) (fuel_step fixed hi hf)
      exact ⟨k + 1, by simp only [xrun, xstep, Tree.loop]; exact hk⟩

theorem xrun_pre (fixed : Bool) (a : Nat) : ∀ (f : Nat) (t : State) (pending : List Nat), Inv t →
    pending.length + totalKids t t.n ≤ f →
    ∃ k, xrun fixed a k ⟨t, .pre pending⟩ = ⟨loop fixed f t pending, .pub⟩ := by
  intro f
  induction f with
  | zero =>
    intro t pending _ hf
    have : pending = [] := List.length_eq_zero_iff.mp (by omega)
    subst this; exact ⟨1, rfl⟩
  | succ f ih =>
    intro t pending hi hf
    cases pending with
    | nil => exact ⟨1, rfl⟩
    | cons y rest =>
      obtain ⟨k, hk⟩ := ih (visit fixed t y).1 ((visit fixed t y).2 ++ rest) (hi.visit fixed y) (fuel_step fixed hi hf)
      exact ⟨k + 1, by simp only [xrun, xstep, Tree.loop]; exact hk⟩

/-- what the machine computes: `exit`, preceded on the kill path by one `terminate` -/
def xresult (fixed kill : Bool) (s : State) (a : Nat) : State :=
  if kill then exit fixed (terminate fixed s a) a else exit fixed s a

theorem xrun_from_pub (fixed : Bool) (a : Nat) (t : State) (hi : Inv t) :
    ∃ k, xrun fixed a k ⟨t, .pub⟩ = ⟨exit fixed t a, .done⟩ := by
  obtain ⟨k, hk⟩ := xrun_loop fixed a (totalKids (setStatus t a .stopping) (setStatus t a .stopping).n + 1)
    (setStatus t a .stopping) [a] (hi.setStatus a _ (by decide)) (by simp; omega)
  refine ⟨1 + k + 2, ?_⟩
  rw [xrun_add, xrun_add]
  have e1 : xrun fixed a 1 ⟨t, .pub⟩ = ⟨setStatus t a .stopping, .loop [a]⟩ := rfl
  rw [e1, hk]
  rfl

theorem xrun_complete (fixed kill : Bool) (s : State) (a : Nat) (hi : Inv s) :
    ∃ k, xrun fixed a k (xinit kill a s) = ⟨xresult fixed kill s a, .done⟩ := by
  cases kill with
  | false => exact xrun_from_pub fixed a s hi
  | true =>
    obtain ⟨k1, h1⟩ := xrun_pre fixed a (totalKids s s.n + 1) s [a] hi (by simp; omega)
    obtain ⟨k2, h2⟩ := xrun_from_pub fixed a (terminate fixed s a) (hi.terminate fixed a)
    refine ⟨k1 + k2, ?_⟩
    rw [xrun_add]
    have e1 : xinit true a s = ⟨s, .pre [a]⟩ := rfl
    rw [e1, h1]
    exact h2

/-- a finished run is *the* finished run -/
theorem xrun_done_unique (fixed kill : Bool) (s : State) (a n : Nat) (hi : Inv s)
    (h : (xrun fixed a n (xinit kill a s)).pc = .done) :
    (xrun fixed a n (xinit kill a s)).t = xresult fixed kill s a := by
  obtain ⟨k, hk⟩ := xrun_complete fixed kill s a hi
  have h1 : xrun fixed a (n + k) (xinit kill a s) = xrun fixed a n (xinit kill a s) := by
    rw [xrun_add]
    generalize xrun fixed a n (xinit kill a s) = x at h
    obtain ⟨t, pc⟩ := x
    simp only at h; subst h
    exact xrun_done fixed a k t
  have h2 : xrun fixed a (k + n) (xinit kill a s) = ⟨xresult fixed kill s a, .done⟩ := by
    rw [xrun_add, hk]; exact xrun_done fixed a n _
  rw [Nat.add_comm] at h1
  rw [← h1, h2]

/-- after its first step the exiting actor refuses every link: its child set is closed or its
published status is at least `Stopping` -/
def Refusing (a : Nat) (x : X) : Prop :=
  x.t.kids a = none ∨ Status.stopping.toNat ≤ (x.t.status a).toNat

theorem status_max_ge (st st' : Status) : st'.toNat ≤ (st.max st').toNat ∧ st.toNat ≤ (st.max st').toNat := by
  unfold Status.max; split <;> omega

theorem Refusing.visit {fixed : Bool} {a : Nat} {t : State} {pc pc' : Pc} (y : Nat)
    (h : Refusing a ⟨t, pc⟩) : Refusing a ⟨(visit fixed t y).1, pc'⟩ := by
  obtain ⟨_, hst, hkx, hky, _⟩ := visit_spec fixed t y
  rcases h with h | h
  · left
    show (Tree.visit fixed t y).1.kids a = none
    by_cases e : a = y
    · subst e; exact hkx
    · rw [hky a e]; exact h
  · right
    show Status.stopping.toNat ≤ ((Tree.visit fixed t y).1.status a).toNat
    rw [hst]; exact h

theorem Refusing.step {fixed : Bool} {a : Nat} {x : X} (h : Refusing a x) : Refusing a (xstep fixed a x) := by
  obtain ⟨t, pc⟩ := x
  cases pc with
  | pre pending =>
    cases pending with
    | nil => exact h
    | cons y rest => exact h.visit y
  | pub =>
    right
    show Status.stopping.toNat ≤ ((Tree.setStatus t a .stopping).status a).toNat
    simp only [Tree.setStatus, upd_same]
    exact (status_max_ge _ _).1
  | loop pending =>
    cases pending with
    | nil => exact h
    | cons y rest => exact h.visit y
  | detach =>
    rcases h with h | h
    · left
      show (detachSelf t a).kids a = none
      rcases detachSelf_kids t a a with e | ⟨ks, e, _⟩
      · exact e.trans h
      · rw [h] at e; cases e
    · right
      show Status.stopping.toNat ≤ ((detachSelf t a).status a).toNat
      rw [(detachSelf_frame t a).2.1]; exact h
  | publishStopped =>
    rcases h with h | h
    · exact .inl h
    · right
      show Status.stopping.toNat ≤ ((Tree.setStatus t a .stopped).status a).toNat
      simp only [Tree.setStatus, upd_same]
      exact Nat.le_trans h (status_max_ge _ _).2
  | done => exact h

/-- the very first step of the exit makes the actor refuse links -/
theorem Refusing.first (fixed kill : Bool) (a : Nat) (s : State) : Refusing a (xstep fixed a (xinit kill a s)) := by
  cases kill with
  | false =>
    right
    show Status.stopping.toNat ≤ ((Tree.setStatus s a .stopping).status a).toNat
    simp only [Tree.setStatus, upd_same]
    exact (status_max_ge _ _).1
  | true =>
    left
    show (Tree.visit fixed s a).1.kids a = none
    exact (visit_spec fixed s a).2.2.1

theorem Refusing.run {fixed : Bool} {a : Nat} : ∀ (n : Nat) {x : X}, Refusing a x → Refusing a (xrun fixed a n x) := by
  intro n
  induction n with
  | zero => intro x h; exact h
  | succ n ih => intro x h; exact ih h.step

theorem refusing_link {a : Nat} {x : X} (h : Refusing a x) (c : Nat) : link x.t c a = (x.t, false) := by
  apply link_refused
  rcases h with h | h
  · exact .inr h
  · left; unfold gate; simp only [Status.toNat] at h ⊢; omega

end Tree

namespace Tree

/-- The link/exit race: `k` steps of `a`'s exit, then `link c a` (one atomic region), then the rest
of the exit.  Either the link is refused, or it came before the first step — and then the new child
is in the kill set of the exit (or is itself already stopping/stopped; on the pinned code: draining). -/
theorem race_link (fixed kill : Bool) (s : State) (hi : Inv s) (a c k n : Nat)
    (hdone : (raceRun fixed kill s a c a k n).1.pc = .done) :
    (raceRun fixed kill s a c a k n).2 = false ∨
    (k = 0 ∧ ((raceRun fixed kill s a c a k n).1.t.killed c = true ∨
      (if fixed then Status.stopping.toNat ≤ ((raceRun fixed kill s a c a k n).1.t.status c).toNat
       else Status.draining.toNat ≤ ((raceRun fixed kill s a c a k n).1.t.status c).toNat))) := by
  cases k with
  | succ k =>
    left
    have hr : Refusing a (xrun fixed a (k + 1) (xinit kill a s)) := by
      simp only [xrun]; exact (Refusing.first fixed kill a s).run k
    simp only [raceRun, refusing_link hr c]
  | zero =>
    cases hres : (link s c a).2 with
    | false => left; exact hres
    | true =>
      right
      refine ⟨rfl, ?_⟩
      obtain ⟨_, _, hsup⟩ := link_true hres
      have hi2 : Inv (link s c a).1 := hi.link c a
      have hst2 : (link s c a).1.status = s.status := (link_other hi (c := c) (p := a) (z := c)).2.2.2.1
      have hchild : child (link s c a).1 a c := (hi2.links c a).mp hsup
      have hd : Desc (link s c a).1 a c := .tail .refl hchild
      have hfin : (raceRun fixed kill s a c a 0 n).1 = xrun fixed a n (xinit kill a (link s c a).1) := rfl
      rw [hfin] at hdone ⊢
      rw [xrun_done_unique fixed kill _ a n hi2 hdone]
      generalize (link s c a).1 = t2 at hi2 hd hst2
      by_cases hca : c = a
      · -- a self-link: the actor itself ends up stopped
        subst hca
        right
        have : (xresult fixed kill t2 c).status c = .stopped := by
          unfold xresult; split <;> simp [exit_status]
        rw [this]; cases fixed <;> simp [Status.toNat]
      · cases kill with
        | false =>
          simp only [xresult, Bool.false_eq_true, ↓reduceIte]
          rcases exit_kills fixed t2 a hi2 c hd hca with h | h
          · exact .inl h
          · right; rw [exit_status]; simpa [hca] using h
        | true =>
          simp only [xresult, ↓reduceIte]
          obtain ⟨_, _, _, _, E, hst, _⟩ := terminate_spec fixed t2 a hi2
          have hi3 : Inv (terminate fixed t2 a) := hi2.terminate fixed a
          cases hc : killCond fixed (t2.status c) with
          | true =>
            left
            rw [exit_killed fixed _ a hi3 c]
            exact .inl ((E c).mpr (.inr ⟨hd, hc⟩))
          | false =>
            right
            rw [exit_status]; simp only [hca, ↓reduceIte, hst]
            obtain ⟨h1, h2⟩ := killCond_false hc
            cases fixed
            · simpa using h2 rfl
            · simpa using h1 rfl

end Tree
