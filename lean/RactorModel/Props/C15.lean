import RactorModel.Lemmas.GenLeakyBucket
import RactorModel.Lemmas.LeakyBucket
import RactorModel.Lemmas.FactoryFrame
import RactorModel.Extracted
import RactorModel.Lemmas.FactoryCountW
import RactorModel.Lemmas.FactoryShape
import RactorModel.Lemmas.FactoryDrain
import RactorModel.Lemmas.FactoryHooks
import RactorModel.Lemmas.FactoryActors
import RactorModel.Lemmas.FactoryLimitRun
import RactorModel.Lemmas.FactoryLimitChange
import RactorModel.Lemmas.FactoryLimitHigh
import RactorModel.Lemmas.FactoryWorkerLimit

/-!
# C15 — Factory capacity controls: limits, rate, pool size, draining

Property theorems only.  Models: `Model/LeakyBucket.lean` (tied to
`ractor/src/factory/ratelim.rs` by the E-PURE harness `factory_pure`) and
`Model/Factory.lean` (tied to the real `Factory` actor by the E-LTS harness `factory`).
Helper lemmas: `Lemmas/LeakyBucket.lean`, `Lemmas/Factory*.lean`.
-/

namespace C15
open LeakyBucket

/-! ## Leaky bucket -/

/-- (cap) `balance ≤ max` always: for every configuration (including `interval = 0`, huge
refills), every initial balance, and every sequence of `check`/`bump` calls at arbitrary times. -/
theorem bucket_balance_le_max (c : Cfg) (initial : Option Nat) (t0 : Nat) (calls : List Call) :
    balanceOk c (run c (new c initial t0) calls) = true := by
  simpa [balanceOk] using run_balance_le_max c _ calls (new_balance_le_max c initial t0)

/-- `boundaries c (some d) t1` is exactly the number of refill instants `d, d+I, d+2I, …`
up to `t1` — the interval boundaries the limiter crosses. -/
theorem bucket_boundaries_count (c : Cfg) (hI : 0 < c.interval) (d t1 k : Nat) :
    d + k * c.interval ≤ t1 ↔ k < boundaries c (some d) t1 :=
  boundaries_spec c hI d t1 k

/-- (window) For `interval > 0`, from ANY limiter state `s` and for every sequence of
`check`/`bump` calls whose `check` times are `≤ t1` (non-decreasing times are a special
case; the bound does not even need monotonicity), the number of admitted jobs —
token-taking bumps — plus the balance left at the end is at most
`balance(s) + refill · (number of interval boundaries crossed up to t1)`. -/
theorem bucket_window_bound (c : Cfg) (hI : 0 < c.interval) (s : LB) (calls : List Call) (t1 : Nat)
    (ht : timesLe t1 calls = true) :
    admitted c s calls + (run c s calls).balance
      ≤ s.balance + c.refill * boundaries c s.deadline t1 := by
  have h := admitted_add_budget_le c hI t1 s calls ht
  unfold budget at h
  omega

/-- The same statement as the decidable predicate the driver evaluates on the
implementation's observations (any `interval`, the clause is void for `interval = 0`). -/
theorem bucket_admitOk (c : Cfg) (s : LB) (calls : List Call) (t1 : Nat)
    (ht : timesLe t1 calls = true) : admitOk c s (admitted c s calls) t1 = true := by
  unfold admitOk
  by_cases hI : c.interval = 0
  · simp [hI]
  · have h := admitted_add_budget_le c (Nat.pos_of_ne_zero hI) t1 s calls ht
    simp only [Bool.or_eq_true, decide_eq_true_eq]
    right; omega

/-- (window, wall-clock form) if the state was refreshed at `t0` (its next deadline lies
after `t0`), at most `balance(t0) + refill · ((t1 - t0) / interval + 1)` jobs are admitted in
`[t0, t1]`; the `+ 1` disappears when less than one interval fits before the first boundary:
precisely, the count is the number of boundaries `d + k·I` in `(t0, t1]`. -/
theorem bucket_window_wallclock (c : Cfg) (hI : 0 < c.interval) (s : LB) (calls : List Call)
    (t0 t1 d : Nat) (hd : s.deadline = some d) (hfresh : t0 < d)
    (ht : timesLe t1 calls = true) :
    admitted c s calls ≤ s.balance + c.refill * ((t1 - t0) / c.interval + 1) := by
  have h := bucket_window_bound c hI s calls t1 ht
  have hb : boundaries c s.deadline t1 ≤ (t1 - t0) / c.interval + 1 := by
    rw [hd]; unfold boundaries; simp only
    split
    · exact Nat.succ_le_succ (Nat.div_le_div_right (by omega))
    · exact Nat.zero_le _
  have := Nat.mul_le_mul_left c.refill hb
  omega

/-- The router's pattern `check` → `true` → `bump` always takes a token: an admitted job is
counted. -/
theorem bucket_check_bump_effective (c : Cfg) (s : LB) (now : Nat)
    (h : (check c s now).2 = true) : effective (check c s now).1 .bump = true := by
  simpa [check, effective] using h

/-- A rejected `check` means the (refreshed) bucket is empty, and vice versa. -/
theorem bucket_check_false_iff (c : Cfg) (s : LB) (now : Nat) :
    (check c s now).2 = false ↔ (refresh c s now).balance = 0 := by
  simp [check]

/-- (saturation) every intermediate quantity stays inside the machine ranges of the source:
the per-refresh token grant is capped at `MAX_LB_BALANCE = isize::MAX`, and with a
representable `max` the balance stays a `usize`. The functions are total (no panic path):
the differential harness runs the real code with overflow checks on. -/
theorem bucket_saturates (c : Cfg) (hmax : c.max ≤ USIZE_MAX) (initial : Option Nat) (t0 : Nat)
    (calls : List Call) (d now : Nat) :
    (run c (new c initial t0) calls).balance ≤ USIZE_MAX ∧ tokens c d now ≤ MAX_LB_BALANCE :=
  ⟨Nat.le_trans (run_balance_le_max c _ calls (new_balance_le_max c initial t0)) hmax,
   tokens_le_cap c d now⟩

/-- (zero interval) with `interval = 0` every `check` at or after the deadline adds one
`refill` (saturating) and re-arms at `now`; in particular it terminates and never divides. -/
theorem bucket_zero_interval (c : Cfg) (h0 : c.interval = 0) (s : LB) (d now : Nat)
    (hd : s.deadline = some d) (hnow : d ≤ now) :
    refresh c s now = { balance := min (satAdd s.balance c.refill) c.max, deadline := some now } := by
  unfold refresh
  simp [hd, h0, Nat.not_lt.mpr hnow]


/-! ## Discard limit on the factory queue (`maybe_enqueue`) -/

open Factory in
/-- (limit, Oldest) after `maybe_enqueue` the factory queue holds at most `L` jobs — for every
`L` including 0, every prior queue content (also one longer than `L` after a limit reduction:
it is trimmed), both queue types. The shedding loop left through its own exit condition. -/
theorem limit_oldest (w : W) (j : Job) (L : Nat) (hd : w.disc = some (L, .oldest)) :
    (w.maybeEnqueue j).queue.length ≤ L :=
  maybeEnqueue_oldest_le w j L hd

open Factory in
/-- (limit, Newest) a discardable job never makes the factory queue longer than
`max L lenBefore`: at or above `L` the incoming job is rejected (after a limit reduction the
queue only stops growing). -/
theorem limit_newest (w : W) (j : Job) (L : Nat) (hd : w.disc = some (L, .newest))
    (hdisc : discardable w.cfg j = true) :
    (w.maybeEnqueue j).queue.length ≤ max L w.queue.length :=
  maybeEnqueue_newest_le w j L hd hdisc

open Factory in
/-- (limit, Newest, the statement's wording) the number of waiting DISCARDABLE jobs never
exceeds `max L before`, whatever non-discardable jobs do; with a constant `L` it is the
invariant "at most `L` waiting discardable jobs". -/
theorem limit_newest_discardable (w : W) (j : Job) (L : Nat) (hd : w.disc = some (L, .newest)) :
    ((w.maybeEnqueue j).queue.filter (discardable w.cfg)).length
      ≤ max L (w.queue.filter (discardable w.cfg)).length :=
  maybeEnqueue_newest_discardable w j L hd

open Factory in
/-- (Newest sheds the incoming job, once) -/
theorem newest_sheds_incoming_once (w : W) (j : Job) (L : Nat) (hd : w.disc = some (L, .newest))
    (hdisc : discardable w.cfg j = true) (hfull : L ≤ w.queue.length) :
    (w.maybeEnqueue j).queue = w.queue ∧
    (w.maybeEnqueue j).env.log = w.env.log ++ [loadshedEv w.handler j] ++ (if j.port then [Ev.reply j.id true] else []) :=
  maybeEnqueue_newest_shed w j L hd hdisc hfull

open Factory in
/-- (Oldest sheds from the head, each shed job reported exactly once) the jobs removed are
exactly `shed`, every other job stays, and the history grows by exactly one `Loadshed`
report per shed job. -/
theorem oldest_sheds_each_once (w : W) (j : Job) (L : Nat) (hd : w.disc = some (L, .oldest)) :
    ∃ shed : List Job,
      (w.queue ++ [{ j with port := false }]).Perm (shed ++ (w.maybeEnqueue j).queue) ∧
      (w.maybeEnqueue j).env.log = (w.env.accept j).log ++ shed.map (loadshedEv w.handler) :=
  maybeEnqueue_oldest_shed w j L hd


open Factory in
/-- (limit, at the level of the `Dispatch` handler) for every state of the factory, every
router and queue type: handling a dispatch of a discardable job never leaves the factory queue
longer than `max L lenBefore`. With a limit that is constant since the queue was within it, this
is the invariant "never more than `L` waiting jobs after a dispatch has been processed". -/
theorem limit_dispatch (w : W) (j : Job) (L : Nat) (m : Mode) (hd : w.disc = some (L, m))
    (hdisc : discardable w.cfg j = true) : (w.dispatch j).queue.length ≤ max L w.queue.length :=
  dispatch_queue_le w j L m hd hdisc

/-! ## The discard limit over whole runs -/

open Factory in
/-- (limit, run level, Oldest) For every configuration with `DiscardSettings::Static { limit: L, mode: Oldest }`
and EVERY sequence of operations that does not change the discard settings — dispatches with any keys/TTLs,
completions, worker failures and kills, resizes, handler updates, drain, clock advances, a factory held busy —
the factory queue holds at most `L` jobs at every quiescent point, for both queue types, every router and with or
without a rate limiter. (Audit C15 §5.1: the one-step lemma `limit_oldest` lifted to runs. Proof: apart from
`maybe_enqueue` every function leaves a SUBLIST of the queue, `Lemmas/FactoryLimitRun.lean`.) -/
theorem queue_limit_oldest_run (c : CaseCfg) (L : Nat) (hd : c.disc = some (L, .oldest)) (steps : List Step)
    (hk : steps.all (fun s => s.op.keepsDisc) = true) :
    ((init c).runSteps steps).queue.length ≤ L :=
  (lim_always (meas_oldest L) c hd (Nat.zero_le _) steps hk).bound

open Factory in
/-- (limit, run level, Newest) same quantification with mode `Newest`: the factory queue never holds more than
`L` waiting DISCARDABLE jobs (with the priority queue, non-discardable jobs are admitted beyond the limit — that
is what `is_discardable` is for). -/
theorem queue_limit_newest_run (c : CaseCfg) (L : Nat) (hd : c.disc = some (L, .newest)) (steps : List Step)
    (hk : steps.all (fun s => s.op.keepsDisc) = true) :
    (((init c).runSteps steps).queue.filter (discardable ((init c).runSteps steps).cfg)).length ≤ L :=
  (lim_always (meas_newest L) c hd (Nat.zero_le _) steps hk).bound

open Factory in
/-- … and the settings really stay what they were -/
theorem disc_settings_constant_run (c : CaseCfg) (steps : List Step) (hk : steps.all (fun s => s.op.keepsDisc) = true) :
    ((init c).runSteps steps).disc = c.disc :=
  (lim_always (D := c.disc) (μ := fun _ _ => 0) (L := 0) ⟨fun _ _ _ _ => Nat.le_refl _, fun _ _ _ => Nat.zero_le _⟩
    c rfl (Nat.le_refl _) steps hk).disc

open Factory in
def limRunCase : CaseCfg :=
  { cfg := { router := .q, prioQueue := false, hasHandler := true, table := [], hasCC := false }, n := 1,
    disc := some (1, .oldest), rl := none }
open Factory in
def limRunSteps : List Step :=
  [⟨.nop, 0, 2000000, 3000000⟩, ⟨.dispatch 1 1 0 none false, 3000000, 4000000, 5000000⟩,
   ⟨.dispatch 2 2 0 none false, 5000000, 6000000, 7000000⟩, ⟨.dispatch 3 3 0 none false, 7000000, 8000000, 9000000⟩,
   ⟨.dispatch 4 4 0 none false, 9000000, 10000000, 11000000⟩]
open Factory in
/-- non-vacuity: the bound is reached (worker busy with job 1, job 4 waits, jobs 2 and 3 were shed) -/
example : limRunSteps.all (fun s => s.op.keepsDisc) = true ∧ ((init limRunCase).runSteps limRunSteps).queue.map (·.id) = [4] := by
  decide +kernel

/-! ## `DiscardSettings::Dynamic` -/

open Factory in
/-- (Dynamic settings) At every `DoPings` a factory with `DiscardSettings::Dynamic { limit, mode, updater }` replaces
`limit` by the controller's answer and does nothing else to its bookkeeping (`send_pings`; nothing is shed at that
moment, the next `maybe_enqueue` sees the new limit). For the routers that queue at the factory the engine replays
that step as the model's `UpdateSettings(Static{limit', mode})`; this theorem is the model half of that reduction:
the message changes the limit and nothing else — queue, environment (no discard, no reply), pool size, router state
are untouched, and every worker keeps the setting `None` it has under these routers. The implementation half (the
real `DoPings` with a scripted controller does what this message does) is the differential replay of the `ping` op. -/
theorem dynamic_limit_update (w : W) (nl : Nat) (m : Mode) (hq : isFactoryQueueing w.cfg.router = true) :
    (w.updateSettings (some (some (nl, m))) none).disc = some (nl, m) ∧
    (w.updateSettings (some (some (nl, m))) none).queue = w.queue ∧
    (w.updateSettings (some (some (nl, m))) none).env = w.env ∧
    (w.updateSettings (some (some (nl, m))) none).poolSize = w.poolSize ∧
    (w.updateSettings (some (some (nl, m))) none).avail = w.avail ∧
    (w.updateSettings (some (some (nl, m))) none).pool = w.pool.map (fun p => { p with disc := none }) := by
  unfold W.updateSettings W.workerDiscard
  simp [hq]

/-! ## Discard limit on the worker queues (`enqueue_job`, worker-queueing routers) -/

open Factory in
/-- (limit, worker queue) `enqueue_job` never grows a worker's message queue beyond
`max L lenBefore`, in both discard modes and for every `L` (0 included), whenever the hand-over
to the worker's actor succeeds (the actor is open — true at every message boundary, because
supervision events outrank messages; a hand-over to a worker that has just died keeps the job
in the queue for the replacement, see `C13.dispatchJob_to_dead_keeps_job`). -/
theorem limit_worker_queue (p : WP) (e : Env) (j : Job) (L : Nat) (m : Mode) (hd : p.disc = some (L, m))
    (hopen : ActorOpen e p.actor) : (p.enqueueJob e j).1.mq.length ≤ max L p.mq.length :=
  enqueueJob_length p e j L m hd hopen

open Factory in
/-- (limit, worker queue, Oldest) with a job in flight the queue ends within `L` even if it
was longer before (limit lowered): the oldest jobs are shed; the loop terminates by its own
exit condition. -/
theorem limit_worker_oldest (p : WP) (e : Env) (j : Job) (L : Nat) (hd : p.disc = some (L, .oldest))
    (hbusy : p.curr ≠ []) : (p.enqueueJob e j).1.mq.length ≤ L :=
  enqueueJob_oldest_le p e j L hd hbusy

open Factory in
/-- (limit, worker queues, WHOLE RUNS; under `noStaleRun`) for the routers that queue at the workers (key-persistent,
round-robin, custom hash), every configuration with a discard limit `L` (either mode, 0 included, with or without a
rate limiter, either queue type) and EVERY sequence of operations that leaves the discard settings alone and contains
no stale completion (F4) — dispatches, completions, failures and kills, resizes, drains, handler updates, clock
advances, a factory held busy and released — every worker's own queue holds at most `L` jobs at every instant an
operation has been applied. (Audit C15 §5.1, the worker-queue half of the property's first sentence: the one-step
lemma `limit_worker_queue` ASSUMED that the target's actor is open; here that is derived for every enqueue of every
run. Three run invariants carry each other, `Lemmas/FactoryWorkerLimit.lean`: the actors agree with the bookkeeping
(`J`), so when the factory handles a message every slot's actor is open and `dispatch_job` never pushes a job back;
while there is a worker the factory queue is empty (`NB`), so nothing is routed while a dead worker waits for its
replacement; the bound itself.) Without `noStaleRun` the hand-over assumption fails exactly as in F4. -/
theorem worker_queue_limit_run_partial (c : CaseCfg) (L : Nat) (m : Mode)
    (hq : isFactoryQueueing c.cfg.router = false) (hd : c.disc = some (L, m)) (steps : List Step)
    (hk : steps.all (fun s => s.op.keepsDisc) = true) (hns : noStaleRun (init c) steps = true) :
    ∀ p ∈ ((init c).runSteps steps).pool, p.disc = some (L, m) ∧ p.mq.length ≤ L :=
  fun p hp => (wl_always c hq hd steps hk hns).b.all p hp

open Factory in
def wqRunCase : CaseCfg :=
  { cfg := { router := .kp, prioQueue := false, hasHandler := true, table := [], hasCC := false }, n := 1,
    disc := some (1, .oldest), rl := none }
open Factory in
/-- non-vacuity: the bound is reached on the worker's queue (job 1 in flight, job 4 waits, 2 and 3 were shed) -/
example : limRunSteps.all (fun s => s.op.keepsDisc) = true ∧ noStaleRun (init wqRunCase) limRunSteps = true ∧
    ((init wqRunCase).runSteps limRunSteps).pool.map (fun p => p.mq.map (·.id)) = [[4]] := by
  decide +kernel

/-! ## Rate limiting: rejections are reported `RateLimited` -/

open Factory in
/-- when the leaky bucket refuses (`check` false at the factory's clock), a dispatched job is
reported `RateLimited` (once, plus the acceptance port), reaches neither a worker nor the queue,
and no token is taken. -/
theorem rate_limited_dispatch (w : W) (j : Job) (c : LeakyBucket.Cfg) (lb : LeakyBucket.LB)
    (hne : j.expired w.env.now = false) (hd : w.drain = .notDraining) (hrl : w.rl = some (c, lb))
    (hno : (LeakyBucket.check c lb w.env.now).2 = false) :
    (w.dispatch j).env.log = w.env.log ++
        (Ev.discard .rateLimited j.id w.handler :: (if j.port then [Ev.reply j.id true] else [])) ∧
    (w.dispatch j).queue = w.queue ∧ (w.dispatch j).pool = w.pool ∧
    (w.dispatch j).rl = some (c, (LeakyBucket.check c lb w.env.now).1) := by
  unfold W.dispatch W.routeMessage W.routeLimited
  simp only [hne, hd, hrl, hno, Bool.false_eq_true, if_false, beq_self_eq_true, if_true, Bool.not_false]
  refine ⟨?_, trivial, trivial, trivial⟩
  unfold Env.reject Env.discard Env.emit
  split <;> simp

/-! ## Pool size: resize requests, worker deaths, convergence -/

open Factory in
/-- (pool shape) For every configuration and EVERY sequence of operations — resize requests in
any order (through `AdjustWorkerPool`, `UpdateSettings` or the capacity controller), interleaved
with busy workers, completions, worker failures and kills at any point, drain — the factory's
pool always has: one record per slot; every slot `< pool_size` present and not flagged draining
(a dead worker is replaced in place); every slot `≥ pool_size` flagged draining AND still with
work. (Holds since the F5 fix; before it a draining slot could linger without work.) -/
theorem pool_shape (c : CaseCfg) (steps : List Step) :
    Shape ((init c).runSteps steps).poolSize ((init c).runSteps steps).pool :=
  shapeInv_runSteps (init c) steps (shapeInv_init c)

open Factory in
/-- (live worker ACTORS = pool slots — `_partial`: finding F4 excluded by `noStaleRun`) For every
configuration and EVERY sequence of operations in which no worker is killed while one of its completion
reports is still unprocessed, as long as the factory has not entered `post_stop`:
(1) every pool slot has a worker actor of its own (distinct slots, distinct actors) that is alive — or
dead with its supervision event still waiting to be handled (then it is replaced in place);
(2) every live worker actor is the worker of exactly such a slot, or it is idle and has been told to
stop (it exits at its next turn). With `pool_shape` / `pool_converges` (slots = `0 … pool_size-1` once
nobody has work): the live workers converge to the last requested size. -/
theorem live_workers_are_pool_slots_partial (c : CaseCfg) (steps : List Step) (hns : noStaleRun (init c) steps = true) :
    let w := (init c).runSteps steps
    w.stopped = false →
      (∀ p ∈ w.pool, ∃ a, w.env.getActor p.actor = some a ∧ a.wid = p.wid ∧ (a.alive = true ∨ p.actor ∈ w.env.sup)) ∧
      (∀ p ∈ w.pool, ∀ q ∈ w.pool, p.actor = q.actor → p = q) ∧
      (∀ aid a, w.env.getActor aid = some a → a.alive = true →
        (∃ p ∈ w.pool, p.actor = aid ∧ p.wid = a.wid ∧ a.stopReq = false) ∨ (a.heldJobs = [] ∧ a.stopReq = true)) := by
  intro w hs
  have hc := (j_always c steps hns).core hs
  refine ⟨?_, fun p hp q hq h => hc.actor_inj hp hq h, ?_⟩
  · intro p hp
    obtain ⟨a, g, hw, _, hd⟩ := hc.sa p hp
    refine ⟨a, g, hw, ?_⟩
    cases hx : a.alive with
    | true => exact Or.inl rfl
    | false => exact Or.inr (hd hx).1
  · intro aid a g hal
    by_cases hslot : ∃ p ∈ w.pool, p.actor = aid
    · obtain ⟨p, hp, hpa⟩ := hslot
      obtain ⟨x, gx, hxw, hxa, _⟩ := hc.sa p hp
      rw [hpa, g] at gx; cases gx
      exact Or.inl ⟨p, hp, hpa, hxw.symm, (hxa hal).1⟩
    · exact Or.inr (hc.free aid a g hal (fun p hp hpa => hslot ⟨p, hp, hpa⟩))

open Factory in
/-- (the hypothesis of `limit_worker_queue`, as an invariant — `_partial` under `noStaleRun`) whenever the factory
has no supervision event left to handle — which is the case whenever it handles a MESSAGE, since supervision
events outrank messages — the worker actor of every pool slot is open: a hand-over (`dispatch_job`) to it succeeds.
`limit_worker_queue` assumed this (`ActorOpen`); it is now derived for every run without a stale completion. -/
theorem slot_workers_open_at_message_boundary_partial (c : CaseCfg) (steps : List Step)
    (hns : noStaleRun (init c) steps = true) :
    let w := (init c).runSteps steps
    w.stopped = false → w.env.sup = [] → ∀ p ∈ w.pool, ActorOpen w.env p.actor := by
  intro w hs hsup p hp
  have hc := (j_always c steps hns).core hs
  obtain ⟨a, g, _, _, hd⟩ := hc.sa p hp
  refine ⟨a, g, ?_⟩
  cases hx : a.alive with
  | true => rfl
  | false =>
    have := (hd hx).1
    rw [hsup] at this; cases this

open Factory in
/-- (convergence) once no slot has work, the pool is exactly the slots `0 … pool_size - 1`,
one worker each — whatever sequence of resizes and deaths led there. -/
theorem pool_converges (c : CaseCfg) (steps : List Step)
    (hidle : ∀ p ∈ ((init c).runSteps steps).pool, p.isWorking = false) :
    (((init c).runSteps steps).pool.map (·.wid)).Perm (List.range ((init c).runSteps steps).poolSize) :=
  (pool_shape c steps).idle_exact hidle

open Factory in
/-- (last non-zero request wins) `resize_pool` ignores a request of 0 and otherwise sets the
pool size to the request (capped at `GLOBAL_WORKER_POOL_MAXIMUM`) -/
theorem resize_sets_size (w : W) (n : Nat) :
    (w.resizePool n).poolSize = if n = 0 then w.poolSize else min GLOBAL_WORKER_POOL_MAXIMUM n :=
  resizePool_poolSize w n

/-! ## Draining -/

open Factory in
/-- (no way back) once the factory has handled `DrainRequests` (its drain state left
`NotDraining`) no sequence of operations whatsoever brings it back. -/
theorem drain_is_forever (w : W) (steps : List Step) (hd : w.drain ≠ .notDraining) :
    (w.runSteps steps).drain ≠ .notDraining :=
  runSteps_drainMono w steps hd

open Factory in
/-- (new jobs are refused) in a draining or drained factory every `Dispatch` is rejected with
`Shutdown` — reported once to the discard handler, handed back once through the acceptance
port — and reaches neither a worker nor a queue. -/
theorem drain_refuses_dispatch (w : W) (j : Job) (hne : j.expired w.env.now = false)
    (hd : w.drain ≠ .notDraining) :
    (w.dispatch j).env.log = w.env.log ++
        (Ev.discard .shutdown j.id w.handler :: (if j.port then [Ev.reply j.id true] else [])) ∧
    (w.dispatch j).queue = w.queue ∧ (w.dispatch j).pool = w.pool := by
  unfold W.dispatch
  have : (w.drain == Drain.notDraining) = false := by
    cases hw : w.drain <;> simp_all
  simp only [hne, this, Bool.false_eq_true, if_false]
  refine ⟨?_, trivial, trivial⟩
  unfold Env.reject Env.discard Env.emit
  split <;> simp

open Factory in
/-- (`DrainRequests` is handled) the handler moves to `Draining` and runs the draining hook -/
theorem drain_request_handled (w : W) :
    (w.handleMsg .drainRequests).drain = .draining ∧
    (w.handleMsg .drainRequests).env.log = w.env.log ++ [Ev.hook .draining] := by
  simp [W.handleMsg, W.emit, Env.emit]

open Factory in
/-- (the factory then stops) at the end of any handler, a draining factory whose workers are
all free and whose queue is empty marks itself drained and asks itself to stop; the actor loop
honours the stop before any further supervision event or message and enters `post_stop`: from
then on the factory handles and accepts nothing; once the workers it waits for have exited the
stopped hook runs and the actor is `Stopped`. -/
theorem drained_factory_stops (w : W) (hb : w.blocked = false) (hd : w.drain = .draining)
    (hfree : w.pool.all (·.isAvailable) = true) (hq : w.queue = []) :
    w.afterHandle.stopSignal = true ∧ w.afterHandle.drain = .drained ∧
    (∀ w' : W, w'.stopSignal = true → w'.stopped = false → w'.blocked = false →
      w'.loopStep = some w'.postStop ∧ w'.postStop.stopped = true ∧ w'.postStop.loopStep = none) ∧
    (∀ w' : W, w'.stopped = true → w'.exited = false →
      w'.awaiting.all (fun aid => !(w'.env.getActor aid).any (·.alive)) = true →
      w'.tryFinishStop.exited = true ∧
      ∃ rest, w'.tryFinishStop.env.log = w'.env.log ++ Ev.hook .stopped :: rest) := by
  refine ⟨?_, ?_, ?_, ?_⟩
  · unfold W.afterHandle W.isDrained
    simp [hb, hd, hfree, hq]
  · unfold W.afterHandle W.isDrained
    simp [hb, hd, hfree, hq]
  · intro w' hs hst hbl
    refine ⟨?_, rfl, ?_⟩
    · unfold W.loopStep
      simp [hs, hst, hbl]
    · unfold W.loopStep W.postStop
      simp
  · intro w' hst hex haw
    unfold W.tryFinishStop
    simp only [hst, hex, haw, Bool.not_false, Bool.and_self, if_true, true_and]
    obtain ⟨rest, hr⟩ := foldl_dropMsg_log w'.inbox (w'.env.emit (.hook .stopped))
    obtain ⟨rest2, hr2⟩ := killAll_log (w'.inbox.foldl Env.dropMsg (w'.env.emit (.hook .stopped)))
    exact ⟨rest ++ rest2, by rw [hr2, hr]; simp [Env.emit]⟩

open Factory in
/-- … and does not stop earlier: with a worker still busy or a job still queued the drain state
stays `Draining` and no stop is requested (previously accepted jobs get their turn). -/
theorem draining_waits_for_work (w : W) (hb : w.blocked = false) (hd : w.drain = .draining)
    (hs : w.stopSignal = false)
    (hbusy : w.pool.all (·.isAvailable) = false ∨ w.queue ≠ []) :
    w.afterHandle.stopSignal = false ∧ w.afterHandle.drain = .draining := by
  unfold W.afterHandle W.isDrained
  rcases hbusy with h | h
  · simp [hb, hd, h, hs]
  · have : (w.queue.length == 0) = false := by
      cases hq : w.queue with
      | nil => exact absurd hq h
      | cons _ _ => rfl
    simp [hb, hd, this, hs]

open Factory in
/-- (drain after the LAST busy worker died — audit item) `handle_supervisor_evt` ends without the `is_drained()`
check that ends `handle`: when the last busy worker of a draining factory dies, the factory — now idle, queue
empty — is still up after the supervision event. It stops at the NEXT message it handles; the one that is
guaranteed to come is the `Calculate` tick (re-armed by every `calculate_metrics`, period
`CALCULATE_FREQUENCY` = 100 ms): for ANY such state, handling `Calculate` (not suspended in a capacity
controller) raises the stop signal. So "the factory then stops" holds with a delay of at most one tick; the
harness's own post-operation query plays the role of that next message (stat
`drained_factory_stopped_only_by_next_message`). -/
theorem drain_completes_at_next_tick (w : W) (hd : w.drain = .draining)
    (hidle : w.pool.all (·.isAvailable) = true) (hq : w.queue = []) (hb : w.blocked = false)
    (hg : (w.cfg.hasCC && w.armed) = false) :
    ((w.handleMsg .calculate).afterHandle).stopSignal = true := by
  have h1 : w.handleMsg .calculate = w.calcRest := by
    show (if w.cfg.hasCC && w.armed then { w with armed := false, blocked := true } else w.calcRest) = _
    rw [hg]; rfl
  rw [h1]
  have hpool : w.calcRest.pool = w.pool := by
    unfold W.calcRest W.removeExpired; split <;> rfl
  have hqueue : w.calcRest.queue = [] := by
    unfold W.calcRest W.removeExpired; split
    · simp only [hq, List.filter_nil]
    · exact hq
  have hblocked : w.calcRest.blocked = false := by
    unfold W.calcRest W.removeExpired; split <;> exact hb
  have hdrain : w.calcRest.drain = .draining := by
    unfold W.calcRest W.removeExpired; split <;> exact hd
  exact (drained_factory_stops w.calcRest hblocked hdrain (by rw [hpool]; exact hidle) hqueue).1

open Factory in
/-- the scenario on the model (queuer, 1 worker): job 1 running, DrainRequests, the worker is killed. Right
after the supervision event (before any further message) the factory is up, idle and draining, its stop signal
down; 100 ms later — the `Calculate` tick, no other message — it has stopped. -/
def drainDeathCase : CaseCfg :=
  { cfg := { router := .q, prioQueue := false, hasHandler := true, table := [], hasCC := false }, n := 1, disc := none, rl := none }
open Factory in
def drainDeathSteps : List Step :=
  [⟨.nop, 0, 2000000, 3000000⟩, ⟨.dispatch 1 1 0 none false, 3000000, 4000000, 5000000⟩, ⟨.drain, 5000000, 6000000, 7000000⟩]
open Factory in
def drainDeathAfterKill : W := W.runQ RUN_FUEL (((init drainDeathCase).runSteps drainDeathSteps).applyOp (.kill 0))
open Factory in
example : drainDeathAfterKill.exited = false ∧ drainDeathAfterKill.stopSignal = false ∧
    drainDeathAfterKill.drain = .draining ∧ drainDeathAfterKill.queue.length = 0 ∧
    drainDeathAfterKill.pool.map (·.isAvailable) = [true] ∧ drainDeathAfterKill.inbox.length = 0 := by decide +kernel
open Factory in
example : (W.advanceTo 110000000 (advanceFuel drainDeathAfterKill 110000000) drainDeathAfterKill).exited = true := by
  decide +kernel

/-! ## Lifecycle hooks run in the order started, draining, stopped -/

open Factory in
/-- (hook order) For every configuration and EVERY sequence of operations the lifecycle hooks
recorded in the history are: `started` first and exactly once; then `draining` once per handled
`DrainRequests` (never after the factory began to stop); then `stopped` — exactly once, last, and
exactly when the actor has exited (which implies it had entered `post_stop`). -/
theorem hooks_in_order (c : CaseCfg) (steps : List Step) :
    (∃ k, hooksOf ((init c).runSteps steps).env.log =
        Hook.started :: (List.replicate k Hook.draining ++
          (if ((init c).runSteps steps).exited then [Hook.stopped] else []))) ∧
    (((init c).runSteps steps).exited = true → ((init c).runSteps steps).stopped = true) := by
  have h := hookOk_runSteps (init c) steps (hookOk_init c)
  exact ⟨h.order, h.exitedStopped⟩

/-! ## Source-derived constants (E-SRC) -/

theorem extracted_pool_maximum : Extracted.globalWorkerPoolMaximum = some Factory.GLOBAL_WORKER_POOL_MAXIMUM := by decide
theorem extracted_calculate_frequency :
    Extracted.calculateFrequencyMs.map (· * 1000000) = some Factory.CALCULATE_FREQUENCY := by decide

/-! ### Finding F5 (fixed) on its concrete witness

`corpus/C15/e-lts-f5_death_while_draining.ops`: worker 1 is flagged draining by the shrink, dies,
is replaced and — since the fix — retired at once: the pool converges to the requested size. -/
open Factory in
def f5Case : CaseCfg :=
  { cfg := { router := .q, prioQueue := false, hasHandler := true, table := [], hasCC := false }, n := 2, disc := none, rl := none }
open Factory in
def f5Info : Info := { router := .q, prioQueue := false, hasHandler := true, n := 2, disc := none, rl := none }
open Factory in
def f5Steps : List Step :=
  [⟨.nop, 0, 2000000, 3000000⟩,
   ⟨.dispatch 1 0 13646096770106105413 none false, 3000000, 4000000, 5000000⟩,
   ⟨.dispatch 2 1 2206609067086327257 none false, 5000000, 6000000, 7000000⟩,
   ⟨.resize 1, 7000000, 8000000, 9000000⟩,
   ⟨.finish 1 false, 9000000, 10000000, 11000000⟩,
   ⟨.finish 0 true, 11000000, 12000000, 13000000⟩,
   ⟨.nop, 13000000, 14000000, 15000000⟩]
open Factory in
example : ((init f5Case).runSteps f5Steps).live = [0] := by decide +kernel
open Factory in
example : C15.capacityOk f5Info ((init f5Case).runSteps f5Steps).env.log = true := by decide +kernel

/-! ### Witness: the limit is lowered below the backlog

The history that exposes a shedding loop that runs only once (`while` → `if`): limit 1 with one
job queued, `UpdateSettings` lowers the limit to 0, the next job makes the queue two over the
limit — both are shed, the queue ends at 0 (`limit_oldest` for a prior content above the limit). -/
open Factory in
def lowerCase : CaseCfg :=
  { cfg := { router := .q, prioQueue := true, hasHandler := true, table := [], hasCC := false }, n := 2, disc := some (1, .oldest), rl := none }
open Factory in
def lowerSteps : List Step :=
  [⟨.nop, 0, 2000000, 3000000⟩,
   ⟨.dispatch 8 0 13646096770106105413 none false, 3000000, 4000000, 5000000⟩,
   ⟨.dispatch 9 5 15794382300316794652 none false, 5000000, 6000000, 7000000⟩,
   ⟨.dispatch 10 5 15794382300316794652 none false, 7000000, 8000000, 9000000⟩,
   ⟨.settings (some (some (0, .oldest))) none, 9000000, 10000000, 11000000⟩,
   ⟨.dispatch 11 7 7364705619221056123 none false, 11000000, 12000000, 13000000⟩]
open Factory in
example : (((init lowerCase).runSteps (lowerSteps.take 5)).queue.map (·.id)) = [10] := by decide +kernel
open Factory in
example : ((init lowerCase).runSteps lowerSteps).queue = [] := by decide +kernel
open Factory in
example : (((init lowerCase).runSteps lowerSteps).env.log.filterMap fun | .discard r id h => some (r, id, h) | _ => none)
    = [(.loadshed, 10, some 0), (.loadshed, 11, some 0)] := by decide +kernel

/-! ### Non-vacuity -/

/-- refill 2 every 100 ms, max 5, initially 1; three boundaries crossed at t = 350 ms. -/
def exCfg : Cfg := ⟨2, 100, 5, 10 ^ 30⟩
example : boundaries exCfg (new exCfg (some 1) 0).deadline 350 = 3 := by decide
example : timesLe 350 [.check 0, .bump, .check 10, .check 350, .bump, .bump, .bump, .bump, .bump, .bump] = true := by
  decide
/-- the cap bites: 1 + 2·3 = 7 would be allowed by the window bound, `max = 5` admits 1 + 5 -/
example : admitted exCfg (new exCfg (some 1) 0)
    [.check 0, .bump, .check 10, .check 350, .bump, .bump, .bump, .bump, .bump, .bump] = 6 := by decide
/-- the bound is tight without the cap -/
example : admitted ⟨2, 100, 50, 10 ^ 30⟩ (new ⟨2, 100, 50, 10 ^ 30⟩ (some 1) 0)
    [.check 0, .bump, .check 350, .bump, .bump, .bump, .bump, .bump, .bump, .bump] = 7 := by decide
/-- unrepresentable deadline: never refills, never panics -/
example : (new ⟨1, 10 ^ 31, 10, 10 ^ 30⟩ (some 0) 5).deadline = none := by decide


/-! ### Translator tie (rs2lean): kernel-checked equivalence between the definitions that
`extract/rs2lean.py` regenerates from the CURRENT Rust source on every run
(`RactorModel/Generated/*.lean`) and the hand-written model functions the theorems above are
about. A semantic change of the Rust function changes the generated text and these stop checking. -/

section XlateTie
open Generated.LeakyBucket GenLeakyBucket

theorem generated_leaky_new_eq_model (instLim clock refill interval max : Nat) (initial : Option Nat) :
    absLB (LeakyBucketRateLimiter.new instLim clock refill interval max initial)
        = LeakyBucket.new ⟨refill, interval, max, instLim⟩ initial clock
      ∧ absCfg instLim (LeakyBucketRateLimiter.new instLim clock refill interval max initial)
        = ⟨refill, interval, max, instLim⟩ := by
  refine ⟨?_, rfl⟩
  simp [LeakyBucketRateLimiter.new, absLB, LeakyBucket.new, Rust.instantCheckedAdd, LeakyBucket.checkedAdd]

/-- `refresh`, for every state within the range of the Rust types: `now` an `Instant`
(ns offset `< 2^127`), `interval` a `Duration` (`< 2^64 s`). -/
theorem generated_leaky_refresh_eq_model (instLim clock : Nat) (s : LeakyBucketRateLimiter) (now : Nat)
    (hnow : now < 2 ^ 127) (hint : s.interval < 2 ^ 64 * 1000000000) :
    absLB (LeakyBucketRateLimiter.refresh instLim clock s now)
        = LeakyBucket.refresh (absCfg instLim s) (absLB s) now
      ∧ absCfg instLim (LeakyBucketRateLimiter.refresh instLim clock s now) = absCfg instLim s := by
  unfold LeakyBucketRateLimiter.refresh LeakyBucket.refresh
  rcases s with ⟨refill, interval, max, balance, deadline⟩
  cases deadline with
  | none => exact ⟨rfl, rfl⟩
  | some d =>
    simp only [absLB, absCfg]
    by_cases h1 : now < d
    · simp [h1]
    · by_cases h2 : interval = 0
      · subst h2
        simp [h1, LeakyBucket.satAdd, Rust.satAdd, LeakyBucket.USIZE_MAX]
      · have hr : (now - d) % interval < 2 ^ 64 * 1000000000 :=
          Nat.lt_trans (Nat.mod_lt _ (Nat.pos_of_ne_zero h2)) hint
        have hq : (now - d) / interval + 1 < 2 ^ 128 := by
          have : (now - d) / interval ≤ now - d := Nat.div_le_self _ _
          omega
        simp only [h1, h2, decide_false, Bool.false_eq_true, ↓reduceIte, split_nanos _ hr, periods_eq _ hq]
        simp [LeakyBucket.tokens, LeakyBucket.periods, LeakyBucket.satMul, LeakyBucket.satAdd, Rust.satMul, Rust.satAdd,
          LeakyBucket.USIZE_MAX, _root_.LeakyBucket.MAX_LB_BALANCE, Generated.LeakyBucket.MAX_LB_BALANCE, Rust.instantCheckedAdd, LeakyBucket.checkedAdd]

theorem generated_leaky_check_eq_model (instLim clock : Nat) (s : LeakyBucketRateLimiter)
    (hnow : clock < 2 ^ 127) (hint : s.interval < 2 ^ 64 * 1000000000) :
    (absLB (LeakyBucketRateLimiter.check instLim clock s).1, (LeakyBucketRateLimiter.check instLim clock s).2)
        = LeakyBucket.check (absCfg instLim s) (absLB s) clock
      ∧ absCfg instLim (LeakyBucketRateLimiter.check instLim clock s).1 = absCfg instLim s := by
  have h := generated_leaky_refresh_eq_model instLim clock s clock hnow hint
  simp only [LeakyBucketRateLimiter.check, LeakyBucket.check, ← h.1, h.2]
  exact ⟨rfl, trivial⟩

/-- `bump` (`balance -= 1` is wrapping subtraction at 64 bits; `balance` a `usize`). -/
theorem generated_leaky_bump_eq_model (instLim clock : Nat) (s : LeakyBucketRateLimiter) (hb : s.balance < 2 ^ 64) :
    absLB (LeakyBucketRateLimiter.bump instLim clock s) = LeakyBucket.bump (absLB s)
      ∧ absCfg instLim (LeakyBucketRateLimiter.bump instLim clock s) = absCfg instLim s := by
  unfold LeakyBucketRateLimiter.bump LeakyBucket.bump
  by_cases h : s.balance > 0
  · have : Rust.wSub 64 s.balance 1 = s.balance - 1 := by unfold Rust.wSub; omega
    simp [h, absLB, absCfg, this]
  · simp [h, absLB]
end XlateTie

/-! ## Round 4, wave 2: the queue limit after the settings were changed mid-run -/

open Factory in
/-- (limit, run level, Oldest, CHANGED settings) From ANY state whose discard settings are `Oldest:L` — in particular a
reachable state right after an `UpdateSettings` lowered the limit below the current backlog — and for EVERY further op
sequence that does not change the discard settings again: at every later quiescent point the factory queue is within the
new limit `L`, or nothing has been added to it since the change (it is a sublist of the queue at the change). So the next
dispatch that ends in the queue trims it to `L`, and it stays within `L` from then on. -/
theorem queue_limit_oldest_after_change (w : W) (L : Nat) (hd : w.disc = some (L, .oldest))
    (hin : ∀ m ∈ w.inbox, ∀ d n, m ≠ .updateSettings (some d) n) (steps : List Step)
    (hk : steps.all (fun s => s.op.keepsDisc) = true) :
    (w.runSteps steps).queue.length ≤ L ∨ (w.runSteps steps).queue.Sublist w.queue :=
  oldest_trims_after_change w L hd hin steps hk

open Factory in
/-- (limit, run level, Newest, CHANGED settings) same quantification with `Newest:L`: the number of discardable jobs in the
factory queue never exceeds `max L (their number at the change)` — a lowered `Newest` limit does not trim the backlog, it
only stops it from growing. -/
theorem queue_limit_newest_after_change (w : W) (L : Nat) (hd : w.disc = some (L, .newest))
    (hin : ∀ m ∈ w.inbox, ∀ d n, m ≠ .updateSettings (some d) n) (steps : List Step)
    (hk : steps.all (fun s => s.op.keepsDisc) = true) :
    ((w.runSteps steps).queue.filter (discardable (w.runSteps steps).cfg)).length
      ≤ max L (w.queue.filter (discardable w.cfg)).length :=
  newest_stops_growing_after_change w L hd hin steps hk

open Factory in
/-- (limit, run level, Oldest, CHANGED settings, as a bound) the queue never exceeds `max L (its length at the change)` -/
theorem queue_bounded_oldest_after_change (w : W) (L : Nat) (hd : w.disc = some (L, .oldest))
    (hin : ∀ m ∈ w.inbox, ∀ d n, m ≠ .updateSettings (some d) n) (steps : List Step)
    (hk : steps.all (fun s => s.op.keepsDisc) = true) :
    (w.runSteps steps).queue.length ≤ max L w.queue.length :=
  oldest_bounded_after_change w L hd hin steps hk

open Factory in
/-- non-vacuity: the hypotheses hold at a REACHABLE state with the queue over the new limit (`lowerCase` after its
`settings oldest:0` step: one job queued, limit 0, mailbox empty), and the next backlogging dispatch trims to 0 -/
example : ((init lowerCase).runSteps (lowerSteps.take 5)).disc = some (0, .oldest) ∧
    ((init lowerCase).runSteps (lowerSteps.take 5)).inbox = [] ∧
    ((init lowerCase).runSteps (lowerSteps.take 5)).queue.length = 1 ∧
    (((init lowerCase).runSteps (lowerSteps.take 5)).runSteps (lowerSteps.drop 5)).queue.length = 0 := by decide +kernel
open Factory in
/-- the same history with `Newest`: the lowered limit refuses the newcomer and leaves the backlog alone -/
def lowerStepsNewest : List Step :=
  (lowerSteps.take 4) ++ [⟨.settings (some (some (0, .newest))) none, 9000000, 10000000, 11000000⟩,
    ⟨.dispatch 11 5 15794382300316794652 none false, 11000000, 12000000, 13000000⟩]
open Factory in
example : (((init lowerCase).runSteps (lowerStepsNewest.take 5)).queue.map (·.id)) = [10] ∧
    ((init lowerCase).runSteps (lowerStepsNewest.take 5)).disc = some (0, .newest) ∧
    (((init lowerCase).runSteps lowerStepsNewest).queue.map (·.id)) = [10] := by decide +kernel


open Factory in
/-- (limit, run level, settings changed ARBITRARILY often — high-water mark) For every case whose initial limit is `≤ H` and
EVERY op sequence in which every settings update configures some limit `≤ H` (either mode, raised and lowered at will, never
switched off): at every quiescent point the factory queue holds at most `H` discardable jobs — both queue types, every
router, with or without limiter. With `queue_limit_*_after_change` for what a single change does. -/
theorem queue_high_water_mark_run (c : CaseCfg) (H : Nat) (hd : okD H c.disc = true) (steps : List Step)
    (hk : steps.all (fun s => s.op.limitsWithin H) = true) :
    (((init c).runSteps steps).queue.filter (discardable ((init c).runSteps steps).cfg)).length ≤ H :=
  (hw_always c hd steps hk).bound

open Factory in
/-- non-vacuity: `lowerCase` (limit 1, lowered to 0 on the way) satisfies the hypotheses with `H = 1` -/
example : okD 1 lowerCase.disc = true ∧ lowerSteps.all (fun s => s.op.limitsWithin 1) = true := by decide


end C15

#print axioms C15.bucket_balance_le_max
#print axioms C15.bucket_boundaries_count
#print axioms C15.bucket_window_bound
#print axioms C15.bucket_admitOk
#print axioms C15.bucket_window_wallclock
#print axioms C15.bucket_check_bump_effective
#print axioms C15.bucket_check_false_iff
#print axioms C15.bucket_saturates
#print axioms C15.bucket_zero_interval
#print axioms C15.limit_oldest
#print axioms C15.limit_newest
#print axioms C15.limit_newest_discardable
#print axioms C15.newest_sheds_incoming_once
#print axioms C15.oldest_sheds_each_once
#print axioms C15.limit_dispatch
#print axioms C15.queue_limit_oldest_run
#print axioms C15.queue_limit_newest_run
#print axioms C15.disc_settings_constant_run
#print axioms C15.worker_queue_limit_run_partial
#print axioms C15.dynamic_limit_update
#print axioms C15.limit_worker_queue
#print axioms C15.limit_worker_oldest
#print axioms C15.rate_limited_dispatch
#print axioms C15.pool_shape
#print axioms C15.live_workers_are_pool_slots_partial
#print axioms C15.slot_workers_open_at_message_boundary_partial
#print axioms C15.drain_completes_at_next_tick
#print axioms C15.pool_converges
#print axioms C15.resize_sets_size
#print axioms C15.drain_is_forever
#print axioms C15.drain_refuses_dispatch
#print axioms C15.drain_request_handled
#print axioms C15.drained_factory_stops
#print axioms C15.draining_waits_for_work
#print axioms C15.hooks_in_order
#print axioms C15.extracted_pool_maximum
#print axioms C15.extracted_calculate_frequency
-- rs2lean tie
#print axioms C15.generated_leaky_new_eq_model
#print axioms C15.generated_leaky_refresh_eq_model
#print axioms C15.generated_leaky_check_eq_model
#print axioms C15.generated_leaky_bump_eq_model
#print axioms C15.queue_limit_oldest_after_change
#print axioms C15.queue_limit_newest_after_change
#print axioms C15.queue_bounded_oldest_after_change
#print axioms C15.queue_high_water_mark_run
