//! C11 harness, cluster build: the same engine as hcore's `pg` binary, compiled against ractor
//! with the `cluster` feature so that some group members have remote ids.
#[path = "../../../hcore/src/bin/pg.rs"]
#[allow(dead_code)]
mod core;

fn main() {
    core::main_with(true)
}
