import RactorModel.Lemmas.Remote
import RactorModel.Lemmas.Link
import RactorModel.Lemmas.Listener
import RactorModel.Lemmas.Mux
import RactorModel.Lemmas.RacingScan
import RactorModel.Lemmas.RemoteComplete
import RactorModel.Lemmas.Advert
import RactorModel.Lemmas.Compose
import RactorModel.Lemmas.SenderAdvert
import RactorModel.Model.Fields
import RactorModel.Extracted

/-!
# C20 — remote actors behave like the actors they stand for

Property theorems only. Model: `Model/Remote.lean` (tied to
`ractor_cluster/src/remote_actor.rs`, `node/node_session.rs`, `net/session.rs` by the
correspondence check); lemmas: `Lemmas/Remote.lean`.

* `Proxy` theorems hold for every history of `handle_serialized` calls (any messages, any set
  of abandoned callers, session reachable or not);
* `Net` theorems hold for every interleaving of senders casting/calling through the proxy,
  callers abandoning, the proxy handling its mailbox, every FIFO stage of either direction
  handing on a frame (any number of stages), the real actor answering or dropping reply
  ports, the target exiting and the link being cut;
* `Mirror` theorems hold for every control stream.
-/

namespace C20
open Remote

/-! ## source-derived constant -/

theorem extracted_budget : Extracted.pendingRequestCleanupBudget = some Remote.cleanupBudget := by decide

/-! ## the proxy: tags, pending requests, cleanup -/

/-- (tags) Over any history, `pending_requests` stays strictly ascending by tag with no tag
above the counter — in particular its keys are distinct — and the tags put on outgoing
`Call` frames are strictly increasing: a tag is never reused. (Tags are natural numbers
here; the code's `u64` counter wraps only after 2⁶⁴ calls.) -/
theorem tags_never_reused (steps : List PStep) :
    let r := Proxy.runSteps {} steps
    r.1.pending.Pairwise (fun a b => a.1 < b.1) ∧ (r.1.pending.map (·.1)).Nodup ∧
      (∀ e ∈ r.1.pending, e.1 ≤ r.1.tag) ∧ (callTags r.2).Pairwise (· < ·) := by
  have := runSteps_inv {} steps [] pinv_init (by simp [callTags]) (by simp [callTags])
  exact ⟨this.1.sorted, this.1.nodup, this.1.le, this.2.1⟩

/-- (a fresh call) the tag given to a call is one more than the counter, hence larger than
every pending tag, and the caller's port is stored under exactly that tag. -/
theorem call_gets_fresh_tag (p : Proxy) (hp : PInv p) (closed : Nat → Bool) (port payload : Nat) :
    let r := p.handle closed true (.call port payload)
    r.2 = [.call (p.tag + 1) payload] ∧ (p.tag + 1, port) ∈ r.1.pending ∧
      ∀ e ∈ p.pending, e.1 < p.tag + 1 := by
  refine ⟨(handle_call_tag closed port payload).1, ?_, fun e he => Nat.lt_succ_of_le (hp.le e he)⟩
  simp [Proxy.handle, cleanup_tag]

/-- (correlation at the proxy) `CallReply(tag, data)` hands `data` to port `q` exactly when
`q` is the port stored under `tag` (after cleanup) and its caller is still waiting; whatever
happens, afterwards nothing is stored under `tag` any more, so a repeated or unknown tag
resolves nothing. -/
theorem reply_resolves_stored_port (p : Proxy) (hp : PInv p) (closed : Nat → Bool) (up : Bool)
    (t d g q : Nat) :
    ((p.handle closed up (.reply t d g)).2 = [.deliver q d] ↔
        ((t, q) ∈ (p.cleanup closed).pending ∧ closed q = false)) ∧
      ∀ q', (t, q') ∉ (p.handle closed up (.reply t d g)).1.pending := by
  have hc := hp.cleanup closed
  have hrp := removePending_port hc t
  constructor
  · simp only [Proxy.handle]
    cases hq : ((p.cleanup closed).removePending t).2 with
    | none =>
      simp only [List.nil_eq, reduceCtorEq, false_iff, not_and]
      intro hm
      have := (hrp q).mpr hm
      rw [hq] at this; cases this
    | some q0 =>
      have hm0 := (hrp q0).mp hq
      cases hcq : closed q0 with
      | true =>
        simp only [hcq, ↓reduceIte, List.nil_eq, reduceCtorEq, false_iff, not_and]
        intro hm hcl
        have := hc.functional hm hm0
        subst this; rw [hcq] at hcl; cases hcl
      | false =>
        simp only [hcq, Bool.false_eq_true, ↓reduceIte, List.cons.injEq, Out.deliver.injEq, and_true]
        constructor
        · intro h; subst h; exact ⟨hm0, hcq⟩
        · rintro ⟨hm, -⟩; exact hc.functional hm0 hm
  · intro q'
    simp only [Proxy.handle]
    split <;> exact removePending_not_mem _ t q'

/-- (cleanup) `cleanup_closed_pending_requests` inspects at most `budget` entries, removes
only entries whose caller has gone away, and never removes an entry whose caller is waiting. -/
theorem cleanup_only_closed (p : Proxy) (closed : Nat → Bool) :
    p.inspect.length ≤ cleanupBudget ∧
    (p.cleanup closed).pending.Sublist p.pending ∧
    (∀ e ∈ p.pending, closed e.2 = false → e ∈ (p.cleanup closed).pending) ∧
    (∀ e ∈ p.pending, e ∉ (p.cleanup closed).pending → closed e.2 = true) :=
  ⟨inspect_length_le p, cleanup_sublist closed p, cleanup_keeps_open closed p, cleanup_removes_closed closed p⟩

/-! ## end to end -/

/-- (order) Whatever the interleaving and whatever is lost to a dying target or link, what
the real actor has received is a PREFIX of what was sent through the proxy: same variants
and arguments, same order, nothing duplicated, nothing invented. While both ends are up it
is exactly the sent sequence minus what is still in flight (composition of FIFO stages). -/
theorem order_preserved (k k' : Nat) (ops : List Op) :
    let n := (Net.init k k').run ops
    n.recvd <+: n.sent ∧
      (n.targetUp = true → n.linkUp = true → n.recvd ++ n.inflight = n.sent) := by
  have h := (oinv_init k k').run ops
  exact ⟨h.pre, h.full⟩

/-- (asymmetric loss) When only A's side has gone down (`loseA`: its transport failed, its
session and proxy stopped) while B has not noticed: whatever B's real actor still receives are
exactly the next messages that were sent, in order — the frames already under way are neither
reordered nor duplicated nor mixed with anything else. -/
theorem frames_in_flight_survive_loss_of_sender_side (k k' : Nat) (ops : List Op) :
    let n := (Net.init k k').run ops
    n.linkUp = false → n.targetUp = true → n.recvd ++ n.fwd.contents.map (·.item) <+: n.sent := by
  intro n hl ht
  exact ((oinv_init k k').run ops).chain hl ht

/-- (nothing lost) with both ends up and every queue drained, the real actor has received
exactly what was sent. -/
theorem delivered_at_rest (k k' : Nat) (ops : List Op) :
    let n := (Net.init k k').run ops
    n.targetUp = true → n.linkUp = true → n.quiet = true → n.recvd = n.sent := by
  intro n ht hl hq
  have h := ((oinv_init k k').run ops).full ht hl
  simp only [Net.quiet, Bool.and_eq_true, List.isEmpty_iff] at hq
  have hin : n.inflight = [] := by simp [Net.inflight, Net.mboxItems, hq.1.1, hq.1.2, itemsOf]
  rw [hin, List.append_nil] at h
  exact h

/-- (per sender) hence each sender's messages arrive in the order that sender sent them. -/
theorem per_sender_order (k k' : Nat) (ops : List Op) (s : Nat) :
    let n := (Net.init k k').run ops
    (n.recvd.filter (·.sender == s)) <+: (n.sent.filter (·.sender == s)) := by
  intro n
  obtain ⟨tl, htl⟩ := ((oinv_init k k').run ops).pre
  exact ⟨tl.filter (·.sender == s), by rw [← htl, List.filter_append]⟩

/-- (correlation, end to end) Every value that reaches a caller's port is a value the real
actor gave in answer to the call made through that very port — for any number of
outstanding, abandoned, unanswered or repeated calls; tags are resolved by value, never by
position. -/
theorem replies_not_cross_wired (k k' : Nat) (ops : List Op) :
    let n := (Net.init k k').run ops
    ∀ q d, (q, d) ∈ n.delivered → (q, d) ∈ n.answered := by
  intro n q d h
  exact ((ninv_init k k').run ops).deliv _ h

/-- (reply completeness) For every interleaving (any number of stages, outstanding / abandoned /
unanswered calls, target exit) as long as the link is up: every answer the real actor gave has
reached the caller that made the call, or that caller has given up, or the reply is still
travelling (in a backward stage or in the proxy's mailbox). Hence at rest (mailbox and both pipes
drained) every answered call whose caller still waits HAS its reply — no reply is lost or left
pending by the proxy. -/
theorem replies_complete_at_rest (k k' : Nat) (ops : List Op) :
    let n := (Net.init k k').run ops
    n.linkUp = true →
      (∀ e ∈ n.answered, e ∈ n.delivered ∨ e.1 ∈ n.closed ∨
        (∃ r ∈ n.back.contents, (r.gport, r.data) = e) ∨ (∃ m ∈ n.mbox, ∃ t, m.1 = .reply t e.2 e.1)) ∧
      (n.quiet = true → ∀ e ∈ n.answered, e ∈ n.delivered ∨ e.1 ∈ n.closed) := by
  intro n hl
  have h := CInv.run ops (Net.init k k') hl (ninv_init k k') (cinv_init k k')
  refine ⟨h.ans, ?_⟩
  intro hq e he
  simp only [Net.quiet, Bool.and_eq_true, List.isEmpty_iff] at hq
  rcases h.ans e he with a | a | ⟨r, hr, _⟩ | ⟨m, hm, _⟩
  · exact Or.inl a
  · exact Or.inr a
  · have : (Net.run (Net.init k k') ops).back.contents = [] := hq.2
    rw [this] at hr; exact absurd hr (by simp)
  · have : (Net.run (Net.init k k') ops).mbox = [] := hq.1.1
    rw [this] at hm; exact absurd hm (by simp)

/-- (at most one reply) No caller's port is ever served twice, and at any moment a reply
port exists in at most one place — stored in the proxy, already served, or still travelling
in the proxy's mailbox: a repeated `Reply` frame for the same tag, or a late one for an
abandoned call, reaches nobody. -/
theorem reply_at_most_once (k k' : Nat) (ops : List Op) :
    let n := (Net.init k k').run ops
    (n.delivered.map (·.1)).Nodup ∧ ∀ q, n.portCount q ≤ 1 := by
  intro n
  have h := (uinv_init k k').run ops
  exact ⟨h.delivered_nodup, h.once⟩

/-- The C20 oracle holds of the model: if the real actor answers every request `req` with
`reply req`, an observer sees the received sequence as an in-order sub-sequence of the sent
one and every caller that got a reply got `reply` of its own request. -/
theorem ok_model (k k' : Nat) (ops : List Op) (reply : Nat → Nat) :
    let n := (Net.init k k').run ops
    n.honest reply → ok n.sent n.recvd n.callResults reply = true := by
  intro n hh
  simp only [ok, Bool.and_eq_true, List.isSublist_iff_sublist, List.all_eq_true]
  refine ⟨((oinv_init k k').run ops).pre.sublist, ?_⟩
  rintro ⟨req, got⟩ hm
  simp only [Net.callResults, List.mem_map] at hm
  obtain ⟨⟨q, req'⟩, hq, he⟩ := hm
  simp only [Prod.mk.injEq] at he
  obtain ⟨rfl, rfl⟩ := he
  cases hf : n.delivered.find? (·.1 == q) with
  | none => simp
  | some e =>
    have hmem := List.mem_of_find?_eq_some hf
    have hq' := List.find?_some hf
    simp only [beq_iff_eq] at hq'
    have hans := ((ninv_init k k').run ops).deliv _ hmem
    have := hh q e.2 (by rw [← hq']; exact hans) req' hq
    simp [this]

/-! ## mirroring of the control stream -/

/-- (proxy set) After any control stream the session holds a proxy for exactly the pids that
were advertised (`Spawn`, or `PgJoin` which spawns on demand) and not terminated since, one
proxy per pid; a closed session holds none. -/
theorem proxies_mirror_control_stream (cs : List Ctl) (pid : Nat) :
    (pid ∈ (Mirror.run {} cs).proxies ↔ advertised pid cs = true) ∧ (Mirror.run {} cs).proxies.Nodup := by
  refine ⟨?_, mirror_run_nodup {} cs List.nodup_nil⟩
  have := mirror_run_proxies {} cs pid none (by simp)
  simp only [advertised, beq_iff_eq]
  exact this

/-- (groups) A proxy is a member of the group `k = (scope, group)` exactly when the last word
of the control stream about it in that scope AND group was a `PgJoin` (a `Terminate` or the
session closing removes it from every group of every scope). -/
theorem groups_mirror_control_stream (cs : List Ctl) (k : GKey) (pid : Nat) :
    (k, pid) ∈ (Mirror.run {} cs).members ↔ announced k pid cs = true := by
  have := mirror_run_members {} cs k pid none (by simp)
  simp only [announced, beq_iff_eq]
  exact this

/-- (remote membership = image of the local one, per scope AND group) Let `L0` be the local
process-group memberships when the session comes up, `keys` what `which_scopes_and_groups()`
returns (at least every key that has a member), and `evs` ANY later sequence of local joins,
leaves and actor exits. After the peer has processed the initial scan followed by the forwarded
notifications in order, the remote reference of `pid` is a member of `(scope, group)` exactly
when the original is — for every scope, every group, every pid, every history. -/
theorem remote_membership_is_image (L0 : Memb) (keys : List GKey) (hk : ∀ e ∈ L0, e.1 ∈ keys)
    (evs : List PgEv) (k : GKey) (pid : Nat) :
    (k, pid) ∈ (Mirror.run {} (syncStream keys L0 evs)).members ↔ (k, pid) ∈ evs.foldl Memb.apply L0 := by
  rw [mirror_run_members {} _ k pid none (by simp), syncStream, List.foldl_append]
  refine (apply_notes L0 evs k pid _ ?_).symm
  rw [initialSync_verdict]
  constructor
  · intro h; exact Or.inr ⟨hk _ h, h⟩
  · rintro (h | ⟨_, h⟩)
    · exact absurd h (by simp)
    · exact h

/-- (the scan need not be atomic) `L0` = the memberships when the pg monitors are registered,
`evs` = EVERY later local join / leave / exit in order — also those that happen WHILE the scan is
running —, `reads` = the keys the scan looks at, each read after an arbitrary number of those
changes (any order, any times, repetitions allowed). The only requirement on the scan is that a
key is read at least once if it has a member that no change ever touches (such a group exists at
every instant, so `which_scopes_and_groups()` returns it whenever it is called). Then after the
peer has processed the scan's `PgJoin`s followed by all forwarded notifications, remote
membership is exactly the final local membership — per scope, group and pid. -/
theorem remote_membership_is_image_racing_scan (L0 : Memb) (evs : List PgEv) (reads : List (GKey × Nat))
    (hcov : ∀ k pid, (k, pid) ∈ L0 → (evs.map PgEv.note).foldl (verdictG k pid) none = none →
      ∃ t, (k, t) ∈ reads)
    (k : GKey) (pid : Nat) :
    (k, pid) ∈ (Mirror.run {} (racingStream L0 evs reads)).members ↔ (k, pid) ∈ evs.foldl Memb.apply L0 := by
  rw [mirror_run_members {} _ k pid none (by simp), racingStream, List.foldl_append]
  -- the local side, as a verdict fold started from "is it in L0"
  have hloc := apply_notes L0 evs k pid (if (k, pid) ∈ L0 then some true else none) (by
    by_cases h : (k, pid) ∈ L0 <;> simp [h])
  rw [hloc]
  rcases fold_shape k pid (evs.map PgEv.note) with hid | ⟨b, hconst⟩
  · -- no change ever touches (k, pid): the scan alone decides, and it read k at least once
    rw [hid, hid]
    have hnone : (evs.map PgEv.note).foldl (verdictG k pid) none = none := hid none
    rw [scanAt_verdict]
    have hstate : ∀ t, ((k, pid) ∈ (evs.take t).foldl Memb.apply L0 ↔ (k, pid) ∈ L0) := by
      intro t
      have h1 := apply_notes L0 (evs.take t) k pid (if (k, pid) ∈ L0 then some true else none) (by
        by_cases h : (k, pid) ∈ L0 <;> simp [h])
      rw [h1, List.map_take, fold_none_prefix k pid _ t hnone]
      by_cases h : (k, pid) ∈ L0 <;> simp [h]
    constructor
    · rintro (h | ⟨t, _, hm⟩)
      · exact absurd h (by simp)
      · have := (hstate t).mp hm
        simp [this]
    · intro h
      have hin : (k, pid) ∈ L0 := by
        by_cases hin : (k, pid) ∈ L0
        · exact hin
        · simp [hin] at h
      obtain ⟨t, ht⟩ := hcov k pid hin hnone
      exact Or.inr ⟨t, ht, (hstate t).mpr hin⟩
  · -- some change decides (k, pid): the last such change has the last word on both sides
    rw [hconst, hconst]

/-- the scan over `which_scopes_and_groups()` itself covers every member -/
theorem remote_membership_is_image_keys (L0 : Memb) (evs : List PgEv) (k : GKey) (pid : Nat) :
    (k, pid) ∈ (Mirror.run {} (syncStream L0.keys L0 evs)).members ↔ (k, pid) ∈ evs.foldl Memb.apply L0 := by
  refine remote_membership_is_image L0 L0.keys ?_ evs k pid
  intro e he
  simp only [Memb.keys, List.mem_eraseDups, List.mem_map]
  exact ⟨e, he, rfl⟩

/-- (ready) in particular at the moment the peer has seen the initial scan: nothing missing,
nothing in a wrong scope -/
theorem remote_membership_at_ready (L0 : Memb) (k : GKey) (pid : Nat) :
    (k, pid) ∈ (Mirror.run {} (initialSync L0.keys L0)).members ↔ (k, pid) ∈ L0 := by
  simpa [syncStream] using remote_membership_is_image_keys L0 [] k pid

/-- (close) when the session stops no proxy and no membership is left, whatever came before. -/
theorem close_removes_everything (cs : List Ctl) :
    (Mirror.run {} (cs ++ [.close])).proxies = [] ∧ (Mirror.run {} (cs ++ [.close])).members = [] := by
  simp [Mirror.run, List.foldl_append, Mirror.step]

/-! ## several remote references over one connection (`Model/Mux.lean`) -/

/-- (the shared wire is a private FIFO per reference) For every interleaving of frames sent for
any pids, stage moves of the ONE shared chain of FIFO stages and changes of the lookup table: for
every pid `p`, what has left the wire for `p` followed by what is still in flight for `p` is
exactly what was sent for `p`, in order. This is the FIFO pipe `Net` assumes for one proxy. -/
theorem shared_wire_is_a_private_fifo_per_reference {α : Type} (ops : List (Mux.WOp α)) (p : Nat) :
    let w := Mux.Wire.run ({} : Mux.Wire α) ops
    w.outOf p ++ Mux.proj p w.stages.contents = Mux.proj p w.pushed := by
  have h := (Mux.winv_run ops _ (Mux.winv_init (α := α))).fifo
  simp only [Mux.Wire.outOf]
  rw [← Mux.proj_append, h]

/-- (routing by `to`) Whatever the interleaving, an actor is only ever handed frames whose `to`
names it: no cast, call or reply reaches the actor / proxy of another pid. -/
theorem frames_are_handed_only_to_the_actor_named_by_to {α : Type} (ops : List (Mux.WOp α)) (a : Nat) :
    ∀ e ∈ (Mux.Wire.run ({} : Mux.Wire α) ops).handedTo a, e.1 = a := by
  have h := (Mux.winv_run ops _ (Mux.winv_init (α := α))).handed
  intro e he
  simp only [Mux.Wire.handedTo, List.mem_map, List.mem_filter] at he
  obtain ⟨x, ⟨hx, hxa⟩, rfl⟩ := he
  exact (h x hx a (by simpa using hxa)).symm

/-- (tags are per reference) A `Reply{to, tag}` is handled by the proxy stored under `to` only:
every other proxy — also one that has a request pending under the very same tag — is unchanged,
and the only deliveries are the addressed proxy's. -/
theorem reply_touches_only_the_addressed_proxy (m : Mux.MultiProxy) (closed : Nat → Bool) (to tag data : Nat) :
    (∀ e ∈ m, e.1 ≠ to → e ∈ (m.reply closed to tag data).1) ∧
    (∀ e ∈ (m.reply closed to tag data).1, e.1 ≠ to → e ∈ m) ∧
    (∀ px, m.find? (·.1 == to) = some (to, px) →
      (m.reply closed to tag data).2 = (px.handle closed true (.reply tag data)).2) ∧
    (m.find? (·.1 == to) = none → (m.reply closed to tag data) = (m, [])) := by
  unfold Mux.MultiProxy.reply
  cases hf : m.find? (·.1 == to) with
  | none => exact ⟨fun e he _ => he, fun e he _ => he, by simp, by simp⟩
  | some e =>
    obtain ⟨k, px⟩ := e
    refine ⟨?_, ?_, ?_, by simp⟩
    · intro e he hne
      simp only [List.mem_map]
      exact ⟨e, he, by simp [hne]⟩
    · intro e he hne
      simp only [List.mem_map] at he
      obtain ⟨x, hx, rfl⟩ := he
      by_cases hk : x.1 = to
      · simp [hk] at hne
      · simpa [hk] using hx
    · intro px' hpx
      simp only [Option.some.injEq, Prod.mk.injEq] at hpx
      rw [hpx.2]

/-- two references whose proxies both have a request pending under tag 1 (each counter starts at
0): the reply for pid 2 resolves port 20 only -/
example :
    let m : Mux.MultiProxy := [(1, { tag := 1, pending := [(1, 10)] }), (2, { tag := 1, pending := [(1, 20)] })]
    (m.reply (fun _ => false) 2 1 77).2 = [.deliver 20 77] ∧
      ((m.reply (fun _ => false) 2 1 77).1.map fun e => (e.1, e.2.pending)) = [(1, [(1, 10)]), (2, [])] := by decide

/-- four frames for two pids through two shared stages; pid 2 is removed while its second frame
is in flight (dropped) -/
example :
    let w := Mux.Wire.run ({ stages := [[], []] } : Mux.Wire Nat)
      [.ensure 1, .ensure 2, .send 1 10, .send 2 20, .send 1 11, .send 2 21, .move 0, .move 0, .move 1, .move 1,
       .remove 2, .move 0, .move 0, .move 1, .move 1]
    w.handedTo 1 = [(1, 10), (1, 11)] ∧ w.handedTo 2 = [(2, 20)] ∧ w.outOf 2 = [20, 21] ∧ w.out.length = 4 := by
  decide

/-! ## the session under transport errors (`Model/Link.lean`) -/

/-- (transport error ⇒ session closed) Over EVERY interleaving of sends, writer-task iterations
(with any answers of the transport to `write_all` and `flush`), reads (frames or errors), the two
actors handling their stop signals and control messages of the peer: once the transport has
reported an error to the reader or to the writer task, the system at rest has no tcp session, no
node session, no writer, no reader, no remote-actor proxy and no group membership of one, every
send to a remote reference is refused — and no later event brings anything back. -/
theorem transport_error_closes_session {F : Type} (evs more : List (Link.Ev F))
    (hf : (Link.run ({} : Link.S F) evs).faulted = true) :
    let s := Link.settle (Link.run {} evs)
    s.sessUp = false ∧ s.nodeUp = false ∧ s.writerUp = false ∧ s.readerUp = false ∧
      s.mirror.proxies = [] ∧ s.mirror.members = [] ∧ (∀ pid, Link.accepts s pid = false) ∧
      (let s' := Link.run s more
       s'.sessUp = false ∧ s'.nodeUp = false ∧ s'.mirror = {} ∧ s'.accepted = s.accepted) := by
  have hd := Link.settle_down _ (Link.inv_run evs _ Link.inv_init) hf
  have hm := Link.down_run more _ hd
  refine ⟨hd.sess, hd.node, hd.writer, hd.reader, by simp [hd.mirror], by simp [hd.mirror], ?_,
    hm.1.sess, hm.1.node, hm.1.mirror, hm.2⟩
  intro pid
  simp [Link.accepts, hd.mirror]

/-- (which errors count) In any reachable state: an error of `write_all`, an error of `flush`
after a successful `write_all` (the writer task having a batch to write), and an error of a read
(the reader running) each count as a reported transport error, whatever happens afterwards —
so `transport_error_closes_session` applies to each of the three. -/
theorem read_write_and_flush_errors_are_reported {F : Type} (evs rest : List (Link.Ev F)) :
    let s := Link.run ({} : Link.S F) evs
    (s.writerUp = true → s.chan ≠ [] → ∀ fl,
      (Link.run (Link.step s (.writer .err fl)) rest).faulted = true) ∧
    (s.writerUp = true → s.chan ≠ [] →
      (Link.run (Link.step s (.writer .ok .err)) rest).faulted = true) ∧
    (s.readerUp = true → (Link.run (Link.step s (.read .err)) rest).faulted = true) := by
  have mono : ∀ (rest : List (Link.Ev F)) (t : Link.S F), t.faulted = true → (Link.run t rest).faulted = true := by
    intro rest
    induction rest with
    | nil => intro t h; exact h
    | cons e rest ih =>
      intro t h
      apply ih
      cases e <;> simp only [Link.step] <;> (repeat' split) <;> simp_all
  refine ⟨fun hw hc fl => mono _ _ ?_, fun hw hc => mono _ _ ?_, fun hr => mono _ _ ?_⟩
  · cases fl <;> simp [Link.step, hw, hc]
  · simp [Link.step, hw, hc]
  · simp [Link.step, hr]

/-- (the writer is a FIFO stage) every frame accepted by the writer channel is, in order, on the
wire, lost in the one failed batch, or still queued; so what the transport carried is a prefix of
what was sent, and it is everything once the channel is drained without an error. -/
theorem writer_task_is_fifo {F : Type} (evs : List (Link.Ev F)) :
    let s := Link.run ({} : Link.S F) evs
    s.sent = s.wire ++ s.lost ++ s.chan ∧ s.wire <+: s.sent ∧
      (s.faulted = false → s.chan = [] → s.wire = s.sent) := by
  have h := Link.inv_run evs _ (Link.inv_init (F := F))
  have hl : ∀ (evs : List (Link.Ev F)) (t : Link.S F), (t.lost ≠ [] → t.faulted = true) →
      ((Link.run t evs).lost ≠ [] → (Link.run t evs).faulted = true) := by
    intro evs
    induction evs with
    | nil => intro t h; exact h
    | cons e evs ih =>
      intro t h
      apply ih
      cases e <;> simp only [Link.step] <;> (repeat' split) <;> simp_all
  refine ⟨h.acct, ⟨_, by rw [h.acct, List.append_assoc]⟩, fun hf hc => ?_⟩
  have : (Link.run ({} : Link.S F) evs).lost = [] := by
    have := hl evs {} (by simp)
    cases hlost : (Link.run ({} : Link.S F) evs).lost with
    | nil => rfl
    | cons a l => simp [hlost] at this; simp [this] at hf
  simp [h.acct, this, hc]

/-- (the end of any stream closes the session) For EVERY byte stream, every way it is split into
reads, every frame limit and decoder: the real reader loop (`Codec.readFrames`) ends with an
error (EOF included), which counts as a transport error — the session closes at rest. -/
theorem every_stream_end_closes_session {Msg : Type} (dec : Codec.Bytes → Option Msg) (max : Nat)
    (chunks : List Codec.Bytes) :
    let s := Link.settle (Link.run ({} : Link.S Msg) (Link.readerEvents dec max chunks))
    s.sessUp = false ∧ s.nodeUp = false ∧ s.mirror.proxies = [] ∧ s.mirror.members = [] := by
  have hf := Link.readerEvents_run (Codec.readFrames dec max chunks).1 ({} : Link.S Msg)
    (Link.readFrames_stops dec max chunks) rfl
  have := transport_error_closes_session (Link.readerEvents dec max chunks) [] hf
  exact ⟨this.1, this.2.1, this.2.2.2.2.1, this.2.2.2.2.2.1⟩

/-- (frames survive any fragmentation) Whatever batches the writer task wrote (`ps` = the
payloads of all frames in order, each within the limit) and however the transport splits the
byte stream into reads — inside a header, inside a payload with the bytes of the next frames
already available, empty reads — the node session receives exactly the decoded payloads, in
order, before the EOF. -/
theorem frames_reach_node_session_under_any_fragmentation {Msg : Type} (dec : Codec.Bytes → Option Msg)
    (max : Nat) (ps : List Codec.Bytes) (chunks : List Codec.Bytes)
    (hs : chunks.flatten = ps.flatMap Codec.encodeFrame)
    (hmax : ∀ p ∈ ps, p.length ≤ max ∧ p.length ≤ Codec.isizeMax) (hdec : ∀ p ∈ ps, (dec p).isSome) :
    (Link.run ({} : Link.S Msg) (Link.readerEvents dec max chunks)).recvd = ps.filterMap dec := by
  have h := Link.readerEvents_recvd (Codec.readFrames dec max chunks).1 ({} : Link.S Msg)
    (Link.readFrames_stops dec max chunks) rfl rfl rfl
  unfold Link.readerEvents
  refine h.trans ?_
  rw [Link.readFrames_encode dec max ps chunks hs hmax hdec, Link.oks_okOf dec ps hdec]
  simp [Link.oks]

/-- (Mirror composed with the session; sends to a stopped reference fail) For every history of
the session (control messages of the peer interleaved with traffic, transport errors, stops): a
send through the remote reference `pid` is accepted iff the node session is up AND the control
messages it has handled so far advertise `pid` without a later `Terminate` — otherwise it is
refused; the same for group membership of the reference. -/
theorem send_accepted_iff_reference_live {F : Type} (evs : List (Link.Ev F)) (pid : Nat) :
    let s := Link.run ({} : Link.S F) evs
    let s' := Link.step s (.sendVia pid)
    (Link.accepts s pid = true ↔ (s.nodeUp = true ∧ advertised pid (Link.ctls evs) = true)) ∧
    (Link.accepts s pid = true → s'.accepted = s.accepted ++ [pid] ∧ s'.refused = s.refused) ∧
    (Link.accepts s pid = false → s'.accepted = s.accepted ∧ s'.refused = s.refused ++ [pid]) ∧
    (∀ k, (k, pid) ∈ s.mirror.members ↔ (s.nodeUp = true ∧ announced k pid (Link.ctls evs) = true)) := by
  have hinv := Link.inv_run evs _ (Link.inv_init (F := F))
  refine ⟨?_, ?_, ?_, ?_⟩
  · cases hup : (Link.run ({} : Link.S F) evs).nodeUp with
    | false => simp [Link.accepts, hinv.node hup]
    | true =>
      have hm := Link.mirror_of_ctls evs ({} : Link.S F) hup
      have := (proxies_mirror_control_stream (Link.ctls evs) pid).1
      simp only [Link.accepts, hm, List.contains_iff_mem, true_and]
      exact this
  · intro h
    simp only [Link.accepts, List.contains_iff_mem] at h
    simp only [Link.step, List.contains_iff_mem, if_pos h, and_self]
  · intro h
    simp only [Link.accepts] at h
    have h' : ¬ pid ∈ (Link.run ({} : Link.S F) evs).mirror.proxies := by
      intro hm
      have := List.contains_iff_mem.mpr hm
      rw [this] at h
      exact absurd h (by simp)
    simp only [Link.step, List.contains_iff_mem, if_neg h', and_self]
  · intro k
    cases hup : (Link.run ({} : Link.S F) evs).nodeUp with
    | false => simp [hinv.node hup]
    | true =>
      have hm := Link.mirror_of_ctls evs ({} : Link.S F) hup
      have := groups_mirror_control_stream (Link.ctls evs) k pid
      simp only [hm, true_and]
      exact this

/-- (what the code does when a REFERENCE is stopped) `ActorCell::stop` on one remote reference
makes the node session fail (`stop_and_wait` on the dead proxy returns an error that the
supervision handler propagates): the whole session goes down at once — every other reference
included — and stays down. -/
theorem stopping_one_reference_closes_the_session {F : Type} (evs more : List (Link.Ev F)) (pid : Nat)
    (hup : (Link.run ({} : Link.S F) evs).nodeUp = true)
    (hp : Link.accepts (Link.run ({} : Link.S F) evs) pid = true) :
    let s := Link.run (Link.step (Link.run ({} : Link.S F) evs) (.proxyStopped pid)) more
    s.sessUp = false ∧ s.nodeUp = false ∧ s.mirror.proxies = [] ∧ s.mirror.members = [] ∧
      ∀ q, Link.accepts s q = false := by
  have hd : Link.Down (Link.step (Link.run ({} : Link.S F) evs) (.proxyStopped pid)) := by
    simp only [Link.accepts] at hp
    simp only [Link.step, hup, hp, Bool.and_self, if_true]
    exact ⟨rfl, rfl, rfl, rfl, by simp [Mirror.step]⟩
  have := (Link.down_run more _ hd).1
  refine ⟨this.sess, this.node, by simp [this.mirror], by simp [this.mirror], ?_⟩
  intro q
  simp [Link.accepts, this.mirror]

/-- the oracle `Link.okDown` holds of the model: at rest after a reported transport error nothing
is running, in a group or accepting sends -/
theorem okDown_model {F : Type} (evs : List (Link.Ev F)) (pids : List Nat) :
    let s := Link.settle (Link.run ({} : Link.S F) evs)
    Link.okDown (Link.run ({} : Link.S F) evs).faulted true s.mirror.proxies.length s.mirror.members.length
      (pids.countP (Link.accepts s)) = true := by
  cases hf : (Link.run ({} : Link.S F) evs).faulted with
  | false => simp [Link.okDown]
  | true =>
    have := transport_error_closes_session evs [] hf
    simp only [Link.okDown, this.2.2.2.2.1, this.2.2.2.2.2.1]
    simp [this.2.2.2.2.2.2.1]

/-! ## non-vacuity -/

/-- a flush error on a half-open connection: two proxies in groups, a cast is queued, `write_all`
succeeds, `flush` fails; at rest everything is gone -/
example :
    let s := Link.run ({} : Link.S Nat)
      [.ctl (.spawn [1, 2]), .ctl (.pgJoin "" "g" [1]), .send 7, .writer .ok .ok, .send 8, .writer .ok .err]
    s.faulted = true ∧ s.wire = [7] ∧ s.lost = [8] ∧ s.mirror.proxies = [1, 2] ∧
      (Link.settle s).mirror.proxies = [] ∧ (Link.settle s).mirror.members = [] ∧ Link.accepts s 1 = true ∧
      Link.accepts (Link.settle s) 1 = false := by decide

/-- what the theorem excludes (seeded change C20-9): a writer task that only logs a failed flush
leaves session and proxies up -/
example :
    let stepLogOnly : Link.S Nat → Link.Ev Nat → Link.S Nat := fun s e =>
      match e with
      | .writer .ok .err => { s with chan := [], lost := s.lost ++ s.chan }
      | e => Link.step s e
    let s := [Link.Ev.ctl (.spawn [1]), .send 8, .writer .ok .err, .sessionStops, .nodeNotices].foldl stepLogOnly {}
    s.sessUp = true ∧ s.mirror.proxies = [1] := by decide

/-- a two-frame stream split inside the second payload and inside the second header -/
example :
    let dec : Codec.Bytes → Option Nat := fun p => some p.length
    let stream := Codec.encodeFrame [1, 2, 3] ++ Codec.encodeFrame [4, 5]
    (Link.run ({} : Link.S Nat) (Link.readerEvents dec 16 [stream.take 9, stream.drop 9 |>.take 6, stream.drop 15])).recvd
      = [3, 2] := by decide

/-- A's side goes down with two casts under way: B still receives them, in order; a later cast is refused -/
example :
    let n := (Net.init 1 0).run [.cast 1 10, .cast 1 11, .proxy, .proxy, .moveF 0, .loseA, .cast 1 12, .moveF 0, .moveF 1, .moveF 1]
    n.recvd.map (·.payload) = [10, 11] ∧ n.sent.map (·.payload) = [10, 11] ∧ n.linkUp = false := by decide

/-- two outstanding calls from two senders, replies arriving in the opposite order, one
caller abandoning, through 3 forward and 2 backward stages -/
def demo : Net :=
  (Net.init 2 1).run
    [.call 1 10, .cast 2 20, .call 2 11, .proxy, .proxy, .proxy,
     .moveF 0, .moveF 0, .moveF 0, .moveF 1, .moveF 1, .moveF 1, .moveF 2, .moveF 2, .moveF 2,
     .answer 1 111, .answer 0 110, .abandon 1,
     .moveB 0, .moveB 0, .moveB 1, .moveB 1, .proxy, .proxy]

example : demo.recvd = demo.sent ∧ demo.sent.length = 3 := by decide
example : demo.delivered = [(0, 110)] ∧ demo.answered = [(1, 111), (0, 110)] := by decide
example : demo.quiet = true ∧ demo.px.tag = 2 ∧ demo.px.pending = [] := by decide
/-- reply completeness on the demo: the answer to the abandoned call was dropped, the other delivered -/
example : demo.linkUp = true ∧ demo.closed = [1] ∧ ∀ e ∈ demo.answered, e ∈ demo.delivered ∨ e.1 ∈ demo.closed := by decide

example : (Mirror.run {} [.spawn [1, 2], .pgJoin "" "g" [2, 3], .terminate [1], .pgLeave "" "g" [3]]).proxies = [2, 3] ∧
    (Mirror.run {} [.spawn [1, 2], .pgJoin "" "g" [2, 3], .terminate [1], .pgLeave "" "g" [3]]).members = [(("", "g"), 2)] := by
  decide

/-- the same group name in the default scope and in a named scope: two different groups.
Actor 1 is in `g` of the default scope, actor 2 in `g` of scope `s`; later 1 joins `s/g` too and
2 exits. -/
def demoL0 : Memb := [(("", "g"), 1), (("s", "g"), 2)]
example : (Mirror.run {} (initialSync demoL0.keys demoL0)).members = demoL0 := by decide
example : (Mirror.run {} (syncStream demoL0.keys demoL0 [.join "s" "g" [1], .exit 2])).members =
    [(("", "g"), 1), (("s", "g"), 1)] := by decide

/-- a scan racing with changes: `g` is read after actor 1 left and actor 3 joined, `h` before
actor 2 joins it; the notifications repair everything -/
example :
    let L0 : Memb := [(("", "g"), 1), (("", "g"), 2)]
    let evs : List PgEv := [.leave "" "g" [1], .join "" "g" [3], .join "" "h" [2], .exit 3]
    (Mirror.run {} (racingStream L0 evs [(("", "g"), 2), (("", "h"), 0)])).members = [(("", "g"), 2), (("", "h"), 2)] ∧
      evs.foldl Memb.apply L0 = [(("", "g"), 2), (("", "h"), 2)] := by decide

/-- what the theorem excludes (seeded change C20-5): looking the members of EVERY key up in the
default scope announces actor 1 in `s/g` and never announces actor 2 -/
example :
    let wrong : List Ctl := demoL0.keys.filterMap fun k =>
      let ms := localMembers demoL0 ("", k.2)
      if ms.isEmpty then none else some (.pgJoin k.1 k.2 ms)
    (Mirror.run {} wrong).members = [(("", "g"), 1), (("s", "g"), 1)] := by decide

/-- cleanup with a cursor: 20 pending calls, the first 18 abandoned: one pass removes 16 -/
example :
    let p : Proxy := { tag := 20, pending := (List.range 20).map fun i => (i + 1, i) }
    ((p.cleanup (· < 18)).pending.map (·.1), (p.cleanup (· < 18)).cursor) = ([17, 18, 19, 20], some 16) := by
  decide

/-! ## the real socket path: accept loop and client connect (`Model/Listener.lean`, round 4)

`net/listener.rs` (`Listener::handle`), `node/client.rs` (`connect` / `connect_enc`) and the
`ConnectionOpened` arm of `node.rs`, for EVERY interleaving of accept iterations (with any answer
of `accept()`, of the socket setup and of the TLS acceptor), listener respawns, client connects
(refused, failing after the connect, node gone, successful) and `NodeServer` handler steps. -/

/-- Every connection the listener accepted and passed on gets EXACTLY ONE session, server-side,
in acceptance order; every successful `connect` gets exactly one session, client-side; no session
belongs to anything else (once the `NodeServer` has worked off its mailbox), and before that the
sessions created so far are a prefix of them. -/
theorem every_accepted_connection_gets_exactly_one_session (evs : List Listener.Ev) :
    let s := Listener.run {} evs
    Listener.serverSessions (Listener.drain s) = s.accepted ∧
    Listener.clientSessions (Listener.drain s) = s.dialled ∧
    (((Listener.drain s).sessions.map (·.1)).Nodup) ∧
    (s.accepted ++ s.dialled).Nodup ∧
    s.sessions <+: (Listener.drain s).sessions := by
  intro s
  have h := Listener.inv_run evs {} Listener.inv_init
  have hs : (Listener.drain s).sessions = Listener.opened s := rfl
  have hnd : ((Listener.opened s).map (·.1)).Nodup :=
    h.asc.imp (fun hab => Nat.ne_of_lt hab)
  refine ⟨by simp only [Listener.serverSessions, hs]; exact h.srv,
          by simp only [Listener.clientSessions, hs]; exact h.cli, by rw [hs]; exact hnd, ?_,
          by rw [hs]; exact List.prefix_append _ _⟩
  -- accepted and dialled are the two halves of a duplicate-free list
  rw [← h.srv, ← h.cli]
  exact Listener.nodup_split _ hnd

/-- A `connect` that fails - refused, failing socket setup / TLS handshake, node gone - returns an
error and leaves NO trace: neither a queued `ConnectionOpened` nor, ever after, a session; the number
of client-side sessions never exceeds the number of `connect` calls that returned `Ok`. -/
theorem failed_connect_reports_error_and_creates_no_session (evs : List Listener.Ev) (c : Listener.Connect)
    (hc : c ≠ .ok) :
    let s := Listener.run {} evs
    let s' := Listener.step s (.connect c)
    s'.connectErrs = s.connectErrs + 1 ∧ s'.connectOks = s.connectOks ∧
    s'.queue = s.queue ∧ s'.sessions = s.sessions ∧ s'.dialled = s.dialled ∧
    (Listener.clientSessions (Listener.drain s')).length = s.connectOks := by
  intro s s'
  have h := Listener.inv_run evs {} Listener.inv_init
  have h' := Listener.inv_step s (.connect c) h
  have hs : (Listener.drain s').sessions = Listener.opened s' := rfl
  have e : s'.connectErrs = s.connectErrs + 1 ∧ s'.connectOks = s.connectOks ∧
      s'.queue = s.queue ∧ s'.sessions = s.sessions ∧ s'.dialled = s.dialled := by
    cases c <;> simp_all [s', Listener.step]
  refine ⟨e.1, e.2.1, e.2.2.1, e.2.2.2.1, e.2.2.2.2, ?_⟩
  simp only [Listener.clientSessions, hs]
  rw [h'.cli, e.2.2.2.2]
  exact h.oks

/-- The listener survives ANY sequence of `accept()` errors (and of failed TLS handshakes): it is still
accepting afterwards, and the next good connection gets its server-side session. In general the accept
loop is only ever down between a failed socket setup and the `NodeServer`'s respawn, which is then due. -/
theorem listener_survives_accept_errors (evs : List Listener.Ev) (errs : List Listener.Accept)
    (herrs : ∀ a ∈ errs, a = .err ∨ a = .okTlsFails) :
    let s := Listener.run {} evs
    (s.listenerUp = false → s.respawnDue = true ∧ (Listener.step s .respawn).listenerUp = true) ∧
    (s.listenerUp = true →
      let t := Listener.run s (errs.map .accept)
      t.listenerUp = true ∧ t.sessions = s.sessions ∧ t.queue = s.queue ∧
      (Listener.step t (.accept .ok)).queue = s.queue ++ [(t.nextConn, true)]) := by
  intro s
  have h := Listener.inv_run evs {} Listener.inv_init
  refine ⟨fun hd => ⟨h.up hd, by have hr : s.respawnDue = true := h.up hd; simp only [Listener.step]; rw [if_pos hr]⟩, ?_⟩
  intro hup
  have key : ∀ (errs : List Listener.Accept) (u : Listener.S), (∀ a ∈ errs, a = .err ∨ a = .okTlsFails) →
      u.listenerUp = true →
      (Listener.run u (errs.map .accept)).listenerUp = true ∧
      (Listener.run u (errs.map .accept)).sessions = u.sessions ∧
      (Listener.run u (errs.map .accept)).queue = u.queue := by
    intro errs
    induction errs with
    | nil => intro u _ hu; exact ⟨hu, rfl, rfl⟩
    | cons a as ih =>
      intro u ha hu
      have h1 := ha a (List.mem_cons_self ..)
      have ih' := ih (Listener.step u (.accept a)) (fun b hb => ha b (List.mem_cons_of_mem _ hb))
        (by rcases h1 with rfl | rfl <;> simp [Listener.step, hu])
      have e : (Listener.step u (.accept a)).sessions = u.sessions ∧ (Listener.step u (.accept a)).queue = u.queue := by
        rcases h1 with rfl | rfl <;> simp [Listener.step, hu]
      simp only [List.map_cons, Listener.run, List.foldl_cons]
      exact ⟨ih'.1, ih'.2.1.trans e.1, ih'.2.2.trans e.2⟩
  have k := key errs s herrs hup
  refine ⟨k.1, k.2.1, k.2.2, ?_⟩
  simp [Listener.step, k.1, k.2.2]

/-- non-vacuity: two accepts around an accept error and a failed setup with respawn, one refused and
one successful connect: sessions (0, server), (2, client), (3, server); connection 1 died in setup. -/
example :
    let s := Listener.drain (Listener.run {} [.accept .ok, .accept .err, .accept .okSetupFails, .accept .ok,
      .respawn, .connect .refused, .connect .ok, .nodeHandles, .accept .ok])
    s.sessions = [(0, true), (2, false), (3, true)] ∧ s.connectErrs = 1 ∧ s.acceptErrs = 1 := by decide

/-- the run-time clause the TCP engines evaluate holds of the model: sessions = connections made -/
theorem listener_oracle_model (evs : List Listener.Ev) :
    let s := Listener.drain (Listener.run {} evs)
    Listener.ok s.accepted.length s.dialled.length 0 0
      (Listener.serverSessions s).length (Listener.clientSessions s).length = true := by
  intro s
  have h := every_accepted_connection_gets_exactly_one_session evs
  simp only [Listener.ok]
  have e1 : (Listener.serverSessions s) = s.accepted := h.1
  have e2 : (Listener.clientSessions s) = s.dialled := h.2.1
  simp [e1, e2]


/-- (every exit is announced exactly once, whatever traffic is in flight) `Advert`: actors start,
stop (leave the pid registry; their `Terminate` event is queued at the session), the session
handles the queued events, and inbound `Cast` / `Call` frames for ANY pid are handled at ANY point
in between — in particular after an actor left the registry and before its event is handled, where
`authorized_local_actor` prunes the allow-list. Once every queued event is handled, every actor
that is no longer alive was announced to the peer with exactly one control `Terminate`
(so its remote reference stops: `Mirror`), and no live actor was. -/
theorem every_exit_is_announced_exactly_once (ops : List Advert.Op) (i : Nat) :
    let s := Advert.run {} ops
    s.pend = [] → i < s.next →
      (Advert.terms s.wire).count i = if i ∈ s.alive then 0 else 1 := by
  intro s hp hi
  have hinv := Advert.inv_run ops {} Advert.inv_init
  have ht : Advert.terms s.wire = s.done := Advert.terms_run ops {} rfl
  rw [ht]
  split
  · rename_i ha
    exact List.count_eq_zero.mpr (hinv.ad i ha)
  · rename_i ha
    rcases hinv.all i hi with h | h | h
    · exact absurd h ha
    · rw [hp] at h; cases h
    · exact List.count_eq_one_of_mem' hinv.d_nd h

/-- (the traffic does not matter) what the session tells its peer, and which actors are alive,
waiting, done, is the same as in the run with every inbound frame removed. -/
theorem announcements_do_not_depend_on_inbound_frames (ops : List Advert.Op) :
    (Advert.run {} ops).wire = (Advert.run {} (ops.filter fun o => !Advert.isFrame o)).wire := by
  have h := Advert.core_run_filter ops {} {} rfl
  simp only [Advert.core, Prod.mk.injEq] at h
  exact h.2.2.2.2

/-- the seeded interleaving: the frame comes after the actor left the registry and before its event -/
example :
    let s := Advert.run {} [.spawn, .spawn, .stop 1, .frame 1, .evt 1]
    s.wire = [.spawn 0, .spawn 1, .term 1] ∧ s.adv = [0] := by decide

#print axioms C20.extracted_budget
#print axioms C20.tags_never_reused
#print axioms C20.call_gets_fresh_tag
#print axioms C20.reply_resolves_stored_port
#print axioms C20.cleanup_only_closed
#print axioms C20.order_preserved
#print axioms C20.delivered_at_rest
#print axioms C20.every_exit_is_announced_exactly_once
#print axioms C20.announcements_do_not_depend_on_inbound_frames
#print axioms C20.frames_in_flight_survive_loss_of_sender_side
#print axioms C20.per_sender_order
#print axioms C20.replies_not_cross_wired
#print axioms C20.reply_at_most_once
#print axioms C20.replies_complete_at_rest
#print axioms C20.ok_model
#print axioms C20.proxies_mirror_control_stream
#print axioms C20.groups_mirror_control_stream
#print axioms C20.remote_membership_is_image
#print axioms C20.remote_membership_is_image_keys
#print axioms C20.remote_membership_is_image_racing_scan
#print axioms C20.remote_membership_at_ready
#print axioms C20.close_removes_everything
#print axioms C20.transport_error_closes_session
#print axioms C20.read_write_and_flush_errors_are_reported
#print axioms C20.writer_task_is_fifo
#print axioms C20.every_stream_end_closes_session
#print axioms C20.frames_reach_node_session_under_any_fragmentation
#print axioms C20.okDown_model
#print axioms C20.shared_wire_is_a_private_fifo_per_reference
#print axioms C20.frames_are_handed_only_to_the_actor_named_by_to
#print axioms C20.reply_touches_only_the_addressed_proxy
#print axioms C20.send_accepted_iff_reference_live
#print axioms C20.stopping_one_reference_closes_the_session
#print axioms C20.every_accepted_connection_gets_exactly_one_session
#print axioms C20.failed_connect_reports_error_and_creates_no_session
#print axioms C20.listener_survives_accept_errors
#print axioms C20.listener_oracle_model


/-! ## Round 4, wave 2: ONE composed system (`Model/Compose.lean`)

`Compose.Sys` = one `Net` per reference × ONE shared wire per direction × ONE `Link` (session,
transport errors, `NodeSession`, `Mirror`), with explicit coupling. The end-to-end clauses are
proved about IT by refinement to the component theorems above. -/

/-- (refinement + coupling) In every run of the composed system, the state of every reference is a
run of `Net` (so every `Net` theorem holds for it), the session is a run of `Link`, and the private
pipes of the `Net` of reference `p` are — at every moment — exactly the shared wires restricted to
the elements addressed `to = p`: the shared connection IS a private FIFO pipe per reference. -/
theorem composed_system_refines_its_components (k k' : Nat) (ops : List Compose.Op) :
    let s := Compose.run (Compose.init k k') ops
    (∀ p, ∃ nops, s.nets p = (Net.init k k').run nops) ∧
    (∃ evs, s.link = Link.run {} evs) ∧
    (∀ p, (s.nets p).fwd = Compose.projPipe p s.fwd ∧ (s.nets p).back = Compose.projPipe p s.back) := by
  intro s
  obtain ⟨h1, h2⟩ := Compose.run_refines ops (Compose.init k k')
  have hi := Compose.inv_run ops _ (Compose.inv_init k k')
  exact ⟨h1, h2, fun p => ⟨hi.fwd p, hi.back p⟩⟩

/-- (the right actor, the same frame) When a shared forward stage hands on a frame addressed to
`p`: the frame that leaves the shared wire is that very frame; it is the frame the `Net` of `p`
takes out of its own view; the `Net` of `p` — and of no other reference — makes its `moveF` step
(B's session hands the frame to the original `p`, which logs the same variant / sender / arguments). -/
theorem composed_wire_hands_each_frame_to_the_original_named_by_to (k k' : Nat) (ops : List Compose.Op)
    (i p : Nat) (f : Frame)
    (hh : Compose.headAt i (Compose.run (Compose.init k k') ops).fwd = some (p, f)) :
    let s := Compose.run (Compose.init k k') ops
    ((s.nets p).fwd.move i).2 = (s.fwd.move i).2.map (·.2) ∧
    (∀ e, (s.fwd.move i).2 = some e → e = (p, f)) ∧
    (Compose.step s (.moveF i)).nets p = (s.nets p).step (.moveF i) ∧
    (∀ q, q ≠ p → (Compose.step s (.moveF i)).nets q = s.nets q) := by
  intro s
  have hi := Compose.inv_run ops _ (Compose.inv_init k k')
  obtain ⟨_, w2, w3, _⟩ := Compose.projPipe_move i s.fwd p f hh
  refine ⟨by rw [hi.fwd p]; exact w2, w3, ?_, ?_⟩
  · have hh' : Compose.headAt i s.fwd = some (p, f) := hh
    simp only [Compose.step, hh']; exact Compose.upd_self _ _ _
  · intro q hq
    have hh' : Compose.headAt i s.fwd = some (p, f) := hh
    simp only [Compose.step, hh']; exact Compose.upd_other _ _ _ _ hq

/-- (a reply goes to the proxy named by `to` only) the same for the shared backward wire: the
reply leaving it is put into the mailbox of the proxy of `p` and of no other. -/
theorem composed_reply_goes_only_to_the_proxy_named_by_to (k k' : Nat) (ops : List Compose.Op)
    (i p : Nat) (r : Reply)
    (hh : Compose.headAt i (Compose.run (Compose.init k k') ops).back = some (p, r)) :
    let s := Compose.run (Compose.init k k') ops
    ((s.nets p).back.move i).2 = (s.back.move i).2.map (·.2) ∧
    (∀ e, (s.back.move i).2 = some e → e = (p, r)) ∧
    (Compose.step s (.moveB i)).nets p = (s.nets p).step (.moveB i) ∧
    (∀ q, q ≠ p → (Compose.step s (.moveB i)).nets q = s.nets q) := by
  intro s
  have hi := Compose.inv_run ops _ (Compose.inv_init k k')
  obtain ⟨_, w2, w3, _⟩ := Compose.projPipe_move i s.back p r hh
  refine ⟨by rw [hi.back p]; exact w2, w3, ?_, ?_⟩
  · have hh' : Compose.headAt i s.back = some (p, r) := hh
    simp only [Compose.step, hh']; exact Compose.upd_self _ _ _
  · intro q hq
    have hh' : Compose.headAt i s.back = some (p, r) := hh
    simp only [Compose.step, hh']; exact Compose.upd_other _ _ _ _ hq

/-- (end to end, clauses 1–2) Through ANY reference `p` of the composed system — whatever the
other references, the shared wires, the session and the control stream do — what the original `p`
has received is a prefix of what was sent through `p` (same variant, sender and arguments, nothing
invented, duplicated or reordered), per sender in sending order, and with the original alive, the
proxy running and everything drained it is exactly what was sent. -/
theorem composed_delivery_is_fifo_per_sender_with_the_same_fields (k k' : Nat) (ops : List Compose.Op)
    (p sender : Nat) :
    let s := Compose.run (Compose.init k k') ops
    let n := s.nets p
    n.recvd <+: n.sent ∧
    (n.recvd.filter (·.sender == sender)) <+: (n.sent.filter (·.sender == sender)) ∧
    (n.targetUp = true → Compose.accepts s p = true → n.quiet = true → n.recvd = n.sent) := by
  intro s n
  obtain ⟨nops, hn⟩ := (Compose.run_refines ops (Compose.init k k')).1 p
  have h1 := order_preserved k k' nops
  have h2 := per_sender_order k k' nops sender
  have h3 := delivered_at_rest k k' nops
  have e : n = (Net.init k k').run nops := hn
  dsimp only at h1 h2 h3
  rw [← e] at h1 h2 h3
  refine ⟨h1.1, h2, fun ht ha hq => h3 ht ?_ hq⟩
  simp only [Compose.accepts, Compose.running, Bool.and_eq_true] at ha
  exact ha.2

/-- (references are isolated) Nothing done through, by or to another reference `q` — sends, its
proxy handling a message, its original answering, dropping or exiting, its callers giving up — touches
the state of reference `p` (tags, pending calls, mailbox, what its original received, what its
callers got). Together with the two `…named_by_to` theorems: the only steps that change reference
`p` are those addressed to `p`, the moves of ITS frames / replies on the shared wires, and the
session's own events. -/
theorem composed_references_are_isolated (s : Compose.Sys) (p q : Nat) (h : p ≠ q) (a b : Nat) :
    (Compose.step s (.cast q a b)).nets p = s.nets p ∧ (Compose.step s (.call q a b)).nets p = s.nets p ∧
    (Compose.step s (.abandon q a)).nets p = s.nets p ∧ (Compose.step s (.proxy q)).nets p = s.nets p ∧
    (Compose.step s (.answer q a b)).nets p = s.nets p ∧ (Compose.step s (.drop q a)).nets p = s.nets p ∧
    (Compose.step s (.targetExit q)).nets p = s.nets p := by
  refine ⟨?_, ?_, ?_, ?_, ?_, ?_, ?_⟩ <;> simp only [Compose.step] <;> (try split) <;>
    first | rfl | exact Compose.upd_other _ _ _ _ h

/-- (nothing is lost on the SHARED wire) With the original alive and the proxy running, what was sent
through reference `p` is exactly: what the original has received, then the frames addressed to `p`
that are on the shared wire (oldest first, whatever other references' frames are between them),
then the casts / calls still in the proxy's mailbox — in this order. -/
theorem composed_nothing_is_lost_on_the_shared_wire (k k' : Nat) (ops : List Compose.Op) (p : Nat) :
    let s := Compose.run (Compose.init k k') ops
    let n := s.nets p
    n.targetUp = true → Compose.accepts s p = true →
      n.recvd ++ ((Pipe.contents (Compose.projPipe p s.fwd)).map (·.item) ++ n.mboxItems) = n.sent := by
  intro s n ht ha
  obtain ⟨nops, hn⟩ := (Compose.run_refines ops (Compose.init k k')).1 p
  have hi := Compose.inv_run ops _ (Compose.inv_init k k')
  have h1 := order_preserved k k' nops
  have e : n = (Net.init k k').run nops := hn
  dsimp only at h1
  rw [← e] at h1
  simp only [Compose.accepts, Compose.running, Bool.and_eq_true] at ha
  have h2 := h1.2 ht ha.2
  simp only [Net.inflight] at h2
  rw [show n.fwd = Compose.projPipe p s.fwd from hi.fwd p] at h2
  exact h2

/-- (end to end, clause 3) Through any reference `p`: a caller only ever gets the answer the
original gave to ITS call, at most once; and with the proxy running and everything drained every
answer has reached its caller unless that caller had given up. -/
theorem composed_replies_reach_exactly_their_caller (k k' : Nat) (ops : List Compose.Op) (p : Nat) :
    let s := Compose.run (Compose.init k k') ops
    let n := s.nets p
    (∀ q d, (q, d) ∈ n.delivered → (q, d) ∈ n.answered) ∧ (n.delivered.map (·.1)).Nodup ∧
    (Compose.accepts s p = true → n.quiet = true → ∀ e ∈ n.answered, e ∈ n.delivered ∨ e.1 ∈ n.closed) := by
  intro s n
  obtain ⟨nops, hn⟩ := (Compose.run_refines ops (Compose.init k k')).1 p
  have h1 := replies_not_cross_wired k k' nops
  have h2 := reply_at_most_once k k' nops
  have h3 := replies_complete_at_rest k k' nops
  have e : n = (Net.init k k').run nops := hn
  dsimp only at h1 h2 h3
  rw [← e] at h1 h2 h3
  refine ⟨h1, h2.1, fun ha hq => (h3 ?_).2 hq⟩
  simp only [Compose.accepts, Compose.running, Bool.and_eq_true] at ha
  exact ha.2

/-- (sends succeed iff the proxy actor runs — DERIVED) `accepts s p` is the status of the proxy
actor of `p` in the composed state (made by `get_or_spawn_remote_actor` and not stopped). It is a
THEOREM that this holds exactly when `p` is in `remote_actors`; an accepted cast enters the proxy's
mailbox and the `sent` log, a refused one changes nothing of the reference and is reported as an
error; and a reference that is a member of any group accepts sends. -/
theorem composed_send_succeeds_iff_proxy_runs (k k' : Nat) (ops : List Compose.Op) (p a b : Nat) :
    let s := Compose.run (Compose.init k k') ops
    let s' := Compose.step s (.cast p a b)
    (Compose.accepts s p = true ↔ p ∈ s.link.mirror.proxies) ∧
    (Compose.accepts s p = true →
      (s'.nets p).sent = (s.nets p).sent ++ [⟨false, a, b⟩] ∧ s'.accepted = s.accepted ++ [(p, ⟨false, a, b⟩)] ∧
      s'.refused = s.refused) ∧
    (Compose.accepts s p = false →
      s'.nets p = s.nets p ∧ s'.accepted = s.accepted ∧ s'.refused = s.refused ++ [(p, ⟨false, a, b⟩)]) ∧
    (∀ g, Compose.inGroup s g p = true → Compose.accepts s p = true) := by
  intro s s'
  have hi := Compose.inv_run ops _ (Compose.inv_init k k')
  obtain ⟨evs, hl⟩ := (Compose.run_refines ops (Compose.init k k')).2
  have hm : Compose.MInv s.link.mirror := by
    rw [hl]; exact Compose.minv_run evs _ (by intro e he; simp [Compose.init] at he)
  have hst : Compose.accepts s p = true ↔ p ∈ s.link.mirror.proxies := by
    rw [show Compose.accepts s p = s.link.mirror.proxies.contains p from hi.status p]
    exact List.contains_iff_mem
  refine ⟨hst, fun h => ?_, Compose.cast_refused s p a b, fun g hg => ?_⟩
  · obtain ⟨c1, _, c3, c4⟩ := Compose.cast_accepted s p a b h
    exact ⟨c1, c3, c4⟩
  · rw [hst]
    simp only [Compose.inGroup, List.contains_iff_mem] at hg
    exact hm _ hg

/-- (end to end, clauses 6–7: the session closes) After ANY transport error reported to the
reader or the writer task, once the session and the `NodeSession` have handled their stop signals:
for EVERY reference the proxy actor is stopped — sends through it fail and change nothing — and it
is in no group; and this stays so whatever happens afterwards. `accepts` here is the proxy's
status in the composed state, not membership in a table. -/
theorem composed_transport_error_stops_every_reference (k k' : Nat) (ops more : List Compose.Op)
    (hf : (Compose.run (Compose.init k k') ops).link.faulted = true) (p : Nat) :
    let t := Compose.run (Compose.settle (Compose.run (Compose.init k k') ops)) more
    Compose.accepts t p = false ∧ (∀ g, Compose.inGroup t g p = false) ∧
      ∀ a b, (Compose.step t (.cast p a b)).nets p = t.nets p ∧
        (Compose.step t (.cast p a b)).refused = t.refused ++ [(p, ⟨false, a, b⟩)] := by
  intro t
  obtain ⟨evs, hl⟩ := (Compose.run_refines ops (Compose.init k k')).2
  have hli : Link.Inv (Compose.run (Compose.init k k') ops).link := by
    rw [hl]; exact Link.inv_run evs _ Link.inv_init
  have hd := Link.settle_down _ hli hf
  obtain ⟨evs', hl'⟩ := (Compose.run_refines more (Compose.settle (Compose.run (Compose.init k k') ops))).2
  rw [Compose.settle_link] at hl'
  have hd' := (Link.down_run evs' _ hd).1
  have hmir : t.link.mirror = {} := by rw [hl']; exact hd'.mirror
  have hi : Compose.Inv t := Compose.inv_run more _ (Compose.inv_step _ _ (Compose.inv_step _ _
    (Compose.inv_run ops _ (Compose.inv_init k k'))))
  have ha : Compose.accepts t p = false := by
    simp only [Compose.accepts, hi.status p, hmir]; rfl
  refine ⟨ha, fun g => by simp only [Compose.inGroup, hmir]; rfl, fun a b => ?_⟩
  obtain ⟨c1, _, c3⟩ := Compose.cast_refused t p a b ha
  exact ⟨c1, c3⟩

/-- (end to end, clauses 6–7: the original stops) When the peer announces the end of the original
of a LIVE reference `p` (`Terminate`), its proxy actor is stopped for good: whatever happens
afterwards (including later control messages) sends through it fail and it is in no group. -/
theorem composed_terminate_stops_the_reference_for_good (k k' : Nat) (ops more : List Compose.Op)
    (p : Nat) (pids : List Nat) (hp : p ∈ pids)
    (hlive : Compose.accepts (Compose.run (Compose.init k k') ops) p = true) :
    let t := Compose.run (Compose.step (Compose.run (Compose.init k k') ops) (.link (.ctl (.terminate pids)))) more
    Compose.accepts t p = false ∧ (∀ g, Compose.inGroup t g p = false) ∧
      ∀ a b, (Compose.step t (.cast p a b)).nets p = t.nets p := by
  intro t
  have hi0 := Compose.inv_run ops _ (Compose.inv_init k k')
  have hi1 := Compose.inv_step _ (.link (.ctl (.terminate pids))) hi0
  have hi : Compose.Inv t := Compose.inv_run more _ hi1
  -- after the step `p` is not in `remote_actors`
  have hnot : p ∉ (Compose.step (Compose.run (Compose.init k k') ops) (.link (.ctl (.terminate pids)))).link.mirror.proxies := by
    simp only [Compose.step, Compose.restrictEv, Compose.restrict, Link.step]
    split
    · simp [Mirror.step, hp]
    · rename_i hn
      obtain ⟨evs, hl⟩ := (Compose.run_refines ops (Compose.init k k')).2
      have hli : Link.Inv (Compose.run (Compose.init k k') ops).link := by
        rw [hl]; exact Link.inv_run evs _ Link.inv_init
      have : (Compose.run (Compose.init k k') ops).link.nodeUp = false := by simpa [Link.isClose] using hn
      rw [hli.node this]; simp
  have hmade : (Compose.run (Compose.init k k') ops).made.contains p = true := by
    simp only [Compose.accepts, Compose.running, Bool.and_eq_true] at hlive
    exact hlive.1
  have hstop : Compose.stopped (Compose.step (Compose.run (Compose.init k k') ops) (.link (.ctl (.terminate pids)))) p = true := by
    have hr := hi1.status p
    have hc : (Compose.step (Compose.run (Compose.init k k') ops) (.link (.ctl (.terminate pids)))).link.mirror.proxies.contains p = false := by
      simpa using hnot
    rw [hc] at hr
    have hm1 : (Compose.step (Compose.run (Compose.init k k') ops) (.link (.ctl (.terminate pids)))).made.contains p = true := by
      have : p ∈ (Compose.run (Compose.init k k') ops).made := by simpa using hmade
      simp [Compose.step, this]
    simp only [Compose.running, hm1, Bool.true_and] at hr
    simp only [Compose.stopped, hm1, hr, Bool.true_and, Bool.not_false]
  have hst := Compose.stopped_run more _ p hstop
  have ha : Compose.accepts t p = false := by
    have h2 : (t.nets p).linkUp = false := by
      have := hst
      simp only [Compose.stopped, Bool.and_eq_true, Bool.not_eq_true'] at this
      exact this.2
    simp only [Compose.accepts, Compose.running, h2, Bool.and_false]
  obtain ⟨evs, hl⟩ := (Compose.run_refines (ops ++ [.link (.ctl (.terminate pids))] ++ more) (Compose.init k k')).2
  have ht : t = Compose.run (Compose.init k k') (ops ++ [.link (.ctl (.terminate pids))] ++ more) := by
    simp [t, Compose.run, List.foldl_append]
  have hm : Compose.MInv t.link.mirror := by
    rw [ht, hl]; exact Compose.minv_run evs _ (by intro e he; simp [Compose.init] at he)
  refine ⟨ha, fun g => ?_, fun a b => (Compose.cast_refused t p a b ha).1⟩
  cases hg : Compose.inGroup t g p with
  | false => rfl
  | true =>
    simp only [Compose.inGroup, List.contains_iff_mem] at hg
    have := hm _ hg
    have hr := hi.status p
    simp only [Compose.accepts] at ha
    rw [ha] at hr
    have : t.link.mirror.proxies.contains p = true := by simpa using this
    rw [this] at hr; simp at hr

/-- two references over ONE wire: interleaved frames reach the right originals, the reply of a call
through reference 2 reaches its caller only -/
def composedDemo : Compose.Sys := Compose.run (Compose.init 0 0)
  [.link (.ctl (.spawn [1, 2])), .cast 1 7 10, .cast 2 8 20, .cast 1 7 11, .call 2 9 30, .proxy 1, .proxy 2,
   .proxy 1, .proxy 2, .moveF 0, .moveF 0, .moveF 0, .moveF 0, .answer 2 0 99, .moveB 0, .proxy 2]

example : (composedDemo.nets 1).recvd = [⟨false, 7, 10⟩, ⟨false, 7, 11⟩] ∧
    (composedDemo.nets 2).recvd = [⟨false, 8, 20⟩, ⟨true, 9, 30⟩] ∧
    (composedDemo.nets 2).delivered = [(0, 99)] ∧ (composedDemo.nets 1).delivered = [] ∧
    Compose.accepts composedDemo 1 = true ∧ Compose.accepts composedDemo 3 = false := by decide

/-- the original of 1 stops: sends to 1 fail (even if it were re-advertised), 2 still works -/
def composedDemoT : Compose.Sys := Compose.step composedDemo (.link (.ctl (.terminate [1])))

example : Compose.accepts composedDemoT 1 = false ∧ Compose.accepts composedDemoT 2 = true ∧
    Compose.accepts (Compose.step composedDemoT (.link (.ctl (.spawn [1])))) 1 = false := by decide

/-- a read error: after the cascade reference 2 refuses sends too -/
def composedDemoU : Compose.Sys := Compose.settle (Compose.step composedDemoT (.link (.read .err)))

example : composedDemoU.link.faulted = true ∧ Compose.accepts composedDemoU 2 = false ∧
    (Compose.step composedDemoU (.cast 2 1 1)).refused = [(2, ⟨false, 1, 1⟩)] := by decide

/-! ### the sending side of the advertisement (`Model/SenderAdvert.lean`) -/

/-- (clause 4, sender side) For every interleaving of actors starting and stopping on other threads
with the session's `monitor` registration, its pid scan and its handling of the queued lifecycle
events (actors that exist before the registration, that start BETWEEN registration and scan, that
start later): once the scan is done and the queued events are handled, the control stream the
session has emitted advertises exactly the remotable actors that are alive — and so (receiver side,
`proxies_mirror_control_stream`) the peer's `remote_actors` are exactly those actors. -/
theorem every_remotable_actor_is_advertised_by_the_sender (ops : List SenderAdvert.Op) :
    let s := SenderAdvert.run {} ops
    s.scanned = true → s.queue = [] →
      ∀ i, (advertised i s.wire = true ↔ i ∈ s.alive) ∧ (i ∈ (Mirror.run {} s.wire).proxies ↔ i ∈ s.alive) := by
  intro s hs hq i
  have h := (SenderAdvert.inv_run ops {} SenderAdvert.inv_init).done hs i
  have hq' : (SenderAdvert.run {} ops).queue = [] := hq
  have h1 : advertised i s.wire = true ↔ i ∈ s.alive := by
    simp only [SenderAdvert.pend, hq', List.map_nil, List.append_nil] at h
    simp only [advertised, beq_iff_eq]
    exact h
  exact ⟨h1, ((proxies_mirror_control_stream s.wire i).1).trans h1⟩

/-- (at most twice, at most once outside the race window) However actors start and stop around the
registration and the scan: an actor that registers once is named by at most TWO `Spawn` messages of
the session (sent or still queued) — the scan and its own lifecycle event — and by at most ONE once
the scan is over when it registers (every actor spawned later is advertised at most once; with
`every_remotable_actor_is_advertised_by_the_sender`: exactly once while it lives). -/
theorem an_actor_is_advertised_at_most_twice (pre post : List SenderAdvert.Op) (i : Nat)
    (h1 : (pre ++ post).count (.start i) ≤ 1) :
    let s := SenderAdvert.run {} (pre ++ post)
    SenderAdvert.spawnCount i (s.wire ++ s.queue.map SenderAdvert.Evt.ctl) ≤ 2 ∧
    ((SenderAdvert.run {} pre).scanned = true → pre.count (.start i) = 0 →
      SenderAdvert.spawnCount i ((SenderAdvert.run {} pre).wire ++ (SenderAdvert.run {} pre).queue.map SenderAdvert.Evt.ctl) = 0 →
      SenderAdvert.spawnCount i (s.wire ++ s.queue.map SenderAdvert.Evt.ctl) ≤ 1) := by
  intro s
  have hs : SenderAdvert.run (SenderAdvert.run {} pre) post = s := by
    simp [s, SenderAdvert.run, List.foldl_append]
  have ha : SenderAdvert.spawnCount i (s.wire ++ s.queue.map SenderAdvert.Evt.ctl) + SenderAdvert.un s.scanned ≤
      0 + 1 + (pre ++ post).count (.start i) := SenderAdvert.spawnCount_run i (pre ++ post) {}
  have hb : SenderAdvert.spawnCount i (s.wire ++ s.queue.map SenderAdvert.Evt.ctl) + SenderAdvert.un s.scanned ≤
      SenderAdvert.spawnCount i ((SenderAdvert.run {} pre).wire ++ (SenderAdvert.run {} pre).queue.map SenderAdvert.Evt.ctl) +
        SenderAdvert.un (SenderAdvert.run {} pre).scanned + post.count (.start i) := by
    have := SenderAdvert.spawnCount_run i post (SenderAdvert.run {} pre)
    rw [hs] at this
    exact this
  refine ⟨by omega, ?_⟩
  intro hsc hc h0
  rw [h0, hsc] at hb
  have hu : SenderAdvert.un true = 0 := rfl
  rw [hu] at hb
  have : post.count (.start i) ≤ 1 := by
    rw [List.count_append] at h1; omega
  omega

/-- "exactly once" does NOT hold on the wire: an actor that starts between the registration and
the scan is advertised twice (harmless: `get_or_spawn_remote_actor` is idempotent — the theorem
above is about the verdict of the stream); one that starts later is advertised once. -/
example :
    (SenderAdvert.run {} [.start 1, .monitor, .start 2, .scan, .evt, .start 3, .evt]).wire =
      [.spawn [1, 2], .spawn [2], .spawn [3]] := by decide

example : let s := SenderAdvert.run {} [.start 1, .monitor, .start 2, .stop 1, .scan, .evt, .evt, .stop 2, .evt]
    s.wire = [.spawn [2], .spawn [2], .terminate [1], .terminate [2]] ∧ s.alive = [] := by decide

/-! ### the fields of a message (`Model/Fields.lean`) -/

/-- (clause 1: the same variant, arguments and metadata) Whatever batch of casts / calls the
proxies of a session hand over (`Fields.proxyMsg`: reference, fresh tag, timeout), however the
transport cuts the byte stream into pieces: the receiving `NodeSession` hands to the original named
by each message's reference exactly the message's variant, argument bytes and metadata, in the
same order — provided the prost codec round-trips (`dec (enc m) = some m`, a hypothesis: prost is
outside the model) and the encoded messages fit the frame limit. -/
theorem fields_reach_the_original_unchanged (enc : Fields.NodeMsg → Codec.Bytes) (dec : Codec.Bytes → Option Fields.NodeMsg)
    (hrt : ∀ m, dec (enc m) = some m) (max : Nat)
    (sends : List (Nat × Nat × Option Nat × Fields.Ser))
    (hmax : ∀ e ∈ sends, (enc (Fields.proxyMsg e.1 e.2.1 e.2.2.1 e.2.2.2)).length ≤ max ∧
      (enc (Fields.proxyMsg e.1 e.2.1 e.2.2.1 e.2.2.2)).length ≤ Codec.isizeMax)
    (chunks : List Codec.Bytes)
    (hs : chunks.flatten = Fields.stream enc (sends.map fun e => Fields.proxyMsg e.1 e.2.1 e.2.2.1 e.2.2.2)) :
    ((Link.run ({} : Link.S Fields.NodeMsg) (Link.readerEvents dec max chunks)).recvd.map Fields.deliver) =
      sends.map fun e => (e.1, e.2.2.2) := by
  have h := frames_reach_node_session_under_any_fragmentation dec max
    ((sends.map fun e => Fields.proxyMsg e.1 e.2.1 e.2.2.1 e.2.2.2).map enc) chunks
    (by rw [hs]; rfl)
    (by
      intro p hp
      simp only [List.mem_map] at hp
      obtain ⟨m, ⟨e, he, rfl⟩, rfl⟩ := hp
      exact hmax e he)
    (by
      intro p hp
      simp only [List.mem_map] at hp
      obtain ⟨m, _, rfl⟩ := hp
      simp [hrt])
  rw [h]
  simp only [List.filterMap_map, List.map_filterMap]
  have : (fun x : Nat × Nat × Option Nat × Fields.Ser => Option.map Fields.deliver
      (((dec ∘ enc) ∘ fun e => Fields.proxyMsg e.1 e.2.1 e.2.2.1 e.2.2.2) x)) = fun e => some (e.1, e.2.2.2) := by
    funext e
    simp [Function.comp, hrt, Fields.deliver, Fields.proxyMsg]
  rw [this]
  simp

example : Fields.deliver (Fields.proxyMsg 5 3 (some 100) ⟨true, "Get", [1, 2], some [9]⟩) =
    (5, ⟨true, "Get", [1, 2], some [9]⟩) := by decide

/-! ### E-SRC ties of the wave-2 models (regenerated from the sources on every check) -/

/-- `after_authenticated` registers the pid monitor BEFORE it scans the pid registry, sends the one
`Spawn`, then registers the pg monitors and scans the groups (`Model/SenderAdvert.lean`: `monitor`
precedes `scan`; with the opposite order an actor starting in between would never be advertised). -/
theorem extracted_after_authenticated_order :
    Extracted.afterAuthenticatedOrder = ["pid_registry::monitor", "get_all_pids", "Msg::Spawn", "pg::monitor_scope",
      "pg::monitor", "which_scopes_and_groups", "Msg::PgJoin", "Msg::Ready"] := by decide

/-- the field-by-field hand-overs of `Fields.proxyMsg` (`handle_serialized`) and `Fields.deliver`
(`handle_node`) are those of the source. The extraction is by DATA FLOW, not by spelling: every field is listed
as `field:<what flows into it>` with local names resolved through `let`s, pattern binders (`Call.args` = the
field `args` of the matched `SerializedMessage::Call`, `Cast.0` = the payload of the matched `Msg::Cast`) and
closure parameters, in alphabetical order — so renaming a local or reordering the fields of the literal
does not disturb it, while handing a different value to a field does. -/
theorem extracted_payload_field_mapping :
    Extracted.proxyCastFields = ["metadata:Cast.metadata", "to:myself.get_id().pid()", "variant:Cast.variant",
      "what:Cast.args"] ∧
    Extracted.proxyCallFields = ["metadata:Call.metadata", "tag:state.get_and_increment_mtag()",
      "timeout_ms:Call.reply.get_timeout().map(|_p|_p.as_millis()asu64)", "to:myself.get_id().pid()",
      "variant:Call.variant", "what:Call.args"] ∧
    Extracted.deliverCastFields = ["args:Cast.0.what", "metadata:Cast.0.metadata", "variant:Cast.0.variant"] ∧
    Extracted.deliverCallFields = ["args:Call.0.what", "metadata:Call.0.metadata",
      "reply:(ractor::concurrency::oneshot().0,some(Call.0.timeout_ms.map(Duration::from_millis))).into()",
      "variant:Call.0.variant"] := by decide

#print axioms C20.composed_system_refines_its_components
#print axioms C20.extracted_after_authenticated_order
#print axioms C20.extracted_payload_field_mapping
#print axioms C20.every_remotable_actor_is_advertised_by_the_sender
#print axioms C20.an_actor_is_advertised_at_most_twice
#print axioms C20.fields_reach_the_original_unchanged
#print axioms C20.composed_wire_hands_each_frame_to_the_original_named_by_to
#print axioms C20.composed_reply_goes_only_to_the_proxy_named_by_to
#print axioms C20.composed_delivery_is_fifo_per_sender_with_the_same_fields
#print axioms C20.composed_references_are_isolated
#print axioms C20.composed_nothing_is_lost_on_the_shared_wire
#print axioms C20.composed_replies_reach_exactly_their_caller
#print axioms C20.composed_send_succeeds_iff_proxy_runs
#print axioms C20.composed_transport_error_stops_every_reference
#print axioms C20.composed_terminate_stops_the_reference_for_good

end C20
