import RactorModel.Lemmas.FactoryRouters

/-!
# C14 — Factory routing keeps its promises about where a job runs

Property theorems only. Model: `Model/Factory.lean` (the five routers as `W.chooseTargetWorker`),
oracles: `Model/FactoryOracle.lean`, helper lemmas: `Lemmas/FactoryRouters.lean`, `Lemmas/Factory*.lean`.
-/

namespace C14
open Factory

/-! ## Custom hashing -/

/-- (custom) whatever the user's hash function returns — out of range, `usize::MAX` — the
chosen slot lies inside the current pool, for every key and every pool size `n > 0`. -/
theorem custom_in_range (h : Nat → Nat → Nat) (key n : Nat) (hn : 0 < n) : chooseCustom h key n < n :=
  Nat.mod_lt _ hn

/-- The custom router of the factory model only ever targets a slot `< pool_size`, in every
state, for every job and hint and every hash table. -/
theorem custom_router_in_range (w : W) (j : Job) (hint : Option Nat) (wid : Nat)
    (hr : w.cfg.router = .cu) (h : (w.chooseTargetWorker j hint).1 = some wid) : wid < w.poolSize := by
  unfold W.chooseTargetWorker at h
  simp only [hr] at h
  split at h
  · simp at h
  · rename_i hz
    have hn : 0 < w.poolSize := by
      apply Nat.pos_of_ne_zero; intro h0; simp [h0] at hz
    split at h
    · simp only [Option.some.injEq] at h
      rw [← h]; exact custom_in_range _ _ _ hn
    · simp at h

/-! ## Round-robin -/

/-- (round-robin) over any `n` consecutive jobs routed without a hint in a pool of `n`
workers, starting from ANY router state `last`, every worker `w < n` is chosen exactly once. -/
theorem rr_spread (n last w : Nat) (hn : 0 < n) (hw : w < n) :
    ∃ i, i < n ∧ (rrSeq n n last)[i]? = some w ∧ ∀ j, j < n → (rrSeq n n last)[j]? = some w → j = i := by
  have h0 := rrNext_lt last n hn
  obtain ⟨i, hi, hiw, huniq⟩ := rot_unique n (rrNext last n) w h0 hw
  rw [rrSeq_eq n hn]
  refine ⟨i, hi, ?_, ?_⟩
  · simp [List.getElem?_map, List.getElem?_range hi, hiw]
  · intro j hj hjw
    simp only [List.getElem?_map, List.getElem?_range hj, Option.map_some, Option.some.injEq] at hjw
    exact huniq j hj hjw

/-- the slot is always inside the pool -/
theorem rr_in_range (last n : Nat) (hn : 0 < n) : rrNext last n < n := rrNext_lt last n hn

/-- The round-robin router of the factory model, asked without a hint, answers the next slot
of `rrSeq` and remembers it: consecutive un-hinted routings walk `rrSeq`. -/
theorem rr_router_step (w : W) (j : Job) (hr : w.cfg.router = .rr) (hn : w.poolSize ≠ 0) :
    (w.chooseTargetWorker j none).2.last = rrNext w.last w.poolSize ∧
    (w.chooseTargetWorker j none).1 =
      (if hasW w.pool (rrNext w.last w.poolSize) then some (rrNext w.last w.poolSize) else none) := by
  unfold W.chooseTargetWorker
  simp [hr, hn, hintAvailable]

/-! ### Non-vacuity -/
example : rrSeq 3 3 7 = [0, 1, 2] := by decide
example : rrSeq 4 4 1 = [2, 3, 0, 1] := by decide
example : chooseCustom (fun _ _ => 2 ^ 64 - 1) 5 3 = 0 := by decide

end C14

#print axioms C14.custom_in_range
#print axioms C14.custom_router_in_range
#print axioms C14.rr_spread
#print axioms C14.rr_in_range
#print axioms C14.rr_router_step
