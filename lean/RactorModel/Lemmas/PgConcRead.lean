import RactorModel.Model.PgConcRead
import RactorModel.Lemmas.PgConcLin
import RactorModel.Lemmas.PgConcGlob

/-!
# Readers: every region of a reader reads the writers' state of ITS instant (wave 2)
-/

namespace Pg.Conc
open AList Pg Pg.Fine

/-- an iteration in progress: every visit happened at an instant of the run so far, not before the call's first
region; a key was collected iff it had members at the instant its shard was read; and every shard already
visited was read completely at one instant -/
def IterOk (sh : Key → Nat) (nSh : Nat) (S : Nat → State) (len next first : Nat) (vis : List (Key × Nat))
    (acc : List Key) : Prop :=
  (first ≤ len ∧ ∀ p ∈ vis, first ≤ p.2 ∧ p.2 ≤ len) ∧
  (∀ k, k ∈ acc ↔ ∃ n, (k, n) ∈ vis ∧ membersOf (S n) k ≠ []) ∧
  (∀ j, j < next → ∃ n, first ≤ n ∧ n ≤ len ∧ ∀ k, sh k % nSh = j → (get (S n).map k).isSome → (k, n) ∈ vis)

def RdOk (sh : Key → Nat) (nSh : Nat) (S : Nat → State) (len : Nat) : RPc → Prop
  | .call _ => True
  | .iter q next first vis acc => isIter q = true ∧ IterOk sh nSh S len next first vis acc
  | .ret q ans acc vis first last =>
    (isIter q = true ∧ last ≤ len ∧ IterOk sh nSh S last nSh first vis acc ∧ ans = iterProj q acc) ∨
    (isIter q = false ∧ first = last ∧ last ≤ len ∧ vis = [(qKey q, last)] ∧ ans = singleAns (S last) q)

theorem iterOk_mono {sh nSh} {S S' : Nat → State} {len len' next first : Nat} {vis acc}
    (h : IterOk sh nSh S len next first vis acc)
    (hS : ∀ n, n ≤ len → S' n = S n) (hl : len ≤ len') : IterOk sh nSh S' len' next first vis acc := by
  obtain ⟨⟨h0, h1⟩, h2, h3⟩ := h
  refine ⟨⟨Nat.le_trans h0 hl, fun p hp => ⟨(h1 p hp).1, Nat.le_trans (h1 p hp).2 hl⟩⟩, fun k => ?_, fun j hj => ?_⟩
  · rw [h2 k]
    constructor
    · rintro ⟨n, hn, hm⟩; exact ⟨n, hn, by rw [hS n (h1 _ hn).2]; exact hm⟩
    · rintro ⟨n, hn, hm⟩; exact ⟨n, hn, by rw [← hS n (h1 _ hn).2]; exact hm⟩
  · obtain ⟨n, hf, hn, hc⟩ := h3 j hj
    exact ⟨n, hf, Nat.le_trans hn hl, fun k hk hs => hc k hk (by rw [← hS n hn]; exact hs)⟩

theorem rdOk_mono {sh nSh} {S S' : Nat → State} {len len' : Nat} {pc : RPc} (h : RdOk sh nSh S len pc)
    (hS : ∀ n, n ≤ len → S' n = S n) (hl : len ≤ len') : RdOk sh nSh S' len' pc := by
  cases pc with
  | call q => trivial
  | iter q next first vis acc => exact ⟨h.1, iterOk_mono h.2 hS hl⟩
  | ret q ans acc vis first last =>
    rcases h with ⟨hi, hlast, hok, ha⟩ | ⟨hi, hfl, hlast, hv, ha⟩
    · exact Or.inl ⟨hi, Nat.le_trans hlast hl,
        iterOk_mono hok (fun n hn => hS n (Nat.le_trans hn hlast)) (Nat.le_refl _), ha⟩
    · exact Or.inr ⟨hi, hfl, Nat.le_trans hlast hl, hv, by rw [hS last hlast]; exact ha⟩

theorem mem_keys_of_get_isSome {κ ν : Type} [DecidableEq κ] {l : List (κ × ν)} {k : κ} (h : (AList.get l k).isSome) :
    k ∈ keys l := by
  unfold AList.get at h
  cases hf : l.find? (fun p => decide (p.1 = k)) with
  | none => rw [hf] at h; cases h
  | some p =>
    have hm := List.mem_of_find?_eq_some hf
    have hk := List.find?_some hf
    simp only [decide_eq_true_eq] at hk
    exact List.mem_map.mpr ⟨p, hm, hk⟩

/-- one region of a reader keeps its record truthful: what it reads is the state of the instant `len` -/
theorem rdOk_readerStep {sh nSh} {S : Nat → State} {len : Nat} (g : G) (hg : S len = g.st)
    {pc : RPc} (h : RdOk sh nSh S len pc) : RdOk sh nSh S len (readerStep sh nSh g len pc) := by
  cases pc with
  | call q =>
    simp only [readerStep]
    by_cases hi : isIter q = true
    · rw [if_pos hi]
      refine ⟨hi, ⟨Nat.le_refl _, fun p hp => by cases hp⟩, fun k => ?_, fun j hj => by cases hj⟩
      constructor
      · intro hk; cases hk
      · rintro ⟨n, hn, _⟩; cases hn
    · rw [if_neg hi]
      by_cases hb : singleBlocked g q = true
      · rw [if_pos hb]; trivial
      · rw [if_neg hb]
        exact Or.inr ⟨by simpa using hi, rfl, Nat.le_refl _, rfl, by rw [hg]⟩
  | iter q next first vis acc =>
    obtain ⟨hi, hok⟩ := h
    simp only [readerStep]
    by_cases hend : nSh ≤ next
    · rw [if_pos hend]
      obtain ⟨h1, h2, h3⟩ := hok
      exact Or.inl ⟨hi, Nat.le_refl _, ⟨h1, h2, fun j hj => h3 j (Nat.lt_of_lt_of_le hj hend)⟩, rfl⟩
    · rw [if_neg hend]
      split
      · exact ⟨hi, hok⟩
      · obtain ⟨⟨h0, h1⟩, h2, h3⟩ := hok
        refine ⟨hi, ⟨h0, ?_⟩, ?_, ?_⟩
        · intro p hp
          rw [List.mem_append] at hp
          rcases hp with hp | hp
          · exact h1 p hp
          · rw [List.mem_map] at hp
            obtain ⟨k, _, rfl⟩ := hp
            exact ⟨h0, Nat.le_refl _⟩
        · intro k
          rw [List.mem_append, h2 k, List.mem_filter]
          constructor
          · rintro (⟨n, hn, hm⟩ | ⟨hk, hm⟩)
            · exact ⟨n, List.mem_append_left _ hn, hm⟩
            · refine ⟨len, List.mem_append_right _ (List.mem_map.mpr ⟨k, hk, rfl⟩), ?_⟩
              rw [hg]
              intro he
              rw [he] at hm
              simp at hm
          · rintro ⟨n, hn, hm⟩
            rw [List.mem_append] at hn
            rcases hn with hn | hn
            · exact Or.inl ⟨n, hn, hm⟩
            · rw [List.mem_map] at hn
              obtain ⟨k', hk', he⟩ := hn
              simp only [Prod.mk.injEq] at he
              obtain ⟨rfl, rfl⟩ := he
              refine Or.inr ⟨hk', ?_⟩
              rw [hg] at hm
              cases hx : membersOf g.st k' with
              | nil => exact absurd hx hm
              | cons a l => rfl
        · intro j hj
          by_cases hjn : j < next
          · obtain ⟨n, hf, hn, hc⟩ := h3 j hjn
            exact ⟨n, hf, hn, fun k hk hs => List.mem_append_left _ (hc k hk hs)⟩
          · have hje : j = next := by omega
            subst hje
            refine ⟨len, h0, Nat.le_refl _, fun k hk hs => List.mem_append_right _ ?_⟩
            rw [hg] at hs
            refine List.mem_map.mpr ⟨k, ?_, rfl⟩
            simp only [shardKeys, List.mem_filter, beq_iff_eq]
            exact ⟨mem_keys_of_get_isSome hs, hk⟩
  | ret q a c v f l => exact h

theorem stAtH_append (g0 : G) (hist l : List Tid) (n : Nat) (hn : n ≤ hist.length) :
    stAtH g0 (hist ++ l) n = stAtH g0 hist n := by
  unfold stAtH
  rw [List.take_append_of_le_length hn]

theorem stAtH_length (g0 : G) (hist : List Tid) : stAtH g0 hist hist.length = (run g0 hist).st := by
  unfold stAtH
  rw [List.take_length]

/-- the invariant of a run with readers -/
def RInv (sh : Key → Nat) (nSh : Nat) (g0 : G) (rg : RG) : Prop :=
  rg.g = run g0 rg.hist ∧ ∀ pc ∈ rg.rd, RdOk sh nSh (stAtH g0 rg.hist) rg.hist.length pc

theorem rinv_start (sh : Key → Nat) (nSh : Nat) (g0 : G) (qs : List Query) : RInv sh nSh g0 (rstart g0 qs) := by
  refine ⟨rfl, fun pc hpc => ?_⟩
  simp only [rstart, List.mem_map] at hpc
  obtain ⟨q, _, rfl⟩ := hpc
  trivial

theorem rinv_step {sh nSh} {g0 : G} {rg : RG} (h : RInv sh nSh g0 rg) (t : RTid) :
    RInv sh nSh g0 (rstep sh nSh rg t) := by
  cases t with
  | w t =>
    refine ⟨?_, fun pc hpc => ?_⟩
    · show step rg.g t = run g0 (rg.hist ++ [t])
      rw [h.1]; unfold run; rw [List.foldl_append]; rfl
    · refine rdOk_mono (h.2 pc hpc) (fun n hn => stAtH_append g0 rg.hist [t] n hn) ?_
      show rg.hist.length ≤ (rg.hist ++ [t]).length
      simp
  | r i =>
    simp only [rstep]
    split
    · exact h
    · next pc hpc =>
      refine ⟨h.1, fun pc' hpc' => ?_⟩
      rcases List.mem_or_eq_of_mem_set hpc' with hm | rfl
      · exact h.2 pc' hm
      · exact rdOk_readerStep rg.g (by rw [stAtH_length, ← h.1]) (h.2 pc (List.mem_of_getElem? hpc))

theorem rinv_run {sh nSh} {g0 : G} {rg : RG} (h : RInv sh nSh g0 rg) (sched : List RTid) :
    RInv sh nSh g0 (rrun sh nSh rg sched) := by
  unfold rrun
  induction sched generalizing rg with
  | nil => exact h
  | cons t ts ih => exact ih (rinv_step h t)

/-- readers do not disturb the writers: the writers' part of a run with readers is the `Pg.Conc` run of
the writer regions of the schedule, in their order -/
def writersOf : List RTid → List Tid
  | [] => []
  | .w t :: ts => t :: writersOf ts
  | .r _ :: ts => writersOf ts

theorem hist_run (sh : Key → Nat) (nSh : Nat) (rg : RG) (sched : List RTid) :
    (rrun sh nSh rg sched).hist = rg.hist ++ writersOf sched := by
  unfold rrun
  induction sched generalizing rg with
  | nil => simp [writersOf]
  | cons t ts ih =>
    rw [List.foldl_cons, ih]
    cases t with
    | w t => simp [rstep, writersOf]
    | r i =>
      simp only [writersOf]
      simp only [rstep]
      split <;> rfl

theorem ne_nil_iff_mem {l : List Nat} : l ≠ [] ↔ ∃ a, a ∈ l :=
  ⟨List.exists_mem_of_ne_nil l, fun ⟨_, ha⟩ => List.ne_nil_of_mem ha⟩

/-- what a returned iterating query has established: (1) every visit is one of its own regions, between the
first and the last; (2) a key is listed iff it had members at the instant its shard was read; (3) every shard
was read completely at one instant — so a group that has members at EVERY instant of the call is listed -/
theorem ret_iter_spec {sh nSh} {S : Nat → State} {len : Nat} {q ans acc vis first last}
    (h : RdOk sh nSh S len (.ret q ans acc vis first last)) (hq : isIter q = true) :
    (first ≤ last ∧ last ≤ len ∧ ∀ p ∈ vis, first ≤ p.2 ∧ p.2 ≤ last) ∧
    (∀ k, k ∈ acc ↔ ∃ n, (k, n) ∈ vis ∧ ∃ a, a ∈ membersOf (S n) k) ∧
    (0 < nSh → ∀ k, (∀ n, first ≤ n → n ≤ last → ∃ a, a ∈ membersOf (S n) k) → k ∈ acc) ∧
    ans = iterProj q acc := by
  rcases h with ⟨_, hlast, ⟨⟨h0, h1⟩, h2, h3⟩, ha⟩ | ⟨hi, _⟩
  · have hacc : ∀ k, k ∈ acc ↔ ∃ n, (k, n) ∈ vis ∧ ∃ a, a ∈ membersOf (S n) k := by
      intro k
      rw [h2 k]
      constructor
      · rintro ⟨n, hn, hm⟩; exact ⟨n, hn, ne_nil_iff_mem.mp hm⟩
      · rintro ⟨n, hn, hm⟩; exact ⟨n, hn, ne_nil_iff_mem.mpr hm⟩
    refine ⟨⟨h0, hlast, h1⟩, hacc, ?_, ha⟩
    intro hpos k hall
    obtain ⟨n, hf, hn, hc⟩ := h3 (sh k % nSh) (Nat.mod_lt _ hpos)
    obtain ⟨a, hmem⟩ := hall n hf hn
    refine (hacc k).mpr ⟨n, hc k rfl ?_, a, hmem⟩
    unfold membersOf at hmem
    cases hg : get (S n).map k with
    | none => rw [hg] at hmem; cases hmem
    | some gs => rfl
  · rw [hq] at hi; cases hi

/-- what a returned one-region query has established -/
theorem ret_single_spec {sh nSh} {S : Nat → State} {len : Nat} {q ans acc vis first last}
    (h : RdOk sh nSh S len (.ret q ans acc vis first last)) (hq : isIter q = false) :
    first = last ∧ last ≤ len ∧ vis = [(qKey q, last)] ∧ ans = singleAns (S last) q := by
  rcases h with ⟨hi, _⟩ | ⟨_, h⟩
  · rw [hq] at hi; cases hi
  · exact h

end Pg.Conc
