import RactorModel.Lemmas.PgConcRun

/-!
Linearisation of `Pg.Conc`: every region changes the membership read off the forward map exactly
as the abstract specification says for the region's linearised operation — `join`/`leave` take
effect in their entry-lock region, the automatic leave of an exiting actor one group at a time in
the `leave_all` iterations, and no other region changes membership at all.
-/

namespace Pg.Conc
open AList Pg Pg.Fine

theorem members_of_trans {st st' : State} {e : Eff} (t : Trans st st' e) (hna : ∀ k x, ¬ e.addM k x)
    (hnd : ∀ k x, ¬ e.delM k x) (k : Key) (x : Nat) : x ∈ membersOf st' k ↔ x ∈ membersOf st k := by
  rw [t.m]
  constructor
  · rintro (⟨h, _⟩ | h)
    · exact h
    · exact absurd h (hna k x)
  · intro h; exact Or.inl ⟨h, hnd k x⟩

theorem members_of_same {st st' : State} (h : Same st st') (k : Key) (x : Nat) :
    x ∈ membersOf st' k ↔ x ∈ membersOf st k := by rw [h.m]

/-- the regions of a caller thread other than the two entry-lock regions leave membership alone -/
theorem call_members (st : State) (pc : Pc) (h1 : ∀ s g as, pc ≠ .joinFiltered s g as) (h2 : ∀ s g as, pc ≠ .leave s g as)
    (k : Key) (x : Nat) : x ∈ membersOf (callStep st pc).1 k ↔ x ∈ membersOf st k := by
  cases pc with
  | join s g as => exact Iff.rfl
  | joinFiltered s g as => exact absurd rfl (h1 s g as)
  | joinEntered s g as p => exact members_of_same (same_joinCleanup st s g as) k x
  | notify p => exact Iff.rfl
  | leave s g as => exact absurd rfl (h2 s g as)
  | monitor g b => exact Iff.rfl
  | monitorRel g b =>
    show x ∈ membersOf (monitorEntry st g b) k ↔ _
    unfold monitorEntry
    by_cases hd : b ∈ st.dead
    · have : alive st b = false := by simp [alive, hd]
      rw [this]; exact members_of_same (same_touchGroup st _) k x
    · have : alive st b = true := alive_iff.mpr hd
      rw [this, if_pos rfl]
      exact members_of_trans (trans_monitor_alive st g b hd) (by simp [monitorEff]) (by simp [monitorEff]) k x
  | monitorRecheck g b => exact members_of_same (same_monitorRecheck st g b) k x
  | monitorScope s b => exact Iff.rfl
  | monitorScopeRel s b =>
    show x ∈ membersOf (monitorScopeEntry st s b) k ↔ _
    unfold monitorScopeEntry
    by_cases hd : b ∈ st.dead
    · have : alive st b = false := by simp [alive, hd]
      rw [this]; exact Iff.rfl
    · have : alive st b = true := alive_iff.mpr hd
      rw [this, if_pos rfl]
      exact members_of_trans (trans_monitorScope_alive st s b hd) (by simp [monitorScopeEff]) (by simp [monitorScopeEff]) k x
  | monitorScopeRecheck s b => exact members_of_same (same_monitorScopeRecheck st s b) k x
  | demonitor g b =>
    exact members_of_trans (trans_demonitor st g b) (by simp [demonitorEff]) (by simp [demonitorEff]) k x
  | demonitorScope s b => exact Iff.rfl
  | done => exact Iff.rfl

/-- the effect of an exit region on membership -/
theorem exreg_members (st : State) (b : Nat) (ph : Phase) (r : ExReg) (k : Key) (x : Nat) :
    x ∈ membersOf (fstep b ⟨st, ph⟩ r.toFOp).st k ↔
      specLin (fun k x => x ∈ membersOf st k) (fun x => x ∉ st.dead)
        (match r, ph with
         | .lvKey k', .leaving mk _ => if k' ∈ mk then Lin.leave1 k' b else Lin.none
         | _, _ => Lin.none) k x := by
  cases r with
  | mark => cases ph <;> exact Iff.rfl
  | demTake => cases ph <;> exact Iff.rfl
  | demKey k0 =>
    cases ph with
    | demon gk wk =>
      simp only [ExReg.toFOp, fstep, specLin]
      split
      · exact members_of_trans (trans_demonKey st b k0) (by simp [demonKeyEff]) (by simp [demonKeyEff]) k x
      · exact Iff.rfl
    | _ => exact Iff.rfl
  | demWKey s =>
    cases ph with
    | demon gk wk =>
      simp only [ExReg.toFOp, fstep, specLin]
      split <;> exact Iff.rfl
    | _ => exact Iff.rfl
  | demDone =>
    cases ph with
    | demon gk wk =>
      cases gk with
      | nil => cases wk <;> exact Iff.rfl
      | cons _ _ => exact Iff.rfl
    | _ => exact Iff.rfl
  | take => cases ph <;> exact Iff.rfl
  | lvKey k0 =>
    cases ph with
    | leaving mk rm =>
      simp only [ExReg.toFOp, fstep]
      by_cases c : k0 ∈ mk
      · simp only [c, ↓reduceIte, specLin]
        rw [(trans_leaveKey st b k0).m]; simp [leaveKeyEff]
      · simp only [c, ↓reduceIte, specLin]
    | _ => exact Iff.rfl
  | finish =>
    cases ph with
    | leaving mk rm =>
      cases mk with
      | nil => exact Iff.rfl
      | cons _ _ => exact Iff.rfl
    | _ => exact Iff.rfl

theorem lin_step (g : G) (t : Tid) (k : Key) (x : Nat) :
    x ∈ membersOf (step g t).st k ↔
      specLin (fun k x => x ∈ membersOf g.st k) (fun x => x ∉ g.st.dead) (linOf g t) k x := by
  cases t with
  | ex b r =>
    by_cases hg : r = .mark ∧ b ∈ g.st.dead
    · rw [step_ex_guard g b r hg]
      obtain ⟨rfl, _⟩ := hg
      simp only [linOf, specLin]
    · rw [step_ex g b r hg]
      exact exreg_members g.st b (phaseOf g b) r k x
  | call i =>
    cases hp : g.thr[i]? with
    | none => rw [step_call_none g i hp]; simp only [linOf, hp, specLin]
    | some pc =>
      rw [step_call_some g i pc hp]
      show x ∈ membersOf (callStep g.st pc).1 k ↔ _
      by_cases c1 : ∃ s g' as, pc = .joinFiltered s g' as
      · obtain ⟨s, g', as, rfl⟩ := c1
        simp only [linOf, hp, specLin]
        show x ∈ membersOf (joinEntry g.st s g' as).1 k ↔ _
        by_cases hne : as.filter (alive g.st) = []
        · rw [joinEntry_empty g.st s g' as hne, members_of_same (same_touchGroup g.st _)]
          constructor
          · exact Or.inl
          · rintro (h | ⟨_, h1, h2⟩)
            · exact h
            · have : x ∈ as.filter (alive g.st) := (mem_filter_alive g.st as x).mpr ⟨h1, h2⟩
              rw [hne] at this; cases this
        · rw [joinEntry_nonempty g.st s g' as hne, join_members]
      · by_cases c2 : ∃ s g' as, pc = .leave s g' as
        · obtain ⟨s, g', as, rfl⟩ := c2
          simp only [linOf, hp, specLin]
          show x ∈ membersOf (leaveEntry g.st s g' as).1 k ↔ _
          cases hg : get g.st.map (s, g') with
          | none =>
            rw [leaveEntry_none g.st s g' as hg]
            constructor
            · intro h
              refine ⟨h, ?_⟩
              rintro ⟨rfl, _⟩
              unfold membersOf at h; rw [hg] at h; cases h
            · exact fun h => h.1
          | some gs => rw [leaveEntry_some g.st s g' as hg, leave_members g.st s g' as hg]
        · have h1 : ∀ s g' as, pc ≠ .joinFiltered s g' as := fun s g' as e => c1 ⟨s, g', as, e⟩
          have h2 : ∀ s g' as, pc ≠ .leave s g' as := fun s g' as e => c2 ⟨s, g', as, e⟩
          rw [call_members g.st pc h1 h2]
          have : linOf g (.call i) = .none := by
            simp only [linOf, hp]
            cases pc <;> first | rfl | exact absurd rfl (h1 _ _ _) | exact absurd rfl (h2 _ _ _)
          rw [this]; simp only [specLin]

theorem specLin_congr {m m' : Key → Nat → Prop} (h : ∀ k x, m k x ↔ m' k x) (al : Nat → Prop) (l : Lin) (k : Key) (x : Nat) :
    specLin m al l k x ↔ specLin m' al l k x := by
  cases l <;> simp only [specLin, h]

theorem absRun_congr {m m' : Key → Nat → Prop} (h : ∀ k x, m k x ↔ m' k x) (g : G) (sched : List Tid) (k : Key) (x : Nat) :
    absRun m g sched k x ↔ absRun m' g sched k x := by
  induction sched generalizing g m m' with
  | nil => exact h k x
  | cons t ts ih => exact ih (fun k x => specLin_congr h _ _ k x) (step g t)

/-- refinement along a whole schedule -/
theorem lin_run (g : G) (sched : List Tid) (k : Key) (x : Nat) :
    x ∈ membersOf (run g sched).st k ↔ absRun (fun k x => x ∈ membersOf g.st k) g sched k x := by
  induction sched generalizing g with
  | nil => exact Iff.rfl
  | cons t ts ih =>
    show x ∈ membersOf (run (step g t) ts).st k ↔ _
    rw [ih (step g t)]
    exact absRun_congr (fun k x => lin_step g t k x) (step g t) ts k x

/-! ### change records carry the recipients of the instant of the change -/

theorem call_records (st : State) (pc : Pc) : ∀ p ∈ (callStep st pc).2.2.1, p.to = recipients st (p.s, p.g) := by
  cases pc with
  | joinFiltered s g as =>
    intro p hp
    simp only [callStep, joinEntry] at hp
    split at hp
    · simp at hp
    · simp only [Option.toList_some, List.mem_singleton] at hp; rw [hp]
  | leave s g as =>
    intro p hp
    simp only [callStep, leaveEntry] at hp
    split at hp
    · simp at hp
    · simp only [Option.toList_some, List.mem_singleton] at hp; rw [hp]
  | _ => intro p hp; simp [callStep] at hp

theorem ex_records (st : State) (b : Nat) (ph : Phase) (r : ExReg) :
    ∀ p ∈ exRecs st b ph r, p.to = recipients st (p.s, p.g) ∧ p.isJoin = false ∧ p.actors = [b] := by
  cases r with
  | lvKey k =>
    cases ph with
    | leaving mk rm =>
      intro p hp
      simp only [exRecs] at hp
      split at hp
      · unfold leaveKey at hp
        split at hp
        · simp only [Option.map_some, Option.toList_some, List.mem_singleton] at hp
          rw [hp]; exact ⟨rfl, rfl, rfl⟩
        · simp at hp
      · simp at hp
    | _ => intro p hp; simp [exRecs] at hp
  | _ => intro p hp; simp [exRecs] at hp

theorem records_step (g : G) (t : Tid) :
    ∃ new, (step g t).changes = g.changes ++ new ∧ ∀ p ∈ new, p.to = recipients g.st (p.s, p.g) := by
  cases t with
  | ex b r =>
    by_cases hg : r = .mark ∧ b ∈ g.st.dead
    · rw [step_ex_guard g b r hg]; exact ⟨[], by simp, by simp⟩
    · rw [step_ex g b r hg]
      exact ⟨_, rfl, fun p hp => (ex_records g.st b _ r p hp).1⟩
  | call i =>
    cases hp : g.thr[i]? with
    | none => rw [step_call_none g i hp]; exact ⟨[], by simp, by simp⟩
    | some pc =>
      rw [step_call_some g i pc hp]
      exact ⟨_, rfl, call_records g.st pc⟩


/-- every effective membership change is recorded by the region that makes it: the record names the
group, contains the actor, and says whether it is a join or a leave -/
theorem change_recorded (g : G) (t : Tid) (k : Key) (x : Nat)
    (hch : ¬ (x ∈ membersOf (step g t).st k ↔ x ∈ membersOf g.st k)) :
    ∃ p, (step g t).changes = g.changes ++ [p] ∧ (p.s, p.g) = k ∧ x ∈ p.actors ∧
      (p.isJoin = true ↔ x ∈ membersOf (step g t).st k) ∧ p.to = recipients g.st k := by
  cases t with
  | ex b r =>
    by_cases hg : r = .mark ∧ b ∈ g.st.dead
    · rw [step_ex_guard g b r hg] at hch; exact absurd Iff.rfl hch
    · rw [step_ex g b r hg] at hch ⊢
      have hm := exreg_members g.st b (phaseOf g b) r k x
      replace hch : ¬ (x ∈ membersOf (fstep b ⟨g.st, phaseOf g b⟩ r.toFOp).st k ↔ x ∈ membersOf g.st k) := hch
      rw [hm] at hch
      cases r with
      | lvKey k0 =>
        cases hph : phaseOf g b with
        | leaving mk rm =>
          rw [hph] at hch hm
          by_cases c : k0 ∈ mk
          · simp only [c, ↓reduceIte, specLin] at hch hm
            have hx : x ∈ membersOf g.st k ∧ k = k0 ∧ x = b := by
              by_cases h1 : x ∈ membersOf g.st k
              · by_cases h2 : k = k0 ∧ x = b
                · exact ⟨h1, h2⟩
                · exact absurd ⟨fun h => h.1, fun h => ⟨h, h2⟩⟩ hch
              · exact absurd ⟨fun h => h.1, fun h => absurd h h1⟩ hch
            obtain ⟨hx1, rfl, rfl⟩ := hx
            have hlk : (leaveKey g.st x k).2 = some (k, recipients g.st k) := by
              unfold leaveKey; rw [if_pos hx1]
            refine ⟨recPending x (k, recipients g.st k), ?_, rfl, by simp [recPending], ?_, rfl⟩
            · simp only [exRecs, c, ↓reduceIte, hlk, Option.map_some, Option.toList_some]
            · show (false = true ↔ x ∈ membersOf (fstep x ⟨g.st, Phase.leaving mk rm⟩ (ExReg.lvKey k).toFOp).st k)
              rw [hm]; simp
          · exfalso; apply hch; simp [c, specLin]
        | _ => rw [hph] at hch; exfalso; apply hch; simp [specLin]
      | _ => exfalso; apply hch; simp [specLin]
  | call i =>
    cases hp : g.thr[i]? with
    | none => rw [step_call_none g i hp] at hch; exact absurd Iff.rfl hch
    | some pc =>
      have hm := lin_step g (.call i) k x
      rw [hm] at hch
      rw [step_call_some g i pc hp] at hm ⊢
      simp only [linOf, hp] at hch hm
      cases pc with
      | joinFiltered s g' as =>
        simp only [specLin] at hch hm
        have hx : x ∉ membersOf g.st k ∧ k = (s, g') ∧ x ∈ as ∧ x ∉ g.st.dead := by
          by_cases h1 : x ∈ membersOf g.st k
          · exact absurd ⟨fun _ => h1, fun h => Or.inl h⟩ hch
          · by_cases h2 : k = (s, g') ∧ x ∈ as ∧ x ∉ g.st.dead
            · exact ⟨h1, h2⟩
            · exact absurd ⟨fun h => h.elim id (fun z => absurd z h2), fun h => Or.inl h⟩ hch
        obtain ⟨hx1, rfl, hx2, hx3⟩ := hx
        have hne : as.filter (alive g.st) ≠ [] := by
          intro e
          have : x ∈ as.filter (alive g.st) := (mem_filter_alive g.st as x).mpr ⟨hx2, hx3⟩
          rw [e] at this; cases this
        have hje : (joinEntry g.st s g' as).2 = some ⟨true, s, g', as.filter (alive g.st), recipients g.st (s, g')⟩ := by
          simp [joinEntry, hne]
        refine ⟨⟨true, s, g', as.filter (alive g.st), recipients g.st (s, g')⟩, ?_, rfl,
          (mem_filter_alive g.st as x).mpr ⟨hx2, hx3⟩, ?_, rfl⟩
        · simp only [callStep, hje, Option.toList_some]
        · simp only [true_iff]; exact hm.mpr (Or.inr ⟨rfl, hx2, hx3⟩)
      | leave s g' as =>
        simp only [specLin] at hch hm
        have hx : x ∈ membersOf g.st k ∧ k = (s, g') ∧ x ∈ as := by
          by_cases h1 : x ∈ membersOf g.st k
          · by_cases h2 : k = (s, g') ∧ x ∈ as
            · exact ⟨h1, h2⟩
            · exact absurd ⟨fun h => h.1, fun h => ⟨h, h2⟩⟩ hch
          · exact absurd ⟨fun h => h.1, fun h => absurd h h1⟩ hch
        obtain ⟨hx1, rfl, hx2⟩ := hx
        cases hgm : get g.st.map (s, g') with
        | none => unfold membersOf at hx1; rw [hgm] at hx1; cases hx1
        | some gs =>
          have hle : (leaveEntry g.st s g' as).2 = some ⟨false, s, g', as, recipients g.st (s, g')⟩ := by
            simp [leaveEntry, hgm]
          refine ⟨⟨false, s, g', as, recipients g.st (s, g')⟩, ?_, rfl, hx2, ?_, rfl⟩
          · simp only [callStep, hle, Option.toList_some]
          · constructor
            · intro h; cases h
            · intro h; exact absurd ⟨rfl, hx2⟩ (hm.mp h).2
      | _ => exfalso; apply hch; simp [specLin]

end Pg.Conc
