import RactorModel.Lemmas.GenAuth
namespace C17
section XlateTie
open Generated.Auth GenAuth

theorem generated_server_init_eq_model {D : Type} [DecidableEq D] (H : String → Nat → D) (fresh : Nat) :
    absServer (ServerAuthenticationProcess.init H fresh) = (Auth.Server.init : Auth.Server D) := rfl

theorem generated_client_init_eq_model {D : Type} [DecidableEq D] (H : String → Nat → D) (fresh : Nat) :
    absClient (ClientAuthenticationProcess.init H fresh) = (Auth.Client.init : Auth.Client D) := rfl

theorem generated_server_start_challenge_eq_model {D : Type} [DecidableEq D] (H : String → Nat → D) (cookie : String) (fresh : Nat)
    (s : ServerAuthenticationProcess D) :
    absServer (ServerAuthenticationProcess.start_challenge H fresh s cookie)
      = Auth.Server.startChallenge H cookie fresh (absServer s) := by
  cases s <;> rfl

theorem generated_server_next_eq_model {D : Type} [DecidableEq D] (H : String → Nat → D) (cookie : String) (fresh : Nat)
    (s : ServerAuthenticationProcess D) (m : AuthenticationMessage D) :
    absServer (ServerAuthenticationProcess.next H fresh s m cookie)
      = Auth.Server.next H cookie fresh (absServer s) (absMsg m) := by
  rcases m with ⟨_ | m⟩
  · cases s <;> rfl
  · cases m <;> cases s <;>
      simp [ServerAuthenticationProcess.next, ServerAuthenticationProcess.start_challenge, absMsg, apply_ite absServer, Auth.Server.next, Auth.Server.startChallenge] <;>
      simp [absServer, absName] <;> (cases ‹ClientStatus D› with | mk b => cases b <;> simp)

theorem generated_client_next_eq_model {D : Type} [DecidableEq D] (H : String → Nat → D) (cookie : String) (fresh : Nat)
    (c : ClientAuthenticationProcess D) (m : AuthenticationMessage D) :
    absClient (ClientAuthenticationProcess.next H fresh c m cookie)
      = Auth.Client.next H cookie fresh (absClient c) (absMsg m) := by
  rcases m with ⟨_ | m⟩
  · cases c <;> rfl
  · cases m <;> cases c <;>
      simp [ClientAuthenticationProcess.next, absMsg, apply_ite absClient, Auth.Client.next] <;>
      simp [absClient]
end XlateTie
end C17
