fn main() {}
