import RactorModel.Lemmas.OutPortV1
import RactorModel.Lemmas.OutPortV2
import RactorModel.Lemmas.OutPortV2Acct
import RactorModel.Lemmas.OutPortBatch
import RactorModel.Lemmas.OutPortDrop
import RactorModel.Extracted

/-!
# C16 — output ports fan out in order without duplicates

Property theorems only. The executable model (tied to `ractor/src/port/output.rs`, both
implementations, by the correspondence check) is `Model/OutPort.lean`; the invariants are
in `Lemmas/OutPortV1.lean` and `Lemmas/OutPortV2.lean`.

Every theorem quantifies over ALL operation lists: any number of publishers' `send`s,
`subscribe`s, subscriber actors exiting, and steps of the port task (v2) / of any
forwarding task (v1), in any interleaving; message and output types and the converters
are arbitrary.
-/

namespace C16
open OutPort

variable {M O : Type}

/-! ## source-derived constants -/

theorem extracted_maxBatch : Extracted.outputMaxBatchSize = some OutPort.maxBatch := by decide
theorem extracted_capacity : Extracted.outputBroadcastCapacity = some OutPort.declaredCapacity := by decide
/-- tokio rounds `channel(10)` up to 16 slots -/
theorem ringCap_eq : OutPort.ringCap = 16 := by decide

/-! ## v2 (`output-port-v2`) -/

/-- (order, no duplicates, no gaps) What a subscription has received is the image under its
converter of a PREFIX of the publications enqueued after its subscription point: in
publication order, each at most once, none skipped in the middle. Holds for every
subscription ever made (current, removed, still waiting in the channel), at every moment. -/
theorem v2_prefix (ad : Bool) (ops : List (Op2 M O)) :
    ∀ s ∈ ((V2.init M O ad).run ops).all,
      s.got = s.offered.filterMap s.conv ∧ s.offered <+: ((V2.init M O ad).run ops).after s :=
  (inv_run ops (inv_init ad)).prefix

/-- (nothing missing) When the port task is parked with an empty channel, every subscription
still in its `subscribers` vector has received ALL publications made after its
subscription point (mapped by its converter). In particular the sequence does not depend
on the other subscribers, dead or alive. -/
theorem v2_exact (ad : Bool) (ops : List (Op2 M O)) (hidle : ((V2.init M O ad).run ops).idle = true) :
    ∀ s ∈ ((V2.init M O ad).run ops).live,
      s.got = (((V2.init M O ad).run ops).after s).filterMap s.conv :=
  (inv_run ops (inv_init ad)).exact hidle

/-- (up to the subscriber's death) With the public configuration (duplicates allowed) a
subscription leaves the `subscribers` vector only because its actor had exited, and exactly
at a publication `m` it was offered after that (since the round-4 fix: whether its converter
maps `m` to `Some` — the send fails — or to `None`): what it received is the image of
everything before that publication. -/
theorem v2_removed_only_dead (ops : List (Op2 M O)) :
    ∀ s ∈ ((V2.init M O true).run ops).gone,
      s.actor ∈ ((V2.init M O true).run ops).dead ∧
      ∃ m tl, ((V2.init M O true).run ops).after s = s.offered ++ m :: tl ∧
        s.got = s.offered.filterMap s.conv :=
  (inv_run ops (inv_init true)).removed (run_allowDup _ _)

/-- The channel history against which `after` is computed is exactly the sequence of
`send` / `subscribe` calls, in the order they were made. -/
theorem v2_hist (ad : Bool) (ops : List (Op2 M O)) :
    ((V2.init M O ad).run ops).hist.map Cmd.data? =
      ops.filterMap fun
        | .publish m => some (some m)
        | .subscribe _ _ => some none
        | _ => none :=
  hist_run ad ops

/-- (a stopped subscriber IS dropped) The port task offering ANY publication to a subscription
whose actor has stopped removes it in that very step — whatever its converter says about the
message — and moves on to the next subscriber with the whole segment. Together with
`v2_dead_dropped`: a subscription gets at most one converter call after its subscriber stopped.
(Before the round-4 `fix:` this failed for `None`-mapped publications: witness
`corpus/C16/e-lts-v2-stopped-none.ops`.) -/
theorem v2_stopped_dropped (st : V2 M O) (srv todo : List (Sub M O)) (s : Sub M O) (seg left : List M)
    (m : M) (rest : List (Cmd M O)) (hpc : st.pc = .disp srv (s :: todo) seg (m :: left) rest)
    (hd : s.actor ∈ st.dead) :
    st.task.2 = some ⟨s.key, m, false⟩ ∧ st.task.1.gone = st.gone ++ [s] ∧
      st.task.1.pc = .disp srv todo seg seg rest := by
  cases hc : s.conv m <;> simp [V2.task, hpc, hc, hd]

/-- (frame) A port-task step that calls subscription `c.key`'s converter leaves every other
subscription untouched — also when that step removes a dead subscriber. -/
theorem v2_frame (st : V2 M O) (c : Call M) (h : st.task.2 = some c) :
    ∀ x ∈ st.all, x.key ≠ c.key → x ∈ st.task.1.all :=
  task_frame st c h

/-- (no subscription lost, none invented) With the public configuration the subscription
records held anywhere in the machine — registered, removed, or still waiting in the
channel — are, up to order, exactly the `subscribe` calls made, each with its subscriber
and converter, exactly once; their keys are distinct and number the calls 0, 1, 2, …. -/
theorem v2_not_lost (ops : List (Op2 M O)) :
    let st := (V2.init M O true).run ops
    (idents st.all).Perm (idents (cmdSubs st.hist)) ∧ (st.all.map (·.key)).Nodup ∧
      (cmdSubs st.hist).map (·.key) = List.range st.nsub := by
  intro st
  have h : AInv st := ainv_init.run rfl ops
  exact ⟨h.perm, h.keys_nodup, h.keys⟩

/-- (dropped for good) A subscription that has been removed is never served again: no later
port-task step calls its converter, and its record stays in `gone` unchanged. -/
theorem v2_dead_dropped (ops : List (Op2 M O)) (c : Call M) :
    let st := (V2.init M O true).run ops
    (st.task.2 = some c → ∀ g ∈ st.gone, g.key ≠ c.key) ∧
      ∀ op, ∀ g ∈ st.gone, g ∈ (st.step op).gone := by
  intro st
  exact ⟨served_not_gone (ainv_init.run rfl ops) c, gone_mono_step st⟩

/-- (no blocking) Inside a batch every port-task step either finishes the batch or strictly
decreases the lexicographic measure (entries left in the batch, subscribers left in the
segment, messages left for the current subscriber) — whatever the state of the subscribers:
a dead subscriber costs one step and cannot stall the delivery to the others. -/
theorem v2_batch_progress (st : V2 M O) (srv todo : List (Sub M O)) (seg left : List M)
    (rest : List (Cmd M O)) (hpc : st.pc = .disp srv todo seg left rest) :
    (∃ subs, st.task.1.pc = .top subs) ∨
      Prod.Lex (· < ·) (Prod.Lex (· < ·) (· < ·)) st.task.1.pc.measure st.pc.measure :=
  batch_progress st srv todo seg left rest hpc

/-- (`dispatch_batch` in closed form) From the moment the port task has taken a batch out of
the channel until it is back at the top of its loop, the one-send-per-step machine performs
exactly `dispatchBatch` — the three nested loops of the source: segments between
`SetSubscriber` entries, subscriber-major delivery, removal on the first failed send, the
subscription applied at its position — as long as no subscriber dies meanwhile. (The E-PURE
differential compares the real `dispatch_batch` with this function.) -/
theorem v2_dispatch_batch_closed_form (st : V2 M O) (subs : List (Sub M O)) (batch : List (Cmd M O)) :
    ∃ n, V2.steps n { st with pc := (nextSeg st.allowDup subs st.gone batch).1,
                              gone := (nextSeg st.allowDup subs st.gone batch).2 } =
      ({ st with pc := .top (dispatchBatch st.allowDup st.dead subs st.gone [] batch).1,
                 gone := (dispatchBatch st.allowDup st.dead subs st.gone [] batch).2.1 },
       (dispatchBatch st.allowDup st.dead subs st.gone [] batch).2.2) :=
  task_runs_dispatchBatch st subs batch

/-- (`send` never blocks) Publishing is an unconditional enqueue: whatever the state of the
port task and of the subscribers, it only appends to the channel. -/
theorem v2_publish_nonblocking (st : V2 M O) (m : M) :
    (st.publish m).queue = st.queue ++ [.data m] ∧ (st.publish m).pc = st.pc ∧
      (st.publish m).gone = st.gone ∧ (st.publish m).dead = st.dead := ⟨rfl, rfl, rfl, rfl⟩

/-- The C16 oracle holds of the model: for the public configuration, every subscription's
sequence is an in-order duplicate-free prefix image, and complete whenever the subscriber
is alive and the port task is parked. -/
theorem v2_ok [BEq O] [LawfulBEq O] (ops : List (Op2 M O)) :
    let st := (V2.init M O true).run ops
    ∀ s ∈ st.all, okV2 s.conv (st.after s) s.got (!st.dead.contains s.actor) st.idle = true := by
  intro st s hs
  have hinv : Inv st := inv_run ops (inv_init true)
  obtain ⟨hg, hpre⟩ := hinv.prefix s hs
  have hp : s.got <+: (st.after s).filterMap s.conv := by
    rw [hg]; exact List.IsPrefix.filterMap _ hpre
  simp only [okV2, judge, Bool.and_eq_true, Bool.or_eq_true, Bool.not_eq_true',
    List.isSublist_iff_sublist, List.isPrefixOf_iff_prefix, beq_iff_eq]
  refine ⟨⟨hp.sublist, hp⟩, ?_⟩
  by_cases hai : (!st.dead.contains s.actor && st.idle) = true
  · right
    simp only [Bool.and_eq_true, Bool.not_eq_true'] at hai
    rcases all_idle hai.2 hs with hl | hgone
    · exact hinv.exact hai.2 s hl
    · have := (hinv.removed (run_allowDup _ _) s hgone).1
      have h2 := hai.1
      simp at h2
      exact absurd this h2
  · left; simpa using hai

/-! ## v1 (default: broadcast ring) -/

/-- (order, no duplicates) What a subscription has received is a subsequence of the
converter image of the publications made after its subscription point. -/
theorem v1_subseq (cap : Nat) (ops : List (Op1 M O)) :
    ∀ f ∈ ((V1.init M O cap).run ops).fwds,
      f.got.Sublist ((((V1.init M O cap).run ops).after f).filterMap f.conv) :=
  fun f hf => (inv1_run ops (inv1_init cap) f hf).subseq

/-- (exact accounting) The cursor only moves forward, one mask entry per ring position
passed; the messages handed to the converter are exactly the publications after the
subscription point whose entry is a read, in order; everything read was cast to the
subscriber except, when the task has ended, the single last message, which was read after
the subscriber had exited (rejected or, since the round-4 fix, skipped — either ends the task). -/
theorem v1_account (cap : Nat) (ops : List (Op1 M O)) :
    ∀ f ∈ ((V1.init M O cap).run ops).fwds,
      f.start + f.mask.length = f.cursor ∧
      f.readMsgs = pick f.mask (((V1.init M O cap).run ops).after f) ∧
      (f.ended = false → f.got = f.readMsgs.filterMap f.conv) ∧
      (f.ended = true → ∃ init m, f.readMsgs = init ++ [m] ∧
          f.actor ∈ ((V1.init M O cap).run ops).dead ∧ f.got = init.filterMap f.conv) := by
  intro f hf
  have h := inv1_run ops (inv1_init cap) f hf
  refine ⟨h.hLen, h.readAfter, ?_, ?_⟩
  · intro he; have := h.hGot; simpa [GotOk, he] using this
  · intro he; have := h.hGot; simpa [GotOk, he] using this

/-- (missing = overwritten) A ring position is skipped only by a `Lagged` observed when the
tail `t` was already more than the capacity ahead of it, i.e. when that entry had been
overwritten. -/
theorem v1_missing_only_overwritten (cap : Nat) (ops : List (Op1 M O)) :
    ∀ f ∈ ((V1.init M O cap).run ops).fwds, ∀ j t, f.mask[j]? = some (some t) →
      f.start + j + cap < t ∧ t ≤ ((V1.init M O cap).run ops).log.length :=
  fun f hf => by
    have h := inv1_run ops (inv1_init cap) f hf
    have hs := h.hSkip
    rw [run1_cap] at hs
    exact hs

/-- (no lag, no loss) A live subscription that never lagged has received everything up to
its cursor. -/
theorem v1_no_lag_no_loss (cap : Nat) (ops : List (Op1 M O)) :
    ∀ f ∈ ((V1.init M O cap).run ops).fwds, (∀ x ∈ f.mask, x = none) → f.ended = false →
      f.got = ((((V1.init M O cap).run ops).after f).take f.mask.length).filterMap f.conv :=
  fun f hf hn hl => (inv1_run ops (inv1_init cap) f hf).noLag hn hl

/-- (later ones still arrive) Whatever was lost to lag, a live subscription whose task has
caught up has received the last `cap` publications, as the end of its sequence. -/
theorem v1_recent (cap : Nat) (ops : List (Op1 M O)) :
    ∀ f ∈ ((V1.init M O cap).run ops).fwds, f.ended = false →
      f.cursor = ((V1.init M O cap).run ops).log.length →
      let after := ((V1.init M O cap).run ops).after f
      (after.drop (after.length - cap)).filterMap f.conv <:+ f.got := by
  intro f hf hl hp
  have hcap : ((V1.init M O cap).run ops).cap = cap := run1_cap _ _
  have := (inv1_run ops (inv1_init cap) f hf).recent hl hp
  rw [hcap] at this
  exact this

/-- (frame) A step of forwarding task `i` — including the one in which it finds its
subscriber dead and ends — touches nothing but subscription `i`; a subscriber exiting
touches no subscription at all. -/
theorem v1_frame (st : V1 M O) (i : Nat) :
    (st.task i).1.log = st.log ∧ (st.task i).1.pubs = st.pubs ∧
      ∀ j, j ≠ i → (st.task i).1.fwds[j]? = st.fwds[j]? :=
  task1_frame st i

/-- (dropped for good) A forwarding task that found its subscriber dead has returned: it
never calls the converter again and its subscription record never changes. -/
theorem v1_dead_dropped (cap : Nat) (log : List M) (dead : List Nat) (f : Fwd M O) (h : f.ended = true) :
    f.step cap log dead = (f, none) := by
  simp [Fwd.step, h]

/-- (a stopped subscriber IS dropped, v1) The first publication a live forwarding task reads
after its subscriber has stopped ends the task (and with it the broadcast receiver), whatever
the converter says about it. (Before the round-4 `fix:` a `None`-mapped publication left the
task and its receiver alive for ever: witness `corpus/C16/e-lts-v1-stopped-none.ops`.) -/
theorem v1_stopped_dropped (cap : Nat) (log : List M) (dead : List Nat) (f : Fwd M O) (m : M)
    (he : f.ended = false) (hnolag : ¬ f.cursor + cap < log.length) (hm : log[f.cursor]? = some m)
    (hd : f.actor ∈ dead) :
    (f.step cap log dead).1.ended = true ∧ (f.step cap log dead).2 = some ⟨f.key, m, false⟩ ∧
      (f.step cap log dead).1.got = f.got := by
  cases hc : f.conv m <;> simp [Fwd.step, he, hnolag, hm, hc, hd]

/-- (`send` never blocks) Publishing never depends on any subscriber or forwarding task
beyond the receiver count: it appends to the ring (overwriting the oldest slot) or, with no
receiver, does nothing. -/
theorem v1_publish_nonblocking (st : V1 M O) (m : M) :
    (st.publish m).fwds = st.fwds ∧ (st.publish m).pubs = st.pubs ++ [m] ∧
      ((st.publish m).log = st.log ++ [m] ∨ (st.publish m).log = st.log) := by
  unfold V1.publish; split <;> simp

/-- The C16 oracle holds of the model. -/
theorem v1_ok [BEq O] [LawfulBEq O] (cap : Nat) (ops : List (Op1 M O)) :
    let st := (V1.init M O cap).run ops
    ∀ f ∈ st.fwds, okV1 cap f.conv (st.after f) f.got (!f.ended) (f.cursor == st.log.length) = true := by
  intro st f hf
  have h := inv1_run ops (inv1_init cap) f hf
  simp only [okV1, judge, recentOk, Bool.and_eq_true, Bool.or_eq_true, Bool.not_eq_true',
    List.isSublist_iff_sublist, List.isSuffixOf_iff_suffix]
  refine ⟨h.subseq, ?_⟩
  by_cases hc : (!f.ended && f.cursor == st.log.length) = true
  · right
    simp only [Bool.and_eq_true, Bool.not_eq_true', beq_iff_eq] at hc
    have hcap : st.cap = cap := run1_cap _ _
    have := h.recent hc.1 hc.2
    rw [hcap] at this
    exact this
  · left; simpa using hc

/-! ## what "each subscriber … never twice" means: per SUBSCRIPTION, not per actor -/

/-- (per actor = per subscription, summed) With the public configuration
(`allow_duplicate_subscription = true`; the default port has no de-duplication at all) the port
never merges or replaces subscriptions of the same actor: when the port task is parked, EVERY
subscription ever made by an actor that has not exited is registered and complete. So an actor
that subscribed k times has been sent the converter image of each later publication k times
(once per subscription record — `v2_not_lost`: the records are exactly the `subscribe` calls).
"Never twice" in C16 is therefore a statement per subscription; per actor it is FALSE by design
for double subscriptions (see `demoDup`). -/
theorem v2_per_actor (ops : List (Op2 M O)) (a : Nat)
    (hidle : ((V2.init M O true).run ops).idle = true)
    (halive : a ∉ ((V2.init M O true).run ops).dead) :
    let st := (V2.init M O true).run ops
    ∀ s ∈ st.all, s.actor = a → s ∈ st.live ∧ s.got = (st.after s).filterMap s.conv := by
  intro st s hs ha
  have hinv : Inv st := inv_run ops (inv_init true)
  rcases all_idle hidle hs with hl | hg
  · exact ⟨hl, hinv.exact hidle s hl⟩
  · exact absurd (ha ▸ (hinv.removed (run_allowDup _ _) s hg).1) halive

/-- the same actor subscribed twice: both records are kept and each receives everything
published after it — the actor gets 2 and 3 twice -/
def demoDup : V2 Nat Nat :=
  (V2.init Nat Nat true).run
    ([.subscribe 7 some, .publish 1, .subscribe 7 some, .publish 2, .publish 3] ++ List.replicate 20 .task)

example : demoDup.idle = true := by decide
example : demoDup.live.map (fun s => (s.key, s.actor, s.got)) = [(0, 7, [1, 2, 3]), (1, 7, [2, 3])] := by decide

/-! ## eventually complete (no further publications) -/

/-- (v2: eventually complete) After ANY history, if nothing more is enqueued, finitely many
steps of the port task bring it to its parking point with an empty channel, and then every
registered subscription has received the image of ALL publications after its subscription
point. No step of this waits for anything a subscriber does. -/
theorem v2_eventually_complete (ad : Bool) (ops : List (Op2 M O)) :
    ∃ n, let st := (V2.init M O ad).run (ops ++ List.replicate n .task)
      st.idle = true ∧ ∀ s ∈ st.live, s.got = (st.after s).filterMap s.conv := by
  obtain ⟨n, hn⟩ := V2.reaches_idle ((V2.init M O ad).run ops)
  refine ⟨n, ?_⟩
  have he : (V2.init M O ad).run (ops ++ List.replicate n .task) =
      V2.tasks n ((V2.init M O ad).run ops) := by
    rw [V2.tasks_eq_run]; simp [V2.run, List.foldl_append]
  simp only [he]
  refine ⟨hn, ?_⟩
  have hinv : Inv (V2.tasks n ((V2.init M O ad).run ops)) := by
    rw [← he]; exact inv_run _ (inv_init ad)
  exact hinv.exact hn

/-- (v1: eventually caught up) After any history, without further publications, finitely many
iterations of forwarding task `i` make it return or catch up with the ring; a task that caught
up has the images of the last `cap` publications at the end of its sequence. -/
theorem v1_eventually_caught_up (cap : Nat) (ops : List (Op1 M O)) (i : Nat) :
    ∃ n, let st := (V1.init M O cap).run (ops ++ List.replicate n (.task i))
      ∀ f, st.fwds[i]? = some f → f.ended = true ∨
        (f.cursor = st.log.length ∧
          ((st.after f).drop ((st.after f).length - cap)).filterMap f.conv <:+ f.got) := by
  obtain ⟨n, hn⟩ := V1.reaches_settled ((V1.init M O cap).run ops) (inv1_run ops (inv1_init cap)) i
  refine ⟨n, ?_⟩
  have he : (V1.init M O cap).run (ops ++ List.replicate n (.task i)) =
      V1.tasks n ((V1.init M O cap).run ops) i := by
    rw [V1.tasks_eq_run]; simp [V1.run, List.foldl_append]
  intro st f hf
  have hst : st = V1.tasks n ((V1.init M O cap).run ops) i := he
  have hinv : Inv1 st := inv1_run _ (inv1_init cap)
  have hcap : st.cap = cap := run1_cap _ _
  rw [← hst] at hn
  simp only [V1.settled, hf, Bool.or_eq_true, decide_eq_true_eq] at hn
  cases hend : f.ended with
  | true => left; rfl
  | false =>
    right
    have hok := hinv f (List.mem_of_getElem? hf)
    have hcur : f.cursor = st.log.length := by
      rcases hn with h | h
      · rw [hend] at h; cases h
      · have := hok.hCur; omega
    refine ⟨hcur, ?_⟩
    have := hok.recent hend hcur
    rw [hcap] at this
    exact this

/-! ## dropping the port (`V2c` / `V1c`: the handle — the last sender — is dropped while the
port task / the forwarding tasks still have queued publications) -/

/-- (simulation) The inner machine of any run with a drop is a run of the plain port machine:
every theorem above (order, no duplicates, no gaps, removal only of dead subscribers, …)
holds verbatim of ports that are dropped at an arbitrary moment. -/
theorem v2_drop_simulation (ad : Bool) (ops : List (Op2c M O)) :
    ∃ ops', ((V2c.init M O ad).run ops).base = (V2.init M O ad).run ops' :=
  V2c.run_base _ ops

/-- (order / no duplicates / no gaps, with drops) -/
theorem v2_drop_prefix (ad : Bool) (ops : List (Op2c M O)) :
    let st := ((V2c.init M O ad).run ops).base
    ∀ s ∈ st.all, s.got = s.offered.filterMap s.conv ∧ s.offered <+: st.after s :=
  (V2c.inv_run ad ops).prefix

/-- (everything published before the drop is delivered) The port task finishes only after the
drop, with the channel empty and the last batch dispatched; at that moment every subscription
still registered has received the image of ALL publications made after its subscription
point, in order — and, for the public configuration, so has every subscription ever made
whose subscriber has not exited. -/
theorem v2_drop_delivers_all (ops : List (Op2c M O))
    (hfin : ((V2c.init M O true).run ops).finished = true) :
    let st := (V2c.init M O true).run ops
    st.closed = true ∧ st.base.queue = [] ∧
      (∀ s ∈ st.base.live, s.got = (st.base.after s).filterMap s.conv) ∧
      ∀ s ∈ st.base.all, s.actor ∉ st.base.dead → s.got = (st.base.after s).filterMap s.conv := by
  intro st
  have hok := V2c.finOk_run true ops hfin
  have hinv : Inv st.base := V2c.inv_run true ops
  have hq : st.base.queue = [] := by
    have := hok.2
    simp only [V2.idle, Bool.and_eq_true, List.isEmpty_iff] at this
    exact this.1
  refine ⟨hok.1, hq, hinv.exact hok.2, ?_⟩
  intro s hs hal
  rcases all_idle hok.2 hs with hl | hg
  · exact hinv.exact hok.2 s hl
  · exact absurd (hinv.removed (V2c.run_allowDup true ops) s hg).1 hal

/-- (never delivers afterwards) Once the port task has finished, no operation whatsoever
changes any subscription record or makes a converter call: nothing is delivered after the
task ended, in particular not to subscribers that stopped later. -/
theorem v2_drop_final (ad : Bool) (ops : List (Op2c M O)) (op : Op2c M O)
    (hfin : ((V2c.init M O ad).run ops).finished = true) :
    let st := (V2c.init M O ad).run ops
    (st.step op).finished = true ∧ (st.step op).base.all = st.base.all ∧
      (st.step op).base.hist = st.base.hist ∧ (st.step op).task.2 = none :=
  V2c.finished_frozen _ (V2c.finOk_run ad ops) hfin op

/-- (progress after the drop) Closed and not finished: the next task step finishes the task
or strictly decreases the lexicographic measure (entries in the channel, program-counter
rank, work left in the batch); nothing can be enqueued any more. -/
theorem v2_drop_progress (st : V2c M O) (hc : st.closed = true) (hf : st.finished = false) :
    st.task.1.finished = true ∨
      (st.task.1.finished = false ∧ st.task.1.closed = true ∧
        lexClose st.task.1.base.closeMeasure st.base.closeMeasure) :=
  V2c.task_progress st hc hf

/-- (the port task terminates) After the drop the port task ends within finitely many of its
own steps, from ANY state (whatever the subscribers do meanwhile costs no step). -/
theorem v2_drop_terminates (st : V2c M O) (hc : st.closed = true) :
    ∃ n, (V2c.tasks n st).finished = true :=
  V2c.terminates st hc

/-- (which publications count) The channel history — against which `after` is computed in
`v2_drop_delivers_all` — is exactly the sequence of `send` / `subscribe` calls made BEFORE
the (first) drop, in call order; nothing attempted after the drop is recorded anywhere. -/
theorem v2_drop_hist (ad : Bool) (ops : List (Op2c M O)) :
    ((V2c.init M O ad).run ops).base.hist.map Cmd.data? =
      (ops.takeWhile Op2c.live).filterMap shape2c := by
  have := V2c.hist_run' (V2c.init M O ad) rfl ops
  rw [this]; rfl

/-- (which publications count, v1) `pubs` — against which `after` is computed in
`v1_drop_delivers` — is exactly the `send` calls made before the drop. -/
theorem v1_drop_pubs (cap : Nat) (ops : List (Op1c M O)) :
    ((V1c.init M O cap).run ops).base.pubs = (ops.takeWhile Op1c.live).filterMap pub1c := by
  have := V1c.pubs_run' (V1c.init M O cap) rfl ops
  rw [this]; rfl

theorem v1_drop_simulation (cap : Nat) (ops : List (Op1c M O)) :
    ∃ ops', ((V1c.init M O cap).run ops).base = (V1.init M O cap).run ops' :=
  V1c.run_base _ ops

/-- (what is delivered when the default port is dropped) A forwarding task returns on `Closed`
only after the drop, with its subscriber never found dead, and having consumed the whole
ring: what it delivered is exactly the converter image of the publications after its
subscription point that it did not skip by lag (`pick mask`), it ends with the image of the
last `cap` publications, and if it never lagged it is the image of ALL of them, in order. -/
theorem v1_drop_delivers (cap : Nat) (ops : List (Op1c M O)) (i : Nat)
    (hi : i ∈ ((V1c.init M O cap).run ops).finished) :
    let st := (V1c.init M O cap).run ops
    st.closed = true ∧ ∃ f, st.base.fwds[i]? = some f ∧ f.ended = false ∧
      f.cursor = st.base.log.length ∧
      f.got = (pick f.mask (st.base.after f)).filterMap f.conv ∧
      ((st.base.after f).drop ((st.base.after f).length - cap)).filterMap f.conv <:+ f.got ∧
      ((∀ x ∈ f.mask, x = none) → f.got = (st.base.after f).filterMap f.conv) := by
  intro st
  obtain ⟨hc, f, hf, he, hcur⟩ := V1c.finOk_run cap ops i hi
  have hok := V1c.inv_run cap ops f (List.mem_of_getElem? hf)
  have hcap : st.base.cap = cap := V1c.run_cap cap ops
  refine ⟨hc, f, hf, he, hcur, ?_, ?_, ?_⟩
  · have := hok.hGot
    simp only [GotOk, he, Bool.false_eq_true, ↓reduceIte] at this
    rw [this, hok.readAfter]; rfl
  · have := hok.recent he hcur
    rw [hcap] at this
    exact this
  · intro hn; exact hok.noLagAll hn he hcur

/-- (never delivers afterwards) A forwarding task that returned on `Closed` is inert: none of
its iterations does anything and no operation changes its subscription record. -/
theorem v1_drop_final (cap : Nat) (ops : List (Op1c M O)) (i : Nat) (op : Op1c M O)
    (hi : i ∈ ((V1c.init M O cap).run ops).finished) :
    let st := (V1c.init M O cap).run ops
    i ∈ (st.step op).finished ∧ (st.step op).base.fwds[i]? = st.base.fwds[i]? ∧
      st.task i = (st, none) :=
  V1c.finished_frozen _ (V1c.finOk_run cap ops) i hi op

/-- (progress after the drop) An iteration of a live forwarding task of a dropped port returns
(on `Closed`, or on a dead subscriber) or moves its cursor strictly forward, and the ring no
longer grows. -/
theorem v1_drop_progress (st : V1c M O) (i : Nat) (f : Fwd M O) (hc : st.closed = true)
    (hfi : st.base.fwds[i]? = some f) (hnf : st.finished.contains i = false) (he : f.ended = false) :
    i ∈ (st.task i).1.finished ∨
      ((st.task i).1.finished = st.finished ∧ (st.task i).1.closed = true ∧
        (st.task i).1.base.log = st.base.log ∧
        ∃ f', (st.task i).1.base.fwds[i]? = some f' ∧ (f'.ended = true ∨ f.cursor < f'.cursor)) :=
  V1c.task_progress st i f hc hfi hnf he

/-- (every forwarding task terminates) After the drop each forwarding task returns within
finitely many of its own iterations, at every reachable state. -/
theorem v1_drop_terminates (cap : Nat) (ops : List (Op1c M O)) (i : Nat)
    (hc : ((V1c.init M O cap).run ops).closed = true)
    (hi : i < ((V1c.init M O cap).run ops).base.fwds.length) :
    ∃ n, (V1c.tasks n ((V1c.init M O cap).run ops) i).taskDone i = true :=
  V1c.terminates _ (V1c.inv_run cap ops) hc i hi

/-! ## the default port's two-step `send` (other threads between `receiver_count()` and `tx.send`) -/

/-- (linearizable) Whatever happens between a publisher's `receiver_count() > 0` check and its
`tx.send` — subscriptions, forwarding tasks ending, other publishers (the port itself cannot
be dropped while a publisher borrows it) — the port reached is one reached by an ATOMIC run in
which each publication takes effect at its check (if it saw no receiver: dropped there) or at
its store (otherwise). Hence every v1 theorem above holds with publishers on other threads. -/
theorem v1_send_two_step_linearizable (cap : Nat) (ops : List (Op1t M O)) :
    ∃ ops', ((V1t.init M O cap).run ops).base = (V1c.init M O cap).run ops' :=
  V1t.run_base _ ops

/-- what the check does: nothing on a closed port; parks the publisher iff it saw a receiver;
otherwise the publication is recorded as dropped at once and the ring is untouched -/
theorem v1_send_check (st : V1t M O) (m : M) :
    (st.base.closed = true ∧ st.step (.pubCheck m) = st) ∨
    (st.base.closed = false ∧ st.base.base.hasReceiver = true ∧
        (st.step (.pubCheck m)).base = st.base ∧ (st.step (.pubCheck m)).pending = st.pending ++ [m]) ∨
    (st.base.closed = false ∧ st.base.base.hasReceiver = false ∧
        (st.step (.pubCheck m)).base = st.base.step (.op (.publish m)) ∧
        (st.step (.pubCheck m)).pending = st.pending ∧
        (st.step (.pubCheck m)).base.base.log = st.base.base.log) :=
  V1t.pubCheck_cases st m

/-- a publisher sees a receiver, the only forwarding task then finds its subscriber dead and
ends, then the publisher stores: nothing is stored (`tx.send` fails), the publication counts as
made at the store point -/
def demo1t : V1t Nat Nat :=
  (V1t.init Nat Nat 4).run
    [.op (.op (.subscribe 7 some)), .op (.op (.publish 1)), .op (.op (.exit 7)), .pubCheck 2,
     .op (.op (.task 0)), .pubStore 0]

example : (demo1t.base.base.log, demo1t.base.base.pubs, demo1t.pending) = ([1], [1, 2], []) := by decide

/-! ## non-vacuity: concrete runs -/

/-- v2: two subscribers, the second subscribing after message 1; a converter dropping odd
numbers; subscriber 7 exits before the port task runs. -/
def demo2 : V2 Nat Nat :=
  (V2.init Nat Nat true).run
    ([.subscribe 7 some, .publish 1, .subscribe 8 (fun m => if m % 2 = 0 then some (10 * m) else none),
      .publish 2, .publish 3, .publish 4, .exit 7] ++ List.replicate 40 .task)

example : demo2.idle = true := by decide
example : demo2.live.map (fun s => (s.key, s.got)) = [(1, [20, 40])] := by decide
example : demo2.gone.map (fun s => (s.key, s.got)) = [(0, [])] := by decide

/-- v1 with a ring of 4: subscription 0 is held back while 7 messages are published, then
runs: it lags, loses 1..3, and receives 4..7. -/
def demo1 : V1 Nat Nat :=
  (V1.init Nat Nat 4).run
    ([.subscribe 7 some] ++ (List.range 7).map (fun m => .publish (m + 1)) ++ List.replicate 6 (.task 0))

example : demo1.fwds.map (fun f => (f.got, f.mask, f.cursor)) =
    [([4, 5, 6, 7], [some 7, some 7, some 7, none, none, none, none], 7)] := by decide

/-- v2 with a drop: three publications are still in the channel when the port is dropped;
the task delivers them all, then finishes; a later publish is impossible / changes nothing. -/
def demo2c : V2c Nat Nat :=
  (V2c.init Nat Nat true).run
    ([.op (.subscribe 7 some), .op (.publish 1), .op (.publish 2), .op (.publish 3), .drop, .op (.publish 9)]
      ++ List.replicate 12 (.op .task))

example : demo2c.finished = true := by decide
example : demo2c.base.live.map (fun s => (s.key, s.got)) = [(0, [1, 2, 3])] := by decide

/-- v1 with a drop: ring of 4, five publications, then the port is dropped; the detached task
lags once (loses 1), delivers 2..5 and returns on `Closed`. -/
def demo1c : V1c Nat Nat :=
  (V1c.init Nat Nat 4).run
    ([.op (.subscribe 7 some)] ++ (List.range 5).map (fun m => .op (.publish (m + 1))) ++ [.drop] ++
      List.replicate 7 (.op (.task 0)))

example : demo1c.finished = [0] := by decide
example : demo1c.base.fwds.map (fun f => (f.got, f.ended)) = [([2, 3, 4, 5], false)] := by decide

#print axioms C16.extracted_maxBatch
#print axioms C16.extracted_capacity
#print axioms C16.ringCap_eq
#print axioms C16.v2_prefix
#print axioms C16.v2_exact
#print axioms C16.v2_removed_only_dead
#print axioms C16.v2_hist
#print axioms C16.v2_frame
#print axioms C16.v2_not_lost
#print axioms C16.v2_dead_dropped
#print axioms C16.v2_batch_progress
#print axioms C16.v2_dispatch_batch_closed_form
#print axioms C16.v1_dead_dropped
#print axioms C16.v2_publish_nonblocking
#print axioms C16.v2_ok
#print axioms C16.v1_subseq
#print axioms C16.v1_account
#print axioms C16.v1_missing_only_overwritten
#print axioms C16.v1_no_lag_no_loss
#print axioms C16.v1_recent
#print axioms C16.v1_frame
#print axioms C16.v1_publish_nonblocking
#print axioms C16.v1_ok
#print axioms C16.v2_stopped_dropped
#print axioms C16.v2_per_actor
#print axioms C16.v1_send_two_step_linearizable
#print axioms C16.v1_send_check
#print axioms C16.v2_eventually_complete
#print axioms C16.v1_eventually_caught_up
#print axioms C16.v1_stopped_dropped
#print axioms C16.v2_drop_simulation
#print axioms C16.v2_drop_prefix
#print axioms C16.v2_drop_delivers_all
#print axioms C16.v2_drop_final
#print axioms C16.v2_drop_progress
#print axioms C16.v2_drop_terminates
#print axioms C16.v1_drop_simulation
#print axioms C16.v2_drop_hist
#print axioms C16.v1_drop_pubs
#print axioms C16.v1_drop_delivers
#print axioms C16.v1_drop_final
#print axioms C16.v1_drop_progress
#print axioms C16.v1_drop_terminates

end C16
