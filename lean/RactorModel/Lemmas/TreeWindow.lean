import RactorModel.Lemmas.TreeConc

/-! What a lock-free reader (`get_children`, `try_get_supervisor`: per-field mutex only) can see inside
the tree-lock regions `link` (hand-over) and `take_children`. -/

namespace Tree

/-- an accepted hand-over `link c p` (previous supervisor `q ≠ p`) is `linkA` followed by `linkB`; between
the two no field guard is held, only `TREE_MUTATION_LOCK` -/
theorem link_handover_split {s : State} {c p q : Nat} {ks : List Nat}
    (hg : gate s c p) (hk : s.kids p = some ks) (hs : s.sup c = some q) (hqp : q ≠ p) :
    link s c p = (linkB (linkA s c p) c q, true) := by
  rcases link_cases s c p with ⟨_, h | h⟩ | ⟨ks', _, hk', hcase⟩
  · exact absurd hg h
  · rw [hk] at h; cases h
  · rw [hk] at hk'; cases hk'
    rcases hcase with ⟨hs', _⟩ | ⟨hs', _⟩ | ⟨q', hs', _, e⟩
    · rw [hs] at hs'; cases hs'; exact absurd rfl hqp
    · rw [hs] at hs'; cases hs'
    · rw [hs] at hs'; cases hs'
      rw [e]
      simp only [linkA, linkB, hk]
      split <;> rename_i h1 <;> simp only [h1]

/-- the window state of a hand-over: consistent except that `c` is still listed by its previous
supervisor `q` — it is in two child sets, its supervisor field already names the new one -/
theorem reader_link_window {s : State} (h : Inv s) {c p q : Nat} {ks : List Nat}
    (hk : s.kids p = some ks) (hs : s.sup c = some q) (hqp : q ≠ p) :
    let m := linkA s c p
    (∀ x y, m.sup x = some y → child m y x) ∧
    (∀ x y, child m y x → m.sup x = some y ∨ (x = c ∧ y = q)) ∧
    child m q c ∧ child m p c ∧ m.sup c = some p := by
  have hm : linkA s c p = { s with kids := upd s.kids p (some (ins c ks)), sup := upd s.sup c (some p) } := by
    simp only [linkA, hk]
  simp only [hm]
  have hqc : child s q c := (h.links c q).mp hs
  refine ⟨?_, ?_, ?_, ?_, ?_⟩
  · intro x y hxy
    simp only [upd_apply] at hxy
    split at hxy
    · next e => cases hxy; subst e; exact ⟨ins x ks, by simp [upd_apply], mem_ins.mpr (.inl rfl)⟩
    · obtain ⟨ks', hk', hm'⟩ := (h.links x y).mp hxy
      by_cases e : y = p
      · subst e; rw [hk] at hk'; cases hk'
        exact ⟨ins c ks, by simp [upd_apply], mem_ins.mpr (.inr hm')⟩
      · exact ⟨ks', by simp only [upd_ne _ _ e]; exact hk', hm'⟩
  · rintro x y ⟨ks', hk', hm'⟩
    simp only [upd_apply] at hk' ⊢
    split at hk'
    · next e =>
      subst e; cases hk'
      rcases mem_ins.mp hm' with e | e
      · left; simp [e]
      · have := (h.links x y).mpr ⟨ks, hk, e⟩
        left; split
        · next e2 => subst e2; exact absurd (Option.some.inj (hs.symm.trans this)) hqp
        · exact this
    · have := (h.links x y).mpr ⟨ks', hk', hm'⟩
      split
      · next e2 => subst e2; rw [hs] at this; cases this; exact .inr ⟨rfl, rfl⟩
      · exact .inl this
  · obtain ⟨qs, hkq, hmq⟩ := hqc
    exact ⟨qs, by simp only [upd_ne _ _ hqp]; exact hkq, hmq⟩
  · exact ⟨ins c ks, by simp [upd_apply], mem_ins.mpr (.inl rfl)⟩
  · simp [upd_apply]

/-- `take_children p` with every supervisor field cleared is the whole region -/
theorem takeMid_all {s : State} {p : Nat} {ks : List Nat} (hk : s.kids p = some ks) :
    takeMid s p ks = (takeChildren s p).1 := by
  rw [takeChildren_some hk]; rfl

/-- the window states of `take_children p`: consistent except for children of `p` whose supervisor
field is not cleared yet; they still name `p`, whose set is already taken.  (`p.children` stays locked
for the whole region — the guard lives to the end of the function — so a reader that asks for
`get_children(p)` waits until the window is over; what it can see is `try_get_supervisor(x) = p` for a
child that `p` no longer lists once it gets the answer.) -/
theorem reader_take_window {s : State} (h : Inv s) {p : Nat} {ks : List Nat} (hk : s.kids p = some ks)
    (cleared : List Nat) :
    let m := takeMid s p cleared
    (∀ x y, child m y x → m.sup x = some y) ∧
    (∀ x y, m.sup x = some y → child m y x ∨ (y = p ∧ x ∈ ks ∧ x ∉ cleared)) ∧
    m.kids p = none := by
  simp only [takeMid]
  refine ⟨?_, ?_, by simp [upd_apply]⟩
  · rintro x y ⟨ks', hk', hm'⟩
    simp only [upd_apply] at hk'
    split at hk'
    · cases hk'
    · next e =>
      have := (h.links x y).mpr ⟨ks', hk', hm'⟩
      rw [this]
      split
      · next e2 => exact absurd (Option.some.inj e2.2) e
      · rfl
  · intro x y hxy
    split at hxy
    · cases hxy
    · next hne =>
      obtain ⟨ks', hk', hm'⟩ := (h.links x y).mp hxy
      by_cases e : y = p
      · subst e; rw [hk] at hk'; cases hk'
        right; refine ⟨rfl, hm', fun hcl => hne ⟨hcl, hxy⟩⟩
      · left; exact ⟨ks', by simp only [upd_ne _ _ e]; exact hk', hm'⟩

end Tree
