import RactorModel.Lemmas.TreeMacro

/-! The supervisor-side wrappers `stop_children` / `drain_children` (`kstep`): what happens to the
children, their backlog and the reasons their supervisor is told. -/

namespace Tree

/-! ### bookkeeping that exits do not touch -/

theorem settle_frame (fixed : Bool) : ∀ (f : Nat) (m : MState),
    (settle fixed f m).evs = m.evs ∧ (settle fixed f m).waiters = m.waiters ∧
    ∀ z, ((settle fixed f m).act z).handled = (m.act z).handled := by
  intro f
  induction f with
  | zero => intro m; exact ⟨rfl, rfl, fun _ => rfl⟩
  | succ f ih =>
    intro m
    simp only [settle]
    split
    · exact ⟨rfl, rfl, fun _ => rfl⟩
    · next x _ =>
      obtain ⟨a, b, c⟩ := ih { m with t := exit fixed m.t x, act := upd m.act x { m.act x with gone := true, busy := false } }
      refine ⟨a, b, fun z => ?_⟩
      rw [c z]; simp only [upd_apply]; split
      · next e => subst e; rfl
      · rfl

theorem exitCore_frame (fixed : Bool) (m : MState) (a : Nat) :
    (exitCore fixed m a).evs = m.evs ∧ (exitCore fixed m a).waiters = m.waiters ∧
    ∀ z, ((exitCore fixed m a).act z).handled = (m.act z).handled := by
  obtain ⟨h1, h2, h3⟩ := settle_frame fixed m.t.n
    { m with t := exit fixed m.t a, act := upd m.act a { m.act a with gone := true, busy := false } }
  refine ⟨h1, h2, fun z => ?_⟩
  have := h3 z
  simp only [upd_apply] at this
  show ((settle fixed m.t.n
    { m with t := exit fixed m.t a, act := upd m.act a { m.act a with gone := true, busy := false } }).act z).handled = _
  rw [this]; split
  · next e => subst e; rfl
  · rfl

/-- events of an exit: at most the one about the exiting actor, with the given reason -/
theorem exitM_evs (fixed : Bool) (m : MState) (a : Nat) (w : Why) :
    ∃ l, (exitM fixed m a w).evs = m.evs ++ l ∧ ∀ e ∈ l, e.1 = a ∧ e.2.2 = w := by
  refine ⟨_, rfl, ?_⟩
  intro e he
  split at he
  · simp only [List.mem_singleton] at he; subst he; exact ⟨rfl, rfl⟩
  · cases he

theorem gexit_evs (fixed : Bool) (m : MState) (a : Nat) (w : Why) :
    ∃ l, (gexit fixed m a w).evs = m.evs ++ l ∧ ∀ e ∈ l, e.1 = a ∧ e.2.2 = w := by
  unfold gexit; split
  · exact ⟨[], by simp, by intro e he; cases he⟩
  · exact exitM_evs fixed m a w

theorem gexit_handled (fixed : Bool) (m : MState) (a : Nat) (w : Why) (z : Nat) :
    ((gexit fixed m a w).act z).handled = (m.act z).handled := by
  unfold gexit; split
  · simp only [upd_apply]; split
    · next e => subst e; rfl
    · rfl
  · exact (exitCore_frame fixed m a).2.2 z

/-! ### one `drain` -/

theorem mstep_status_mono {m : MState} (h : MI m) (op : MOp) {z : Nat} (hz : z < m.t.n) :
    (m.t.status z).toNat ≤ ((mstep true m op).1.t.status z).toNat ∧ m.t.n ≤ (mstep true m op).1.t.n := by
  obtain ⟨ops, e⟩ := (mstep_rel h op).2.steps
  rw [e]
  refine ⟨status_mono_steps true ops m.t z hz, ?_⟩
  clear e
  have : ∀ (os : List Op) (s : State), s.n ≤ (steps true s os).n := by
    intro os
    induction os with
    | nil => intro s; exact Nat.le_refl _
    | cons o' os' ih' => intro s; exact Nat.le_trans (n_mono_step true s o') (ih' _)
  exact this ops m.t

/-- after `drain c` the actor is at least `Draining` (it may already be gone, or parked in `post_stop`) -/
theorem drain_status {m : MState} (h : MI m) {c : Nat} (hc : c < m.t.n) :
    Status.draining.toNat ≤ ((mstep true m (.drain c)).1.t.status c).toNat := by
  simp only [mstep]
  by_cases hlo : m.looping c = true
  · simp only [hlo, ↓reduceIte]
    have hd : Status.draining.toNat ≤ ((setStatus m.t c .draining).status c).toNat := by
      rw [setStatus_status]; simp only [↓reduceIte]; exact (status_max_ge _ _).1
    split
    · exact hd
    · -- the exit (or the parking) only moves the status forward
      obtain ⟨han, hag, hps⟩ := looping_iff.mp hlo
      have hm' : MI { m with t := setStatus m.t c .draining } :=
        MI.setStatus h .draining han (h.live_status hag) (h.loop_status hps) (by decide)
      unfold gexit; split
      · show Status.draining.toNat ≤ ((setStatus (setStatus m.t c .draining) c .stopping).status c).toNat
        rw [setStatus_status]; simp only [↓reduceIte]
        exact Nat.le_trans (by decide) (status_max_ge _ _).1
      · have hal' : ({ m with t := setStatus m.t c .draining } : MState).alive c = true := by
          simp [MState.alive, han, hag, Tree.setStatus]
        obtain ⟨han', hag'⟩ := alive_iff.mp hal'
        obtain ⟨_, hD, _, _, _⟩ := exitCore_spec hm' han' hag'
        show Status.draining.toNat ≤ ((exitCore true { m with t := setStatus m.t c .draining } c).t.status c).toNat
        rw [hD c .refl]; simp [Status.toNat]
  · simp only [hlo, Bool.false_eq_true, ↓reduceIte]
    -- not in its message loop any more: gone (Stopped) or parked in post_stop (≥ Stopping)
    have : ¬ (c < m.t.n ∧ (m.act c).gone = false ∧ (m.act c).inPs = false) := fun hh => hlo (looping_iff.mpr hh)
    cases hg : (m.act c).gone with
    | true => rw [(h.gone_stopped c).mp hg]; decide
    | false =>
      cases hp : (m.act c).inPs with
      | true => exact Nat.le_trans (by decide) (h.psr c hp)
      | false => exact absurd ⟨hc, hg, hp⟩ this

/-- `drain c` tells nobody anything but (possibly) that `c` drained -/
theorem drain_evs (m : MState) (c : Nat) :
    ∃ l, (mstep true m (.drain c)).1.evs = m.evs ++ l ∧ ∀ e ∈ l, e.1 = c ∧ e.2.2 = .drained := by
  simp only [mstep]
  split
  · split
    · exact ⟨[], by simp, by intro e he; cases he⟩
    · exact gexit_evs true { m with t := setStatus m.t c .draining } c .drained
  · exact ⟨[], by simp, by intro e he; cases he⟩

/-! ### `drain_children` -/

theorem mrun_cons (fixed : Bool) (m : MState) (op : MOp) (ops : List MOp) :
    mrun fixed m (op :: ops) = mrun fixed (mstep fixed m op).1 ops := rfl

theorem mrun_MI' {m : MState} (h : MI m) (ops : List MOp) : MI (mrun true m ops) := by
  induction ops generalizing m with
  | nil => exact h
  | cons op ops ih => exact ih (mstep_rel h op).1

theorem mrun_status_mono {m : MState} (h : MI m) (ops : List MOp) {z : Nat} (hz : z < m.t.n) :
    (m.t.status z).toNat ≤ ((mrun true m ops).t.status z).toNat := by
  induction ops generalizing m with
  | nil => exact Nat.le_refl _
  | cons op ops ih =>
    obtain ⟨h1, h2⟩ := mstep_status_mono h op hz
    exact Nat.le_trans h1 (ih (mstep_rel h op).1 (Nat.lt_of_lt_of_le hz h2))

/-- draining a list of actors: each of them ends at least `Draining`, and all that is told to anybody
is that some of them drained -/
theorem mrun_drains {m : MState} (h : MI m) (ks : List Nat) (hks : ∀ c ∈ ks, c < m.t.n) :
    (∀ c ∈ ks, Status.draining.toNat ≤ ((mrun true m (ks.map .drain)).t.status c).toNat) ∧
    (∃ l, (mrun true m (ks.map .drain)).evs = m.evs ++ l ∧ ∀ e ∈ l, e.1 ∈ ks ∧ e.2.2 = .drained) := by
  induction ks generalizing m with
  | nil => exact ⟨fun c hc => (by cases hc), ⟨[], (by simp [mrun]), fun e he => (by cases he)⟩⟩
  | cons k ks ih =>
    have hk : k < m.t.n := hks k (List.mem_cons_self ..)
    have h1 : MI (mstep true m (.drain k)).1 := (mstep_rel h _).1
    have hn := (mstep_status_mono h (.drain k) hk).2
    have hks' : ∀ c ∈ ks, c < (mstep true m (.drain k)).1.t.n :=
      fun c hc => Nat.lt_of_lt_of_le (hks c (List.mem_cons_of_mem _ hc)) hn
    obtain ⟨A, l2, B, C⟩ := ih h1 hks'
    obtain ⟨l1, D, E⟩ := drain_evs m k
    simp only [List.map_cons, mrun_cons]
    refine ⟨?_, l1 ++ l2, by rw [B, D, List.append_assoc], ?_⟩
    · intro c hc
      rcases List.mem_cons.mp hc with rfl | hc
      · exact Nat.le_trans (drain_status h hk) (mrun_status_mono h1 _ (Nat.lt_of_lt_of_le hk hn))
      · exact A c hc
    · intro e he
      rcases List.mem_append.mp he with he | he
      · obtain ⟨e1, e2⟩ := E e he
        exact ⟨by rw [e1]; exact List.mem_cons_self .., e2⟩
      · obtain ⟨e1, e2⟩ := C e he
        exact ⟨List.mem_cons_of_mem _ e1, e2⟩

theorem kids_lt {m : MState} (h : MI m) (a : Nat) : ∀ c ∈ kidsOf m a, c < m.t.n := by
  intro c hc
  unfold kidsOf at hc
  cases hk : m.t.kids a with
  | none => rw [hk] at hc; cases hc
  | some ks => rw [hk] at hc; exact (h.inv.bound a ks c hk hc).2

end Tree

namespace Tree

/-! ### a backlog: drained vs stopped -/

theorem release_queue {m : MState} {c q : Nat} (hal : m.alive c = true) (hb : (m.act c).busy = true)
    (hs : (m.act c).stopReq = false) (hq : (m.act c).queue = q + 1) :
    (mstep true m (.release c)).1 =
      { m with act := upd m.act c { m.act c with handled := (m.act c).handled + 1, queue := q } } := by
  simp [mstep, hal, hb, hs, hq]

theorem release_last {m : MState} {c : Nat} (hal : m.alive c = true) (hb : (m.act c).busy = true)
    (hs : (m.act c).stopReq = false) (hq : (m.act c).queue = 0) (hd : m.t.status c = .draining) :
    (mstep true m (.release c)).1 =
      gexit true { m with act := upd m.act c { m.act c with handled := (m.act c).handled + 1, busy := false } } c .drained := by
  simp [mstep, hal, hb, hs, hq, hd]

theorem release_stopreq {m : MState} {c : Nat} (hal : m.alive c = true) (hb : (m.act c).busy = true)
    (hs : (m.act c).stopReq = true) :
    (mstep true m (.release c)).1 =
      gexit true { m with act := upd m.act c { m.act c with handled := (m.act c).handled + 1 } } c .stopped := by
  simp [mstep, hal, hb, hs]

/-- what a graceful exit of a live actor leaves behind -/
theorem gexit_outcome {m : MState} (h : MI m) {c : Nat} (hal : m.alive c = true) (w : Why) :
    ((gexit true m c w).act c).handled = (m.act c).handled ∧
    ((m.act c).hold = false → (gexit true m c w).t.status c = .stopped) ∧
    (∃ l, (gexit true m c w).evs = m.evs ++ l ∧ ∀ e ∈ l, e.1 = c ∧ e.2.2 = w) := by
  refine ⟨gexit_handled true m c w c, ?_, gexit_evs true m c w⟩
  intro hh
  obtain ⟨han, hag⟩ := alive_iff.mp hal
  obtain ⟨_, hD, _, _, _⟩ := exitCore_spec h han hag
  have : (gexit true m c w).t = (exitCore true m c).t := by simp [gexit, hh, exitM]
  rw [this, hD c .refl]; simp

/-- A draining actor with a backlog: `q` queued messages behind the handler it is in.  Letting the handler
finish `q + 1` times handles every one of them (nothing accepted before the drain is dropped); then
the actor ends its message loop by itself, reason "Drained". -/
theorem drained_backlog {c : Nat} : ∀ (q : Nat) (m : MState), MI m → m.alive c = true →
    (m.act c).busy = true → (m.act c).stopReq = false → (m.act c).queue = q → m.t.status c = .draining →
    ((mrun true m (List.replicate (q + 1) (.release c))).act c).handled = (m.act c).handled + q + 1 ∧
    ((m.act c).hold = false → (mrun true m (List.replicate (q + 1) (.release c))).t.status c = .stopped) ∧
    (∃ l, (mrun true m (List.replicate (q + 1) (.release c))).evs = m.evs ++ l ∧ ∀ e ∈ l, e.1 = c ∧ e.2.2 = .drained) := by
  intro q
  induction q with
  | zero =>
    intro m h hal hb hs hq hd
    have e : mrun true m (List.replicate 1 (.release c)) = (mstep true m (.release c)).1 := rfl
    rw [e, release_last hal hb hs hq hd]
    have h1 : MI { m with act := upd m.act c { m.act c with handled := (m.act c).handled + 1, busy := false } } :=
      h.upd_act c _ rfl rfl
    have hal1 : ({ m with act := upd m.act c { m.act c with handled := (m.act c).handled + 1, busy := false } } : MState).alive c = true := by
      obtain ⟨a, b⟩ := alive_iff.mp hal
      simp [MState.alive, a, b]
    obtain ⟨o1, o2, o3⟩ := gexit_outcome h1 hal1 .drained
    refine ⟨?_, ?_, o3⟩
    · rw [o1]; simp
    · intro hh; exact o2 (by simpa using hh)
  | succ q ih =>
    intro m h hal hb hs hq hd
    have e : mrun true m (List.replicate (q + 1 + 1) (.release c)) =
        mrun true (mstep true m (.release c)).1 (List.replicate (q + 1) (.release c)) := rfl
    rw [e, release_queue hal hb hs hq]
    have h1 : MI { m with act := upd m.act c { m.act c with handled := (m.act c).handled + 1, queue := q } } :=
      h.upd_act c _ rfl rfl
    obtain ⟨a, b⟩ := alive_iff.mp hal
    obtain ⟨i1, i2, i3⟩ := ih _ h1 (by simp [MState.alive, a, b]) (by simp [hb]) (by simp [hs]) (by simp) hd
    refine ⟨?_, ?_, i3⟩
    · rw [i1]; simp; omega
    · intro hh; exact i2 (by simpa using hh)

/-- A running actor with the same backlog that is *stopped*: the handler it is in finishes, then the stop
port outranks the message port — the `q` queued messages are dropped, reason none. -/
theorem stopped_backlog {m : MState} (h : MI m) {c : Nat} (hlo : m.looping c = true) (hb : (m.act c).busy = true) :
    let m' := mrun true m [.stop c, .release c]
    (m'.act c).handled = (m.act c).handled + 1 ∧
    ((m.act c).hold = false → m'.t.status c = .stopped) ∧
    (∃ l, m'.evs = m.evs ++ l ∧ ∀ e ∈ l, e.1 = c ∧ e.2.2 = .stopped) := by
  intro m'
  obtain ⟨han, hag, hps⟩ := looping_iff.mp hlo
  -- the stop request is noted, nothing else happens while the handler runs
  have hlo' : ({ m with act := upd m.act c { m.act c with stopSent := true } } : MState).looping c = true := by
    simp [MState.looping, MState.alive, han, hag, hps]
  have key : ∃ m1, (mstep true m (.stop c)).1 = m1 ∧ MI m1 ∧ m1.evs = m.evs ∧ m1.alive c = true ∧
      (m1.act c).busy = true ∧ (m1.act c).stopReq = true ∧ (m1.act c).handled = (m.act c).handled ∧
      (m1.act c).hold = (m.act c).hold := by
    have h0 : MI { m with act := upd m.act c { m.act c with stopSent := true } } := h.upd_act c _ rfl rfl
    have hb0 : (({ m with act := upd m.act c { m.act c with stopSent := true } } : MState).act c).busy = true := by
      show (upd m.act c { m.act c with stopSent := true } c).busy = true
      rw [upd_same]; exact hb
    refine ⟨_, rfl, ?_⟩
    simp only [mstep]
    rw [if_pos hlo', if_pos hb0]
    refine ⟨h0.upd_act c _ rfl rfl, rfl, ?_, ?_, ?_, ?_, ?_⟩
    · simp [MState.alive, han, hag]
    · simp only [upd_same]; exact hb
    · simp only [upd_same]
    · simp only [upd_same]
    · simp only [upd_same]
  obtain ⟨m1, e1, h1, ev1, hal1, hb1, hs1, hh1, hd1⟩ := key
  have e : m' = (mstep true (mstep true m (.stop c)).1 (.release c)).1 := rfl
  rw [e, e1, release_stopreq hal1 hb1 hs1]
  have h2 : MI { m1 with act := upd m1.act c { m1.act c with handled := (m1.act c).handled + 1 } } :=
    h1.upd_act c _ rfl rfl
  have hal2 : ({ m1 with act := upd m1.act c { m1.act c with handled := (m1.act c).handled + 1 } } : MState).alive c = true := by
    obtain ⟨a, b⟩ := alive_iff.mp hal1
    simp [MState.alive, a, b]
  obtain ⟨o1, o2, l, o3, o4⟩ := gexit_outcome h2 hal2 .stopped
  refine ⟨?_, ?_, l, ?_, o4⟩
  · rw [o1]; simp [hh1]
  · intro hh; exact o2 (by simpa [hd1] using hh)
  · rw [o3]; simp [ev1]

end Tree

namespace Tree

/-! ### the supervisor keeps running -/

theorem exit_child_sub (fixed : Bool) (s : State) (a : Nat) {p x : Nat} (h : child (exit fixed s a) p x) : child s p x := by
  obtain ⟨ks', hk', hx⟩ := h
  rcases (exit_mono fixed s a p).1 with e | e | ⟨ks, c, e1, e2⟩
  · exact ⟨ks', by rw [← e]; exact hk', hx⟩
  · rw [e] at hk'; cases hk'
  · rw [e2] at hk'; cases hk'; exact ⟨ks, e1, List.mem_of_mem_erase hx⟩

theorem exits_child_sub (l : List Nat) : ∀ (s : State) {p x : Nat},
    child (steps true s (l.map Op.exit)) p x → child s p x := by
  induction l with
  | nil => intro s p x h; exact h
  | cons y ys ih => intro s p x h; exact exit_child_sub true s y (ih (exit true s y) h)

theorem desc_sub_of_child_sub {s s' : State} (h : ∀ p x, child s' p x → child s p x) {a z : Nat}
    (hd : Desc s' a z) : Desc s a z := by
  induction hd with
  | refl => exact .refl
  | tail _ hc ih => exact .tail ih (h _ _ hc)

/-- `drain c` leaves every actor that is not `c` or beneath `c` as it is, and adds no edge -/
theorem drain_others {m : MState} (h : MI m) (c : Nat) :
    (∀ z, z ≠ c → ¬ Desc m.t c z → (mstep true m (.drain c)).1.t.status z = m.t.status z) ∧
    (∀ p x, child (mstep true m (.drain c)).1.t p x → child m.t p x) := by
  simp only [mstep]
  by_cases hlo : m.looping c = true
  · simp only [hlo, ↓reduceIte]
    obtain ⟨han, hag, hps⟩ := looping_iff.mp hlo
    have hset : ∀ z, z ≠ c → (setStatus m.t c .draining).status z = m.t.status z := by
      intro z hz; rw [setStatus_status]; simp [hz]
    split
    · exact ⟨fun z hz _ => hset z hz, fun _ _ hx => hx⟩
    · have hm' : MI { m with t := setStatus m.t c .draining } :=
        MI.setStatus h .draining han (h.live_status hag) (h.loop_status hps) (by decide)
      unfold gexit; split
      · refine ⟨fun z hz _ => ?_, fun _ _ hx => hx⟩
        show (setStatus (setStatus m.t c .draining) c .stopping).status z = _
        rw [setStatus_status]; simp only [hz, ↓reduceIte]; exact hset z hz
      · have hal' : ({ m with t := setStatus m.t c .draining } : MState).alive c = true := by
          simp [MState.alive, han, hag, Tree.setStatus]
        obtain ⟨han', hag'⟩ := alive_iff.mp hal'
        obtain ⟨_, _, hN, _, l, hl⟩ := exitCore_spec hm' han' hag'
        refine ⟨fun z hz hnd => ?_, fun p x hx => ?_⟩
        · show (exitCore true { m with t := setStatus m.t c .draining } c).t.status z = _
          rw [hN z (fun hd => hnd ((desc_setStatus c .draining).mp hd))]
          exact hset z hz
        · have hx' : child (exitCore true { m with t := setStatus m.t c .draining } c).t p x := hx
          rw [hl] at hx'
          exact exits_child_sub _ (setStatus m.t c .draining) hx'
  · simp only [hlo, Bool.false_eq_true, ↓reduceIte]
    exact ⟨fun _ _ _ => by trivial, fun _ _ hx => hx⟩

/-- draining a list of actors does not touch an actor that is neither one of them nor beneath one of them -/
theorem mrun_drains_other {a : Nat} : ∀ (ks : List Nat) (m : MState), MI m →
    (∀ c ∈ ks, c ≠ a ∧ ¬ Desc m.t c a) → (mrun true m (ks.map .drain)).t.status a = m.t.status a := by
  intro ks
  induction ks with
  | nil => intro m _ _; rfl
  | cons k ks ih =>
    intro m h hks
    obtain ⟨hk1, hk2⟩ := hks k (List.mem_cons_self ..)
    obtain ⟨o1, o2⟩ := drain_others h k
    simp only [List.map_cons, mrun_cons]
    rw [ih _ (mstep_rel h _).1 ?_, o1 a (Ne.symm hk1) hk2]
    intro c hc
    obtain ⟨c1, c2⟩ := hks c (List.mem_cons_of_mem _ hc)
    exact ⟨c1, fun hd => c2 (desc_sub_of_child_sub o2 hd)⟩

end Tree
