import RactorModel.Model.Remote
import RactorModel.Model.Codec

/-!
# The TCP session under transport errors (C20)

Model of `ractor_cluster/src/net/session.rs` (`Session`, `run_write_task`, `SessionReader`) and
of the part of `node/node_session.rs` that reacts to the session's death
(`handle_supervisor_evt`: `ActorTerminated(tcp)` ⇒ `myself.stop`, the remote-actor proxies being
children of the `NodeSession`).

* `run_write_task`: `rx.recv()` the first frame, `try_recv` everything else that is queued, ONE
  `write_all` of the batch, ONE `flush`; an error of either ⇒ `session.stop(..)` and the task
  returns. The transport's answers are the parameters of the `writer` event.
* `SessionReader::handle(WaitForObject)`: one `read_network_message`; `Ok` ⇒ the frame goes to
  the session (which forwards it to the `NodeSession`) and the reader re-arms; ANY error (EOF,
  framing error, I/O error) ⇒ the reader stops, which the `Session` (its supervisor) answers with
  `myself.stop`.
* `Session` stopping: `post_stop` aborts the writer task, the reader (child) is terminated, the
  `NodeSession` (supervisor) is notified.
* `NodeSession` on `ActorTerminated(tcp session)`: `myself.stop`: its children — every
  `RemoteActor` proxy — stop; a stopping actor leaves every process group (`Mirror.step .close`).

Every step is a separate event, so that theorems quantify over every interleaving of the
writer task, the reader, the two actors handling their signals, outgoing sends and incoming
control messages.
-/

namespace Link
open Remote

/-- the transport's answer to `write_all` / `flush` -/
inductive Io where
  | ok
  | err
  deriving Repr, DecidableEq

/-- the result of one `read_network_message` -/
inductive ReadRes (F : Type) where
  | frame (f : F)
  /-- `Err(_)`: EOF (`channel_closed`), a framing error or an I/O error (`frame_read_error`) -/
  | err
  deriving Repr, DecidableEq

structure S (F : Type) where
  /-- `writer_tx`/`writer_rx`: frames queued by `Session::handle(Send)` -/
  chan : List F := []
  /-- frames the transport accepted (`write_all` ok) and flushed (`flush` ok), in order -/
  wire : List F := []
  /-- frames taken by a batch whose `write_all` or `flush` failed -/
  lost : List F := []
  /-- ghost: every frame accepted by `writer_tx.send` -/
  sent : List F := []
  /-- `run_write_task` is still looping -/
  writerUp : Bool := true
  /-- the `SessionReader` actor runs -/
  readerUp : Bool := true
  /-- a stop signal (from the writer task) or the reader's `ActorTerminated` is in the `Session`'s queue -/
  sessStop : Bool := false
  /-- the `Session` actor runs -/
  sessUp : Bool := true
  /-- `ActorTerminated(tcp session)` is in the `NodeSession`'s queue -/
  nodeNote : Bool := false
  /-- the `NodeSession` actor runs -/
  nodeUp : Bool := true
  /-- frames that reached the `NodeSession` (`MessageReceived`) -/
  recvd : List F := []
  /-- `remote_actors` and the proxies' group memberships -/
  mirror : Mirror := {}
  /-- ghost: the transport has reported an error to the reader or to the writer task -/
  faulted : Bool := false
  /-- ghost: sends through remote references that were accepted (`Ok`) / refused (`Err`), by pid -/
  accepted : List Nat := []
  refused : List Nat := []

inductive Ev (F : Type) where
  /-- the `Session` handles `Send(f)` -/
  | send (f : F)
  /-- one iteration of `run_write_task` with the transport's answers to `write_all` and `flush`
  (`flush` is only called when `write_all` succeeded) -/
  | writer (w fl : Io)
  /-- the reader handles `WaitForObject` -/
  | read (r : ReadRes F)
  /-- the `Session` handles the stop signal / the reader's termination -/
  | sessionStops
  /-- the `NodeSession` handles `ActorTerminated(tcp session)` -/
  | nodeNotices
  /-- the `NodeSession` handles a control message of the peer that got through before -/
  | ctl (c : Ctl)
  /-- somebody stops the remote REFERENCE `pid` itself (`ActorCell::stop` on a pg member, not the
  original): the `NodeSession` handles `ActorTerminated(proxy)`: `remote_actors.remove(pid)`, then
  `actor.stop_and_wait(..).await?` on the already dead proxy fails, the handler returns the error
  and the `NodeSession` itself FAILS — all its children (the tcp session, every other proxy) go
  down with it -/
  | proxyStopped (pid : Nat)
  /-- a local sender casts / calls through the remote reference `pid` -/
  | sendVia (pid : Nat)

def isClose : Ctl → Bool
  | .close => true
  | _ => false

def step {F : Type} (s : S F) : Ev F → S F
  | .send f =>
    -- `let _ = state.writer_tx.send(msg)`: fails silently once the writer task has returned
    if s.sessUp && s.writerUp then { s with chan := s.chan ++ [f], sent := s.sent ++ [f] } else s
  | .writer w fl =>
    if s.writerUp && !s.chan.isEmpty then
      match w, fl with
      | .ok, .ok => { s with chan := [], wire := s.wire ++ s.chan }
      | _, _ =>
        -- `session.stop(Some("channel_closed")); return;` — for a failed write_all AND a failed flush
        { s with chan := [], lost := s.lost ++ s.chan, writerUp := false, sessStop := true, faulted := true }
    else s
  | .read r =>
    if s.readerUp then
      match r with
      | .frame f => if s.sessUp && s.nodeUp then { s with recvd := s.recvd ++ [f] } else s
      | .err => { s with readerUp := false, sessStop := true, faulted := true }
    else s
  | .sessionStops =>
    if s.sessStop && s.sessUp then
      { s with sessUp := false, writerUp := false, readerUp := false, nodeNote := true }
    else s
  | .nodeNotices =>
    if s.nodeNote && s.nodeUp then { s with nodeUp := false, mirror := s.mirror.step .close } else s
  | .ctl c =>
    if s.nodeUp && !isClose c then { s with mirror := s.mirror.step c } else s
  | .proxyStopped pid =>
    if s.nodeUp && s.mirror.proxies.contains pid then
      { s with nodeUp := false, mirror := s.mirror.step .close, sessUp := false, writerUp := false,
               readerUp := false }
    else s
  | .sendVia pid =>
    -- `ActorCell::send_serialized` on the proxy: `Ok` iff the proxy actor runs
    if s.mirror.proxies.contains pid then { s with accepted := s.accepted ++ [pid] }
    else { s with refused := s.refused ++ [pid] }

def run {F : Type} (s : S F) (evs : List (Ev F)) : S F := evs.foldl step s

/-- the two actors handle what is in their queues (the system at rest) -/
def settle {F : Type} (s : S F) : S F := step (step s .sessionStops) .nodeNotices

/-- a send to the remote reference `pid` is accepted iff its proxy runs -/
def accepts {F : Type} (s : S F) (pid : Nat) : Bool := s.mirror.proxies.contains pid

/-- the life of a `SessionReader` over a byte stream arriving in the pieces `chunks`
(`Codec.readFrames`: the real loop of `read_network_message` / `read_n_bytes` over a
partial-read transport), as events of this model -/
def readerEvents {Msg : Type} (dec : Codec.Bytes → Option Msg) (max : Nat) (chunks : List Codec.Bytes) :
    List (Ev Msg) :=
  (Codec.readFrames dec max chunks).1.map fun
    | .ok m => .read (.frame m)
    | .err _ => .read .err

/-- the run-time oracle: at rest after the transport reported an error, no remote reference is
running, in a group or accepting sends. `running`/`members`/`accepted` are what the observer of
the real system saw. -/
def okDown (faultReported atRest : Bool) (running members accepted : Nat) : Bool :=
  !(faultReported && atRest) || (running == 0 && members == 0 && accepted == 0)

end Link
