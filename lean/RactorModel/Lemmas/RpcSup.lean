import RactorModel.Lemmas.Rpc

/-! Supervisors (C09): a termination event is held by AT MOST ONE supervisor, once, and only events
of stopped actors are held — so when a supervisor drops a stashed event, drops it unhandled, or dies,
the ports inside really are dropped and their callers complete with `SenderError` in that very step. -/

namespace Rpc

def held (x : Sup) : List Nat := x.inbox ++ x.stash

structure SupUniq (s : S) : Prop where
  nodup : ∀ (u : Nat) (x : Sup), s.sups[u]? = some x → (held x).Nodup
  disj : ∀ (u u' : Nat) (x x' : Sup) (a : Nat), u ≠ u' → s.sups[u]? = some x → s.sups[u']? = some x' →
    a ∈ held x → a ∉ held x'
  dead : ∀ (u : Nat) (x : Sup) (a : Nat), s.sups[u]? = some x → a ∈ held x →
    ∃ y, s.actors[a]? = some y ∧ y.alive = false

theorem supUniq_init : SupUniq init := by
  refine ⟨?_, ?_, ?_⟩ <;> intros <;> simp_all [init]

/-- the actors only change in ways that keep every stopped actor stopped (and keep its index) -/
def DeadMono (A A' : List Actor) : Prop :=
  ∀ (a : Nat) (y : Actor), A[a]? = some y → y.alive = false → ∃ y', A'[a]? = some y' ∧ y'.alive = false

theorem DeadMono.refl (A : List Actor) : DeadMono A A := fun a y h1 h2 => ⟨y, h1, h2⟩

theorem DeadMono.trans {A B C : List Actor} (h1 : DeadMono A B) (h2 : DeadMono B C) : DeadMono A C := by
  intro a y hy hd
  obtain ⟨y1, hy1, hd1⟩ := h1 a y hy hd
  exact h2 a y1 hy1 hd1

theorem DeadMono.modify (A : List Actor) (b : Nat) (f : Actor → Actor)
    (hf : ∀ y, y.alive = false → (f y).alive = false) : DeadMono A (A.modify b f) := by
  intro a y hy hd
  rw [List.getElem?_modify, hy]
  by_cases hab : b = a
  · exact ⟨f y, by simp [hab], hf y hd⟩
  · exact ⟨y, by simp [hab], hd⟩

theorem DeadMono.append (A : List Actor) (z : Actor) : DeadMono A (A ++ [z]) := by
  intro a y hy hd
  exact ⟨y, by rw [List.getElem?_append_left (List.getElem?_eq_some_iff.mp hy).1]; exact hy, hd⟩

/-- supervisors unchanged, stopped actors stay stopped -/
theorem supUniq_actors {s s' : S} (h : SupUniq s) (hs : s'.sups = s.sups) (hm : DeadMono s.actors s'.actors) :
    SupUniq s' := by
  refine ⟨?_, ?_, ?_⟩
  · intro u x hx; rw [hs] at hx; exact h.nodup u x hx
  · intro u u' x x' a hne hx hx'; rw [hs] at hx hx'; exact h.disj u u' x x' a hne hx hx'
  · intro u x a hx ha
    rw [hs] at hx
    obtain ⟨y, hy, hd⟩ := h.dead u x a hx ha
    exact hm a y hy hd

theorem deadMono_exit (s : S) (a : Nat) : DeadMono s.actors (exitActor s a).actors ∧ (exitActor s a).sups = s.sups := by
  unfold exitActor
  cases s.actors[a]? with
  | none => exact ⟨DeadMono.refl _, rfl⟩
  | some x =>
    simp only
    split
    · exact ⟨DeadMono.modify _ _ _ (fun _ _ => rfl), rfl⟩
    · exact ⟨DeadMono.refl _, rfl⟩

theorem supUniq_exit {s : S} (h : SupUniq s) (a : Nat) : SupUniq (exitActor s a) :=
  supUniq_actors h (deadMono_exit s a).2 (deadMono_exit s a).1

/-- one supervisor's lists are replaced by lists holding a sub-collection of what it held -/
theorem supUniq_shrink {s s' : S} (h : SupUniq s) (u : Nat) (f : Sup → Sup)
    (hs : s'.sups = s.sups.modify u f) (ha : s'.actors = s.actors)
    (hsub : ∀ x, s.sups[u]? = some x → (held (f x)).Nodup ∧ ∀ a, a ∈ held (f x) → a ∈ held x) : SupUniq s' := by
  have hget : ∀ (v : Nat) (x' : Sup), s'.sups[v]? = some x' →
      ∃ x, s.sups[v]? = some x ∧ (held x').Nodup ∧ ∀ a, a ∈ held x' → a ∈ held x := by
    intro v x' hx'
    rw [hs, List.getElem?_modify] at hx'
    cases hv : s.sups[v]? with
    | none => rw [hv] at hx'; cases hx'
    | some x =>
      rw [hv] at hx'
      simp only [Functor.map, Option.map_some, Option.some.injEq] at hx'
      by_cases huv : u = v
      · subst huv
        simp only [if_true] at hx'; subst hx'
        exact ⟨x, rfl, hsub x hv⟩
      · simp only [huv, if_false] at hx'; subst hx'
        exact ⟨x, rfl, h.nodup v x hv, fun a ha => ha⟩
  refine ⟨?_, ?_, ?_⟩
  · intro v x' hx'
    obtain ⟨x, _, hn, _⟩ := hget v x' hx'; exact hn
  · intro v v' x1 x2 a hne h1 h2 hmem hmem2
    obtain ⟨y1, hy1, _, hs1⟩ := hget v x1 h1
    obtain ⟨y2, hy2, _, hs2⟩ := hget v' x2 h2
    exact h.disj v v' y1 y2 a hne hy1 hy2 (hs1 a hmem) (hs2 a hmem2)
  · intro v x' a hx' hmem
    obtain ⟨x, hx, _, hsx⟩ := hget v x' hx'
    rw [ha]; exact h.dead v x a hx (hsx a hmem)

theorem supUniq_sweep {s : S} (h : SupUniq s) : SupUniq (sweep s) :=
  ⟨h.nodup, h.disj, h.dead⟩

theorem supUniq_stop {s : S} (h : SupUniq s) (a : Nat) : SupUniq (stopActor s a) := by
  unfold stopActor
  cases ha : s.actors[a]? with
  | none => exact h
  | some x =>
    simp only
    cases halive : x.alive with
    | false => simpa using h
    | true =>
      simp only [if_true]
      cases hsup : x.sup with
      | none => exact supUniq_exit h a
      | some u =>
        simp only
        split
        · rename_i hu
          have key : ∀ s1 : S, s1.actors = s.actors →
              s1.sups = s.sups.modify u (fun y => { y with inbox := y.inbox ++ [a] }) → SupUniq (exitActor s1 a) := by
            intro s1 hA hS
            -- `a` is alive: no supervisor holds an event of it yet
            have hfresh : ∀ (v : Nat) (z : Sup), s.sups[v]? = some z → a ∉ held z := by
              intro v z hz hmem
              obtain ⟨y, hy, hd⟩ := h.dead v z a hz hmem
              rw [ha] at hy; cases hy; rw [halive] at hd; cases hd
            -- after the exit `a` is stopped
            have hdeadA : ∃ y, (exitActor s1 a).actors[a]? = some y ∧ y.alive = false := by
              unfold exitActor
              simp only [hA, ha, halive, if_true]
              exact ⟨_, by rw [List.getElem?_modify_eq, ha]; rfl, rfl⟩
            have hmono0 := deadMono_exit s1 a
            have hmono : DeadMono s.actors (exitActor s1 a).actors ∧ (exitActor s1 a).sups = s1.sups := by
              rw [← hA]; exact hmono0
            have hget : ∀ (v : Nat) (x' : Sup),
                (s.sups.modify u (fun y => { y with inbox := y.inbox ++ [a] }))[v]? = some x' →
                ∃ z, s.sups[v]? = some z ∧ ((v = u ∧ held x' = z.inbox ++ [a] ++ z.stash) ∨ (v ≠ u ∧ x' = z)) := by
              intro v x' hx'
              rw [List.getElem?_modify] at hx'
              cases hv : s.sups[v]? with
              | none => rw [hv] at hx'; cases hx'
              | some z =>
                rw [hv] at hx'
                simp only [Functor.map, Option.map_some, Option.some.injEq] at hx'
                by_cases huv : u = v
                · subst huv
                  simp only [if_true] at hx'; subst hx'
                  exact ⟨z, rfl, Or.inl ⟨rfl, rfl⟩⟩
                · simp only [huv, if_false] at hx'; subst hx'
                  exact ⟨z, rfl, Or.inr ⟨fun h => huv h.symm, rfl⟩⟩
            refine ⟨?_, ?_, ?_⟩
            · intro v x' hx'
              rw [hmono.2, hS] at hx'
              obtain ⟨z, hz, hcase⟩ := hget v x' hx'
              rcases hcase with ⟨_, hh⟩ | ⟨_, rfl⟩
              · rw [hh]
                have hn := h.nodup v z hz
                have hf := hfresh v z hz
                unfold held at hn hf
                rw [List.nodup_append] at hn ⊢
                simp only [List.mem_append, not_or] at hf
                refine ⟨?_, hn.2.1, ?_⟩
                · rw [List.nodup_append]
                  refine ⟨hn.1, by simp, ?_⟩
                  intro b hb c hc; simp only [List.mem_singleton] at hc; subst hc
                  intro hbc; subst hbc; exact hf.1 hb
                · intro b hb c hc
                  rw [List.mem_append, List.mem_singleton] at hb
                  rcases hb with hb | hb
                  · exact hn.2.2 b hb c hc
                  · subst hb; intro hbc; subst hbc; exact hf.2 hc
              · exact h.nodup v x' hz
            · intro v v' x1 x2 b hne h1 h2 hm1 hm2
              rw [hmono.2, hS] at h1 h2
              obtain ⟨z1, hz1, hc1⟩ := hget v x1 h1
              obtain ⟨z2, hz2, hc2⟩ := hget v' x2 h2
              -- membership in the new lists: an old member, or the fresh `a` (only at `u`)
              have hmem1 : b ∈ held z1 ∨ (b = a ∧ v = u) := by
                rcases hc1 with ⟨hv, hh⟩ | ⟨_, rfl⟩
                · rw [hh] at hm1
                  simp only [List.mem_append, List.mem_singleton] at hm1
                  rcases hm1 with (hm | hm) | hm
                  · exact Or.inl (by unfold held; exact List.mem_append_left _ hm)
                  · exact Or.inr ⟨hm, hv⟩
                  · exact Or.inl (by unfold held; exact List.mem_append_right _ hm)
                · exact Or.inl hm1
              have hmem2 : b ∈ held z2 ∨ (b = a ∧ v' = u) := by
                rcases hc2 with ⟨hv, hh⟩ | ⟨_, rfl⟩
                · rw [hh] at hm2
                  simp only [List.mem_append, List.mem_singleton] at hm2
                  rcases hm2 with (hm | hm) | hm
                  · exact Or.inl (by unfold held; exact List.mem_append_left _ hm)
                  · exact Or.inr ⟨hm, hv⟩
                  · exact Or.inl (by unfold held; exact List.mem_append_right _ hm)
                · exact Or.inl hm2
              rcases hmem1 with m1 | ⟨rfl, rfl⟩
              · rcases hmem2 with m2 | ⟨rfl, rfl⟩
                · exact h.disj v v' z1 z2 b hne hz1 hz2 m1 m2
                · exact hfresh v z1 hz1 m1
              · rcases hmem2 with m2 | ⟨_, hv'⟩
                · exact hfresh v' z2 hz2 m2
                · exact hne hv'.symm
            · intro v x' b hx' hmem
              rw [hmono.2, hS] at hx'
              obtain ⟨z, hz, hcase⟩ := hget v x' hx'
              have hb : b ∈ held z ∨ b = a := by
                rcases hcase with ⟨_, hh⟩ | ⟨_, rfl⟩
                · rw [hh] at hmem
                  simp only [List.mem_append, List.mem_singleton] at hmem
                  rcases hmem with (hm | hm) | hm
                  · exact Or.inl (by unfold held; exact List.mem_append_left _ hm)
                  · exact Or.inr hm
                  · exact Or.inl (by unfold held; exact List.mem_append_right _ hm)
                · exact Or.inl hmem
              rcases hb with hb | rfl
              · obtain ⟨y, hy, hd⟩ := h.dead v z b hz hb
                exact hmono.1 b y hy hd
              · exact hdeadA
          exact key _ rfl rfl
        · exact supUniq_exit h a

theorem supUniq_killChildren {s : S} (h : SupUniq s) (u : Nat) : SupUniq (killChildren s u) := by
  unfold killChildren
  generalize List.range s.actors.length = l
  induction l generalizing s with
  | nil => exact h
  | cons a rest ih =>
    simp only [List.foldl_cons]
    apply ih
    cases s.actors[a]? with
    | none => exact h
    | some x =>
      simp only
      split
      · exact supUniq_exit h a
      · exact h

theorem supUniq_drainExits {s : S} (h : SupUniq s) : SupUniq (drainExits s) := by
  unfold drainExits
  generalize List.range s.actors.length = l
  induction l generalizing s with
  | nil => exact h
  | cons a rest ih =>
    simp only [List.foldl_cons]
    apply ih
    cases s.actors[a]? with
    | none => exact h
    | some x =>
      simp only
      split
      · exact supUniq_stop h a
      · exact h

theorem supUniq_setActor {s : S} (h : SupUniq s) (a : Nat) (f : Actor → Actor)
    (hf : ∀ y, y.alive = false → (f y).alive = false) : SupUniq (setActor s a f) :=
  supUniq_actors h rfl (DeadMono.modify _ _ _ hf)

theorem supUniq_handle {s : S} (h : SupUniq s) (a : Nat) (act : Act) : SupUniq (handleCore s a act) := by
  unfold handleCore
  cases s.actors[a]? with
  | none => exact h
  | some x =>
    simp only
    split
    · exact h
    · cases x.mailbox with
      | nil => simp only; split; exact supUniq_stop h a; exact h
      | cons it rest =>
        cases it with
        | fwd v => exact supUniq_setActor h a _ (fun _ hy => hy)
        | call p =>
          simp only
          have h1 := supUniq_setActor h a (fun y => { y with mailbox := y.mailbox.tail }) (fun _ hy => hy)
          unfold applyAct
          cases act <;> exact supUniq_actors h1 rfl (DeadMono.refl _)

/-- new actors are appended: the old indices keep their records -/
theorem supUniq_addActor {s : S} (h : SupUniq s) (z : Actor) : SupUniq { s with actors := s.actors ++ [z] } :=
  supUniq_actors h rfl (DeadMono.append _ _)

theorem supUniq_stepCore {s : S} (h : SupUniq s) (op : Op) : SupUniq (stepCore s op) := by
  have hsame : ∀ s' : S, s'.sups = s.sups → s'.actors = s.actors → SupUniq s' :=
    fun s' h1 h2 => supUniq_actors h h1 (by rw [h2]; exact DeadMono.refl _)
  cases op with
  | spawn => exact supUniq_addActor h _
  | call a t =>
    simp only [stepCore]
    unfold sendCall; simp only
    split
    · exact supUniq_actors h rfl (DeadMono.modify _ _ _ (fun _ hy => hy))
    · exact hsame _ rfl rfl
  | fcall a f t =>
    simp only [stepCore]
    unfold sendCall; simp only
    split
    · exact supUniq_actors h rfl (DeadMono.modify _ _ _ (fun _ hy => hy))
    · exact hsame _ rfl rfl
  | mcall as t =>
    simp only [stepCore]
    have : ∀ (as : List Nat) (s0 : S), SupUniq s0 → SupUniq (sendMulti s0 s.groups t as) := by
      intro as
      induction as with
      | nil => intro s0 h0; exact h0
      | cons a rest ih =>
        intro s0 h0
        simp only [sendMulti]
        have h1 : SupUniq (sendCall s0 a t (some s.groups) none).1 := by
          unfold sendCall; simp only
          split
          · exact supUniq_actors h0 rfl (DeadMono.modify _ _ _ (fun _ hy => hy))
          · exact supUniq_actors h0 rfl (DeadMono.refl _)
        split
        · exact ih _ h1
        · exact supUniq_actors h1 rfl (DeadMono.refl _)
    exact supUniq_actors (this as s h) rfl (DeadMono.refl _)
  | handle a act => exact supUniq_handle h a act
  | later p act =>
    simp only [stepCore]
    cases s.calls[p]? with
    | none => exact h
    | some c =>
      simp only
      cases c.loc <;> cases act <;> simp only <;> first
        | exact h
        | exact hsame _ rfl rfl
        | (split
           · exact hsame _ rfl rfl
           · exact h)
  | exit a => exact supUniq_exit h a
  | stop a act =>
    simp only [stepCore]
    exact supUniq_stop (supUniq_handle h a act) a
  | drain a =>
    simp only [stepCore]
    exact supUniq_setActor h a _ (fun y hy => by split <;> exact hy)
  | advance d => exact hsame _ rfl rfl
  | spawnSup =>
    simp only [stepCore]
    have hget : ∀ (v : Nat) (x' : Sup), (s.sups ++ [({ alive := true, inbox := [], stash := [] } : Sup)])[v]? = some x' →
        s.sups[v]? = some x' ∨ held x' = [] := by
      intro v x' hx'
      rw [List.getElem?_append] at hx'
      split at hx'
      · exact Or.inl hx'
      · right
        have := List.mem_of_getElem? hx'
        simp only [List.mem_singleton] at this; subst this; rfl
    refine ⟨?_, ?_, ?_⟩
    · intro v x' hx'
      rcases hget v x' hx' with h1 | h1
      · exact h.nodup v x' h1
      · rw [h1]; exact List.nodup_nil
    · intro v v' x1 x2 a hne h1 h2 hm1 hm2
      rcases hget v x1 h1 with g1 | g1
      · rcases hget v' x2 h2 with g2 | g2
        · exact h.disj v v' x1 x2 a hne g1 g2 hm1 hm2
        · rw [g2] at hm2; cases hm2
      · rw [g1] at hm1; cases hm1
    · intro v x' a hx' hmem
      rcases hget v x' hx' with h1 | h1
      · exact h.dead v x' a h1 hmem
      · rw [h1] at hmem; cases hmem
  | spawnl u =>
    simp only [stepCore]
    split
    · exact supUniq_addActor h _
    · exact h
  | suphandle u keep =>
    simp only [stepCore]
    cases hU : s.sups[u]? with
    | none => exact h
    | some x =>
      simp only
      split
      · exact h
      · cases hin : x.inbox with
        | nil => exact h
        | cons a rest =>
          simp only
          split
          · -- the head of the inbox moves to the stash: the same events are held
            refine supUniq_shrink h u _ rfl rfl (fun x0 hx0 => ?_)
            rw [hU] at hx0; cases hx0
            have hn := h.nodup u x hU
            unfold held at hn ⊢
            rw [hin] at hn
            simp only
            refine ⟨?_, ?_⟩
            · have hperm : (rest ++ (x.stash ++ [a])).Perm (a :: rest ++ x.stash) := by
                have : (rest ++ (x.stash ++ [a])) = (rest ++ x.stash) ++ [a] := by simp
                rw [this]
                exact (List.perm_append_comm).trans (by simp)
              exact hperm.nodup_iff.mpr hn
            · intro b hb
              rw [hin]
              simp only [List.mem_append, List.mem_cons, List.not_mem_nil, or_false] at hb ⊢
              rcases hb with hb | hb | hb
              · exact Or.inl (Or.inr hb)
              · exact Or.inr hb
              · exact Or.inl (Or.inl hb)
          · apply supUniq_sweep
            refine supUniq_shrink h u _ rfl rfl (fun x0 hx0 => ?_)
            rw [hU] at hx0; cases hx0
            have hn := h.nodup u x hU
            unfold held at hn ⊢
            rw [hin] at hn
            simp only
            refine ⟨(List.nodup_cons.mp (by simpa using hn)).2, ?_⟩
            intro b hb
            rw [hin]
            simp only [List.mem_append, List.mem_cons] at hb ⊢
            rcases hb with hb | hb
            · exact Or.inl (Or.inr hb)
            · exact Or.inr hb
  | supdrop u a =>
    simp only [stepCore]
    cases hU : s.sups[u]? with
    | none => exact h
    | some x =>
      simp only
      split
      · apply supUniq_sweep
        refine supUniq_shrink h u _ rfl rfl (fun x0 hx0 => ?_)
        rw [hU] at hx0; cases hx0
        have hn := h.nodup u x hU
        unfold held at hn ⊢
        simp only
        refine ⟨?_, ?_⟩
        · exact List.Sublist.nodup (List.Sublist.append (List.Sublist.refl _) (List.erase_sublist)) hn
        · intro b hb
          simp only [List.mem_append] at hb ⊢
          rcases hb with hb | hb
          · exact Or.inl hb
          · exact Or.inr (List.mem_of_mem_erase hb)
      · exact h
  | supexit u =>
    simp only [stepCore]
    unfold supExit
    cases hU : s.sups[u]? with
    | none => exact h
    | some x =>
      simp only
      split
      · apply supUniq_killChildren
        apply supUniq_sweep
        refine supUniq_shrink h u _ rfl rfl (fun x0 _ => ?_)
        exact ⟨List.nodup_nil, fun b hb => by cases hb⟩
      · exact h
  | cast a v =>
    simp only [stepCore]
    exact supUniq_actors h rfl (DeadMono.modify _ _ _ (fun y hy => by split <;> exact hy))
  | fail a =>
    simp only [stepCore]
    cases s.actors[a]? with
    | none => exact h
    | some x =>
      simp only
      split
      · exact supUniq_exit h a
      · exact h
  | handleAt a act d =>
    simp only [stepCore]
    exact supUniq_actors (supUniq_handle h a act) rfl (DeadMono.refl _)

theorem deliverForwards_deadMono (before after : List Call) (A : List Actor) :
    DeadMono A (deliverForwards before after A) := by
  unfold deliverForwards
  generalize (List.zip before after).filterMap _ = newly
  induction newly generalizing A with
  | nil => exact DeadMono.refl A
  | cons fv rest ih =>
    obtain ⟨f, v⟩ := fv
    simp only [List.foldl_cons]
    exact (DeadMono.modify A f _ (fun y hy => by split <;> exact hy)).trans (ih _)

theorem supUniq_resolveLocal {s : S} (h : SupUniq s) : SupUniq (resolveLocal s) :=
  supUniq_actors h rfl (deliverForwards_deadMono _ _ _)

theorem supUniq_run (ops : List Op) : SupUniq (run ops) := by
  unfold run
  suffices ∀ s, Inv s → Wire s → SupUniq s → SupUniq (ops.foldl step s) from this init inv_init wire_init supUniq_init
  induction ops with
  | nil => intro s _ _ h; exact h
  | cons op rest ih =>
    intro s hi hw hu
    have hs := inv_step hi hw op
    refine ih (step s op) hs.1 hs.2 ?_
    rw [step_eq_local hi.toPre hw op]
    exact supUniq_resolveLocal (supUniq_drainExits (supUniq_stepCore hu op))

/-! ### dropping an event completes its callers in that very step -/

/-- a dropped port is never touched again by an exit (and the clock does not move) -/
theorem dropped_stable_exit (s : S) (a p : Nat) (c : Call) (hc : s.calls[p]? = some c) (hl : c.loc = .dropped) :
    (exitActor s a).calls[p]? = some c ∧ (exitActor s a).now = s.now := by
  unfold exitActor
  cases s.actors[a]? with
  | none => exact ⟨hc, rfl⟩
  | some x =>
    simp only
    split
    · refine ⟨?_, rfl⟩
      simp only [List.getElem?_map, hc, Option.map_some, Option.some.injEq]
      unfold dropPortsOf; simp [hl]
    · exact ⟨hc, rfl⟩

theorem dropped_stable_stop (s : S) (a p : Nat) (c : Call) (hc : s.calls[p]? = some c) (hl : c.loc = .dropped) :
    (stopActor s a).calls[p]? = some c ∧ (stopActor s a).now = s.now := by
  unfold stopActor
  cases s.actors[a]? with
  | none => exact ⟨hc, rfl⟩
  | some x =>
    simp only
    split
    · cases x.sup with
      | none => exact dropped_stable_exit s a p c hc hl
      | some u =>
        simp only
        split
        · have h1 : ({ s with sups := s.sups.modify u (fun y => { y with inbox := y.inbox ++ [a] }),
                               calls := s.calls.map (toEvent a) } : S).calls[p]? = some c := by
            simp only [List.getElem?_map, hc, Option.map_some, Option.some.injEq]
            unfold toEvent; simp [hl]
          exact dropped_stable_exit _ a p c h1 hl
        · exact dropped_stable_exit s a p c hc hl
    · exact ⟨hc, rfl⟩

theorem dropped_stable_killChildren (s : S) (u p : Nat) (c : Call) (hc : s.calls[p]? = some c)
    (hl : c.loc = .dropped) : (killChildren s u).calls[p]? = some c ∧ (killChildren s u).now = s.now := by
  unfold killChildren
  generalize List.range s.actors.length = l
  suffices ∀ s0 : S, s0.calls[p]? = some c → s0.now = s.now →
      (l.foldl (fun s a => match s.actors[a]? with
        | some y => if y.sup == some u then exitActor s a else s
        | none => s) s0).calls[p]? = some c ∧
      (l.foldl (fun s a => match s.actors[a]? with
        | some y => if y.sup == some u then exitActor s a else s
        | none => s) s0).now = s.now from this s hc rfl
  induction l with
  | nil => intro s0 h0 hn; exact ⟨h0, hn⟩
  | cons a rest ih =>
    intro s0 h0 hn
    simp only [List.foldl_cons]
    cases s0.actors[a]? with
    | none => exact ih s0 h0 hn
    | some y =>
      simp only
      split
      · obtain ⟨e1, e2⟩ := dropped_stable_exit s0 a p c h0 hl
        exact ih _ e1 (e2.trans hn)
      · exact ih s0 h0 hn

theorem dropped_stable_drainExits (s : S) (p : Nat) (c : Call) (hc : s.calls[p]? = some c)
    (hl : c.loc = .dropped) : (drainExits s).calls[p]? = some c ∧ (drainExits s).now = s.now := by
  unfold drainExits
  generalize List.range s.actors.length = l
  suffices ∀ s0 : S, s0.calls[p]? = some c → s0.now = s.now →
      (l.foldl (fun s a => match s.actors[a]? with
        | some x => if x.alive && x.draining && x.mailbox.isEmpty then stopActor s a else s
        | none => s) s0).calls[p]? = some c ∧
      (l.foldl (fun s a => match s.actors[a]? with
        | some x => if x.alive && x.draining && x.mailbox.isEmpty then stopActor s a else s
        | none => s) s0).now = s.now from this s hc rfl
  induction l with
  | nil => intro s0 h0 hn; exact ⟨h0, hn⟩
  | cons a rest ih =>
    intro s0 h0 hn
    simp only [List.foldl_cons]
    cases s0.actors[a]? with
    | none => exact ih s0 h0 hn
    | some y =>
      simp only
      split
      · obtain ⟨e1, e2⟩ := dropped_stable_stop s0 a p c h0 hl
        exact ih _ e1 (e2.trans hn)
      · exact ih s0 h0 hn

/-- the rest of the step after the supervisor's action: a port it dropped stays dropped and its
caller, if still waiting, gets `SenderError` -/
theorem dropped_tail (s1 : S) (p : Nat) (c : Call) (hc : s1.calls[p]? = some c) (hl : c.loc = .dropped) :
    ∃ c', (resolveLocal (drainExits s1)).calls[p]? = some c' ∧ c'.loc = .dropped ∧
      (c.res = none → c'.res = some .senderError) := by
  obtain ⟨e1, _⟩ := dropped_stable_drainExits s1 p c hc hl
  refine ⟨resolveCall (drainExits s1).now c, by simp [resolveLocal, List.getElem?_map, e1],
    by rw [resolveCall_loc]; exact hl, fun hw => ?_⟩
  unfold resolveCall; simp [hw, hl]

/-- with the uniqueness invariant: once `u` gave up the event of `a`, NO live supervisor holds it -/
theorem not_held_after {s : S} (hU : SupUniq s) (u a : Nat) (x : Sup) (hx : s.sups[u]? = some x)
    (ha : a ∈ held x) (f : Sup → Sup) (hf : (f x).alive = false ∨ a ∉ held (f x)) :
    supHolds (s.sups.modify u f) a = false := by
  cases hh : supHolds (s.sups.modify u f) a with
  | false => rfl
  | true =>
    exfalso
    obtain ⟨v, z', hz', hal, hm⟩ := supHolds_iff.mp hh
    have hm' : a ∈ held z' := by unfold held; exact List.mem_append.mpr hm
    rw [List.getElem?_modify] at hz'
    cases hv : s.sups[v]? with
    | none => rw [hv] at hz'; cases hz'
    | some z =>
      rw [hv] at hz'
      simp only [Functor.map, Option.map_some, Option.some.injEq] at hz'
      by_cases huv : u = v
      · subst huv
        rw [hx] at hv; cases hv
        simp only [if_true] at hz'; subst hz'
        rcases hf with h1 | h1
        · rw [h1] at hal; cases hal
        · exact h1 hm'
      · simp only [huv, if_false] at hz'; subst hz'
        exact hU.disj u v x z a huv hx hv ha hm'

theorem run_snoc (ops : List Op) (op : Op) : run (ops ++ [op]) = step (run ops) op := by
  simp [run, List.foldl_append]

/-- `supdrop u a`: the supervisor drops the stashed event of `a` -/
theorem supdrop_completes (ops : List Op) (u a p : Nat) (x : Sup) (c : Call)
    (hx : (run ops).sups[u]? = some x) (hal : x.alive = true) (ha : a ∈ x.stash)
    (hc : (run ops).calls[p]? = some c) (hl : c.loc = .event a) :
    ∃ c', (run (ops ++ [.supdrop u a])).calls[p]? = some c' ∧ c'.loc = .dropped ∧
      (c.res = none → c'.res = some .senderError) := by
  rw [run_snoc, step_eq_local (inv_run ops).toPre (wire_run ops)]
  apply dropped_tail _ p { c with loc := .dropped } _ rfl
  simp only [stepCore, hx, hal, Bool.true_and]
  have hcont : x.stash.contains a = true := by simpa using ha
  simp only [hcont, if_true]
  refine sweep_orphan _ p c a (by exact hc) hl ?_
  have hU := supUniq_run ops
  have hn := hU.nodup u x hx
  apply not_held_after hU u a x hx (by unfold held; exact List.mem_append_right _ ha)
  right
  unfold held at hn ⊢
  simp only [List.mem_append, not_or]
  rw [List.nodup_append] at hn
  exact ⟨fun hi => hn.2.2 a hi a ha rfl, fun he => by
    have := (List.Nodup.mem_erase_iff hn.2.1).mp he
    exact this.1 rfl⟩

/-- `suphandle u drop`: the supervisor drops the event at the head of its queue unhandled -/
theorem suphandle_drop_completes (ops : List Op) (u a p : Nat) (x : Sup) (rest : List Nat) (c : Call)
    (hx : (run ops).sups[u]? = some x) (hal : x.alive = true) (hin : x.inbox = a :: rest)
    (hc : (run ops).calls[p]? = some c) (hl : c.loc = .event a) :
    ∃ c', (run (ops ++ [.suphandle u false])).calls[p]? = some c' ∧ c'.loc = .dropped ∧
      (c.res = none → c'.res = some .senderError) := by
  rw [run_snoc, step_eq_local (inv_run ops).toPre (wire_run ops)]
  apply dropped_tail _ p { c with loc := .dropped } _ rfl
  simp only [stepCore, hx, hal, hin, Bool.not_true, Bool.false_eq_true, if_false]
  refine sweep_orphan _ p c a (by exact hc) hl ?_
  have hU := supUniq_run ops
  have hn := hU.nodup u x hx
  apply not_held_after hU u a x hx (by unfold held; rw [hin]; simp)
  right
  unfold held at hn ⊢
  rw [hin] at hn
  simp only [List.mem_append, not_or]
  have hn' : (a :: (rest ++ x.stash)).Nodup := by simpa using hn
  have := (List.nodup_cons.mp hn').1
  simp only [List.mem_append, not_or] at this
  exact this

/-- `supexit u`: the supervisor dies with the event of `a` queued or stashed -/
theorem supexit_completes (ops : List Op) (u a p : Nat) (x : Sup) (c : Call)
    (hx : (run ops).sups[u]? = some x) (hal : x.alive = true) (ha : a ∈ x.inbox ∨ a ∈ x.stash)
    (hc : (run ops).calls[p]? = some c) (hl : c.loc = .event a) :
    ∃ c', (run (ops ++ [.supexit u])).calls[p]? = some c' ∧ c'.loc = .dropped ∧
      (c.res = none → c'.res = some .senderError) := by
  rw [run_snoc, step_eq_local (inv_run ops).toPre (wire_run ops)]
  have hU := supUniq_run ops
  have h1 : (sweep { run ops with sups := (run ops).sups.modify u (fun _ => { alive := false, inbox := [], stash := [] }) }).calls[p]?
      = some { c with loc := .dropped } := by
    refine sweep_orphan _ p c a (by exact hc) hl ?_
    exact not_held_after hU u a x hx (by unfold held; exact List.mem_append.mpr ha) _ (Or.inl rfl)
  obtain ⟨e1, _⟩ := dropped_stable_killChildren _ u p _ h1 rfl
  apply dropped_tail _ p { c with loc := .dropped } _ rfl
  simp only [stepCore, supExit, hx, hal, if_true]
  exact e1

end Rpc
