import RactorModel.Lemmas.AdmissionBase

/-!
The channel as seen by the receiver: conservation (`enq = deqd ++ flushed ++ queue`), the
receiver handles in enqueue order, and the facts that only ever grow along a run (`Mono`).
-/

namespace Admission

theorem msgIds_append (a b : List Item) : msgIds (a ++ b) = msgIds a ++ msgIds b := by
  induction a with
  | nil => rfl
  | cons x l ih => cases x <;> simp [msgIds, ih]

structure QInv (s : Shared) : Prop where
  /-- every successfully enqueued item was dequeued, flushed or is still in the channel -/
  conserve : s.enq = s.deqd ++ s.flushed ++ s.queue
  flushed_closed : s.rxOpen = true → s.flushed = []
  /-- every dequeued message had its handler started, is the one taken whose handler has not been
  polled yet, or was dropped in that window -/
  handled_eq : msgIds s.deqd = s.handled ++ s.taken.toList ++ s.dropped
  /-- a message is taken only while the receiver is in its loop -/
  taken_live : s.taken.isSome = true → s.rxStopped = false
  /-- a dequeued message is dropped only when the loop is left for another reason than the marker -/
  dropped_why : s.dropped ≠ [] → s.stoppedByOther = true ∧ s.rxStopped = true
  dropped_one : s.dropped.length ≤ 1
  /-- after the marker was dequeued nothing is taken or dropped -/
  marker_no_drop : .drain ∈ s.deqd → s.dropped = []
  drained_eq : s.drainedExits = s.deqd.count .drain
  stopped : .drain ∈ s.deqd → s.rxStopped = true
  /-- the channel is closed only after the receiver left its loop … -/
  closed_stopped : s.rxOpen = false → s.rxStopped = true
  /-- … which it leaves because of the marker or for another reason (`rxStop`) -/
  stopped_why : s.rxStopped = true → s.stoppedByOther = true ∨ .drain ∈ s.deqd

theorem qinv_init (progs : List (List Op)) : QInv (init progs).sh := by
  constructor <;> simp [init, msgIds]

theorem qinv_stepThread {s s' : Shared} {stack stack' : List Frame}
    (hs : stepThread s stack = some (s', stack')) (h : QInv s) : QInv s' := by
  have e := stepThread_effect hs
  obtain ⟨l, h1, h2, _⟩ := e.chan
  obtain ⟨c1, c2, c3, t1, t2, t3, t4, c4, c5, c6, c7⟩ := h
  constructor
  · rw [h1, h2, e.deqd, e.flushed, c1]; simp
  · rw [e.rxOpen, e.flushed]; exact c2
  · rw [e.handled, e.deqd, e.taken, e.dropped]; exact c3
  · rw [e.taken, e.rxStopped]; exact t1
  · rw [e.dropped, e.stoppedByOther, e.rxStopped]; exact t2
  · rw [e.dropped]; exact t3
  · rw [e.dropped, e.deqd]; exact t4
  · rw [e.drainedExits, e.deqd]; exact c4
  · rw [e.deqd, e.rxStopped]; exact c5
  · rw [e.rxOpen, e.rxStopped]; exact c6
  · rw [e.rxStopped, e.stoppedByOther, e.deqd]; exact c7

theorem qinv_rx {s : Shared} (tid : Tid) (h : QInv s) : QInv (stepRx s tid) := by
  obtain ⟨c1, c2, c3, t1, t2, t3, t4, c4, c5, c6, c7⟩ := h
  cases tid with
  | recv =>
    simp only [stepRx]
    split
    · rename_i hc
      simp only [Bool.and_eq_true, Bool.not_eq_true'] at hc
      have hf := c2 hc.1
      have hd : s.dropped = [] := by
        cases hd : s.dropped with
        | nil => rfl
        | cons x l => have := (t2 (by simp [hd])).2; simp_all
      split
      · rename_i i hi
        constructor <;> simp_all [msgIds_append, msgIds, List.count_append]
      · split
        · exact ⟨c1, c2, c3, t1, t2, t3, t4, c4, c5, c6, c7⟩
        · rename_i i q hq
          constructor <;> simp_all [msgIds_append, msgIds, List.count_append]
        · rename_i q hq
          constructor <;> simp_all [msgIds_append, msgIds, List.count_append]
    · exact ⟨c1, c2, c3, t1, t2, t3, t4, c4, c5, c6, c7⟩
  | rxStop =>
    cases ht : s.taken with
    | none => constructor <;> simp_all [stepRx]
    | some i =>
      have hrs := t1 (by simp [ht])
      have hd : s.dropped = [] := by
        cases hd : s.dropped with
        | nil => rfl
        | cons x l => have := (t2 (by simp [hd])).2; simp_all
      constructor <;> simp_all [stepRx]
  | rxClose => simp only [stepRx]; split <;> constructor <;> simp_all
  | rxFlush => simp only [stepRx]; split <;> constructor <;> simp_all
  | setStatus st => constructor <;> simp_all [stepRx]
  | t i => exact ⟨c1, c2, c3, t1, t2, t3, t4, c4, c5, c6, c7⟩

theorem qinv_step (g : G) (tid : Tid) (h : QInv g.sh) : QInv (step g tid).sh := by
  cases tid with
  | t i =>
    simp only [step]
    split
    · exact h
    · split
      · exact h
      · rename_i hs; exact qinv_stepThread hs h
  | recv => exact qinv_rx .recv h
  | rxStop => exact qinv_rx .rxStop h
  | rxClose => exact qinv_rx .rxClose h
  | rxFlush => exact qinv_rx .rxFlush h
  | setStatus st => exact qinv_rx (.setStatus st) h

theorem qinv_run (g : G) (sched : List Tid) (h : QInv g.sh) : QInv (run g sched).sh := by
  induction sched generalizing g with
  | nil => exact h
  | cons t l ih => exact ih _ (qinv_step g t h)

/-! ### What only grows along a run -/

structure Mono (s s' : Shared) : Prop where
  enq : ∃ l, s'.enq = s.enq ++ l
  rets : ∃ l, s'.rets = s.rets ++ l
  status : s.status ≤ s'.status
  closed : s.word.closed = true → s'.word.closed = true
  marker : s.word.marker = true → s'.word.marker = true
  nextId : s.nextId ≤ s'.nextId
  handledPrefix : ∃ l, s'.handled = s.handled ++ l
  /-- C02 (c): once the receiver has closed the channel it stays closed, nothing more is
  dequeued or handled, and a flushed (empty) channel stays empty -/
  rxClosed : s.rxOpen = false → s'.rxOpen = false ∧ s'.handled = s.handled ∧ s'.deqd = s.deqd
    ∧ s'.enq = s.enq ∧ (s.queue = [] → s'.queue = [])

theorem Mono.refl (s : Shared) : Mono s s := by
  constructor <;> first | (refine ⟨[], ?_⟩; simp; done) | simp

theorem Mono.trans {a b c : Shared} (h1 : Mono a b) (h2 : Mono b c) : Mono a c := by
  obtain ⟨l1, e1⟩ := h1.enq; obtain ⟨l2, e2⟩ := h2.enq
  obtain ⟨r1, f1⟩ := h1.rets; obtain ⟨r2, f2⟩ := h2.rets
  obtain ⟨k1, g1⟩ := h1.handledPrefix; obtain ⟨k2, g2⟩ := h2.handledPrefix
  constructor
  · exact ⟨l1 ++ l2, by rw [e2, e1, List.append_assoc]⟩
  · exact ⟨r1 ++ r2, by rw [f2, f1, List.append_assoc]⟩
  · exact Nat.le_trans h1.status h2.status
  · exact fun h => h2.closed (h1.closed h)
  · exact fun h => h2.marker (h1.marker h)
  · exact Nat.le_trans h1.nextId h2.nextId
  · exact ⟨k1 ++ k2, by rw [g2, g1, List.append_assoc]⟩
  · intro h
    obtain ⟨a1, a2, a3, a4, a5⟩ := h1.rxClosed h
    obtain ⟨b1, b2, b3, b4, b5⟩ := h2.rxClosed a1
    exact ⟨b1, by rw [b2, a2], by rw [b3, a3], by rw [b4, a4], fun hq => b5 (a5 hq)⟩

theorem mono_stepThread {s s' : Shared} {stack stack' : List Frame}
    (hs : stepThread s stack = some (s', stack')) : Mono s s' := by
  have e := stepThread_effect hs
  obtain ⟨l, h1, h2, h3⟩ := e.chan
  constructor
  · exact ⟨l, h1⟩
  · exact e.rets
  · exact e.status
  · exact e.closed
  · exact e.marker
  · exact e.nextId
  · exact ⟨[], by rw [e.handled]; simp⟩
  · intro hc
    have hl : l = [] := by
      cases l with
      | nil => rfl
      | cons x l => have := h3 (by simp); simp [hc] at this
    subst hl
    refine ⟨by rw [e.rxOpen]; exact hc, e.handled, e.deqd, by simpa using h1, ?_⟩
    intro hq; rw [h2, hq]; rfl

theorem mono_rx (s : Shared) (tid : Tid) : Mono s (stepRx s tid) := by
  cases tid with
  | recv =>
    simp only [stepRx]
    split
    · rename_i hc
      simp only [Bool.and_eq_true, Bool.not_eq_true'] at hc
      split
      · constructor <;> first | (refine ⟨[], ?_⟩; simp; done) | (refine ⟨[_], ?_⟩; rfl) | simp_all
      · split
        · exact Mono.refl s
        · constructor <;> first | (refine ⟨[], ?_⟩; simp; done) | simp_all
        · constructor <;> first | (refine ⟨[], ?_⟩; simp; done) | simp_all
    · exact Mono.refl s
  | rxStop => constructor <;> first | (refine ⟨[], ?_⟩; simp [stepRx]; done) | simp_all [stepRx]
  | rxClose =>
    simp only [stepRx]; split
    · constructor <;> first | (refine ⟨[], ?_⟩; simp; done) | simp_all
    · exact Mono.refl s
  | rxFlush =>
    simp only [stepRx]; split
    · exact Mono.refl s
    · constructor <;> first | (refine ⟨[], ?_⟩; simp; done) | simp_all
  | setStatus st =>
    constructor <;> first | (refine ⟨[], ?_⟩; simp [stepRx]; done) | (simp only [stepRx]; omega) | simp_all [stepRx]
  | t i => exact Mono.refl s

theorem mono_step (g : G) (tid : Tid) : Mono g.sh (step g tid).sh := by
  cases tid with
  | t i =>
    simp only [step]
    split
    · exact Mono.refl _
    · split
      · exact Mono.refl _
      · rename_i hs; exact mono_stepThread hs
  | recv => exact mono_rx _ .recv
  | rxStop => exact mono_rx _ .rxStop
  | rxClose => exact mono_rx _ .rxClose
  | rxFlush => exact mono_rx _ .rxFlush
  | setStatus st => exact mono_rx _ (.setStatus st)

theorem mono_run (g : G) (sched : List Tid) : Mono g.sh (run g sched).sh := by
  induction sched generalizing g with
  | nil => exact Mono.refl _
  | cons t l ih => exact Mono.trans (mono_step g t) (ih _)

end Admission
