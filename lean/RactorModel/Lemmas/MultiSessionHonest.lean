import RactorModel.Model.MultiSessionHonest
import RactorModel.Lemmas.MultiSession

/-! Helper lemmas for `Model/MultiSessionHonest.lean` (C17, round 4 wave 2): the side of a session
never changes; a server-side session puts a digest on the wire only in the step that authenticates
it; the adversary's view contains only digests emitted on adversary sessions; the invariant of the
inbound-only theorem. -/

namespace Multi
open Auth Session

section
variable {C D : Type} [DecidableEq D] (H : C → Nat → D)

/-! ### the side of a session never changes -/

theorem handleAuth_isSrv (cfg : Cfg C) (st : SState D) (env : Env) (m : Msg D) :
    (handleAuth H cfg st env m).1.auth.isSrv = st.auth.isSrv := by
  unfold handleAuth
  split
  · rfl
  · obtain ⟨auth, name, connId, rdy, proxies, advertised, monitoring, stopped⟩ := st
    cases auth with
    | client c =>
      by_cases hcl : c.isClose = true
      · simp only [AuthSt.isClose, hcl, if_true]
        obtain ⟨c', h, _⟩ := (authClient_spec H cfg
          ⟨.client c, name, connId, rdy, proxies, advertised, monitoring, true⟩ env c m).2.2.2.2.2
        rw [h]; rfl
      · simp only [AuthSt.isClose, hcl, Bool.false_eq_true, if_false]
        obtain ⟨c', h, _⟩ := (authClient_spec H cfg
          ⟨.client c, name, connId, rdy, proxies, advertised, monitoring, stopped⟩ env c m).2.2.2.2.2
        rw [h]; rfl
    | server s =>
      by_cases hcl : s.isClose = true
      · simp only [AuthSt.isClose, hcl, if_true]
        obtain ⟨s', h, _⟩ := (authServer_spec H cfg
          ⟨.server s, name, connId, rdy, proxies, advertised, monitoring, true⟩ env s m).2.2.2.2.2
        rw [h]; rfl
      · simp only [AuthSt.isClose, hcl, Bool.false_eq_true, if_false]
        obtain ⟨s', h, _⟩ := (authServer_spec H cfg
          ⟨.server s, name, connId, rdy, proxies, advertised, monitoring, stopped⟩ env s m).2.2.2.2.2
        rw [h]; rfl

theorem onAuthFrame_isSrv (cfg : Cfg C) (st : SState D) (env : Env) (m : Msg D) :
    (onAuthFrame H cfg st env m).1.auth.isSrv = st.auth.isSrv := by
  unfold onAuthFrame
  simp only
  split
  · split
    · rw [afterAuthenticated_auth]; exact handleAuth_isSrv H cfg st env m
    · exact handleAuth_isSrv H cfg st env m
  · exact handleAuth_isSrv H cfg st env m

theorem handle_isSrv (cfg : Cfg C) (st : SState D) (env : Env) (i : In D) :
    (handle H cfg st env i).1.auth.isSrv = st.auth.isSrv := by
  unfold handle
  split
  · rfl
  · cases i with
    | pidSpawn pid rem => simp only; split <;> rfl
    | pidTerminate pid rem => simp only; split <;> rfl
    | pgChanged join scope group pids => simp only; split <;> rfl
    | frame f =>
      simp only
      split
      · rfl
      · cases f with
        | auth m => exact onAuthFrame_isSrv H cfg st env m
        | node n => simp only; rw [(handleNode_spec st env n).1]
        | control c => simp only; rw [(handleControl_spec cfg st env c).1]
        | empty => rfl

/-! ### a server-side session discloses a digest only in the step that authenticates it -/

theorem handleAuth_digest_srv (cfg : Cfg C) (st : SState D) (env : Env) (m : Msg D)
    (hs : st.auth.isSrv = true) :
    ∀ e ∈ (handleAuth H cfg st env m).2, ∀ d, sentDigest e = some d →
      st.auth.isOk = false ∧ (handleAuth H cfg st env m).1.auth.isOk = true := by
  intro e he d hd
  unfold handleAuth at he ⊢
  by_cases hok : st.auth.isOk = true
  · simp [hok] at he
  · have hno : st.auth.isOk = false := by simpa using hok
    rw [if_neg (by simp [hno])] at he ⊢
    obtain ⟨auth, name, connId, rdy, proxies, advertised, monitoring, stopped⟩ := st
    simp only at he hno hs ⊢
    cases auth with
    | client c => simp [AuthSt.isSrv] at hs
    | server s =>
      refine ⟨hno, ?_⟩
      by_cases hcl : s.isClose = true
      · simp only [AuthSt.isClose, hcl, if_true, List.mem_append] at he ⊢
        rcases he with he | he
        · simp at he; rcases he with rfl | rfl <;> simp [sentDigest] at hd
        · exact authServer_digest H cfg _ env s m e he d hd
      · simp only [AuthSt.isClose, hcl, List.mem_append] at he ⊢
        rcases he with he | he
        · simp at he
        · exact authServer_digest H cfg _ env s m e he d hd

theorem onAuthFrame_digest_srv (cfg : Cfg C) (st : SState D) (env : Env) (m : Msg D)
    (hs : st.auth.isSrv = true) :
    ∀ e ∈ (onAuthFrame H cfg st env m).2, ∀ d, sentDigest e = some d →
      st.auth.isOk = false ∧ (onAuthFrame H cfg st env m).1.auth.isOk = true := by
  intro e he d hd
  unfold onAuthFrame at he ⊢
  simp only at he ⊢
  split at he
  · rename_i hc
    simp only [Bool.and_eq_true, Bool.not_eq_true'] at hc
    rw [if_pos (by simp [hc])]
    split at he
    · rename_i hel
      rw [if_pos hel]
      exact ⟨hc.1, by rw [afterAuthenticated_auth]; exact hc.2⟩
    · rename_i hel
      rw [if_neg hel]
      exact ⟨hc.1, hc.2⟩
  · rename_i hc
    rw [if_neg hc]
    exact handleAuth_digest_srv H cfg st env m hs e he d hd

/-- A server-side session puts a digest on the wire (its `ChallengeAck`) only in the step that
authenticates it — whatever the input, a `ServerChallenge` frame included (which closes it). -/
theorem handle_digest_srv (cfg : Cfg C) (st : SState D) (env : Env) (i : In D)
    (hs : st.auth.isSrv = true) :
    ∀ e ∈ (handle H cfg st env i).2, ∀ d, sentDigest e = some d →
      st.auth.isOk = false ∧ (handle H cfg st env i).1.auth.isOk = true := by
  intro e he d hd
  rcases handle_digest H cfg st env i e he d hd with h | h
  · exact h
  · -- a `ServerChallenge` frame on a server-side session
    unfold handle at he ⊢
    split at he
    · simp at he
    · rename_i hst
      rw [if_neg hst]
      cases i with
      | pidSpawn pid rem => simp [isServerChallenge] at h
      | pidTerminate pid rem => simp [isServerChallenge] at h
      | pgChanged join scope group pids => simp [isServerChallenge] at h
      | frame f =>
        simp only at he ⊢
        split at he
        · simp at he; subst he; simp [sentDigest] at hd
        · rename_i hself
          rw [if_neg hself]
          cases f with
          | auth m => exact onAuthFrame_digest_srv H cfg st env m hs e he d hd
          | node n => simp [isServerChallenge] at h
          | control c => simp [isServerChallenge] at h
          | empty => simp [isServerChallenge] at h

/-! ### the adversary's view -/

omit [DecidableEq D] in
theorem advLearns_adv (adv : Nat → Bool) (op : Op D) (eff : List (Effect D)) :
    ∀ p ∈ advLearns adv op eff, adv p.1 = true := by
  intro p hp
  cases op with
  | «open» a b c d e => simp [advLearns] at hp
  | deauth ks => simp [advLearns] at hp
  | input k env i =>
    simp only [advLearns] at hp
    split at hp
    · rename_i hk
      simp only [List.mem_map] at hp
      obtain ⟨d, _, rfl⟩ := hp
      exact hk
    · simp at hp

/-- everything in the adversary's view was emitted on one of the adversary's sessions -/
theorem advView_adv (adv : Nat → Bool) (ops : List (Op D)) :
    ∀ (n : Node C D) (view : List (Nat × D)), (∀ p ∈ view, adv p.1 = true) →
      ∀ p ∈ advView H adv n view ops, adv p.1 = true := by
  induction ops with
  | nil => intro n view h; exact h
  | cons op rest ih =>
    intro n view h
    apply ih
    intro p hp
    rcases List.mem_append.mp hp with hp | hp
    · exact h p hp
    · exact advLearns_adv adv op _ p hp

/-- `advLegal` of a concatenation: the condition on the op in the middle, at the node and view reached. -/
theorem advLegal_split (adv : Nat → Bool) (cookie' : C) (pre : List (Op D)) :
    ∀ (n : Node C D) (view : List (Nat × D)) (op : Op D) (post : List (Op D)),
    advLegal H adv cookie' n view (pre ++ op :: post) →
    advLegal H adv cookie' (nodeAfter H n pre) (advView H adv n view pre) (op :: post) := by
  induction pre with
  | nil => intro n view op post h; exact h
  | cons p pre ih => intro n view op post h; exact ih _ _ op post h.2

/-! ### the invariant of the inbound-only theorem -/

/-- every adversary session is server-side and not authenticated; the adversary has seen nothing -/
def AdvQuiet (adv : Nat → Bool) (n : Node C D) (view : List (Nat × D)) : Prop :=
  Inv H n ∧
  (∀ k cfg st, adv k = true → n.sessions[k]? = some (cfg, st) →
    st.auth.isSrv = true ∧ st.auth.isOk = false) ∧
  view = []

omit [DecidableEq D] in
theorem init_isSrv (cfg : Cfg C) (h : cfg.isServer = true) :
    (Session.init cfg : SState D).auth.isSrv = true := by
  simp [Session.init, h, AuthSt.isSrv]

theorem step_length (n : Node C D) (op : Op D) :
    (step H n op).1.sessions.length =
      match op with
      | .open _ _ _ _ _ => n.sessions.length + 1
      | _ => n.sessions.length := by
  cases op with
  | «open» a b c d e => simp [step]
  | deauth ks => simp [step]
  | input k env i =>
    simp only [step]
    split <;> simp

theorem advQuiet_step (adv : Nat → Bool) (cookie' : C) (n : Node C D) (view : List (Nat × D)) (op : Op D)
    (hsep : ∀ c c', H cookie' c' ≠ H n.cookie c)
    (hq : AdvQuiet H adv n view) (hl : advLegal H adv cookie' n view [op])
    (hin : advInbound adv n.sessions.length [op] = true) :
    AdvQuiet H adv (step H n op).1 (view ++ advLearns adv op (step H n op).2) ∧
    (∀ k env i, op = .input k env i → adv k = true → ∀ e ∈ (step H n op).2, e.gated = false) := by
  obtain ⟨hinv, hadv, hview⟩ := hq
  subst hview
  cases op with
  | «open» a b c d e =>
    refine ⟨⟨inv_step H n _ hinv, ?_, by simp [advLearns]⟩, by intro k env i h; cases h⟩
    intro k cfg st hk hget
    simp only [step] at hget
    rcases Nat.lt_or_ge k n.sessions.length with hlt | hge
    · rw [List.getElem?_append_left hlt] at hget
      exact hadv k cfg st hk hget
    · rw [List.getElem?_append_right hge] at hget
      have hk0 : k - n.sessions.length = 0 := by
        rcases Nat.eq_zero_or_pos (k - n.sessions.length) with h | h
        · exact h
        · rw [List.getElem?_eq_none (by simp; omega)] at hget; exact absurd hget (by simp)
      have hkeq : k = n.sessions.length := by omega
      rw [hk0] at hget
      simp only [List.getElem?_cons_zero, Option.some.injEq, Prod.mk.injEq] at hget
      obtain ⟨rfl, rfl⟩ := hget
      simp only [advInbound, Bool.and_true, Bool.or_eq_true, Bool.not_eq_true'] at hin
      rw [← hkeq, hk] at hin
      have ha : a = true := by simpa using hin
      exact ⟨init_isSrv _ ha, (init_wf' H _).2⟩
  | deauth ks =>
    exact ⟨⟨hinv, hadv, by simp [advLearns]⟩, by intro k env i h; cases h⟩
  | input j env i =>
    by_cases hj : n.sessions[j]? = none
    · simp only [step, hj]
      refine ⟨⟨hinv, hadv, ?_⟩, ?_⟩
      · simp only [advLearns]; split <;> simp
      · intro k env' i' _ _ e he; simp at he
    · obtain ⟨⟨cfg, st⟩, hjs⟩ := Option.ne_none_iff_exists'.mp hj
      have hm : (cfg, st) ∈ n.sessions := List.mem_of_getElem? hjs
      obtain ⟨hc, hw⟩ := hinv _ hm
      have f := handle_facts H cfg st env i
      have hstep : step H n (.input j env i) =
          ({ n with sessions := n.sessions.set j (cfg, (handle H cfg st env i).1),
                    seen := n.seen ++ (handle H cfg st env i).2.filterMap sentDigest,
                    listed := if (handle H cfg st env i).2.contains Effect.authenticated
                              then n.listed ++ [j] else n.listed }, (handle H cfg st env i).2) := by
        simp only [step, hjs]
      have hjlt : j < n.sessions.length := by
        rcases Nat.lt_or_ge j n.sessions.length with hlt | hge
        · exact hlt
        · rw [List.getElem?_eq_none hge] at hjs; exact absurd hjs (by simp)
      -- an adversary session cannot be authenticated by this step
      have hstill : adv j = true → (handle H cfg st env i).1.auth.isOk = false := by
        intro haj
        have hno := (hadv j cfg st haj hjs).2
        cases hh : (handle H cfg st env i).1.auth.isOk
        · rfl
        · have hp := f.okNeeds (by rw [hc]; exact hw) hno hh
          obtain ⟨d, c, hd, hdc⟩ := presents_digest H hp
          rcases hl.1 haj d hd with ⟨j', h⟩ | ⟨c', hc'⟩
          · simp at h
          · exact absurd (by rw [← hc', hdc, hc]) (hsep c c')
      refine ⟨⟨inv_step H n _ hinv, ?_, ?_⟩, ?_⟩
      · intro k cfg' st' hk hget
        rw [hstep] at hget
        simp only at hget
        by_cases hkj : j = k
        · subst hkj
          rw [List.getElem?_set_self hjlt] at hget
          simp only [Option.some.injEq, Prod.mk.injEq] at hget
          obtain ⟨rfl, rfl⟩ := hget
          exact ⟨by rw [handle_isSrv]; exact (hadv j cfg st hk hjs).1, hstill hk⟩
        · rw [List.getElem?_set_ne hkj] at hget
          exact hadv k cfg' st' hk hget
      · rw [hstep]
        simp only [advLearns, List.nil_append]
        split
        · rename_i haj
          simp only [List.map_eq_nil_iff, List.filterMap_eq_nil_iff]
          intro e he
          cases hd : sentDigest e with
          | none => rfl
          | some d =>
            have := handle_digest_srv H cfg st env i (hadv j cfg st haj hjs).1 e he d hd
            rw [hstill haj] at this
            exact absurd this.2 (by simp)
        · rfl
      · intro k env' i' hop hk e he
        simp only [Op.input.injEq] at hop
        obtain ⟨rfl, rfl, rfl⟩ := hop
        rw [hstep] at he
        simp only at he
        cases hg : e.gated
        · rfl
        · have hh := f.gate e he hg
          rw [hstill hk] at hh
          exact absurd hh (by simp)


omit [DecidableEq D] in
theorem empty_advQuiet (adv : Nat → Bool) (cookie : C) :
    AdvQuiet H adv (empty cookie : Node C D) [] :=
  ⟨empty_inv H cookie, by intro k cfg st _ h; simp [empty] at h, rfl⟩

theorem advInbound_cons (adv : Nat → Bool) (n : Node C D) (op : Op D) (rest : List (Op D))
    (h : advInbound adv n.sessions.length (op :: rest) = true) :
    advInbound adv n.sessions.length [op] = true ∧
    advInbound adv (step H n op).1.sessions.length rest = true := by
  have hl := step_length H n op
  cases op with
  | «open» a b c d e =>
    simp only at hl
    simp only [advInbound, Bool.and_eq_true] at h ⊢
    rw [hl]
    exact ⟨⟨h.1, trivial⟩, h.2⟩
  | input k env i =>
    simp only at hl
    simp only [advInbound] at h ⊢
    rw [hl]
    exact ⟨trivial, h⟩
  | deauth ks =>
    simp only at hl
    simp only [advInbound] at h ⊢
    rw [hl]
    exact ⟨trivial, h⟩

/-- the invariant along a whole run, and what is left of the hypotheses for the rest of it -/
theorem advQuiet_run (adv : Nat → Bool) (cookie' : C) (pre : List (Op D)) :
    ∀ (n : Node C D) (view : List (Nat × D)) (post : List (Op D)),
      (∀ c c', H cookie' c' ≠ H n.cookie c) →
      AdvQuiet H adv n view → advLegal H adv cookie' n view (pre ++ post) →
      advInbound adv n.sessions.length (pre ++ post) = true →
      AdvQuiet H adv (nodeAfter H n pre) (advView H adv n view pre) ∧
      advLegal H adv cookie' (nodeAfter H n pre) (advView H adv n view pre) post ∧
      advInbound adv (nodeAfter H n pre).sessions.length post = true := by
  induction pre with
  | nil => intro n view post _ hq hl hin; exact ⟨hq, hl, hin⟩
  | cons op pre ih =>
    intro n view post hsep hq hl hin
    have hi := advInbound_cons H adv n op (pre ++ post) hin
    have hs := advQuiet_step H adv cookie' n view op hsep hq ⟨hl.1, trivial⟩ hi.1
    exact ih _ _ post (by rw [step_cookie]; exact hsep) hs.1 hl.2 hi.2

end

end Multi
