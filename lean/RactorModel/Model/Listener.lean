/-!
# The TCP accept loop and the client connect (C17 / C18 / C20, round 4: the real socket path)

Model of `ractor_cluster/src/net/listener.rs` (`Listener::handle`), of
`ractor_cluster/src/node/client.rs` (`connect`, `connect_enc`) and of the two places of
`node.rs` they talk to (`NodeServerMessage::ConnectionOpened` ⇒ one `NodeSession`;
`handle_supervisor_evt`: the listener failed / exited ⇒ a new `Listener` is spawned).

* `Listener::handle` = ONE `listener.accept().await`:
  - `Err(_)`: a warning, nothing else;
  - `Ok((stream, addr))`: `stream.set_nodelay(true)?; stream.local_addr()?` — an error here leaves the
    handler with `Err`, i.e. the `Listener` ACTOR FAILS (the accepted stream is dropped); the
    `NodeServer` (its supervisor) respawns it;
    raw mode ⇒ `NetworkStream::Raw`; TLS mode ⇒ `acceptor.accept(stream)`: `Err` ⇒ a warning, no session;
    a stream ⇒ `cast!(session_manager, ConnectionOpened { stream, is_server: true })`;
  - in every case that returns `Ok(())` the handler re-casts `ListenerMessage` to itself: the loop goes on.
* `client::connect`: `TcpStream::connect(address).await?` (refused / unreachable ⇒ `Err(Socket)`,
  nothing was sent to the node); `set_nodelay(true)?`, `peer_addr()?`, `local_addr()?` (`Err` ⇒ the
  stream is dropped, nothing sent); then `node_server.cast(ConnectionOpened { .., is_server: false })?`.
  `connect_enc` additionally fails with `Err(Encryption)` before the cast.
* `NodeServer::handle(ConnectionOpened { stream, is_server })`: one `NodeSession` for that stream with
  that `is_server` flag.

`set_nodelay` and the split into halves do not show in the model (no observable effect on sessions).
Connections are numbered by a ghost counter in the order the OS hands them out.
-/

namespace Listener

/-- what one `listener.accept().await` iteration meets -/
inductive Accept where
  /-- `accept()` itself failed (EMFILE, ECONNABORTED, …) -/
  | err
  /-- accepted, then `set_nodelay` / `local_addr` failed: the handler returns `Err` -/
  | okSetupFails
  /-- accepted, TLS handshake failed -/
  | okTlsFails
  | ok
  deriving Repr, DecidableEq

/-- what one `client::connect` / `connect_enc` call meets -/
inductive Connect where
  /-- `TcpStream::connect` failed: connection refused, unreachable, … -/
  | refused
  /-- connected, then `set_nodelay` / `peer_addr` / `local_addr` / the TLS handshake failed -/
  | setupFails
  /-- connected, but the `NodeServer`'s mailbox is closed (`Err(Messaging)`) -/
  | nodeGone
  | ok
  deriving Repr, DecidableEq

inductive Ev where
  /-- the `Listener` handles one `ListenerMessage` -/
  | accept (a : Accept)
  /-- the `NodeServer` handles the listener's `ActorFailed` / `ActorTerminated` -/
  | respawn
  /-- somebody calls `client::connect(&node_server, addr)` -/
  | connect (c : Connect)
  /-- the `NodeServer` handles the oldest queued `ConnectionOpened` -/
  | nodeHandles
  deriving Repr, DecidableEq

structure S where
  /-- a `Listener` actor is running its accept loop -/
  listenerUp : Bool := true
  /-- the listener's failure is in the `NodeServer`'s queue -/
  respawnDue : Bool := false
  /-- ghost: number of connections the OS has handed out so far -/
  nextConn : Nat := 0
  /-- ghost: connections for which `accept` produced a stream that was sent on, in order -/
  accepted : List Nat := []
  /-- ghost: connections for which `connect` returned `Ok(())`, in order -/
  dialled : List Nat := []
  /-- `ConnectionOpened { stream, is_server }` messages in the `NodeServer`'s mailbox -/
  queue : List (Nat × Bool) := []
  /-- `NodeSession`s created: (connection, is_server) -/
  sessions : List (Nat × Bool) := []
  /-- ghost: `connect` calls that returned `Err` / `Ok` -/
  connectErrs : Nat := 0
  connectOks : Nat := 0
  /-- ghost: `accept()` errors met -/
  acceptErrs : Nat := 0
  deriving Repr

def step (s : S) : Ev → S
  | .accept a =>
    if !s.listenerUp then s else
    match a with
    | .err => { s with acceptErrs := s.acceptErrs + 1 }
    | .okSetupFails => { s with nextConn := s.nextConn + 1, listenerUp := false, respawnDue := true }
    | .okTlsFails => { s with nextConn := s.nextConn + 1 }
    | .ok => { s with nextConn := s.nextConn + 1, accepted := s.accepted ++ [s.nextConn],
                      queue := s.queue ++ [(s.nextConn, true)] }
  | .respawn => if s.respawnDue then { s with listenerUp := true, respawnDue := false } else s
  | .connect c =>
    match c with
    | .refused => { s with connectErrs := s.connectErrs + 1 }
    | .setupFails => { s with nextConn := s.nextConn + 1, connectErrs := s.connectErrs + 1 }
    | .nodeGone => { s with nextConn := s.nextConn + 1, connectErrs := s.connectErrs + 1 }
    | .ok => { s with nextConn := s.nextConn + 1, dialled := s.dialled ++ [s.nextConn],
                      queue := s.queue ++ [(s.nextConn, false)], connectOks := s.connectOks + 1 }
  | .nodeHandles =>
    match s.queue with
    | [] => s
    | x :: q => { s with queue := q, sessions := s.sessions ++ [x] }

def run (s : S) (evs : List Ev) : S := evs.foldl step s

/-- the `NodeServer` works off its mailbox -/
def drain (s : S) : S := { s with queue := [], sessions := s.sessions ++ s.queue }

/-- server-side / client-side sessions, by connection -/
def serverSessions (s : S) : List Nat := (s.sessions.filter (·.2)).map (·.1)
def clientSessions (s : S) : List Nat := (s.sessions.filter (fun x => !x.2)).map (·.1)

/-- Run-time oracle of the TCP engines, on what the harness observes after opening connections:
`serverConns` / `clientConns` = connections the harness made to the listener / accepted from
`client_connect` calls that returned `Ok`, `refused` = `client_connect` calls to a dead port,
`refusedErrs` = how many of them returned `Err`, `server` / `client` = sessions the node created
with `is_server` true / false. -/
def ok (serverConns clientConns refused refusedErrs server client : Nat) : Bool :=
  server == serverConns && client == clientConns && refusedErrs == refused

end Listener
