import RactorModel.Model.CallRace

/-!
Invariant of the `CallRace` machine (a `call` racing the callee's exit, one step per schedule
point) and its consequences: no caller is left hanging, a `Success` carries the value the
handler wrote after dequeuing THIS caller's port, a refused send never reaches a handler.
-/

namespace CallRace

/-- the caller has not pushed its message yet -/
def Pc.early : Pc → Bool
  | .start | .status | .admitLoad | .admitCas _ | .box | .enqueue => true
  | _ => false

structure Inv (s : S) : Prop where
  nodup : s.queue.Nodup
  /-- a queued port is unanswered and its caller is past the push -/
  queued : ∀ p ∈ s.queue, s.ports p = .unset ∧ (s.pcs p = .release true ∨ s.pcs p = .waiting)
  /-- nothing is queued once the receiver is gone -/
  rxGone : s.rxAlive = false → s.queue = []
  /-- a caller past a successful push whose port is still unanswered is in the mailbox -/
  live : ∀ i, (s.pcs i = .waiting ∨ s.pcs i = .release true) → s.ports i = .unset → i ∈ s.queue
  /-- before the push nobody else knows the port -/
  early : ∀ i, (s.pcs i).early = true ∨ s.pcs i = .release false →
    s.ports i = .unset ∧ i ∉ s.queue ∧ (∀ x, (i, x) ∉ s.handled) ∧ i ∉ s.flushed
  /-- a written port was written by the handler that dequeued it, with that call's value -/
  written : ∀ i v, s.ports i = .written v → v = val i ∧ (i, some v) ∈ s.handled
  /-- a closed port was dropped by its handler, with the mailbox, or came back with a refused send -/
  closed : ∀ i, s.ports i = .closed →
    (i, none) ∈ s.handled ∨ i ∈ s.flushed ∨ s.pcs i = .done .sendErr
  doneSuccess : ∀ i v, s.pcs i = .done (.success v) → s.ports i = .written v
  doneSenderError : ∀ i, s.pcs i = .done .senderError →
    s.ports i = .closed ∧ ((i, none) ∈ s.handled ∨ i ∈ s.flushed)
  doneSendErr : ∀ i, s.pcs i = .done .sendErr →
    i ∉ s.queue ∧ (∀ x, (i, x) ∉ s.handled) ∧ i ∉ s.flushed
  /-- a port is dequeued by a handler at most once … -/
  once : ∀ i x y, (i, x) ∈ s.handled → (i, y) ∈ s.handled → x = y
  /-- … and is not in the mailbox any more -/
  handledGone : ∀ i x, (i, x) ∈ s.handled → i ∉ s.queue
  /-- nothing is flushed before the receiver goes, and what is flushed was never handled -/
  flushedLive : s.rxAlive = true → s.flushed = []
  flushedFresh : ∀ i x, (i, x) ∈ s.handled → i ∉ s.flushed

theorem inv_init : Inv init := by
  refine ⟨by simp [init], ?_, ?_, ?_, ?_, ?_, ?_, ?_, ?_, ?_, ?_, ?_, ?_, ?_⟩ <;> simp [init, Pc.early]

theorem upd_same {α} (f : Nat → α) (i : Nat) (x : α) : upd f i x i = x := by simp [upd]
theorem upd_other {α} (f : Nat → α) (i j : Nat) (x : α) (h : j ≠ i) : upd f i x j = f j := by
  simp [upd, h]

/-- a caller step that only moves the program counter between two "early" points -/
theorem inv_move {s : S} (h : Inv s) (i : Nat) (pc' : Pc) (hold : (s.pcs i).early = true)
    (hnew : pc'.early = true) : Inv { s with pcs := upd s.pcs i pc' } := by
  have hi := h.early i (Or.inl hold)
  refine ⟨h.nodup, ?_, h.rxGone, ?_, ?_, h.written, ?_, ?_, ?_, ?_, h.once, h.handledGone, h.flushedLive, h.flushedFresh⟩
  · intro p hp
    have := h.queued p hp
    have hne : p ≠ i := fun e => hi.2.1 (e ▸ hp)
    simpa [upd_other _ _ _ _ hne] using this
  · intro j hj hu
    by_cases e : j = i
    · subst e
      simp only [upd_same] at hj
      rcases hj with hj | hj <;> (rw [hj] at hnew; simp [Pc.early] at hnew)
    · simp only [upd_other _ _ _ _ e] at hj
      exact h.live j hj hu
  · intro j hj
    by_cases e : j = i
    · subst e; exact hi
    · simp only [upd_other _ _ _ _ e] at hj
      exact h.early j hj
  · intro j hc
    rcases h.closed j hc with a | a | a
    · exact Or.inl a
    · exact Or.inr (Or.inl a)
    · by_cases e : j = i
      · subst e; rw [a] at hold; simp [Pc.early] at hold
      · exact Or.inr (Or.inr (by simpa [upd_other _ _ _ _ e] using a))
  · intro j v hj
    by_cases e : j = i
    · subst e; simp only [upd_same] at hj; rw [hj] at hnew; simp [Pc.early] at hnew
    · exact h.doneSuccess j v (by simpa [upd_other _ _ _ _ e] using hj)
  · intro j hj
    by_cases e : j = i
    · subst e; simp only [upd_same] at hj; rw [hj] at hnew; simp [Pc.early] at hnew
    · exact h.doneSenderError j (by simpa [upd_other _ _ _ _ e] using hj)
  · intro j hj
    by_cases e : j = i
    · subst e; simp only [upd_same] at hj; rw [hj] at hnew; simp [Pc.early] at hnew
    · exact h.doneSendErr j (by simpa [upd_other _ _ _ _ e] using hj)

theorem inv_count {s : S} (h : Inv s) (c : Nat) : Inv { s with count := c } :=
  ⟨h.nodup, h.queued, h.rxGone, h.live, h.early, h.written, h.closed, h.doneSuccess,
   h.doneSenderError, h.doneSendErr, h.once, h.handledGone, h.flushedLive, h.flushedFresh⟩

theorem inv_status {s : S} (h : Inv s) (c : Nat) : Inv { s with status := c } :=
  ⟨h.nodup, h.queued, h.rxGone, h.live, h.early, h.written, h.closed, h.doneSuccess,
   h.doneSenderError, h.doneSendErr, h.once, h.handledGone, h.flushedLive, h.flushedFresh⟩

/-- the send is refused (status check, or closed channel): the port comes back unused -/
theorem inv_refused {s : S} (h : Inv s) (i : Nat)
    (hold : (s.pcs i).early = true ∨ s.pcs i = .release false) :
    Inv { s with pcs := upd s.pcs i (.done .sendErr), ports := upd s.ports i .closed } := by
  have hi := h.early i hold
  have hq : ∀ p ∈ s.queue, p ≠ i := fun p hp e => hi.2.1 (e ▸ hp)
  refine ⟨h.nodup, ?_, h.rxGone, ?_, ?_, ?_, ?_, ?_, ?_, ?_, h.once, h.handledGone, h.flushedLive, h.flushedFresh⟩
  · intro p hp
    have := h.queued p hp
    simpa [upd_other _ _ _ _ (hq p hp)] using this
  · intro j hj hu
    by_cases e : j = i
    · subst e; simp [upd_same] at hj
    · simp only [upd_other _ _ _ _ e] at hj hu
      exact h.live j hj hu
  · intro j hj
    by_cases e : j = i
    · subst e; simp [upd_same, Pc.early] at hj
    · simp only [upd_other _ _ _ _ e] at hj ⊢
      exact h.early j hj
  · intro j v hj
    by_cases e : j = i
    · subst e; simp [upd_same] at hj
    · simp only [upd_other _ _ _ _ e] at hj
      exact h.written j v hj
  · intro j hc
    by_cases e : j = i
    · subst e; exact Or.inr (Or.inr (by simp [upd_same]))
    · simp only [upd_other _ _ _ _ e] at hc ⊢
      exact h.closed j hc
  · intro j v hj
    by_cases e : j = i
    · subst e; simp [upd_same] at hj
    · simp only [upd_other _ _ _ _ e] at hj ⊢
      exact h.doneSuccess j v hj
  · intro j hj
    by_cases e : j = i
    · subst e; simp [upd_same] at hj
    · simp only [upd_other _ _ _ _ e] at hj ⊢
      exact h.doneSenderError j hj
  · intro j hj
    by_cases e : j = i
    · subst e; exact ⟨hi.2.1, hi.2.2.1, hi.2.2.2⟩
    · simp only [upd_other _ _ _ _ e] at hj
      exact h.doneSendErr j hj

/-- the channel accepts the message -/
theorem inv_enqueue {s : S} (h : Inv s) (i : Nat) (hold : s.pcs i = .enqueue) (hrx : s.rxAlive = true) :
    Inv { s with queue := s.queue ++ [i], pcs := upd s.pcs i (.release true) } := by
  have hi := h.early i (Or.inl (by rw [hold]; rfl))
  refine ⟨?_, ?_, ?_, ?_, ?_, h.written, ?_, ?_, ?_, ?_, h.once, ?_, h.flushedLive, h.flushedFresh⟩
  rotate_right
  · intro j x hjx
    simp only [List.mem_append, List.mem_singleton, not_or]
    refine ⟨h.handledGone j x hjx, ?_⟩
    intro e; subst e; exact hi.2.2.1 x hjx
  · exact List.nodup_append.mpr ⟨h.nodup, by simp, by
      intro a ha b hb; simp at hb; subst hb; exact fun e => hi.2.1 (e ▸ ha)⟩
  · intro p hp
    rcases List.mem_append.mp hp with hp | hp
    · have hne : p ≠ i := fun e => hi.2.1 (e ▸ hp)
      simpa [upd_other _ _ _ _ hne] using h.queued p hp
    · simp at hp; subst hp
      exact ⟨hi.1, Or.inl (by simp [upd_same])⟩
  · intro hf; simp [hrx] at hf
  · intro j hj hu
    by_cases e : j = i
    · subst e; simp
    · simp only [upd_other _ _ _ _ e] at hj
      exact List.mem_append_left _ (h.live j hj hu)
  · intro j hj
    by_cases e : j = i
    · subst e; simp [upd_same, Pc.early] at hj
    · simp only [upd_other _ _ _ _ e] at hj
      have := h.early j hj
      refine ⟨this.1, ?_, this.2.2⟩
      simp only [List.mem_append, List.mem_singleton, not_or]
      exact ⟨this.2.1, e⟩
  · intro j hc
    rcases h.closed j hc with a | a | a
    · exact Or.inl a
    · exact Or.inr (Or.inl a)
    · by_cases e : j = i
      · subst e; rw [hold] at a; cases a
      · exact Or.inr (Or.inr (by simpa [upd_other _ _ _ _ e] using a))
  · intro j v hj
    by_cases e : j = i
    · subst e; simp [upd_same] at hj
    · exact h.doneSuccess j v (by simpa [upd_other _ _ _ _ e] using hj)
  · intro j hj
    by_cases e : j = i
    · subst e; simp [upd_same] at hj
    · exact h.doneSenderError j (by simpa [upd_other _ _ _ _ e] using hj)
  · intro j hj
    by_cases e : j = i
    · subst e; simp [upd_same] at hj
    · simp only [upd_other _ _ _ _ e] at hj
      have := h.doneSendErr j hj
      refine ⟨?_, this.2⟩
      simp only [List.mem_append, List.mem_singleton, not_or]
      exact ⟨this.1, e⟩

/-- the channel is closed: the push fails -/
theorem inv_enqueue_fail {s : S} (h : Inv s) (i : Nat) (hold : s.pcs i = .enqueue) :
    Inv { s with pcs := upd s.pcs i (.release false) } := by
  have hi := h.early i (Or.inl (by rw [hold]; rfl))
  refine ⟨h.nodup, ?_, h.rxGone, ?_, ?_, h.written, ?_, ?_, ?_, ?_, h.once, h.handledGone, h.flushedLive, h.flushedFresh⟩
  · intro p hp
    have hne : p ≠ i := fun e => hi.2.1 (e ▸ hp)
    simpa [upd_other _ _ _ _ hne] using h.queued p hp
  · intro j hj hu
    by_cases e : j = i
    · subst e; simp [upd_same] at hj
    · simp only [upd_other _ _ _ _ e] at hj
      exact h.live j hj hu
  · intro j hj
    by_cases e : j = i
    · subst e; exact hi
    · simp only [upd_other _ _ _ _ e] at hj
      exact h.early j hj
  · intro j hc
    rcases h.closed j hc with a | a | a
    · exact Or.inl a
    · exact Or.inr (Or.inl a)
    · by_cases e : j = i
      · subst e; rw [hold] at a; cases a
      · exact Or.inr (Or.inr (by simpa [upd_other _ _ _ _ e] using a))
  · intro j v hj
    by_cases e : j = i
    · subst e; simp [upd_same] at hj
    · exact h.doneSuccess j v (by simpa [upd_other _ _ _ _ e] using hj)
  · intro j hj
    by_cases e : j = i
    · subst e; simp [upd_same] at hj
    · exact h.doneSenderError j (by simpa [upd_other _ _ _ _ e] using hj)
  · intro j hj
    by_cases e : j = i
    · subst e; simp [upd_same] at hj
    · simp only [upd_other _ _ _ _ e] at hj
      exact h.doneSendErr j hj

/-- a poll of the reply port by a caller whose send succeeded -/
theorem inv_poll {s : S} (h : Inv s) (i : Nat) (hold : s.pcs i = .waiting ∨ s.pcs i = .release true) :
    Inv { s with pcs := upd s.pcs i (pollPort (s.ports i)) } := by
  have hnotEarly : (s.pcs i).early = false := by rcases hold with e | e <;> rw [e] <;> rfl
  have hnotSendErr : s.pcs i ≠ .done .sendErr := by rcases hold with e | e <;> rw [e] <;> simp
  refine ⟨h.nodup, ?_, h.rxGone, ?_, ?_, h.written, ?_, ?_, ?_, ?_, h.once, h.handledGone, h.flushedLive, h.flushedFresh⟩
  · intro p hp
    have hq := h.queued p hp
    by_cases e : p = i
    · subst e
      refine ⟨hq.1, ?_⟩
      simp [upd_same, hq.1, pollPort]
    · simpa [upd_other _ _ _ _ e] using hq
  · intro j hj hu
    by_cases e : j = i
    · subst e
      exact h.live j hold hu
    · simp only [upd_other _ _ _ _ e] at hj
      exact h.live j hj hu
  · intro j hj
    by_cases e : j = i
    · subst e
      simp only [upd_same] at hj
      cases hp : s.ports j <;> simp [hp, pollPort, Pc.early] at hj
    · simp only [upd_other _ _ _ _ e] at hj
      exact h.early j hj
  · intro j hc
    rcases h.closed j hc with a | a | a
    · exact Or.inl a
    · exact Or.inr (Or.inl a)
    · by_cases e : j = i
      · subst e; exact absurd a hnotSendErr
      · exact Or.inr (Or.inr (by simpa [upd_other _ _ _ _ e] using a))
  · intro j v hj
    by_cases e : j = i
    · subst e
      simp only [upd_same] at hj
      cases hp : s.ports j <;> simp [hp, pollPort] at hj
      subst hj; rfl
    · exact h.doneSuccess j v (by simpa [upd_other _ _ _ _ e] using hj)
  · intro j hj
    by_cases e : j = i
    · subst e
      simp only [upd_same] at hj
      cases hp : s.ports j <;> simp [hp, pollPort] at hj
      refine ⟨rfl, ?_⟩
      rcases h.closed j hp with a | a | a
      · exact Or.inl a
      · exact Or.inr a
      · exact absurd a hnotSendErr
    · exact h.doneSenderError j (by simpa [upd_other _ _ _ _ e] using hj)
  · intro j hj
    by_cases e : j = i
    · subst e
      simp only [upd_same] at hj
      cases hp : s.ports j <;> simp [hp, pollPort] at hj
    · simp only [upd_other _ _ _ _ e] at hj
      exact h.doneSendErr j hj

/-- the callee dequeues the oldest message and answers it or drops the port -/
theorem inv_handle {s : S} (h : Inv s) (p : Nat) (q : List Nat) (hq : s.queue = p :: q)
    (port : Port) (x : Option Nat)
    (hpx : (port = .written (val p) ∧ x = some (val p)) ∨ (port = .closed ∧ x = none)) :
    Inv { s with queue := q, ports := upd s.ports p port, handled := s.handled ++ [(p, x)] } := by
  have hnd : p ∉ q ∧ q.Nodup := by have := h.nodup; rw [hq] at this; exact List.nodup_cons.mp this
  have hpq := h.queued p (by rw [hq]; exact List.mem_cons_self)
  have hsub : ∀ a ∈ q, a ∈ s.queue := fun a ha => by rw [hq]; exact List.mem_cons_of_mem _ ha
  have hpne : port ≠ .unset := by rcases hpx with ⟨e, _⟩ | ⟨e, _⟩ <;> rw [e] <;> simp
  have hfresh : ∀ y, (p, y) ∉ s.handled := fun y hy =>
    h.handledGone p y hy (by rw [hq]; exact List.mem_cons_self)
  have hrx : s.rxAlive = true := by
    cases hr : s.rxAlive with
    | true => rfl
    | false => have := h.rxGone hr; rw [hq] at this; cases this
  have hfl := h.flushedLive hrx
  refine ⟨hnd.2, ?_, ?_, ?_, ?_, ?_, ?_, ?_, ?_, ?_, ?_, ?_, h.flushedLive, fun _ _ _ => by simp [hfl]⟩
  rotate_right 2
  · intro j a b ha hb
    rcases List.mem_append.mp ha with ha | ha <;> rcases List.mem_append.mp hb with hb | hb
    · exact h.once j a b ha hb
    · simp at hb; exact absurd ha (hb.1 ▸ hfresh a)
    · simp at ha; exact absurd hb (ha.1 ▸ hfresh b)
    · simp at ha hb; rw [ha.2, hb.2]
  · intro j a ha hm
    rcases List.mem_append.mp ha with ha | ha
    · exact h.handledGone j a ha (hsub j hm)
    · simp at ha; exact hnd.1 (ha.1 ▸ hm)
  · intro a ha
    have hne : a ≠ p := fun e => hnd.1 (e ▸ ha)
    simpa [upd_other _ _ _ _ hne] using h.queued a (hsub a ha)
  · intro hf; have := h.rxGone hf; rw [hq] at this; cases this
  · intro j hj hu
    by_cases e : j = p
    · subst e; simp only [upd_same] at hu; exact absurd hu hpne
    · simp only [upd_other _ _ _ _ e] at hu
      have := h.live j hj hu
      rw [hq] at this
      rcases List.mem_cons.mp this with a | a
      · exact absurd a e
      · exact a
  · intro j hj
    have hne : j ≠ p := by
      intro e; subst e
      rcases hpq.2 with a | a <;> rcases hj with b | b <;> rw [a] at b <;> simp [Pc.early] at b
    have := h.early j hj
    simp only [upd_other _ _ _ _ hne]
    refine ⟨this.1, fun hm => this.2.1 (hsub j hm), ?_, this.2.2.2⟩
    intro y hy
    rcases List.mem_append.mp hy with a | a
    · exact this.2.2.1 y a
    · simp at a; exact hne a.1
  · intro j v hj
    by_cases e : j = p
    · subst e
      simp only [upd_same] at hj
      rcases hpx with ⟨e1, e2⟩ | ⟨e1, _⟩
      · rw [e1] at hj; cases hj
        exact ⟨rfl, List.mem_append_right _ (by simp [e2])⟩
      · rw [e1] at hj; cases hj
    · simp only [upd_other _ _ _ _ e] at hj
      have := h.written j v hj
      exact ⟨this.1, List.mem_append_left _ this.2⟩
  · intro j hc
    by_cases e : j = p
    · subst e
      simp only [upd_same] at hc
      rcases hpx with ⟨e1, _⟩ | ⟨_, e2⟩
      · rw [e1] at hc; cases hc
      · exact Or.inl (List.mem_append_right _ (by simp [e2]))
    · simp only [upd_other _ _ _ _ e] at hc
      rcases h.closed j hc with a | a | a
      · exact Or.inl (List.mem_append_left _ a)
      · exact Or.inr (Or.inl a)
      · exact Or.inr (Or.inr a)
  · intro j v hj
    have hne : j ≠ p := by
      intro e; subst e; rcases hpq.2 with a | a <;> rw [a] at hj <;> cases hj
    simp only [upd_other _ _ _ _ hne]
    exact h.doneSuccess j v hj
  · intro j hj
    have hne : j ≠ p := by
      intro e; subst e; rcases hpq.2 with a | a <;> rw [a] at hj <;> cases hj
    simp only [upd_other _ _ _ _ hne]
    have := h.doneSenderError j hj
    exact ⟨this.1, this.2.elim (fun a => Or.inl (List.mem_append_left _ a)) Or.inr⟩
  · intro j hj
    have hne : j ≠ p := by
      intro e; subst e; rcases hpq.2 with a | a <;> rw [a] at hj <;> cases hj
    have := h.doneSendErr j hj
    refine ⟨fun hm => this.1 (hsub j hm), ?_, this.2.2⟩
    intro y hy
    rcases List.mem_append.mp hy with a | a
    · exact this.2.1 y a
    · simp at a; exact hne a.1

/-- the actor's task ends: the receiver and everything queued is dropped -/
theorem inv_dropRx {s : S} (h : Inv s) :
    Inv { s with rxAlive := false, queue := [], flushed := s.flushed ++ s.queue,
                 ports := fun j => if j ∈ s.queue then .closed else s.ports j } := by
  refine ⟨List.nodup_nil, ?_, fun _ => rfl, ?_, ?_, ?_, ?_, ?_, ?_, ?_, h.once, fun _ _ _ => by simp,
    fun hf => by simp at hf, ?_⟩
  rotate_right
  · intro j x hjx
    simp only [List.mem_append, not_or]
    exact ⟨h.flushedFresh j x hjx, h.handledGone j x hjx⟩
  · intro p hp; cases hp
  · intro j hj hu
    by_cases e : j ∈ s.queue
    · simp [e] at hu
    · simp only [e, ↓reduceIte] at hu
      exact absurd (h.live j hj hu) e
  · intro j hj
    have := h.early j hj
    simp only [this.2.1, ↓reduceIte]
    refine ⟨this.1, by simp, this.2.2.1, ?_⟩
    simp only [List.mem_append, not_or]
    exact ⟨this.2.2.2, this.2.1⟩
  · intro j v hj
    by_cases e : j ∈ s.queue
    · simp [e] at hj
    · simp only [e, ↓reduceIte] at hj
      exact h.written j v hj
  · intro j hc
    by_cases e : j ∈ s.queue
    · exact Or.inr (Or.inl (List.mem_append_right _ e))
    · simp only [e, ↓reduceIte] at hc
      rcases h.closed j hc with a | a | a
      · exact Or.inl a
      · exact Or.inr (Or.inl (List.mem_append_left _ a))
      · exact Or.inr (Or.inr a)
  · intro j v hj
    have := h.doneSuccess j v hj
    by_cases e : j ∈ s.queue
    · have := (h.queued j e).1; simp_all
    · simp only [e, ↓reduceIte]; exact this
  · intro j hj
    have := h.doneSenderError j hj
    by_cases e : j ∈ s.queue
    · have := (h.queued j e).1; simp_all
    · simp only [e, ↓reduceIte]
      exact ⟨this.1, this.2.elim Or.inl (fun a => Or.inr (List.mem_append_left _ a))⟩
  · intro j hj
    have := h.doneSendErr j hj
    refine ⟨by simp, this.2.1, ?_⟩
    simp only [List.mem_append, not_or]
    exact ⟨this.2.2, this.1⟩

theorem inv_step {s : S} (h : Inv s) (t : Step) : Inv (step s t) := by
  cases t with
  | c i =>
    simp only [step, stepCaller]
    cases hpc : s.pcs i with
    | start => exact inv_move h i _ (by rw [hpc]; rfl) rfl
    | status =>
      simp only
      split
      · exact inv_refused h i (Or.inl (by rw [hpc]; rfl))
      · exact inv_move h i _ (by rw [hpc]; rfl) rfl
    | admitLoad => exact inv_move h i _ (by rw [hpc]; rfl) rfl
    | admitCas seen =>
      simp only
      split
      · exact inv_count (inv_move h i .box (by rw [hpc]; rfl) rfl) _
      · exact inv_move h i _ (by rw [hpc]; rfl) rfl
    | box => exact inv_move h i _ (by rw [hpc]; rfl) rfl
    | enqueue =>
      simp only
      split
      · rename_i hrx; exact inv_enqueue h i hpc hrx
      · exact inv_enqueue_fail h i hpc
    | release ok =>
      simp only
      cases ok with
      | true => exact inv_count (inv_poll h i (Or.inr hpc)) _
      | false => exact inv_count (inv_refused h i (Or.inr hpc)) _
    | waiting => exact inv_poll h i (Or.inl hpc)
    | done r => exact h
  | handle reply =>
    simp only [step]
    split
    · split
      · exact h
      · rename_i p q hq
        cases reply with
        | true => exact inv_handle h p q hq _ _ (Or.inl ⟨rfl, rfl⟩)
        | false => exact inv_handle h p q hq _ _ (Or.inr ⟨rfl, rfl⟩)
    · exact h
  | setStopping => simp only [step]; split; exact inv_status h _; exact h
  | setStopped => simp only [step]; split; exact inv_status h _; exact h
  | dropRx => simp only [step]; split; exact inv_dropRx h; exact h

theorem inv_run (sched : List Step) {s : S} (h : Inv s) : Inv (run s sched) := by
  induction sched generalizing s with
  | nil => exact h
  | cons t ts ih => exact ih (inv_step h t)

/-! ## consequences -/

/-- what the caller has got back -/
def obsRes (s : S) (i : Nat) : Option Res :=
  match s.pcs i with
  | .done r => some r
  | _ => none

/-- what a handler did with port `i` (`none` = no handler ever dequeued it) -/
def handledAs (s : S) (i : Nat) : Option (Option Nat) := (s.handled.find? (·.1 == i)).map (·.2)

theorem handledAs_none {s : S} {i : Nat} : handledAs s i = none ↔ ∀ x, (i, x) ∉ s.handled := by
  simp only [handledAs, Option.map_eq_none_iff, List.find?_eq_none]
  constructor
  · intro h x hx; exact h (i, x) hx (by simp)
  · intro h a ha hk
    simp at hk
    exact h a.2 (by cases a; simp_all)

theorem handledAs_some {s : S} (h : Inv s) {i : Nat} {x : Option Nat} :
    handledAs s i = some x ↔ (i, x) ∈ s.handled := by
  constructor
  · intro hx
    simp only [handledAs, Option.map_eq_some_iff] at hx
    obtain ⟨a, ha, rfl⟩ := hx
    have hm := List.mem_of_find?_eq_some ha
    have hk := List.find?_some ha
    simp at hk
    cases a; simp_all
  · intro hx
    cases hf : handledAs s i with
    | none => exact absurd hx (handledAs_none.mp hf x)
    | some y =>
      simp only [handledAs, Option.map_eq_some_iff] at hf
      obtain ⟨a, ha, rfl⟩ := hf
      have hm := List.mem_of_find?_eq_some ha
      have hk := List.find?_some ha
      simp at hk
      have : (i, a.2) ∈ s.handled := by cases a; simp_all
      rw [h.once i x a.2 hx this]

/-- (no hang) once the callee's task has ended, a caller that is awaiting its reply gets an
answer at its very next poll -/
theorem no_hang {s : S} (h : Inv s) (i : Nat) (hgone : s.rxAlive = false)
    (hw : s.pcs i = .waiting ∨ s.pcs i = .release true) :
    ∃ r, (step s (.c i)).pcs i = .done r ∧ r ≠ .sendErr := by
  have hq := h.rxGone hgone
  have hp : s.ports i ≠ .unset := by
    intro hu
    have := h.live i hw hu
    rw [hq] at this; cases this
  rcases hw with hw | hw
  · cases hport : s.ports i with
    | unset => exact absurd hport hp
    | written v => exact ⟨.success v, by simp [step, stepCaller, hw, hport, pollPort, upd_same], by simp⟩
    | closed => exact ⟨.senderError, by simp [step, stepCaller, hw, hport, pollPort, upd_same], by simp⟩
  · cases hport : s.ports i with
    | unset => exact absurd hport hp
    | written v => exact ⟨.success v, by simp [step, stepCaller, hw, hport, pollPort, upd_same], by simp⟩
    | closed => exact ⟨.senderError, by simp [step, stepCaller, hw, hport, pollPort, upd_same], by simp⟩

/-- the oracle accepts every result the model can hand to a caller -/
theorem judge_resolved {s : S} (h : Inv s) (i : Nat) (r : Res) (hr : obsRes s i = some r)
    (gone : Bool) (polls : Nat) : judge (some r) gone polls i (handledAs s i) = [] := by
  have hpc : s.pcs i = .done r := by
    simp only [obsRes] at hr
    split at hr
    · rename_i r' hpc; cases hr; exact hpc
    · cases hr
  cases r with
  | sendErr =>
    have := (h.doneSendErr i hpc).2.1
    rw [handledAs_none.mpr this]; rfl
  | success v =>
    have hw := h.written i v (h.doneSuccess i v hpc)
    rw [(handledAs_some h).mpr hw.2, hw.1]
    simp [judge]
  | senderError =>
    have hc := h.doneSenderError i hpc
    cases hf : handledAs s i with
    | none => rfl
    | some x =>
      cases x with
      | none => rfl
      | some v =>
        exfalso
        have h1 := (handledAs_some h).mp hf
        rcases hc.2 with a | a
        · have := h.once i _ _ h1 a; cases this
        · -- flushed ports were never handled: they were in the queue when the receiver went
          exact h.flushedFresh i _ h1 a

/-- caller `i` alone takes `n` steps -/
def solo : Nat → S → Nat → S
  | 0, s, _ => s
  | n + 1, s, i => solo n (step s (.c i)) i

/-- (the caller always comes back) Once the callee's task has ended (status `Stopped`, receiver
dropped), a caller — wherever it is inside `call` — returns within 6 of its own steps, whatever
the other callers did before. -/
theorem caller_terminates {s : S} (h : Inv s) (i : Nat) (hgone : s.rxAlive = false) (hst : s.status ≥ 1) :
    ∃ n, n ≤ 6 ∧ ∃ r, (solo n s i).pcs i = .done r := by
  have hns : ¬ (s.status = 0) := by omega
  cases hpc : s.pcs i with
  | done r => exact ⟨0, by omega, r, hpc⟩
  | waiting =>
    obtain ⟨r, hr, _⟩ := no_hang h i hgone (Or.inl hpc)
    exact ⟨1, by omega, r, hr⟩
  | release ok =>
    cases ok with
    | true =>
      obtain ⟨r, hr, _⟩ := no_hang h i hgone (Or.inr hpc)
      exact ⟨1, by omega, r, hr⟩
    | false => exact ⟨1, by omega, .sendErr, by simp [solo, step, stepCaller, hpc, upd]⟩
  | enqueue =>
    exact ⟨2, by omega, .sendErr, by simp [solo, step, stepCaller, hpc, hgone, upd]⟩
  | box =>
    exact ⟨3, by omega, .sendErr, by simp [solo, step, stepCaller, hpc, hgone, upd]⟩
  | admitCas seen =>
    by_cases hc : s.count = seen
    · exact ⟨4, by omega, .sendErr, by simp [solo, step, stepCaller, hpc, hgone, hc, upd]⟩
    · exact ⟨5, by omega, .sendErr, by simp [solo, step, stepCaller, hpc, hgone, hc, upd]⟩
  | admitLoad =>
    exact ⟨5, by omega, .sendErr, by simp [solo, step, stepCaller, hpc, hgone, upd]⟩
  | status =>
    exact ⟨1, by omega, .sendErr, by simp [solo, step, stepCaller, hpc, hst, upd]⟩
  | start =>
    exact ⟨2, by omega, .sendErr, by simp [solo, step, stepCaller, hpc, hst, upd]⟩

end CallRace
