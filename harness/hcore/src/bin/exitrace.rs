//! C06 correspondence harness (E-THR): the REAL exit sequence of an actor
//! (`processing_loop` → `set_status(Stopping)` → `post_stop` → `ActorLifecycleGuard::cleanup` →
//! `set_status(Stopped)` → `notify_stop_listener`) driven point by point on the OS thread that runs
//! the actor's task, racing waiter OS threads that poll `ActorCell::wait()` by hand
//! (`wait.poll` = harness point before every poll, `wait.created` / `wait.checked` = the points inside `wait()`:
//! after `notified()`, and between the status read and the first poll of the `Notified`).
//!
//! After every granted step the controller records the actor's status and what a snapshot shows:
//! name / pid registration, group membership, group monitor entry, number of children, supervisor
//! link, number of events the supervisor has received, `post_stop` flag.
//!
//! ops.txt / impl.txt:
//!   `case <cause> <n> <d> [forms=k,…]` | `ok <fields> at=<exiter point>`   cause = stop|kill|drain|panic|stoppanic|abort; d drainers;
//!                            k = wait|waitT|stop|stopT|kill|killT|drain|drainT|join: the call waiter i makes
//!                            (`wait(None)`, `wait(Some t)`, `stop_and_wait(None, None|Some t)`, `kill_and_wait`,
//!                            `drain_and_wait`, the `Actor::spawn` join handle), default `wait`
//!   `step d<i> drain.status`| `<fields> at=done`                      a late `drain()`'s status update
//!   `succ`                  | `<fields> at=ok|refused`                a successor registers the freed name
//!   `step e <point>`        | `<fields> at=<next|done>`
//!   `step w<i> <point>`     | `<fields> at=<next|done>[ ret| ret=<ok|err|timeout>]`   (point may be `drain.status`
//!                            for a `drain_and_wait` caller: its own `drain()`)
//!   `timeout <i>`           | `<fields> at=done ret=<ok|timeout>`     the timer of a timed call fires (paused clock advanced)
//!   `abandon <i>`           | `<fields> at=done`
//!   `end <cause> <n> <sig>` | `<fields> waiters=<r|a|p,…>`            r returned, a abandoned, p still pending
//! fields = `st=<u8> name=<0|1> succ=<0|1> pid=<0|1> pg=<0|1> mon=<0|1> kids=<n> link=<0|1> sup=<k> post=<0|1> sp=<0|1> kp=<0|1>`
//!          (sp / kp: `verif_ports_open()` — would a `stop()` / `kill()` issued now be accepted)
//!
//!   `xstress <i> cause= n=` | `w=<kind:result:st:name:pid:pg:mon:kids:link:post,…> sup=<events> st=<final>`
//!                            (free-running tasks on a multi-threaded runtime; oracle only)
//!   `xtimeout <i> kind=wait|stop_and_wait|drain_and_wait d=<µs>` | `res=<ok|timeout|err> el=<µs> st=<u8> ev=<k> fin=<u8> term=<k>`
//!                            (free-running, real clock: a wait with timeout `d` on a target that cannot finish before the
//!                            harness lets it — `wait`: it keeps running; the other two: its `post_stop` is gated — must
//!                            report the timeout, not before `d`, with no effect of a timed-out `wait`; oracle only)
//!   `xchildren <i> kind=stop|drain n=<k>` | `ret=<0|1> kids=<st,…> parent=<st>`
//!                            (free-running: `stop_children_and_wait` / `drain_children_and_wait` return only when every
//!                            child is fully stopped, the parent keeps running; oracle only)
//!
//!   children wrappers (E-LTS, quiescent points of the controller's paused runtime; k named, pg-joined children under one
//!   supervisor, handlers gated so that a child can sit in a handler):
//!   `wcase <kind> t=<0|1> <s0,s1,…>` | `ok kids=<st,…>`     kind = stop|drain (`stop_children_and_wait` / `drain_children_and_wait`),
//!                            t=1: with `Some(10 s)`; child states idle | busy | stopreq (busy + a racer's `stop()`) |
//!                            drainreq (busy + a racer's `drain()`) | dead (stopped before the call)
//!   `wrap`                  | `w=<done|pending> kids=<st,…> acc=<0|1,…>[ snap=<j:st:name:pid:pg:link:post:ev,…>]`
//!                            acc = the request of THIS call is accepted by child j; snap = taken by the wrapper task the moment
//!                            the wrapper returned, for every child of the `get_children()` snapshot
//!   `release <j>` / `kill <j>` / `advance` / `wend`   | `w=… kids=…[ snap=…]`
//!
//! usage: exitrace --seed S --cases N --out DIR [--enum-cap K] [--stress N] [--timeouts N] [--children N] [--stress-only 1] [--replay-ops f1,f2 [--only-replay 1]]

use std::future::Future;
use std::pin::Pin;
use std::sync::atomic::{AtomicBool, AtomicU64, Ordering};
use std::sync::{mpsc, Arc, Mutex};
use std::task::{Context, Poll, Waker};
use std::time::Duration;

use hutil::{Args, Log, Rng, Stats};
use ractor::verif::{self, ThreadCtl, ThreadPhase};
use ractor::thread_local::{ThreadLocalActor, ThreadLocalActorSpawner};
use ractor::{Actor, ActorCell, ActorProcessingErr, ActorRef, Message, SupervisionEvent};

static CASE_NO: AtomicU64 = AtomicU64::new(0);

/// budget of polls granted to each parked waiter once the exiter is done
const POST_POLLS: usize = 4;

// ------------------------------------------------------------------------------------------
// actors
// ------------------------------------------------------------------------------------------

enum TMsg {
    Boom,
}
impl Message for TMsg {}

/// Actor state whose destructor panics once (never while already unwinding) when `explode` is set:
/// for an unsupervised actor the terminal event carrying the state is dropped inside
/// `notify_supervisor`, i.e. in the middle of `ActorLifecycleGuard::cleanup`.
struct Explosive {
    explode: bool,
    dropped: Arc<AtomicBool>,
}
impl Drop for Explosive {
    fn drop(&mut self) {
        let first = !self.dropped.swap(true, Ordering::SeqCst);
        if self.explode && first && !std::thread::panicking() {
            panic!("state destructor fails");
        }
    }
}

struct Target {
    post: Arc<AtomicBool>,
    explode: bool,
}
impl Actor for Target {
    type Msg = TMsg;
    type State = Explosive;
    type Arguments = ();
    async fn pre_start(&self, _: ActorRef<TMsg>, _: ()) -> Result<Explosive, ActorProcessingErr> {
        Ok(Explosive { explode: self.explode, dropped: Arc::new(AtomicBool::new(false)) })
    }
    async fn handle(&self, _: ActorRef<TMsg>, m: TMsg, _: &mut Explosive) -> Result<(), ActorProcessingErr> {
        match m {
            TMsg::Boom => panic!("boom"),
        }
    }
    async fn post_stop(&self, _: ActorRef<TMsg>, _: &mut Explosive) -> Result<(), ActorProcessingErr> {
        verif::point("post_stop");
        self.post.store(true, Ordering::SeqCst);
        Ok(())
    }
}

/// The target as a thread-local actor (`ThreadLocalActorSpawner`, its own thread): the other spawn
/// flavour, whose join handle is the `spawn_local` handle handed back through the spawner.
#[derive(Default)]
struct LTarget;
impl ThreadLocalActor for LTarget {
    type Msg = TMsg;
    type State = Arc<AtomicBool>;
    type Arguments = Arc<AtomicBool>;
    async fn pre_start(&self, _: ActorRef<TMsg>, post: Arc<AtomicBool>) -> Result<Arc<AtomicBool>, ActorProcessingErr> {
        Ok(post)
    }
    async fn handle(&self, _: ActorRef<TMsg>, m: TMsg, _: &mut Arc<AtomicBool>) -> Result<(), ActorProcessingErr> {
        match m {
            TMsg::Boom => panic!("boom"),
        }
    }
    async fn post_stop(&self, _: ActorRef<TMsg>, post: &mut Arc<AtomicBool>) -> Result<(), ActorProcessingErr> {
        post.store(true, Ordering::SeqCst);
        Ok(())
    }
}

struct Child;
struct Unit;
impl Message for Unit {}
impl Actor for Child {
    type Msg = Unit;
    type State = ();
    type Arguments = ();
    async fn pre_start(&self, _: ActorRef<Unit>, _: ()) -> Result<(), ActorProcessingErr> {
        Ok(())
    }
}

struct Sup {
    events: Arc<Mutex<Vec<String>>>,
}
impl Actor for Sup {
    type Msg = Unit;
    type State = ();
    type Arguments = ();
    async fn pre_start(&self, _: ActorRef<Unit>, _: ()) -> Result<(), ActorProcessingErr> {
        Ok(())
    }
    async fn handle_supervisor_evt(&self, _: ActorRef<Unit>, e: SupervisionEvent, _: &mut ()) -> Result<(), ActorProcessingErr> {
        let s = match e {
            SupervisionEvent::ActorStarted(_) => "Started".to_string(),
            SupervisionEvent::ActorTerminated(_, _, r) => format!("Terminated:{}", r.unwrap_or_else(|| "-".into())),
            SupervisionEvent::ActorFailed(_, _) => "Failed".to_string(),
            _ => return Ok(()),
        };
        self.events.lock().unwrap().push(s);
        Ok(())
    }
}

// ------------------------------------------------------------------------------------------
// one case
// ------------------------------------------------------------------------------------------

#[derive(Clone, Copy, Debug, PartialEq)]
enum Choice {
    E,
    W(usize),
    Abandon(usize),
    /// drainer thread `i` executes `drain()`'s status `fetch_update`
    D(usize),
    /// a successor actor registers the (freed) name
    Succ,
    /// the timer of timed caller `i` fires
    Timeout(usize),
}

/// which call a waiter thread makes
#[derive(Clone, Copy, Debug, PartialEq)]
enum WKind {
    Wait,
    WaitT,
    StopWait,
    StopWaitT,
    KillWait,
    KillWaitT,
    DrainWait,
    DrainWaitT,
    Join,
}
impl WKind {
    const ALL: [WKind; 9] =
        [WKind::Wait, WKind::WaitT, WKind::StopWait, WKind::StopWaitT, WKind::KillWait, WKind::KillWaitT, WKind::DrainWait, WKind::DrainWaitT, WKind::Join];
    fn name(self) -> &'static str {
        match self {
            WKind::Wait => "wait",
            WKind::WaitT => "waitT",
            WKind::StopWait => "stop",
            WKind::StopWaitT => "stopT",
            WKind::KillWait => "kill",
            WKind::KillWaitT => "killT",
            WKind::DrainWait => "drain",
            WKind::DrainWaitT => "drainT",
            WKind::Join => "join",
        }
    }
    fn parse(s: &str) -> WKind {
        *WKind::ALL.iter().find(|k| k.name() == s).unwrap_or_else(|| panic!("unknown wait form {s}"))
    }
    fn timed(self) -> bool {
        matches!(self, WKind::WaitT | WKind::StopWaitT | WKind::KillWaitT | WKind::DrainWaitT)
    }
}

/// points that are steps of the model; every other point (tree.*, reg.*, pg.*, admission points)
/// is granted through immediately
fn is_model_point(p: &str) -> bool {
    matches!(
        p,
        "status.publish"
            | "status.unreg_pid"
            | "status.unreg_name"
            | "status.pg_demonitor"
            | "status.pg_leave"
            | "status.notify"
            | "notify.waiters"
            | "notify.one"
            | "post_stop"
            | "cleanup.terminate"
            | "cleanup.notify"
            | "cleanup.unlink"
            | "cleanup.stopped"
            | "wait.poll"
            | "wait.created"
            | "wait.checked"
            | "drain.status"
    )
}

/// exiter points before `cleanup.stopped`: they touch neither `Stopped` nor `Notify`
fn is_pre_stop_point(p: &str) -> bool {
    is_model_point(p)
        && !matches!(p, "cleanup.stopped" | "status.notify" | "notify.waiters" | "notify.one" | "wait.poll" | "wait.created" | "wait.checked" | "drain.status")
}

struct Env {
    crt: tokio::runtime::Runtime,
    log: Log,
    st: Stats,
}

struct View<'a> {
    /// exiter parked at this point (None = finished)
    exiter: Option<&'static str>,
    /// waiters parked: (index, point)
    waiters: &'a [(usize, &'static str)],
    /// drainer threads still parked at `drain.status`
    drainers: &'a [usize],
    /// the name is free and no successor has been started yet
    succ_possible: bool,
    /// timed callers whose timer may fire now (registered, parked at `wait.poll`)
    timeable: &'a [usize],
    steps: usize,
}

fn quiesce(rt: &tokio::runtime::Runtime) {
    rt.block_on(async { tokio::time::sleep(Duration::from_millis(1)).await });
}

fn wait_model_point(ctl: &Arc<ThreadCtl>) -> ThreadPhase {
    loop {
        let ph = ctl.wait_parked_timeout(Duration::from_secs(20)).expect("thread neither parked nor done after 20 s");
        match ph {
            ThreadPhase::AtPoint(p) if !is_model_point(p) => ctl.grant(),
            other => return other,
        }
    }
}

fn at(p: &ThreadPhase) -> &'static str {
    match p {
        ThreadPhase::AtPoint(n) => n,
        _ => "done",
    }
}

fn run_case(env: &mut Env, cause: &str, kinds: &[WKind], ndrain: usize, collapse_pre: bool, choose: &mut dyn FnMut(&View) -> Choice) {
    let n = kinds.len();
    let case_no = CASE_NO.fetch_add(1, Ordering::SeqCst);
    let t0 = std::time::Instant::now();
    let prof = std::env::var("PROF").is_ok();
    let name = format!("c06-target-{case_no}");
    let group = format!("c06-group-{case_no}");
    let mgroup = format!("c06-mon-{case_no}");
    let events = Arc::new(Mutex::new(Vec::new()));
    let post = Arc::new(AtomicBool::new(false));

    let sup_ref = env.crt.block_on(async { Actor::spawn(None, Sup { events: events.clone() }, ()).await.expect("spawn sup").0 });
    let sup_cell = sup_ref.get_cell();

    // the exiter thread owns the runtime that polls the target actor's task
    let ectl = ThreadCtl::new();
    // (the async-std build of this file only RUNS the free-running cases, `main` forces `--stress-only` there:
    // the cfg lines in this function just keep it compiling against that backend's join handle type)
    let (tx_cell, rx_cell) = mpsc::channel::<(ActorRef<TMsg>, ractor::concurrency::JoinHandle<()>)>();
    let (tx_go, rx_go) = mpsc::channel::<()>();
    let unsupervised = cause == "stoppanic";
    let exiter = {
        let ectl = ectl.clone();
        let post = post.clone();
        let name = name.clone();
        std::thread::spawn(move || {
            let rt = tokio::runtime::Builder::new_current_thread().enable_time().build().expect("exiter runtime");
            let (aref, handle) = rt.block_on(async {
                let (a, h) = if unsupervised {
                    Actor::spawn(Some(name), Target { post, explode: true }, ()).await.expect("spawn target")
                } else {
                    Actor::spawn_linked(Some(name), Target { post, explode: false }, (), sup_cell).await.expect("spawn target")
                };
                while a.get_status() != ractor::ActorStatus::Running {
                    tokio::task::yield_now().await;
                }
                (a, h)
            });
            // the join handle goes to the controller (a `join` waiter polls it by hand); this thread
            // drives the runtime until the actor's task has completed
            #[cfg(not(feature = "async-std"))]
            let finished = handle.abort_handle();
            tx_cell.send((aref, handle)).unwrap();
            rx_go.recv().unwrap();
            verif::thread_register(ectl.clone());
            #[cfg(not(feature = "async-std"))]
            rt.block_on(async {
                while !finished.is_finished() {
                    tokio::task::yield_now().await;
                }
            });
            verif::thread_unregister();
            ectl.finish();
        })
    };
    let (aref, join_handle) = rx_cell.recv().expect("target actor");
    #[cfg(not(feature = "async-std"))]
    let aborter = join_handle.abort_handle();
    let mut join_handle = Some(join_handle);
    if prof { eprintln!("spawned {:?}", t0.elapsed()); }
    let cell: ActorCell = aref.get_cell();
    let id = cell.get_id();
    ractor::pg::join(group.clone(), vec![cell.clone()]);
    ractor::pg::monitor(mgroup.clone(), cell.clone());
    let child = env.crt.block_on(async { Actor::spawn_linked(None, Child, (), cell.clone()).await.expect("spawn child").0 });
    quiesce(&env.crt);
    tx_go.send(()).unwrap();

    // waiters: futures polled by hand, one OS thread each
    let mut wctls = Vec::new();
    let mut wjoins = Vec::new();
    let mut abandon_flags = Vec::new();
    let mut fire_flags = Vec::new();
    let results: Arc<Mutex<Vec<Option<&'static str>>>> = Arc::new(Mutex::new(vec![None; n]));
    for i in 0..n {
        let ctl = ThreadCtl::new();
        let flag = Arc::new(AtomicBool::new(false));
        let fire = Arc::new(AtomicBool::new(false));
        let c2 = ctl.clone();
        let f2 = flag.clone();
        let fire2 = fire.clone();
        let cell2 = cell.clone();
        let res = results.clone();
        let kind = kinds[i];
        let jh = if kind == WKind::Join { Some(join_handle.take().expect("only one join-handle waiter per case")) } else { None };
        wjoins.push(std::thread::spawn(move || {
            verif::thread_register(c2.clone());
            // a timed call needs a timer: an own paused runtime, entered but never run — the call's
            // future is polled by hand; the clock moves only when the controller fires the timer
            let rt = if kind.timed() {
                Some(tokio::runtime::Builder::new_current_thread().enable_time().start_paused(true).build().expect("waiter runtime"))
            } else {
                None
            };
            let guard = rt.as_ref().map(|r| r.enter());
            let to = if kind.timed() { Some(Duration::from_secs(1)) } else { None };
            fn res3<T>(r: Result<(), ractor::RactorErr<T>>) -> &'static str {
                match r {
                    Ok(()) => "r",
                    Err(ractor::RactorErr::Timeout) => "t",
                    Err(_) => "e",
                }
            }
            let mut fut: Pin<Box<dyn Future<Output = &'static str>>> = match kind {
                WKind::Wait | WKind::WaitT => Box::pin(async move {
                    match cell2.wait(to).await {
                        Ok(()) => "r",
                        Err(_) => "t",
                    }
                }),
                WKind::StopWait | WKind::StopWaitT => Box::pin(async move { res3(cell2.stop_and_wait(None, to).await) }),
                WKind::KillWait | WKind::KillWaitT => Box::pin(async move { res3(cell2.kill_and_wait(to).await) }),
                WKind::DrainWait | WKind::DrainWaitT => Box::pin(async move { res3(cell2.drain_and_wait(to).await) }),
                WKind::Join => {
                    let h = jh.expect("join handle");
                    Box::pin(async move {
                        match h.await {
                            Ok(()) => "r",
                            Err(_) => "e",
                        }
                    })
                }
            };
            let mut cx = Context::from_waker(Waker::noop());
            let r = loop {
                verif::point("wait.poll");
                if f2.load(Ordering::SeqCst) {
                    break "a";
                }
                if fire2.swap(false, Ordering::SeqCst) {
                    // the timer fires: advance the paused clock past the deadline; the next poll of the
                    // `Timeout` future polls the inner future once more and then the elapsed `Sleep`
                    rt.as_ref().expect("timed waiter").block_on(async { tokio::time::advance(Duration::from_secs(5)).await });
                }
                if let Poll::Ready(r) = fut.as_mut().poll(&mut cx) {
                    break r;
                }
            };
            drop(fut);
            drop(guard);
            drop(rt);
            res.lock().unwrap()[i] = Some(r);
            verif::thread_unregister();
            c2.finish();
        }));
        wctls.push(ctl);
        abandon_flags.push(flag);
        fire_flags.push(fire);
    }
    drop(join_handle);
    if prof { eprintln!("setup {:?}", t0.elapsed()); }
    let mut successor: Option<ActorRef<Unit>> = None;
    let mut wph: Vec<ThreadPhase> = wctls.iter().map(wait_model_point).collect();
    if prof { eprintln!("waiters parked {:?}", t0.elapsed()); }

    let fields = |env: &Env| -> String {
        quiesce(&env.crt);
        let ev = events.lock().unwrap();
        let (sp, kp) = cell.verif_ports_open();
        format!(
            "st={} name={} succ={} pid={} pg={} mon={} kids={} link={} sup={} post={} sp={} kp={}",
            cell.get_status() as u8,
            (ractor::registry::where_is(name.clone()).map(|c| c.get_id()) == Some(id)) as u8,
            ractor::registry::where_is(name.clone()).is_some_and(|c| c.get_id() != id) as u8,
            ractor::registry::where_is_pid(id).is_some() as u8,
            ractor::pg::get_members(&group).iter().any(|c| c.get_id() == id) as u8,
            ractor::pg::verif_monitoring(&mgroup, id).0 as u8,
            cell.verif_num_children(),
            cell.try_get_supervisor().is_some() as u8,
            ev.len(),
            post.load(Ordering::SeqCst) as u8,
            sp as u8,
            kp as u8
        )
    };

    // trigger the exit; the exiter thread then runs to its first point
    match cause {
        "stop" | "stoppanic" => cell.stop(None),
        "kill" => cell.kill(),
        "drain" => {
            let _ = cell.drain();
        }
        "panic" => {
            let _ = aref.send_message(TMsg::Boom);
        }
        // task cancellation: the future (and the port set) is dropped at its await point, the lifecycle
        // guard's `Drop` runs `cleanup` with the "actor_task_cancelled" event
        #[cfg(not(feature = "async-std"))]
        "abort" => aborter.abort(),
        _ => panic!("unknown cause {cause}"),
    }
    let mut eph = wait_model_point(&ectl);
    // drainers: each calls `drain()`; only its status `fetch_update` (`drain.status`) is a model step.
    // They are started after the trigger: their `fetch_or(CLOSED)` (passed through) must not keep the
    // triggering message out of the mailbox.
    let mut dctls = Vec::new();
    let mut djoins = Vec::new();
    for _ in 0..ndrain {
        let ctl = ThreadCtl::new();
        let c2 = ctl.clone();
        let cell2 = cell.clone();
        djoins.push(std::thread::spawn(move || {
            verif::thread_register(c2.clone());
            let _ = cell2.drain();
            verif::thread_unregister();
            c2.finish();
        }));
        dctls.push(ctl);
    }
    let mut dph: Vec<ThreadPhase> = dctls.iter().map(wait_model_point).collect();
    if prof { eprintln!("triggered {:?}", t0.elapsed()); }
    let f = fields(env);
    let forms = if kinds.iter().all(|k| *k == WKind::Wait) {
        String::new()
    } else {
        format!(" forms={}", kinds.iter().map(|k| k.name()).collect::<Vec<_>>().join(","))
    };
    env.log.rec(format!("case {cause} {n} {ndrain}{forms}"), format!("ok {f} at={}", at(&eph)));
    env.st.bump("cases");
    env.st.bump(&format!("cause_{cause}"));
    for k in kinds {
        env.st.bump(&format!("form_{}", k.name()));
    }
    // a kill accepted while a GRACEFUL exit is between `Stopping` and `post_stop` turns it into a killed
    // exit (post_stop skipped, children terminated by handle_signal): `Tid.kill` of the model
    // the caller has been polled past `wait.created` (its `Notified` is registered)
    let mut past_created = vec![false; n];

    let mut sig = String::new();
    let mut steps = 0usize;
    // polls granted to each waiter after the exiter finished
    let mut post_polls = vec![0usize; n];
    // a registered waiter that was polled and nothing has happened since (no exiter step, no
    // abandonment): polling it again cannot change anything, so it is not offered as a choice
    let mut stale = vec![false; n];
    macro_rules! step_e {
        () => {{
            let p = at(&eph);
            let t1 = std::time::Instant::now();
            ectl.grant();
            eph = wait_model_point(&ectl);
            let t2 = t1.elapsed();
            let f = fields(env);
            if prof { eprintln!("  e-step {p}: grant {:?} fields {:?}", t2, t1.elapsed() - t2); }
            env.log.rec(format!("step e {p}"), format!("{f} at={}", at(&eph)));
            env.st.bump(&format!("pt_{p}"));
            sig.push('e');
            steps += 1;
            stale.iter_mut().for_each(|x| *x = false);
        }};
    }
    loop {
        let ex = if matches!(eph, ThreadPhase::AtPoint(_)) { Some(at(&eph)) } else { None };
        // after the exiter has finished every waiter gets at most POST_POLLS more polls: a waiter
        // that is still pending then has lost its wake-up
        let ws: Vec<(usize, &'static str)> = wph
            .iter()
            .enumerate()
            .filter(|(i, p)| matches!(p, ThreadPhase::AtPoint(_)) && if ex.is_some() { !stale[*i] } else { post_polls[*i] < POST_POLLS })
            .map(|(i, p)| (i, at(p)))
            .collect();
        let timeable: Vec<usize> =
            ws.iter().filter(|(i, p)| kinds[*i].timed() && past_created[*i] && *p == "wait.poll").map(|(i, _)| *i).collect();
        let ds: Vec<usize> = dph.iter().enumerate().filter(|(_, p)| matches!(p, ThreadPhase::AtPoint(_))).map(|(i, _)| i).collect();
        let succ_possible = successor.is_none() && ractor::registry::where_is(name.clone()).is_none();
        if ex.is_none() && ws.is_empty() && ds.is_empty() {
            break;
        }
        match choose(&View { exiter: ex, waiters: &ws, drainers: &ds, succ_possible, timeable: &timeable, steps }) {
            Choice::D(i) => {
                assert!(ds.contains(&i), "schedule picks drainer {i} which is not parked");
                let p = at(&dph[i]);
                dctls[i].grant();
                dph[i] = wait_model_point(&dctls[i]);
                let f = fields(env);
                env.log.rec(format!("step d{i} {p}"), format!("{f} at={}", at(&dph[i])));
                env.st.bump("pt_drain.status");
                sig.push('d');
                steps += 1;
                stale.iter_mut().for_each(|x| *x = false);
            }
            Choice::Succ => {
                assert!(succ_possible, "the name is not free");
                let r = env.crt.block_on(async { Actor::spawn(Some(name.clone()), Child, ()).await });
                successor = r.ok().map(|x| x.0);
                let f = fields(env);
                env.log.rec("succ".to_string(), format!("{f} at={}", if successor.is_some() { "ok" } else { "refused" }));
                env.st.bump("successor");
                sig.push('s');
                steps += 1;
            }
            Choice::E => {
                assert!(ex.is_some(), "schedule picks the finished exiter");
                step_e!();
                if collapse_pre {
                    while is_pre_stop_point(at(&eph)) {
                        step_e!();
                    }
                }
            }
            Choice::W(i) => {
                assert!(ws.iter().any(|(k, _)| *k == i), "schedule picks waiter {i} which is not parked");
                let p = at(&wph[i]);
                if ex.is_none() {
                    post_polls[i] += 1;
                }
                if p == "wait.checked" {
                    past_created[i] = true;
                }
                wctls[i].grant();
                wph[i] = wait_model_point(&wctls[i]);
                stale[i] = at(&wph[i]) == "wait.poll" && (past_created[i] || kinds[i] == WKind::Join);
                let f = fields(env);
                let ret = if at(&wph[i]) == "done" {
                    let r = results.lock().unwrap()[i].unwrap_or("?");
                    let r = match r {
                        "r" => "ok",
                        "e" => "err",
                        "t" => "timeout",
                        o => o,
                    };
                    env.st.bump(&format!("ret_{}_{r}", kinds[i].name()));
                    if kinds[i] == WKind::Wait { " ret".to_string() } else { format!(" ret={r}") }
                } else {
                    String::new()
                };
                env.log.rec(format!("step w{i} {p}"), format!("{f} at={}{ret}", at(&wph[i])));
                env.st.bump(&format!("pt_{p}"));
                if !ret.is_empty() {
                    env.st.bump("waiter_returned");
                }
                sig.push_str(&i.to_string());
                steps += 1;
            }
            Choice::Abandon(i) => {
                assert!(ws.iter().any(|(k, p)| *k == i && *p == "wait.poll"), "cannot abandon waiter {i} here");
                abandon_flags[i].store(true, Ordering::SeqCst);
                wctls[i].grant();
                wph[i] = wait_model_point(&wctls[i]);
                let f = fields(env);
                env.log.rec(format!("abandon {i}"), format!("{f} at={}", at(&wph[i])));
                env.st.bump("abandon");
                stale.iter_mut().for_each(|x| *x = false);
                sig.push('x');
                sig.push_str(&i.to_string());
                steps += 1;
            }
            Choice::Timeout(i) => {
                assert!(timeable.contains(&i), "the timer of waiter {i} cannot fire here");
                fire_flags[i].store(true, Ordering::SeqCst);
                wctls[i].grant();
                wph[i] = wait_model_point(&wctls[i]);
                let f = fields(env);
                let r = match results.lock().unwrap()[i].unwrap_or("?") {
                    "r" => "ok",
                    "t" => "timeout",
                    "e" => "err",
                    o => o,
                };
                env.log.rec(format!("timeout {i}"), format!("{f} at={} ret={r}", at(&wph[i])));
                env.st.bump("timer_fired");
                env.st.bump(&format!("ret_{}_{r}", kinds[i].name()));
                stale.iter_mut().for_each(|x| *x = false);
                sig.push('t');
                sig.push_str(&i.to_string());
                steps += 1;
            }
        }
    }
    if prof { eprintln!("schedule done {:?}", t0.elapsed()); }
    // waiters still pending (lost wake-up): release them so that the threads can be joined
    let mut states = Vec::new();
    for i in 0..n {
        if matches!(wph[i], ThreadPhase::AtPoint(_)) {
            states.push("p");
            abandon_flags[i].store(true, Ordering::SeqCst);
            wctls[i].release();
        } else {
            states.push(results.lock().unwrap()[i].unwrap_or("?"));
        }
    }
    for (i, c) in dctls.iter().enumerate() {
        if matches!(dph[i], ThreadPhase::AtPoint(_)) {
            c.release();
        }
    }
    for j in djoins {
        j.join().expect("drainer panicked");
    }
    let f = fields(env);
    env.log.rec(format!("end {cause} {n} {sig}"), format!("{f} waiters={}", if states.is_empty() { "-".to_string() } else { states.join(",") }));
    env.st.add("steps", steps as u64);
    for j in wjoins {
        j.join().expect("waiter panicked");
    }
    exiter.join().expect("exiter panicked");
    if prof { eprintln!("joined {:?}", t0.elapsed()); }
    child.stop(None);
    sup_ref.stop(None);
    if let Some(su) = successor {
        su.stop(None);
    }
    quiesce(&env.crt);
    if prof { eprintln!("cleaned {:?}", t0.elapsed()); }
}

// ------------------------------------------------------------------------------------------
// schedule sources
// ------------------------------------------------------------------------------------------

#[derive(Default)]
struct Dfs {
    stack: Vec<(usize, usize)>,
    depth: usize,
}
impl Dfs {
    fn begin(&mut self) {
        self.depth = 0;
    }
    fn choose(&mut self, n: usize) -> usize {
        let c = if self.depth < self.stack.len() {
            assert_eq!(self.stack[self.depth].1, n, "implementation is not deterministic under the schedule");
            self.stack[self.depth].0
        } else {
            self.stack.push((0, n));
            0
        };
        self.depth += 1;
        c
    }
    fn advance(&mut self) -> bool {
        self.stack.truncate(self.depth);
        while let Some((c, n)) = self.stack.pop() {
            if c + 1 < n {
                self.stack.push((c + 1, n));
                return true;
            }
        }
        false
    }
}

fn choices(v: &View, abandon_allowed: bool, succ_allowed: bool, timeout_allowed: bool) -> Vec<Choice> {
    let mut c = Vec::new();
    if v.exiter.is_some() {
        c.push(Choice::E);
    }
    for i in v.drainers {
        c.push(Choice::D(*i));
    }
    if succ_allowed && v.succ_possible {
        c.push(Choice::Succ);
    }
    for (i, _) in v.waiters {
        c.push(Choice::W(*i));
    }
    if abandon_allowed {
        for (i, p) in v.waiters {
            if *p == "wait.poll" {
                c.push(Choice::Abandon(*i));
            }
        }
    }
    if timeout_allowed {
        for i in v.timeable {
            c.push(Choice::Timeout(*i));
        }
    }
    c
}

fn enumerate(env: &mut Env, name: &str, cause: &str, n: usize, ndrain: usize, collapse: bool, abandon: bool, succ: bool, cap: u64) {
    enumerate_forms(env, name, cause, &vec![WKind::Wait; n], ndrain, collapse, abandon, succ, cap)
}

/// every schedule (up to `cap`) of one configuration; timers of timed callers may fire at any
/// position (each at most once: the call is over afterwards)
#[allow(clippy::too_many_arguments)]
fn enumerate_forms(env: &mut Env, name: &str, cause: &str, kinds: &[WKind], ndrain: usize, collapse: bool, abandon: bool, succ: bool, cap: u64) {
    let mut dfs = Dfs::default();
    let mut count = 0u64;
    let complete = loop {
        dfs.begin();
        let mut used = false;
        run_case(env, cause, kinds, ndrain, collapse, &mut |v: &View| {
            let cs = choices(v, abandon && !used, succ, true);
            let k = dfs.choose(cs.len());
            if let Choice::Abandon(_) = cs[k] {
                used = true;
            }
            cs[k]
        });
        count += 1;
        if !dfs.advance() {
            break true;
        }
        if count >= cap {
            break false;
        }
    };
    env.st.add(&format!("enum_{name}_schedules"), count);
    env.st.add(&format!("enum_{name}_complete"), complete as u64);
}

fn random_case(env: &mut Env, rng: &mut Rng, cause: &str, kinds: &[WKind], ndrain: usize) {
    let mut r = rng.fork();
    let mode = r.below(4); // 0 uniform, 1 exiter-heavy, 2 waiter-heavy, 3 with abandons
    let collapse = r.chance(1, 3);
    let want_succ = r.chance(1, 2);
    run_case(env, cause, kinds, ndrain, collapse, &mut |v: &View| {
        if !v.timeable.is_empty() && r.chance(1, 8) {
            return Choice::Timeout(v.timeable[r.below(v.timeable.len() as u64) as usize]);
        }
        if mode == 3 && r.chance(1, 10) {
            let c: Vec<usize> = v.waiters.iter().filter(|(_, p)| *p == "wait.poll").map(|(i, _)| *i).collect();
            if !c.is_empty() {
                return Choice::Abandon(c[r.below(c.len() as u64) as usize]);
            }
        }
        if !v.drainers.is_empty() && (r.chance(1, 8) || (v.exiter.is_none() && v.waiters.is_empty())) {
            return Choice::D(v.drainers[r.below(v.drainers.len() as u64) as usize]);
        }
        if want_succ && v.succ_possible && r.chance(1, 4) {
            return Choice::Succ;
        }
        let pick_e = match mode {
            1 => r.chance(3, 4),
            2 => r.chance(1, 6),
            _ => r.chance(1, 2),
        };
        if v.exiter.is_some() && (pick_e || v.waiters.is_empty()) {
            Choice::E
        } else if !v.waiters.is_empty() {
            Choice::W(v.waiters[r.below(v.waiters.len() as u64) as usize].0)
        } else {
            Choice::D(v.drainers[0])
        }
    });
}

// ------------------------------------------------------------------------------------------
// free-running stress cases (no schedule points; judged by the oracle only)
// ------------------------------------------------------------------------------------------

/// Real tasks on a multi-threaded runtime call `wait`, `wait(timeout)`, `stop_and_wait`,
/// `kill_and_wait`, `drain_and_wait` or await the join handle while the actor exits; each takes a
/// snapshot the moment it completes.
fn stress_case(env: &mut Env, srt: &tokio::runtime::Runtime, spawner: &ThreadLocalActorSpawner, rng: &mut Rng, idx: u64) {
    let case_no = CASE_NO.fetch_add(1, Ordering::SeqCst);
    let name = format!("c06-target-{case_no}");
    let group = format!("c06-group-{case_no}");
    let mgroup = format!("c06-mon-{case_no}");
    let events = Arc::new(Mutex::new(Vec::new()));
    let post = Arc::new(AtomicBool::new(false));
    let cause = *rng.pick(&["stop", "stop", "kill", "drain", "panic"]);
    let n = rng.range(1, 6) as usize;
    let kinds: Vec<&'static str> =
        (0..n)
            .map(|_| {
                *rng.pick(&[
                    "wait",
                    "wait",
                    "wait_timeout",
                    "stop_and_wait",
                    "kill_and_wait",
                    "drain_and_wait",
                    "join",
                    "stop_and_wait_timeout",
                    "kill_and_wait_timeout",
                    "drain_and_wait_timeout",
                ])
            })
            .collect();
    // one case in three: the target is a thread-local actor on the spawner's thread
    let local = rng.chance(1, 3);
    let delays: Vec<u64> = (0..n).map(|_| rng.range(0, 3) * rng.range(0, 300)).collect();
    let trigger_delay = rng.range(0, 3) * rng.range(0, 300);
    let touts: Vec<u64> = (0..n).map(|_| rng.range(0, 3)).collect();
    // sometimes the exit is triggered late, so that short waits time out while the actor runs
    let trigger_sleep = if rng.chance(1, 3) { rng.range(1, 4) } else { 0 };

    let (sup_ref, aref, handle, child) = srt.block_on(async {
        let (sup_ref, _) = Actor::spawn(None, Sup { events: events.clone() }, ()).await.expect("spawn sup");
        let (aref, handle) = if local {
            LTarget::spawn_linked(Some(name.clone()), post.clone(), sup_ref.get_cell(), spawner.clone()).await.expect("spawn local target")
        } else {
            Actor::spawn_linked(Some(name.clone()), Target { post: post.clone(), explode: false }, (), sup_ref.get_cell()).await.expect("spawn target")
        };
        let cell = aref.get_cell();
        ractor::pg::join(group.clone(), vec![cell.clone()]);
        ractor::pg::monitor(mgroup.clone(), cell.clone());
        let (child, _) = Actor::spawn_linked(None, Child, (), cell.clone()).await.expect("spawn child");
        while aref.get_status() != ractor::ActorStatus::Running {
            tokio::task::yield_now().await;
        }
        (sup_ref, aref, handle, child)
    });
    let cell = aref.get_cell();
    let id = cell.get_id();
    let results: Vec<String> = srt.block_on(async {
        let handle = Arc::new(tokio::sync::Mutex::new(Some(handle)));
        let mut tasks = Vec::new();
        for i in 0..n {
            let cell = cell.clone();
            let kind = kinds[i];
            let delay = delays[i];
            let tout = touts[i];
            let (name, group, mgroup, post) = (name.clone(), group.clone(), mgroup.clone(), post.clone());
            let handle = handle.clone();
            tasks.push(tokio::spawn(async move {
                for _ in 0..delay {
                    tokio::task::yield_now().await;
                }
                let res = match kind {
                    "wait" => cell.wait(None).await.map_err(|_| "timeout"),
                    "wait_timeout" => cell.wait(Some(Duration::from_millis(tout))).await.map_err(|_| "timeout"),
                    "stop_and_wait" => cell.stop_and_wait(None, None).await.map_err(|_| "err"),
                    "kill_and_wait" => cell.kill_and_wait(None).await.map_err(|_| "err"),
                    "drain_and_wait" => cell.drain_and_wait(None).await.map_err(|_| "err"),
                    "stop_and_wait_timeout" => cell.stop_and_wait(None, Some(Duration::from_millis(tout))).await.map_err(|e| match e {
                        ractor::RactorErr::Timeout => "timeout",
                        _ => "err",
                    }),
                    "kill_and_wait_timeout" => cell.kill_and_wait(Some(Duration::from_millis(tout))).await.map_err(|e| match e {
                        ractor::RactorErr::Timeout => "timeout",
                        _ => "err",
                    }),
                    "drain_and_wait_timeout" => cell.drain_and_wait(Some(Duration::from_millis(tout))).await.map_err(|e| match e {
                        ractor::RactorErr::Timeout => "timeout",
                        _ => "err",
                    }),
                    _ => {
                        let h = handle.lock().await.take();
                        match h {
                            Some(h) => h.await.map_err(|_| "err"),
                            None => cell.wait(None).await.map_err(|_| "timeout"),
                        }
                    }
                };
                let snap = format!(
                    "{}:{}:{}:{}:{}:{}:{}:{}",
                    cell.get_status() as u8,
                    ractor::registry::where_is(name).is_some() as u8,
                    ractor::registry::where_is_pid(cell.get_id()).is_some() as u8,
                    ractor::pg::get_members(&group).iter().any(|c| c.get_id() == cell.get_id()) as u8,
                    ractor::pg::verif_monitoring(&mgroup, cell.get_id()).0 as u8,
                    cell.verif_num_children(),
                    cell.try_get_supervisor().is_some() as u8,
                    post.load(Ordering::SeqCst) as u8
                );
                format!("{kind}:{}:{snap}", res.map_or_else(|e| e, |_| "ok"))
            }));
        }
        for _ in 0..trigger_delay {
            tokio::task::yield_now().await;
        }
        if trigger_sleep > 0 {
            tokio::time::sleep(Duration::from_millis(trigger_sleep)).await;
        }
        match cause {
            "stop" => cell.stop(None),
            "kill" => cell.kill(),
            "drain" => {
                let _ = cell.drain();
            }
            _ => {
                let _ = aref.send_message(TMsg::Boom);
            }
        }
        let mut out = Vec::new();
        for (i, t) in tasks.into_iter().enumerate() {
            match tokio::time::timeout(Duration::from_secs(10), t).await {
                Ok(Ok(s)) => out.push(s),
                Ok(Err(_)) => out.push(format!("{}:panicked:-", kinds[i])),
                Err(_) => out.push(format!("{}:hung:-", kinds[i])),
            }
        }
        // give the supervisor a moment to work off its inbox
        for _ in 0..200 {
            if events.lock().unwrap().len() >= 2 {
                break;
            }
            tokio::time::sleep(Duration::from_millis(1)).await;
        }
        // … and the actor (possibly on another thread, and nobody may be waiting for it: every call can have
        // returned an error or a timeout) the time to publish `Stopped`, which follows the terminal event
        for _ in 0..5000 {
            if cell.get_status() == ractor::ActorStatus::Stopped {
                break;
            }
            tokio::time::sleep(Duration::from_millis(1)).await;
        }
        out
    });
    let _ = id;
    env.log.rec(
        format!("xstress {idx} cause={cause} n={n}{}", if local { " flavour=local" } else { "" }),
        format!("w={} sup={} st={}", results.join(","), events.lock().unwrap().join(","), cell.get_status() as u8),
    );
    env.st.bump("stress_cases");
    if local {
        env.st.bump("stress_thread_local_target");
    }
    for r in &results {
        env.st.bump(&format!("stress_{}", r.split(':').take(2).collect::<Vec<_>>().join("_")));
    }
    child.stop(None);
    sup_ref.stop(None);
    srt.block_on(async { tokio::time::sleep(Duration::from_millis(1)).await });
}

// ------------------------------------------------------------------------------------------
// children wrappers: stop_children_and_wait / drain_children_and_wait (quiescent points)
// ------------------------------------------------------------------------------------------

enum WMsg {
    Block,
}
impl Message for WMsg {}

struct WChild {
    post: Arc<AtomicBool>,
    gate: Arc<tokio::sync::Semaphore>,
}
impl Actor for WChild {
    type Msg = WMsg;
    type State = ();
    type Arguments = ();
    async fn pre_start(&self, _: ActorRef<WMsg>, _: ()) -> Result<(), ActorProcessingErr> {
        Ok(())
    }
    async fn handle(&self, _: ActorRef<WMsg>, m: WMsg, _: &mut ()) -> Result<(), ActorProcessingErr> {
        match m {
            WMsg::Block => {
                if let Ok(p) = self.gate.acquire().await {
                    p.forget();
                }
            }
        }
        Ok(())
    }
    async fn post_stop(&self, _: ActorRef<WMsg>, _: &mut ()) -> Result<(), ActorProcessingErr> {
        self.post.store(true, Ordering::SeqCst);
        Ok(())
    }
}

#[derive(Clone, Debug, PartialEq)]
enum WOp {
    Wrap,
    Release(usize),
    Kill(usize),
    Advance,
}

fn wrapper_case(env: &mut Env, kind: &str, timed: bool, states: &[String], script: &[WOp]) {
    let case_no = CASE_NO.fetch_add(1, Ordering::SeqCst);
    let k = states.len();
    let events = Arc::new(Mutex::new(Vec::new()));
    let group = format!("c06w-group-{case_no}");
    let sup_ref = env.crt.block_on(async { Actor::spawn(None, Sup { events: events.clone() }, ()).await.expect("spawn sup").0 });
    let sup = sup_ref.get_cell();
    let mut kids: Vec<ActorRef<WMsg>> = Vec::new();
    let mut posts = Vec::new();
    let mut gates = Vec::new();
    let mut names = Vec::new();
    for j in 0..k {
        let post = Arc::new(AtomicBool::new(false));
        let gate = Arc::new(tokio::sync::Semaphore::new(0));
        let name = format!("c06w-{case_no}-{j}");
        let (c, _) = env.crt.block_on(async {
            Actor::spawn_linked(Some(name.clone()), WChild { post: post.clone(), gate: gate.clone() }, (), sup.clone()).await.expect("spawn child")
        });
        ractor::pg::join(group.clone(), vec![c.get_cell()]);
        kids.push(c);
        posts.push(post);
        gates.push(gate);
        names.push(name);
    }
    quiesce(&env.crt);
    for (j, st) in states.iter().enumerate() {
        match st.as_str() {
            "idle" => {}
            "busy" | "stopreq" | "drainreq" => {
                let _ = kids[j].send_message(WMsg::Block);
                quiesce(&env.crt);
                if st == "stopreq" {
                    kids[j].stop(None);
                } else if st == "drainreq" {
                    let _ = kids[j].drain();
                }
            }
            "dead" => kids[j].stop(None),
            o => panic!("unknown child state {o}"),
        }
        quiesce(&env.crt);
    }
    let _ = verif::take_notes();
    let statuses = |env: &Env| -> String {
        quiesce(&env.crt);
        kids.iter().map(|c| (c.get_status() as u8).to_string()).collect::<Vec<_>>().join(",")
    };
    let st0 = statuses(env);
    env.log.rec(format!("wcase {kind} t={} {}", timed as u8, states.join(",")), format!("ok kids={st0}"));
    env.st.bump("wrapper_cases");
    env.st.bump(&format!("wrapper_{kind}"));
    for s in states {
        env.st.bump(&format!("wchild_{s}"));
    }

    let mut task: Option<tokio::task::JoinHandle<String>> = None;
    let mut finished: Option<String> = None;
    let mut reported = false;
    let mut acc = String::from("-");
    let mut full: Vec<WOp> = script.to_vec();
    // close the case: let every child go, then look once more
    for j in 0..k {
        full.push(WOp::Release(j));
    }
    let nscript = script.len();
    for (n, op) in full.iter().enumerate() {
        let opname = match op {
            WOp::Wrap => {
                if task.is_some() {
                    continue;
                }
                // the children of the snapshot `get_children()` will take, and whether each accepts this call's request
                let snap_ids: Vec<ractor::ActorId> = sup.get_children().iter().map(|c| c.get_id()).collect();
                acc = kids
                    .iter()
                    .map(|c| {
                        let inside = snap_ids.contains(&c.get_id());
                        let a = inside && if kind == "stop" { c.verif_ports_open().0 } else { true };
                        (a as u8).to_string()
                    })
                    .collect::<Vec<_>>()
                    .join(",");
                let sup2 = sup.clone();
                let kids2: Vec<ActorCell> = kids.iter().map(|c| c.get_cell()).collect();
                let (names2, posts2, group2) = (names.clone(), posts.clone(), group.clone());
                let to = if timed { Some(Duration::from_secs(10)) } else { None };
                let kind2 = kind.to_string();
                task = Some(env.crt.spawn(async move {
                    if kind2 == "stop" {
                        sup2.stop_children_and_wait(None, to).await;
                    } else {
                        sup2.drain_children_and_wait(to).await;
                    }
                    // the moment the wrapper returned (nothing else runs in between on this runtime)
                    let notes = verif::take_notes();
                    let mut out = Vec::new();
                    for (j, c) in kids2.iter().enumerate() {
                        if !snap_ids.contains(&c.get_id()) {
                            continue;
                        }
                        let ev = notes.iter().any(|n| matches!(n, verif::Note::Sup(s) if s.who == Some(c.get_id()) && (s.kind == "Terminated" || s.kind == "Failed")));
                        out.push(format!(
                            "{j}:{}:{}:{}:{}:{}:{}:{}",
                            c.get_status() as u8,
                            ractor::registry::where_is(names2[j].clone()).is_some() as u8,
                            ractor::registry::where_is_pid(c.get_id()).is_some() as u8,
                            ractor::pg::get_members(&group2).iter().any(|m| m.get_id() == c.get_id()) as u8,
                            c.try_get_supervisor().is_some() as u8,
                            posts2[j].load(Ordering::SeqCst) as u8,
                            ev as u8
                        ));
                    }
                    if out.is_empty() { "-".to_string() } else { out.join(",") }
                }));
                "wrap".to_string()
            }
            WOp::Release(j) => {
                gates[*j].add_permits(1);
                if n >= nscript { format!("release {j}") } else { format!("release {j}") }
            }
            WOp::Kill(j) => {
                kids[*j].kill();
                format!("kill {j}")
            }
            WOp::Advance => {
                env.crt.block_on(async { tokio::time::sleep(Duration::from_secs(20)).await });
                "advance".to_string()
            }
        };
        let st = statuses(env);
        if finished.is_none() {
            if let Some(t) = &task {
                if t.is_finished() {
                    let t = task.take().unwrap();
                    finished = Some(env.crt.block_on(t).unwrap_or_else(|_| "panicked".to_string()));
                    task = None;
                }
            }
        }
        let w = if finished.is_some() { "done" } else if task.is_some() { "pending" } else { "-" };
        let snap = match (&finished, reported) {
            (Some(s), false) => {
                reported = true;
                format!(" snap={s}")
            }
            _ => String::new(),
        };
        env.log.rec(opname, format!("w={w} kids={st} acc={acc}{snap}"));
        env.st.bump("wrapper_ops");
    }
    let st = statuses(env);
    let w = if finished.is_some() { "done" } else if task.is_some() { "pending" } else { "-" };
    env.log.rec("wend".to_string(), format!("w={w} kids={st} acc={acc}"));
    if let Some(t) = task {
        t.abort();
    }
    for c in &kids {
        c.kill();
    }
    sup_ref.stop(None);
    quiesce(&env.crt);
    let _ = verif::take_notes();
}

fn random_wrapper_case(env: &mut Env, rng: &mut Rng) {
    let mut r = rng.fork();
    let kind = *r.pick(&["stop", "stop", "drain"]);
    let timed = r.chance(1, 2);
    let k = r.range(1, 4) as usize;
    let states: Vec<String> = (0..k).map(|_| r.pick(&["idle", "busy", "busy", "stopreq", "drainreq", "dead"]).to_string()).collect();
    let mut script = Vec::new();
    // sometimes a child is let go before the call
    if r.chance(1, 4) {
        script.push(WOp::Release(r.below(k as u64) as usize));
    }
    script.push(WOp::Wrap);
    let n = r.range(0, 4);
    for _ in 0..n {
        let j = r.below(k as u64) as usize;
        script.push(match r.below(6) {
            0 => WOp::Kill(j),
            1 if timed => WOp::Advance,
            _ => WOp::Release(j),
        });
    }
    wrapper_case(env, kind, timed, &states, &script);
}

fn parse_wcase(head: &[&str], body: &[&str]) -> (String, bool, Vec<String>, Vec<WOp>) {
    let kind = head[1].to_string();
    let timed = head[2] == "t=1";
    let states: Vec<String> = head[3].split(',').map(|s| s.to_string()).collect();
    let mut script = Vec::new();
    for l in body {
        let w: Vec<&str> = l.split_whitespace().collect();
        match w.as_slice() {
            ["wrap"] => script.push(WOp::Wrap),
            ["release", j] => script.push(WOp::Release(j.parse().expect("child"))),
            ["kill", j] => script.push(WOp::Kill(j.parse().expect("child"))),
            ["advance"] => script.push(WOp::Advance),
            _ => {}
        }
    }
    // the closing releases are appended by `wrapper_case` itself
    let k = states.len();
    let tail: Vec<WOp> = (0..k).map(WOp::Release).collect();
    if script.len() >= k && script[script.len() - k..] == tail[..] {
        script.truncate(script.len() - k);
    }
    (kind, timed, states, script)
}

// ------------------------------------------------------------------------------------------
// free-running real-clock cases (agent asyncstd): xtimeout, xchildren — both backends, oracle only
// ------------------------------------------------------------------------------------------

/// Target of the timeout cases: `post_stop` waits until the harness opens the gate.
struct Gated {
    gate: Arc<tokio::sync::Semaphore>,
}
impl Actor for Gated {
    type Msg = Unit;
    type State = ();
    type Arguments = ();
    async fn pre_start(&self, _: ActorRef<Unit>, _: ()) -> Result<(), ActorProcessingErr> {
        Ok(())
    }
    async fn post_stop(&self, _: ActorRef<Unit>, _: &mut ()) -> Result<(), ActorProcessingErr> {
        let _ = self.gate.acquire().await;
        Ok(())
    }
}

/// `wait(Some(d))` on a running actor, `stop_and_wait(_, Some(d))` / `drain_and_wait(Some(d))` on an actor whose
/// `post_stop` is gated: the call cannot succeed before the harness lets the actor finish, so it must time out —
/// measured on the real clock. Afterwards the actor is let go and must stop normally (one terminal event).
fn timeout_case(env: &mut Env, srt: &tokio::runtime::Runtime, rng: &mut Rng, idx: u64) {
    let events = Arc::new(Mutex::new(Vec::new()));
    let kind = *rng.pick(&["wait", "wait", "stop_and_wait", "drain_and_wait"]);
    let d_us = *rng.pick(&[0u64, 500, 1_000, 2_000, 5_000, 10_000, 20_000]);
    let gate = Arc::new(tokio::sync::Semaphore::new(0));
    let obs = srt.block_on(async {
        let (sup_ref, _) = Actor::spawn(None, Sup { events: events.clone() }, ()).await.expect("spawn sup");
        let (aref, _h) = Actor::spawn_linked(None, Gated { gate: gate.clone() }, (), sup_ref.get_cell()).await.expect("spawn gated");
        let cell = aref.get_cell();
        while aref.get_status() != ractor::ActorStatus::Running {
            tokio::task::yield_now().await;
        }
        let d = Duration::from_micros(d_us);
        let t0 = std::time::Instant::now();
        let res = match kind {
            "wait" => match cell.wait(Some(d)).await {
                Ok(()) => "ok",
                Err(_) => "timeout",
            },
            "stop_and_wait" => match cell.stop_and_wait(None, Some(d)).await {
                Ok(()) => "ok",
                Err(ractor::RactorErr::Timeout) => "timeout",
                Err(_) => "err",
            },
            _ => match cell.drain_and_wait(Some(d)).await {
                Ok(()) => "ok",
                Err(ractor::RactorErr::Timeout) => "timeout",
                Err(_) => "err",
            },
        };
        let el = t0.elapsed().as_micros() as u64;
        let st = cell.get_status() as u8;
        let ev = events.lock().unwrap().iter().filter(|e| e.as_str() != "Started").count();
        // let the actor go: event-driven from here on
        gate.add_permits(8);
        if kind == "wait" {
            cell.stop(None);
        }
        let fin_ok = tokio::time::timeout(Duration::from_secs(10), cell.wait(None)).await.is_ok();
        for _ in 0..2000 {
            if events.lock().unwrap().iter().any(|e| e.starts_with("Terminated") || e == "Failed") {
                break;
            }
            tokio::time::sleep(Duration::from_millis(1)).await;
        }
        let term = events.lock().unwrap().iter().filter(|e| e.starts_with("Terminated") || e.as_str() == "Failed").count();
        let fin = if fin_ok { cell.get_status() as u8 } else { 255 };
        sup_ref.stop(None);
        format!("res={res} el={el} st={st} ev={ev} fin={fin} term={term}")
    });
    env.log.rec(format!("xtimeout {idx} kind={kind} d={d_us}"), obs.clone());
    env.st.bump("timeout_cases");
    env.st.bump(&format!("timeout_{kind}_{}", obs.split(' ').next().unwrap_or("?")));
}

/// `stop_children_and_wait` / `drain_children_and_wait` on a running parent with `n` running children whose
/// `post_stop` is gated; another task opens the gate after a few yields. When the call returns every child must be
/// fully stopped and the parent untouched. (With the async-std backend the per-child waits are polled inline by the
/// caller through the backend's `JoinSet` wrapper, with tokio they are a `tokio::task::JoinSet`.)
fn children_case(env: &mut Env, srt: &tokio::runtime::Runtime, rng: &mut Rng, idx: u64) {
    let kind = *rng.pick(&["stop", "drain"]);
    let n = rng.range(1, 4) as usize;
    let open_after = rng.range(0, 3) * rng.range(0, 200);
    let gate = Arc::new(tokio::sync::Semaphore::new(0));
    let obs = srt.block_on(async {
        // (`Sup` overrides the default supervision policy, which would stop the parent with its first child)
        let (parent, _) = Actor::spawn(None, Sup { events: Arc::new(Mutex::new(Vec::new())) }, ()).await.expect("spawn parent");
        // (`spawn` returns after `pre_start`; the loop task sets `Running` after `post_start`)
        while parent.get_status() != ractor::ActorStatus::Running {
            tokio::task::yield_now().await;
        }
        let mut kids = Vec::new();
        for _ in 0..n {
            let (k, _) = Actor::spawn_linked(None, Gated { gate: gate.clone() }, (), parent.get_cell()).await.expect("spawn kid");
            kids.push(k);
        }
        for k in &kids {
            while k.get_status() != ractor::ActorStatus::Running {
                tokio::task::yield_now().await;
            }
        }
        let g2 = gate.clone();
        let opener = tokio::spawn(async move {
            for _ in 0..open_after {
                tokio::task::yield_now().await;
            }
            g2.add_permits(64);
        });
        let cell = parent.get_cell();
        let fut = async {
            match kind {
                "stop" => cell.stop_children_and_wait(None, None).await,
                _ => cell.drain_children_and_wait(None).await,
            }
        };
        let returned = tokio::time::timeout(Duration::from_secs(10), fut).await.is_ok();
        let sts: Vec<String> = kids.iter().map(|k| (k.get_status() as u8).to_string()).collect();
        let pst = parent.get_status() as u8;
        let _ = opener.await;
        gate.add_permits(64);
        parent.stop(None);
        format!("ret={} kids={} parent={pst}", returned as u8, sts.join(","))
    });
    env.log.rec(format!("xchildren {idx} kind={kind} n={n}"), obs);
    env.st.bump("children_cases");
    env.st.bump(&format!("children_{kind}"));
}

fn replay_file(env: &mut Env, path: &str) {
    let txt = std::fs::read_to_string(path).unwrap_or_else(|e| panic!("cannot read {path}: {e}"));
    let lines: Vec<&str> = txt.lines().collect();
    let mut i = 0;
    while i < lines.len() {
        let w: Vec<&str> = lines[i].split_whitespace().collect();
        if w.first() == Some(&"wcase") && w.len() == 4 {
            let mut j = i + 1;
            while j < lines.len() && !lines[j].starts_with("case ") && !lines[j].starts_with("wcase ") && !lines[j].starts_with("xstress ") {
                j += 1;
            }
            let (kind, timed, states, script) = parse_wcase(&w, &lines[i + 1..j]);
            wrapper_case(env, &kind, timed, &states, &script);
            env.st.bump("replayed_cases");
            i = j;
            continue;
        }
        let (cause, n, ndrain, forms) = match w.as_slice() {
            ["case", c, n] => (c.to_string(), n.parse::<usize>().expect("n"), 0, None),
            ["case", c, n, d] => (c.to_string(), n.parse::<usize>().expect("n"), d.parse::<usize>().expect("d"), None),
            ["case", c, n, d, f] => (c.to_string(), n.parse::<usize>().expect("n"), d.parse::<usize>().expect("d"), f.strip_prefix("forms=")),
            _ => {
                i += 1;
                continue;
            }
        };
        let kinds: Vec<WKind> = match forms {
            Some(f) => f.split(',').map(WKind::parse).collect(),
            None => vec![WKind::Wait; n],
        };
        assert_eq!(kinds.len(), n, "forms= must list one form per waiter");
        let mut sched = Vec::new();
        i += 1;
        while i < lines.len() && !lines[i].starts_with("case ") && !lines[i].starts_with("wcase ") {
            let w: Vec<&str> = lines[i].split_whitespace().collect();
            match w.as_slice() {
                ["step", "e", ..] => sched.push(Choice::E),
                ["step", t, ..] if t.starts_with('w') => sched.push(Choice::W(t[1..].parse().expect("waiter"))),
                ["step", t, ..] if t.starts_with('d') => sched.push(Choice::D(t[1..].parse().expect("drainer"))),
                ["succ"] => sched.push(Choice::Succ),
                ["abandon", t] => sched.push(Choice::Abandon(t.parse().expect("waiter"))),
                ["timeout", t] => sched.push(Choice::Timeout(t.parse().expect("waiter"))),
                _ => {}
            }
            i += 1;
        }
        let mut k = 0;
        let mut extra = 0usize;
        run_case(env, &cause, &kinds, ndrain, false, &mut |v: &View| {
            while k < sched.len() {
                let c = sched[k];
                k += 1;
                let ok = match c {
                    Choice::E => v.exiter.is_some(),
                    Choice::W(t) => v.waiters.iter().any(|(e, _)| *e == t),
                    Choice::Abandon(t) => v.waiters.iter().any(|(e, p)| *e == t && *p == "wait.poll"),
                    Choice::D(t) => v.drainers.contains(&t),
                    Choice::Succ => v.succ_possible,
                    Choice::Timeout(t) => v.timeable.contains(&t),
                };
                if ok {
                    return c;
                }
            }
            // recorded schedule exhausted: finish the exiter, then give each waiter its polls
            if v.exiter.is_some() {
                return Choice::E;
            }
            if let Some(d) = v.drainers.first() {
                return Choice::D(*d);
            }
            extra += 1;
            let _ = v.steps;
            Choice::W(v.waiters[extra % v.waiters.len()].0)
        });
        let _ = n;
        env.st.bump("replayed_cases");
    }
}

fn main() {
    let args = Args::parse();
    let seed = args.u64("seed", 1);
    let cases = args.u64("cases", 200);
    let out = args.str("out", "/tmp/exitrace");
    let enum_cap = args.u64("enum-cap", 1000);
    let crt = tokio::runtime::Builder::new_current_thread().enable_time().start_paused(true).build().expect("runtime");
    let mut env = Env { crt, log: Log::create(std::path::Path::new(&out)).unwrap(), st: Stats::default() };
    let mut rng = Rng::new(seed);
    // panics of the test handler are expected (cause = panic): keep stderr quiet
    // (a panic of the harness itself, on the controller thread, is still reported)
    std::panic::set_hook(Box::new(|info| {
        if std::thread::current().name() == Some("main") {
            eprintln!("exitrace harness: {info}");
        }
    }));

    if let Some(files) = args.0.get("replay-ops") {
        for f in files.split(',').filter(|f| !f.is_empty()) {
            replay_file(&mut env, f);
        }
    }
    // `--stress-only 1`: only the free-running cases (the schedule-point engine needs the actor's task on a
    // registered OS thread, which only the tokio backend's per-thread runtime gives)
    let stress_only = args.u64("stress-only", 0) != 0 || cfg!(feature = "async-std");
    if args.u64("only-replay", 0) == 0 && !stress_only {
        // every schedule of small configurations
        // a late `drain()` at every position of the exit sequence, a successor taking the freed name
        // at every position after it was freed
        enumerate(&mut env, "stop_1drain_succ_full", "stop", 0, 1, false, false, true, enum_cap);
        // one statement of the lifecycle guard's cleanup panics (state destructor, unsupervised actor)
        enumerate(&mut env, "stoppanic_1drain_full", "stoppanic", 0, 1, false, false, true, enum_cap);
        enumerate(&mut env, "stop_1w_full", "stop", 1, 0, false, false, false, enum_cap);
        enumerate(&mut env, "stop_2w_collapsed", "stop", 2, 0, true, false, false, enum_cap);
        enumerate(&mut env, "kill_2w_collapsed", "kill", 2, 0, true, false, false, enum_cap);
        enumerate(&mut env, "stop_2w_abandon", "stop", 2, 0, true, true, false, enum_cap);
        enumerate(&mut env, "stoppanic_2w_collapsed", "stoppanic", 2, 0, true, false, false, enum_cap);
        // every wait form against the exit, the timer of a timed call firing at any position
        let forms_cap = args.u64("forms-cap", enum_cap);
        use WKind::*;
        let form_cfgs: [(&str, &str, &[WKind], bool); 14] = [
            ("kill_stopT_full", "kill", &[StopWaitT], false),
            ("stop_killT_full", "stop", &[KillWaitT], false),
            ("stop_drainT_full", "stop", &[DrainWaitT], false),
            ("kill_drain_full", "kill", &[DrainWait], false),
            ("stop_join_full", "stop", &[Join], false),
            ("stop_waitT_full", "stop", &[WaitT], false),
            ("panic_stop_full", "panic", &[StopWait], false),
            ("drain_stopT_wait", "drain", &[StopWaitT, Wait], true),
            ("kill_join_killT", "kill", &[Join, KillWaitT], true),
            ("stop_stop_waitT", "stop", &[StopWait, WaitT], true),
            ("stoppanic_join_drainT", "stoppanic", &[Join, DrainWaitT], true),
            ("drain_drain_kill", "drain", &[DrainWait, KillWait], true),
            ("abort_join_wait", "abort", &[Join, Wait], true),
            ("abort_stopT_full", "abort", &[StopWaitT], false),
        ];
        for (name, cause, kinds, collapse) in form_cfgs {
            enumerate_forms(&mut env, name, cause, kinds, 0, collapse, false, false, forms_cap);
        }
        let causes = ["stop", "stop", "kill", "drain", "panic", "stoppanic", "abort"];
        for _ in 0..cases {
            let cause = *rng.pick(&causes);
            let n = rng.range(0, 4) as usize;
            let ndrain = *rng.pick(&[0usize, 0, 1, 1, 2]);
            // half of the random cases: every waiter makes a random call (at most one join handle)
            let mut kinds = vec![Wait; n];
            if rng.chance(1, 2) {
                let mut have_join = false;
                for k in kinds.iter_mut() {
                    let mut c = *rng.pick(&WKind::ALL);
                    if c == Join && have_join {
                        c = Wait;
                    }
                    have_join |= c == Join;
                    *k = c;
                }
            }
            random_case(&mut env, &mut rng, cause, &kinds, ndrain);
        }
    }
    let wrappers = args.u64("wrappers", 0);
    if wrappers > 0 && args.u64("only-replay", 0) == 0 {
        let sv = |l: &[&str]| -> Vec<String> { l.iter().map(|s| s.to_string()).collect() };
        use WOp::*;
        // children in every state under one call; the refused child is still running when the wrapper returns
        wrapper_case(&mut env, "stop", false, &sv(&["idle", "busy", "stopreq", "drainreq", "dead"]), &[Wrap, Release(1), Release(3), Release(2)]);
        wrapper_case(&mut env, "stop", false, &sv(&["stopreq"]), &[Wrap]);
        wrapper_case(&mut env, "drain", false, &sv(&["idle", "busy", "stopreq", "drainreq", "dead"]), &[Wrap, Release(3), Release(1), Release(2)]);
        wrapper_case(&mut env, "stop", true, &sv(&["busy", "idle", "drainreq"]), &[Wrap, Advance, Release(0)]);
        wrapper_case(&mut env, "drain", true, &sv(&["busy", "busy"]), &[Wrap, Release(1), Advance]);
        wrapper_case(&mut env, "stop", false, &sv(&["busy", "busy"]), &[Wrap, Kill(0), Release(1)]);
        wrapper_case(&mut env, "drain", false, &sv(&["stopreq", "drainreq"]), &[Wrap, Kill(1), Release(0)]);
        for _ in 0..wrappers {
            random_wrapper_case(&mut env, &mut rng);
        }
    }
    let stress = args.u64("stress", 0);
    if stress > 0 && args.u64("only-replay", 0) == 0 {
        let srt = tokio::runtime::Builder::new_multi_thread().worker_threads(3).enable_time().build().expect("stress runtime");
        let spawner = ThreadLocalActorSpawner::new();
        for i in 0..stress {
            stress_case(&mut env, &srt, &spawner, &mut rng, i);
        }
    }
    let timeouts = args.u64("timeouts", 0);
    if timeouts > 0 && args.u64("only-replay", 0) == 0 {
        let srt = tokio::runtime::Builder::new_multi_thread().worker_threads(2).enable_time().build().expect("timeout runtime");
        for i in 0..timeouts {
            timeout_case(&mut env, &srt, &mut rng, i);
        }
    }
    let children = args.u64("children", 0);
    if children > 0 && args.u64("only-replay", 0) == 0 {
        let srt = tokio::runtime::Builder::new_multi_thread().worker_threads(2).enable_time().build().expect("children runtime");
        for i in 0..children {
            children_case(&mut env, &srt, &mut rng, i);
        }
    }
    env.st.add("lines", env.log.lines);
    env.st.write_json(&std::path::Path::new(&out).join("stats.json"));
    env.log.finish();
}
