//! C09 E-THR: a real `ActorRef::call` racing the callee's handlers and its exit, one schedule
//! point at a time.
//!
//! Every caller is an OS thread registered with a `verif::ThreadCtl`; it polls the real
//! `callee.call(|port| Msg::Call(id, port), None)` future by hand (noop waker), announcing each
//! poll with the harness point `call.poll`. Inside the first poll the real send parks at
//! `send.status`, `admit.load`, `admit.cas`, `send.box`, `send.enqueue`, `ticket.release`. The
//! callee actor lives on a `current_thread` runtime on its OWN registered OS thread, which executes
//! "run until nothing is runnable" commands of the controller; its handler handles ONE message per
//! `rx handle` (it then waits for the controller before returning to its loop). The exit sequence
//! parks at the real points `status.publish`, `status.unreg_*`, `status.pg_*`, `cleanup.*`,
//! `status.notify`, `notify.*`: `rx kill|stop` runs it to the end in one go, `xkill|xstop` only to its
//! first point, after which `step e` advances it point by point, interleaved with caller steps.
//!
//! ops.txt / impl.txt:
//!   `case <n> <k>`        | `ok at=call.poll,…`                      k caller threads, ids 0..k
//!   `step c<i>`           | `at=<next point>` or `at=done ret <res>`  caller i runs to its next point
//!   `rx handle r|d`       | `handled=<id:val|id:drop|-> st=<0|2>`     the callee handles at most one
//!                                                                     message: replies 100+id / drops the port
//!   `rx kill` / `rx stop` | `handled=- st=<0|2>`                      the callee exits (task ended,
//!                                                                     mailbox receiver dropped)
//!   `xkill` / `xstop`     | `at=<point>`                              kill()/stop(), the callee runs to the
//!                                                                     first point of its exit sequence
//!   `step e`              | `at=<point|callee.idle> st=<0|1|2>`       the callee runs to its next point
//!   `end`                 | `c<i>=<res|pending>… handled=<id:val|id:drop,…|-> gone=<0|1> polls=<n,…>`
//!                           polls = polls granted to caller i after the callee's task had ended
//!   res = `senderr` | `success:<v>` | `sendererror`
//!
//! usage: rpcrace --seed S --cases N --out DIR [--enum 0|1] [--replay-ops f1,f2 [--only-replay 1]]

use std::future::Future;
use std::sync::{Arc, Mutex};
use std::task::{Context, Poll, Waker};

use hutil::{Args, Log, Rng, Stats};
use ractor::rpc::CallResult;
use ractor::verif::{self, ThreadCtl, ThreadPhase};
use ractor::{Actor, ActorProcessingErr, ActorRef, ActorStatus, RpcReplyPort};

enum Msg {
    Call(u64, RpcReplyPort<u64>),
}

#[derive(Default)]
struct Shared {
    /// what the next handled message gets: reply (true) or a dropped port
    reply: bool,
    /// (port id, Some(value replied) | None = dropped), in handling order
    log: Vec<(u64, Option<u64>)>,
    /// the handler has acted and waits for the controller before returning
    blocked: bool,
}

struct Callee;
type CalleeState = (Arc<Mutex<Shared>>, Arc<tokio::sync::Semaphore>);

impl Actor for Callee {
    type Msg = Msg;
    type State = CalleeState;
    type Arguments = CalleeState;
    async fn pre_start(&self, _: ActorRef<Msg>, a: CalleeState) -> Result<CalleeState, ActorProcessingErr> {
        Ok(a)
    }
    async fn handle(&self, _: ActorRef<Msg>, m: Msg, st: &mut CalleeState) -> Result<(), ActorProcessingErr> {
        let Msg::Call(id, port) = m;
        {
            let mut sh = st.0.lock().unwrap();
            if sh.reply {
                let v = 100 + id;
                let _ = port.send(v);
                sh.log.push((id, Some(v)));
            } else {
                drop(port);
                sh.log.push((id, None));
            }
            sh.blocked = true;
        }
        // one message per `rx handle`: wait for the controller
        st.1.acquire().await.unwrap().forget();
        Ok(())
    }
}

fn show_res(r: &Result<CallResult<u64>, ractor::MessagingErr<Msg>>) -> String {
    match r {
        Err(_) => "senderr".into(),
        Ok(CallResult::Success(v)) => format!("success:{v}"),
        Ok(CallResult::SenderError) => "sendererror".into(),
        Ok(CallResult::Timeout) => "timeout".into(),
    }
}

struct CallerT {
    ctl: Arc<ThreadCtl>,
    handle: Option<std::thread::JoinHandle<()>>,
    res: Arc<Mutex<Option<String>>>,
    polls_after_gone: u64,
    /// tells the thread to give up its (still pending) call at the end of the case
    abort: Arc<std::sync::atomic::AtomicBool>,
}

enum Cmd {
    Run,
    Quit,
}

struct World {
    /// the callee's thread: control block, command queue, join handle
    ectl: Arc<ThreadCtl>,
    cmds: Arc<Mutex<std::collections::VecDeque<Cmd>>>,
    ehandle: Option<std::thread::JoinHandle<()>>,
    callee: ActorRef<Msg>,
    shared: Arc<Mutex<Shared>>,
    sem: Arc<tokio::sync::Semaphore>,
    callers: Vec<CallerT>,
    seen_log: usize,
    gone: bool,
}

impl World {
    fn new(k: usize) -> (World, String) {
        let shared = Arc::new(Mutex::new(Shared::default()));
        let sem = Arc::new(tokio::sync::Semaphore::new(0));
        let ectl = ThreadCtl::new();
        let cmds: Arc<Mutex<std::collections::VecDeque<Cmd>>> = Default::default();
        let (tx, rx) = std::sync::mpsc::channel();
        let (sh2, sem2, ectl2, cmds2) = (shared.clone(), sem.clone(), ectl.clone(), cmds.clone());
        let ehandle = std::thread::spawn(move || {
            let rt = tokio::runtime::Builder::new_current_thread().build().unwrap();
            let idle = || async {
                for _ in 0..64 {
                    tokio::task::yield_now().await;
                }
            };
            // start-up runs unregistered: its `set_status` points are no-ops
            let (callee, _h) = rt.block_on(Actor::spawn(None, Callee, (sh2, sem2))).expect("spawn callee");
            rt.block_on(idle());
            tx.send(callee).unwrap();
            verif::thread_register(ectl2.clone());
            loop {
                verif::point("callee.idle");
                let c = cmds2.lock().unwrap().pop_front();
                match c {
                    Some(Cmd::Run) => rt.block_on(idle()),
                    Some(Cmd::Quit) => break,
                    None => {}
                }
            }
            verif::thread_unregister();
            drop(rt);
            ectl2.finish();
        });
        let callee: ActorRef<Msg> = rx.recv().expect("callee thread");
        ectl.wait_parked();
        let mut w = World { ectl, cmds, ehandle: Some(ehandle), callee, shared, sem, callers: vec![], seen_log: 0, gone: false };
        let mut at = Vec::new();
        for id in 0..k as u64 {
            let ctl = ThreadCtl::new();
            let c2 = ctl.clone();
            let res = Arc::new(Mutex::new(None));
            let r2 = res.clone();
            let callee = w.callee.clone();
            let abort = Arc::new(std::sync::atomic::AtomicBool::new(false));
            let ab2 = abort.clone();
            let handle = std::thread::spawn(move || {
                verif::thread_register(c2.clone());
                let mut fut = Box::pin(callee.call(|p| Msg::Call(id, p), None));
                let waker = Waker::noop();
                let mut cx = Context::from_waker(waker);
                let r = loop {
                    verif::point("call.poll");
                    if ab2.load(std::sync::atomic::Ordering::SeqCst) {
                        break None; // the case is over and the call never returned
                    }
                    if let Poll::Ready(r) = fut.as_mut().poll(&mut cx) {
                        break Some(r);
                    }
                };
                if let Some(r) = &r {
                    *r2.lock().unwrap() = Some(show_res(r));
                }
                drop(r);
                drop(fut);
                drop(callee);
                verif::thread_unregister();
                c2.finish();
            });
            at.push(match ctl.wait_parked() {
                ThreadPhase::AtPoint(p) => p.to_string(),
                _ => "done".into(),
            });
            w.callers.push(CallerT { ctl, handle: Some(handle), res, polls_after_gone: 0, abort });
        }
        (w, format!("ok at={}", at.join(",")))
    }

    fn callee_at(&self) -> String {
        match self.ectl.phase() {
            ThreadPhase::AtPoint(p) => p.to_string(),
            _ => "done".into(),
        }
    }

    /// one granted step of the callee's thread; returns the point it parks at next
    fn step_callee(&mut self) -> String {
        self.ectl.grant();
        self.ectl.wait_parked();
        let at = self.callee_at();
        if at == "callee.idle" && self.st() == 2 {
            self.gone = true;
        }
        at
    }

    /// let the callee's runtime run until nothing is runnable — or until the actor parks at the
    /// first point of its exit sequence
    fn run_callee(&mut self) -> String {
        if self.callee_at() != "callee.idle" {
            return self.callee_at();
        }
        self.cmds.lock().unwrap().push_back(Cmd::Run);
        self.step_callee()
    }

    /// finish an exit sequence that is under way
    fn run_callee_to_idle(&mut self) {
        for _ in 0..200 {
            if self.callee_at() == "callee.idle" {
                break;
            }
            self.step_callee();
        }
    }

    fn st(&self) -> u8 {
        match self.callee.get_status() {
            ActorStatus::Stopped => 2,
            ActorStatus::Stopping => 1,
            _ => 0,
        }
    }

    fn new_handled(&mut self) -> String {
        let sh = self.shared.lock().unwrap();
        let v: Vec<String> = sh.log[self.seen_log..]
            .iter()
            .map(|(id, x)| match x {
                Some(v) => format!("{id}:{v}"),
                None => format!("{id}:drop"),
            })
            .collect();
        self.seen_log = sh.log.len();
        if v.is_empty() { "-".into() } else { v.join(",") }
    }

    fn exec(&mut self, op: &str, st: &mut Stats) -> String {
        let w: Vec<&str> = op.split_whitespace().collect();
        match w.as_slice() {
            ["step", c] if *c != "e" => {
                let Some(i) = c.strip_prefix('c').and_then(|x| x.parse::<usize>().ok()) else { return "bad-op".into() };
                let Some(ct) = self.callers.get_mut(i) else { return "bad-op".into() };
                if ct.ctl.phase() == ThreadPhase::Done {
                    return format!("at=done ret {}", ct.res.lock().unwrap().clone().unwrap_or_default());
                }
                if self.gone {
                    ct.polls_after_gone += 1;
                }
                ct.ctl.grant();
                match ct.ctl.wait_parked() {
                    ThreadPhase::AtPoint(p) => {
                        st.bump(&format!("at_{p}"));
                        format!("at={p}")
                    }
                    _ => {
                        if let Some(h) = ct.handle.take() {
                            let _ = h.join();
                        }
                        let r = ct.res.lock().unwrap().clone().unwrap_or_default();
                        st.bump(&format!("ret_{}", r.split(':').next().unwrap_or("")));
                        format!("at=done ret {r}")
                    }
                }
            }
            ["step", "e"] => {
                let at = if self.callee_at() == "callee.idle" { "callee.idle".to_string() } else { self.step_callee() };
                st.bump(&format!("e_at_{at}"));
                format!("at={at} st={}", self.st())
            }
            [how @ ("xkill" | "xstop")] => {
                st.bump(how);
                if self.callee_at() != "callee.idle" {
                    return "busy".into();
                }
                if *how == "xkill" {
                    self.callee.kill();
                } else {
                    self.callee.stop(None);
                }
                {
                    let mut sh = self.shared.lock().unwrap();
                    sh.reply = false;
                    if sh.blocked {
                        sh.blocked = false;
                        self.sem.add_permits(1);
                    }
                }
                format!("at={}", self.run_callee())
            }
            ["rx", "handle", m] => {
                if self.callee_at() != "callee.idle" {
                    return "busy".into();
                }
                st.bump("rx_handle");
                {
                    let mut sh = self.shared.lock().unwrap();
                    sh.reply = *m == "r";
                    if sh.blocked {
                        sh.blocked = false;
                        self.sem.add_permits(1);
                    }
                }
                self.run_callee();
                format!("handled={} st={}", self.new_handled(), self.st())
            }
            ["rx", how @ ("kill" | "stop")] => {
                if self.callee_at() != "callee.idle" {
                    return "busy".into();
                }
                st.bump(&format!("rx_{how}"));
                if *how == "kill" {
                    self.callee.kill();
                } else {
                    self.callee.stop(None);
                }
                {
                    let mut sh = self.shared.lock().unwrap();
                    sh.reply = false;
                    if sh.blocked {
                        sh.blocked = false;
                        self.sem.add_permits(1);
                    }
                }
                self.run_callee();
                self.run_callee_to_idle();
                format!("handled={} st={}", self.new_handled(), self.st())
            }
            ["end"] => {
                let res: Vec<String> = self
                    .callers
                    .iter()
                    .enumerate()
                    .map(|(i, c)| format!("c{i}={}", c.res.lock().unwrap().clone().unwrap_or_else(|| "pending".into())))
                    .collect();
                let sh = self.shared.lock().unwrap();
                let handled: Vec<String> = sh
                    .log
                    .iter()
                    .map(|(id, x)| match x {
                        Some(v) => format!("{id}:{v}"),
                        None => format!("{id}:drop"),
                    })
                    .collect();
                let polls: Vec<String> = self.callers.iter().map(|c| c.polls_after_gone.to_string()).collect();
                format!(
                    "{} handled={} gone={} polls={}",
                    res.join(" "),
                    if handled.is_empty() { "-".to_string() } else { handled.join(",") },
                    self.gone as u8,
                    polls.join(",")
                )
            }
            _ => "bad-op".into(),
        }
    }

    fn finish(mut self) {
        // let every caller thread run to its end, then stop the callee
        for c in self.callers.iter() {
            c.abort.store(true, std::sync::atomic::Ordering::SeqCst);
            c.ctl.release();
        }
        self.callee.kill();
        {
            let mut sh = self.shared.lock().unwrap();
            if sh.blocked {
                sh.blocked = false;
                self.sem.add_permits(1);
            }
        }
        {
            let mut q = self.cmds.lock().unwrap();
            q.push_back(Cmd::Run);
            q.push_back(Cmd::Quit);
        }
        self.ectl.release();
        if let Some(h) = self.ehandle.take() {
            let _ = h.join();
        }
        for c in self.callers.iter_mut() {
            if let Some(h) = c.handle.take() {
                let _ = h.join();
            }
        }
    }
}

fn run_case(ops: &[String], log: &mut Log, st: &mut Stats) {
    let w: Vec<&str> = ops[0].split_whitespace().collect();
    let k: usize = w.get(2).and_then(|x| x.parse().ok()).unwrap_or(1).clamp(1, 3);
    st.bump("cases");
    let (mut world, obs) = World::new(k);
    log.rec(&ops[0], obs);
    for op in &ops[1..] {
        let obs = world.exec(op, st);
        log.rec(op, obs);
    }
    world.finish();
}

/// one caller: every placement of (at most) one `rx handle` and one exit among the caller's steps
fn enumerate() -> Vec<Vec<String>> {
    let mut out = Vec::new();
    let steps = 10usize; // 7 steps to the end of the send + polls
    let mut n = 0;
    for handle in ["-", "r", "d"] {
        for exit in ["-", "kill", "stop"] {
            for hp in 0..=steps {
                for ep in 0..=steps {
                    if handle == "-" && hp > 0 || exit == "-" && ep > 0 {
                        continue;
                    }
                    let mut ops = vec![format!("case {n} 1")];
                    n += 1;
                    for s in 0..=steps {
                        // at equal positions: the handler first, then the exit
                        if handle != "-" && hp == s {
                            ops.push(format!("rx handle {handle}"));
                        }
                        if exit != "-" && ep == s {
                            ops.push(format!("rx {exit}"));
                        }
                        if s < steps {
                            ops.push("step c0".into());
                        }
                    }
                    ops.push("end".into());
                    out.push(ops);
                }
            }
        }
    }
    out
}

/// one caller against an exit driven point by point: `xkill|xstop` after p caller steps, then j
/// steps of the exit sequence, then the caller to its end, then the rest of the exit, then polls
fn enumerate_micro() -> Vec<Vec<String>> {
    let mut out = Vec::new();
    let mut n = 50_000;
    for how in ["xkill", "xstop"] {
        for p in 0..=8usize {
            for j in 0..=15usize {
                let mut ops = vec![format!("case {n} 1")];
                n += 1;
                for _ in 0..p {
                    ops.push("step c0".into());
                }
                ops.push(how.to_string());
                for _ in 0..j {
                    ops.push("step e".into());
                }
                for _ in 0..(9 - p) {
                    ops.push("step c0".into());
                }
                for _ in 0..(16 - j) {
                    ops.push("step e".into());
                }
                for _ in 0..3 {
                    ops.push("step c0".into());
                }
                ops.push("end".into());
                out.push(ops);
            }
        }
    }
    out
}

/// two callers: every interleaving of their first 5 steps each (up to and including the ticket CAS, so
/// that every order of the two loads and the two CASes — hence every CAS retry — occurs), then both
/// run to the end of their sends, the callee answers both, both poll
fn enumerate_two() -> Vec<Vec<String>> {
    let mut out = Vec::new();
    let mut n = 70_000;
    // bit i of `mask` (10 bits, exactly 5 set) = who takes step i
    for mask in 0u32..1024 {
        if mask.count_ones() != 5 {
            continue;
        }
        let mut ops = vec![format!("case {n} 2")];
        n += 1;
        for i in 0..10 {
            ops.push(format!("step c{}", (mask >> i) & 1));
        }
        for c in 0..2 {
            for _ in 0..6 {
                ops.push(format!("step c{c}"));
            }
        }
        ops.push("rx handle r".into());
        ops.push("rx handle d".into());
        for c in 0..2 {
            for _ in 0..2 {
                ops.push(format!("step c{c}"));
            }
        }
        ops.push("end".into());
        out.push(ops);
    }
    out
}

fn gen_case(rng: &mut Rng, n: u64) -> Vec<String> {
    let k = rng.range(1, 3);
    let mut ops = vec![format!("case {n} {k}")];
    let len = rng.range(6, 14 * k);
    let exit_at = if rng.chance(3, 4) { Some(rng.below(len)) } else { None };
    let mut exited = false;
    // half of the exits are driven point by point, interleaved with the callers' steps
    let mut esteps = 0u64;
    for s in 0..len {
        if exit_at == Some(s) {
            if rng.chance(1, 2) {
                ops.push(if rng.chance(1, 2) { "xkill" } else { "xstop" }.to_string());
                esteps = 16;
            } else {
                ops.push(format!("rx {}", if rng.chance(1, 2) { "kill" } else { "stop" }));
            }
            exited = true;
        }
        if esteps > 0 && rng.chance(3, 5) {
            ops.push("step e".into());
            esteps -= 1;
            continue;
        }
        let r = rng.below(10);
        if r < 2 && !exited {
            ops.push(format!("rx handle {}", if rng.chance(2, 3) { "r" } else { "d" }));
        } else {
            ops.push(format!("step c{}", rng.below(k)));
        }
    }
    for _ in 0..esteps {
        ops.push("step e".into());
    }
    // every caller gets enough steps to finish its send and poll twice more
    for i in 0..k {
        for _ in 0..10 {
            ops.push(format!("step c{i}"));
        }
    }
    ops.push("end".into());
    ops
}

fn replay_file(path: &str, log: &mut Log, st: &mut Stats) {
    let Ok(txt) = std::fs::read_to_string(path) else { return };
    let lines: Vec<String> = txt.lines().map(|l| l.trim().to_string()).filter(|l| !l.is_empty() && !l.starts_with('#')).collect();
    let mut i = 0;
    while i < lines.len() {
        if lines[i].starts_with("case ") {
            let mut j = i + 1;
            while j < lines.len() && !lines[j].starts_with("case ") {
                j += 1;
            }
            run_case(&lines[i..j], log, st);
            st.bump("replayed_cases");
            i = j;
        } else {
            i += 1;
        }
    }
}

fn main() {
    let args = Args::parse();
    let seed = args.u64("seed", 1);
    let cases = args.u64("cases", 300);
    let out = args.str("out", "/tmp/ports-rpcrace");
    let mut rng = Rng::new(seed ^ 0xC09_4ACE);
    let mut log = Log::create(std::path::Path::new(&out)).unwrap();
    let mut st = Stats::default();
    // watchdog: nothing here may take long; never hang the check
    std::thread::spawn(|| {
        std::thread::sleep(std::time::Duration::from_secs(600));
        eprintln!("rpcrace: watchdog expired");
        std::process::exit(3);
    });
    for f in args.str("replay-ops", "").split(',').filter(|f| !f.is_empty()) {
        replay_file(f, &mut log, &mut st);
    }
    if args.u64("only-replay", 0) != 1 {
        if args.u64("enum", 1) == 1 {
            for ops in enumerate() {
                run_case(&ops, &mut log, &mut st);
                st.bump("enumerated_schedules");
            }
            for ops in enumerate_micro() {
                run_case(&ops, &mut log, &mut st);
                st.bump("enumerated_micro_exit_schedules");
            }
            for ops in enumerate_two() {
                run_case(&ops, &mut log, &mut st);
                st.bump("enumerated_two_caller_schedules");
            }
        }
        for n in 0..cases {
            let ops = gen_case(&mut rng, 100_000 + n);
            run_case(&ops, &mut log, &mut st);
        }
    }
    st.add("lines", log.lines);
    st.write_json(&std::path::Path::new(&out).join("stats.json"));
    log.finish();
}
